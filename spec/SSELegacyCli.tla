---------------------------- MODULE SSELegacyCli ----------------------------
(* Extension check X02, CLIENT side of the legacy HTTP+SSE transport          *)
(* (mcp/sse.go: SSEClientTransport.Connect, sseClientConn; mcp/event.go:      *)
(* scanEvents), against a scripted server.                                    *)
(*                                                                            *)
(* PROPERTIES (doc comments of sseClientConn: "Writes are POSTS to the        *)
(* session endpoint.  Reads are SSE 'message' events ...  Close terminates    *)
(* the GET request"; Connect: "check HTTP status code before attempting to    *)
(* parse SSE events"; the 2024-11-05 text: "the first event must be an        *)
(* 'endpoint' event that informs the client of the session endpoint; the      *)
(* client POSTs client->server messages to the session endpoint")             *)
(*                                                                            *)
(*  K1 EndpointFirst  Connect returns a connection only after a 2xx GET whose *)
(*     first event is an `endpoint` event carrying a parseable URL; in every  *)
(*     other case it returns an error and leaves no GET behind (the response  *)
(*     body is closed); it never returns before the first event has arrived.  *)
(*  K2 PostTarget     The client never POSTs before it has an endpoint, and   *)
(*     every POST goes to the endpoint value resolved (RFC 3986) against the  *)
(*     GET URL, with Content-Type application/json and the written message as *)
(*     body - exactly one POST per Write on an open connection.               *)
(*  K3 WriteResult    Write returns nil if and only if its POST was answered  *)
(*     2xx; a transport error or any other status is surfaced as an error.    *)
(*  K4 ReadOrder      The messages Read returns are the data of the stream's  *)
(*     events, in stream order, each at most once, none skipped before it.    *)
(*  K5 EndSurfaces    Once the stream has ended or failed, or Close was       *)
(*     called, every Read returns an error instead of blocking.               *)
(*  K6 CloseEnds      Close (and the end of the stream) closes the GET body;  *)
(*     afterwards Write fails without POSTing; Close is idempotent; nothing   *)
(*     of the transport is left running (quiescence).                         *)
(*                                                                            *)
(* DEVIATIONS modelled as they are (reported, not judged):                    *)
(*  D3 the endpoint is followed wherever it points - also to another origin   *)
(*     (nothing in the code or its documentation restricts it);               *)
(*  D4 after the first event the event NAME is not looked at: the data of any *)
(*     named event is surfaced as a message;                                  *)
(*  D5 messages that arrived before the stream ended may be dropped (Read     *)
(*     prefers the closed state): K4 is a prefix property;                    *)
(*  D6 a stream that ends in the middle of an event yields the partial event  *)
(*     (scanEvents, known from C09) - it is dropped by D5 or fails to decode. *)
(*                                                                            *)
(* Actions: Connect (GET sent, status received), First (first event or early  *)
(* end), Abort (Connect's context cancelled), Ev / End (the server writes an  *)
(* event / ends the stream), Scan (the reader goroutine moves one event into  *)
(* the queue, or notices the end and closes), Read, Write, Close.             *)
EXTENDS Integers, Sequences, FiniteSets, TLC

CONSTANTS
  \* @type: Int;
  MaxEv,
  \* @type: Int;
  MaxRead,
  \* @type: Int;
  MaxWrite

Statuses == {"ok", "http3", "http4", "http5", "neterr"}
Firsts   == {"endpoint", "message", "noname", "garbled", "eof", "err"}
EpKinds  == {"rel", "query", "abspath", "abssame", "absother", "bad"}
EvKinds  == {"msg", "named", "junk", "comment"}
Ends     == {"eof", "err", "cutdata", "cutblank"}
WrKinds  == {"202", "200", "204", "3xx", "4xx", "5xx", "neterr"}
Is2xx(w) == w \in {"202", "200", "204"}

VARIABLES
          \* @type: Str;
          ph,       \* "init" | "connecting" | "up" | "failed" | "closed"
          \* @type: Str;
          ep,       \* endpoint kind received ("" before)
          \* @type: Bool;
          hasBody,  \* a GET response body exists
          \* @type: Bool;
          bodyClosed,
          \* @type: Seq(Str);
          stream,   \* events the server has written after the first one
          \* @type: Str;
          ended,    \* "" or how the server ended the stream
          \* @type: Int;
          nscan,    \* events the reader goroutine has consumed
          \* @type: Bool;
          rdone,    \* the reader goroutine has finished
          \* @type: Seq(Int);
          inbox,    \* c.incoming: indices into stream
          \* @type: Seq(<<Str, Int>>);
          rds,      \* results of Read: <<"msg", i>> | <<"decode", i>> | <<"eof", 0>>
          \* @type: Seq({r: Str, posted: Bool, cls: Str});
          wrs,      \* results of Write: [r |-> "ok"|"err", posted |-> BOOLEAN, cls]
          \* @type: Int;
          nposts    \* POSTs made
vars == <<ph, ep, hasBody, bodyClosed, stream, ended, nscan, rdone, inbox, rds, wrs, nposts>>

Init == /\ ph = "init" /\ ep = "" /\ hasBody = FALSE /\ bodyClosed = FALSE
        /\ stream = <<>> /\ ended = "" /\ nscan = 0 /\ rdone = FALSE /\ inbox = <<>>
        /\ rds = <<>> /\ wrs = <<>> /\ nposts = 0

\* the serial a message event carries: its rank among the non-comment events
\* (written over DOMAIN stream: Apalache wants constant bounds in a range; i <= Len(stream) wherever it is used,
\*  so this is Cardinality({j \in 1..i : stream[j] # "comment"}))
\* @type: Int => Int;
Serial(i) == Cardinality({j \in DOMAIN stream : j <= i /\ stream[j] # "comment"})

Connect(status) ==
  /\ ph = "init"
  /\ IF status = "ok" THEN ph' = "connecting" /\ hasBody' = TRUE /\ UNCHANGED bodyClosed
     ELSE /\ ph' = "failed"
          /\ hasBody' = (status # "neterr") /\ bodyClosed' = (status # "neterr")
  /\ UNCHANGED <<ep, stream, ended, nscan, rdone, inbox, rds, wrs, nposts>>

First(f, e) ==
  /\ ph = "connecting"
  /\ IF f = "endpoint" /\ e # "bad"
     THEN ph' = "up" /\ ep' = e /\ UNCHANGED bodyClosed
     ELSE ph' = "failed" /\ bodyClosed' = TRUE /\ UNCHANGED ep
  /\ UNCHANGED <<hasBody, stream, ended, nscan, rdone, inbox, rds, wrs, nposts>>

Abort ==
  /\ ph = "connecting"
  /\ ph' = "failed" /\ bodyClosed' = TRUE
  /\ UNCHANGED <<ep, hasBody, stream, ended, nscan, rdone, inbox, rds, wrs, nposts>>

Ev(k) ==
  /\ ph = "up" /\ ended = "" /\ Len(stream) < MaxEv
  /\ stream' = Append(stream, k)
  /\ UNCHANGED <<ph, ep, hasBody, bodyClosed, ended, nscan, rdone, inbox, rds, wrs, nposts>>

\* cutdata: a partial event (half a data line) then EOF; cutblank: a complete data line, no blank line, EOF
End(how) ==
  /\ ph = "up" /\ ended = ""
  /\ ended' = how
  /\ stream' = IF how = "cutdata" THEN Append(stream, "trunc")
               ELSE IF how = "cutblank" THEN Append(stream, "msg") ELSE stream
  /\ UNCHANGED <<ph, ep, hasBody, bodyClosed, nscan, rdone, inbox, rds, wrs, nposts>>

\* the reader goroutine (started by Connect)
Scan ==
  /\ ph \in {"up", "closed"} /\ ~rdone
  /\ IF ph = "closed"                       \* the body was closed under it: scanEvents fails, it returns
     THEN rdone' = TRUE /\ UNCHANGED <<ph, bodyClosed, nscan, inbox>>
     ELSE IF nscan < Len(stream)
     THEN /\ nscan' = nscan + 1
          /\ inbox' = IF stream[nscan + 1] = "comment" THEN inbox ELSE Append(inbox, nscan + 1)
          /\ UNCHANGED <<ph, bodyClosed, rdone>>
     ELSE /\ ended # ""                     \* end of stream: deferred s.Close()
          /\ rdone' = TRUE /\ ph' = "closed" /\ bodyClosed' = TRUE /\ UNCHANGED <<nscan, inbox>>
  /\ UNCHANGED <<ep, hasBody, stream, ended, rds, wrs, nposts>>

Read ==
  /\ ph \in {"up", "closed"} /\ Len(rds) < MaxRead
  /\ IF ph = "closed"
     THEN rds' = Append(rds, <<"eof", 0>>) /\ inbox' \in {inbox, IF inbox = <<>> THEN inbox ELSE Tail(inbox)}   \* D5
     ELSE /\ inbox # <<>>                  \* (an empty queue on an open stream: Read blocks)
          /\ inbox' = Tail(inbox)
          /\ rds' = Append(rds, IF stream[Head(inbox)] \in {"msg", "named"}
                                THEN <<"msg", Serial(Head(inbox))>> ELSE <<"decode", Serial(Head(inbox))>>)
  /\ UNCHANGED <<ph, ep, hasBody, bodyClosed, stream, ended, nscan, rdone, wrs, nposts>>

Write(w) ==
  /\ ph \in {"up", "closed"} /\ Len(wrs) < MaxWrite
  /\ IF ph = "closed"
     THEN wrs' = Append(wrs, [r |-> "err", posted |-> FALSE, cls |-> w]) /\ UNCHANGED nposts
     ELSE wrs' = Append(wrs, [r |-> IF Is2xx(w) THEN "ok" ELSE "err", posted |-> TRUE, cls |-> w])
          /\ nposts' = nposts + 1
  /\ UNCHANGED <<ph, ep, hasBody, bodyClosed, stream, ended, nscan, rdone, inbox, rds>>

Close ==
  /\ ph \in {"up", "closed"}
  /\ ph' = "closed" /\ bodyClosed' = TRUE
  /\ UNCHANGED <<ep, hasBody, stream, ended, nscan, rdone, inbox, rds, wrs, nposts>>

Internal == Scan
Env == \/ \E s \in Statuses : Connect(s)
       \/ \E f \in Firsts, e \in EpKinds : First(f, e)
       \/ Abort
       \/ \E k \in EvKinds : Ev(k)
       \/ \E h \in Ends : End(h)
       \/ Read \/ \E w \in WrKinds : Write(w) \/ Close
Next == Internal \/ Env
Spec == Init /\ [][Next]_vars
FairSpec == Spec /\ WF_vars(Scan)
Settled == ~ENABLED Internal

-----------------------------------------------------------------------------
TypeOK ==
  /\ ph \in {"init", "connecting", "up", "failed", "closed"} /\ ep \in EpKinds \cup {""}
  /\ stream \in Seq(EvKinds \cup {"trunc"}) /\ ended \in Ends \cup {""}
  /\ nscan \in 0..Len(stream) /\ inbox \in Seq(1..(MaxEv + 1))

\* K1
EndpointFirst == /\ ph \in {"up", "closed"} => (ep \in EpKinds \ {"bad"} /\ hasBody)
                 /\ ph = "failed" => (hasBody => bodyClosed)
\* K2 / K3
PostTarget == /\ nposts > 0 => ep # ""
              /\ nposts = Cardinality({i \in DOMAIN wrs : wrs[i].posted})
WriteResult == \A i \in DOMAIN wrs : wrs[i].r = "ok" <=> (wrs[i].posted /\ Is2xx(wrs[i].cls))
\* K4: the successful and the undecodable Reads walk through the non-comment events in order, none skipped
ReadOrder ==
  LET \* @type: <<Str, Int>> => Bool;
      NotEof(r) == r[1] # "eof"           \* (a named LAMBDA: Apalache needs its type)
      taken == SelectSeq(rds, NotEof) IN
  \A i \in DOMAIN taken : taken[i][2] = i
\* K5 / K6
EndSurfaces == \A i \in DOMAIN rds : (rds[i][1] = "eof") => \A j \in DOMAIN rds : j > i => rds[j][1] = "eof"
CloseEnds == ph = "closed" => bodyClosed
EndCloses == (ended # "" /\ Settled /\ ph # "failed") => ph = "closed"
AfterClose == [][(ph = "closed" /\ Len(wrs') > Len(wrs)) => (nposts' = nposts /\ wrs'[Len(wrs')].r = "err")]_vars
EofAfterClose == [][(ph = "closed" /\ Len(rds') > Len(rds)) => rds'[Len(rds')][1] = "eof"]_vars
\* liveness: the end of the stream closes the connection; the reader goroutine ends
Quiesce == /\ (ended # "") ~> (ph = "closed")
           /\ (ph = "closed") ~> rdone
=============================================================================
