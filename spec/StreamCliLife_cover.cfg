\* seam-level graphs of profiles a..g for the transition cover
SPECIFICATION SettledSpec
CONSTANTS
  NC = 3
  Profiles <- ProfCover
  FixCancel = FALSE
  FixStream = FALSE
INVARIANTS TypeOK SessionHeader VersionHeader OnePostPerMessage Standalone PerMessage Usable GoneStops GoneNoDelete GoneFailsAll
  TerminalFailsPending DeleteOnce DeleteWhenLive CloseWaits StandaloneCancelled RetiredOnce
VIEW CoverView
CHECK_DEADLOCK FALSE
