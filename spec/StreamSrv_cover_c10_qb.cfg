SPECIFICATION SeamSpec
CONSTANTS
  Sess = {"s1","s2"}
  Reqs = {"r1"}
  Gets = {"g1"}
  Cfgs <- CfgPlainSse
  MaxEmit = 0
  MaxSreq = 0
  MaxSa = 0
  MaxBc = 1
  DupOf <- NoDup
  Gates = FALSE
VIEW MCView
CHECK_DEADLOCK FALSE
