--------------------------- MODULE HeaderMirrorMon ---------------------------
(* Monitor for C12 part (b): evaluates HeaderMirrorDefs!Holds (Agreement,     *)
(* verdict) and equality with HeaderMirrorDefs!Expected (strict / drift) on   *)
(* calls made by the real client through the real streamable transport to the *)
(* real stateless server.  One observation per line:                          *)
(*   [c |-> case, o |-> [accepted, same, code, hdr, own, sibok]]              *)
EXTENDS VerifTrace, FiniteSets
M == INSTANCE HeaderMirrorDefs

VARIABLE l
MInit == l = 1 /\ MarkInit
Case(e) == [depth |-> e.c.depth, ty |-> e.c.ty, val |-> e.c.val, hname |-> e.c.hname, nsib |-> e.c.nsib]
Out(e) == [accepted |-> e.o.accepted, same |-> e.o.same, code |-> e.o.code, hdr |-> e.o.hdr, own |-> e.o.own, sibok |-> e.o.sibok]
MNext == /\ l <= NLines /\ l' = l + 1
         /\ LET e == TraceLog[l]
                c == Case(e)
                o == Out(e)
            IN /\ Check(l, "Agreement", M!Holds(c, o))
               /\ Check(l, "drift", o = M!Expected(c))
MSpec == MInit /\ [][MNext]_l
MMark == MarkAt(l)
MAccepted == Accepted
=============================================================================
