--------------------------- MODULE HeaderMirrorMon ---------------------------
(* Monitor for C12 part (b): evaluates HeaderMirrorDefs!Holds (Agreement for  *)
(* an informed client, verdict) and membership in HeaderMirrorDefs!ExpectedSet *)
(* (strict / drift) on calls made by the real client through the real         *)
(* streamable transport to the real stateless server after the case's         *)
(* history has been played on them.  One observation per line:                *)
(*   [c |-> case (with hist), o |-> [accepted, same, code, hdr, own, sibok, via]] *)
EXTENDS VerifTrace, FiniteSets
M == INSTANCE HeaderMirrorDefs

VARIABLE l
MInit == l = 1 /\ MarkInit
Hist(e) == [ttl |-> e.c.hist.ttl, page |-> e.c.hist.page, sub |-> e.c.hist.sub, steps |-> e.c.hist.steps]
Case(e) == [depth |-> e.c.depth, ty |-> e.c.ty, val |-> e.c.val, hname |-> e.c.hname, nsib |-> e.c.nsib, hist |-> Hist(e)]
Out(e) == [accepted |-> e.o.accepted, same |-> e.o.same, code |-> e.o.code, hdr |-> e.o.hdr, own |-> e.o.own, sibok |-> e.o.sibok,
           via |-> e.o.via]
MNext == /\ l <= NLines /\ l' = l + 1
         /\ LET e == TraceLog[l]
                c == Case(e)
                o == Out(e)
            IN /\ Check(l, "Agreement", M!Holds(c, o))
               /\ Check(l, "drift", o \in M!ExpectedSet(c))
MSpec == MInit /\ [][MNext]_l
MMark == MarkAt(l)
MAccepted == Accepted
=============================================================================
