---------------------------- MODULE StreamCliMon ----------------------------
(* Property monitor for C09, evaluated by TLC over observations of the real   *)
(* streamable client (one line per scenario: the bodies a scripted server put *)
(* on the wire and where each was cut, the reconnects it saw, the messages    *)
(* the connection's Read returned, the notifications the session's handler    *)
(* saw, the outcome of the pending call).  The verdict predicates are the     *)
(* constant-level operators of StreamCli.tla (the ones its design check       *)
(* proves for the repaired design); "drift" compares with the code-shaped     *)
(* expectation TLC exported for the scenario and never yields a verdict.      *)
(* Lines of level "scan" are observations of scanEvents alone.                *)
EXTENDS VerifTrace, FiniteSets

\* Only the constant-level part of StreamCli is used; its variables are bound to dummies.
SC == INSTANCE StreamCli WITH
        KindSet <- {"post"}, ShapeSet <- {}, SchemeSet <- {"dec"}, MSet <- {1}, MRSet <- {1}, MaxCuts <- 0, ClassSet <- {}, AnswerSet <- {"ok"}, TailSet <- {"good"}, RetrySet <- {"none"},
        FixScanner <- FALSE, FixCursor <- FALSE, Fix5xx <- FALSE,
        cfg <- [kind |-> "post", ids |-> "all", prime |-> "none", scheme |-> "dec", M |-> 1, mr |-> 1, tail |-> "good"],
        pc <- "done", from <- 0, primed <- FALSE, wire <- 0, ncut <- 0, bodies <- <<>>, recon <- <<>>,
        prev <- -1, rwp <- 0, last <- -1, att <- 0, outs <- <<>>, rd <- <<>>, failed <- FALSE, outcome <- "resp"

VARIABLE l
MInit == l = 1 /\ MarkInit

Obs(e) == [kind |-> e.kind, ids |-> e.ids, M |-> e.M, mr |-> e.mr, bodies |-> e.bodies, recon |-> e.recon,
           rd |-> e.rd, notes |-> e.notes, outcome |-> e.outcome, respok |-> e.respok]

\* "instead of hanging", in time: the SDK's back-off is capped at 30 s plus as much jitter per attempt, so a
\* call that returns at all returns within 60 virtual seconds per reconnect attempt it made (plus one)
Attempts(e) == LET n[i \in 0..Len(e.recon)] == IF i = 0 THEN 0 ELSE n[i - 1] + Len(e.recon[i].outs) IN n[Len(e.recon)]
Prompt(e) == (e.kind = "post" /\ e.outcome # "hang") => (e.ret >= 0 /\ e.ret <= 60000000 * (Attempts(e) + 1))

\* ---- function level: scanEvents over a body cut after e.off bytes
\* every yielded event is one of the body's events, whole, in order; every event that was
\* transmitted completely is yielded
ScanHolds(e) == /\ SC!IsPrefixOf(e.yielded, e.truth)
                /\ Len(e.yielded) >= e.n
\* code-shaped: at a clean end of input the scanner yields whatever it has accumulated (e.fx = FALSE) /
\* discards the unterminated event and the unterminated line (e.fx = TRUE, the FixScanner repair)
ScanStrict(e) ==
  IF e.fx THEN Len(e.yielded) = e.n /\ e.ended = (IF e.knd = "err" THEN "readerr" ELSE "clean")
  ELSE
  /\ Len(e.yielded) \in {e.n + (IF e.knd = "eof" /\ e.cls \in {"name", "id", "idfull", "data", "datafull"} THEN 1 ELSE 0),
                         e.n + (IF e.knd = "eof" /\ e.cls \in {"id", "idfull", "data", "datafull"} THEN 1 ELSE 0)}  \* name: nothing yet / a name only
  /\ e.ended = (IF e.knd = "err" THEN "readerr" ELSE IF e.cls = "field" THEN "malformed" ELSE "clean")

\* ---- session level: code-shaped expectation exported by TLC (strict)
SameBody(b, x) == /\ b.from = x.from /\ b.primed = x.primed /\ b.cls = x.cls /\ b.knd = x.knd /\ b.rt = x.rt
                  /\ b.c = x.c /\ b.d = x.d
                  /\ b.cls # "none" => (b.n = x.n /\ b.al = x.al)
SameRecon(r, x) == r.sent = x.sent /\ r.outs = x.outs
Strict(e) ==
  IF ~e.hasexp THEN FALSE ELSE
  LET x == e.exp
      broke == x.outcome \in {"err", "failed"}    \* messages still queued when the connection fails may be dropped
  IN
  /\ ~e.div /\ e.exit = "clean"
  /\ Len(e.bodies) = Len(x.bodies) /\ \A i \in 1..Len(e.bodies) : SameBody(e.bodies[i], x.bodies[i])
  /\ Len(e.recon) = Len(x.recon) /\ \A i \in 1..Len(e.recon) : SameRecon(e.recon[i], x.recon[i])
  /\ e.outcome = x.outcome
  /\ IF broke THEN SC!IsPrefixOf(e.rd, x.rd) /\ SC!IsPrefixOf(e.notes, x.notes)
     ELSE e.rd = x.rd /\ e.notes = x.notes
  /\ e.outcome = "resp" => e.respok

MNext == /\ l <= NLines /\ l' = l + 1
         /\ LET e == TraceLog[l] IN
            IF e.level = "scan" THEN
              /\ Check(l, "ScanNoTruncatedYielded", ScanHolds(e))
              /\ Check(l, "drift", ScanStrict(e))
            ELSE LET o == Obs(e) IN
              /\ Check(l, "ExactlyOnceInOrder", SC!ExactlyOnceInOrder(o))
              /\ Check(l, "NoTruncatedSurfaced", SC!NoTruncatedSurfaced(o))
              /\ Check(l, "ResumeCursor", SC!ResumeCursor(o))
              /\ Check(l, "RealResponseWithinBudget", SC!RealResponseWithinBudget(o))
              /\ Check(l, "CleanFailure", SC!CleanFailure(o) /\ Prompt(e))
              /\ Check(l, "BoundedRetries", SC!BoundedRetries(o))
              /\ Check(l, "drift", Strict(e))
MSpec == MInit /\ [][MNext]_l
MMark == MarkAt(l)
MAccepted == Accepted
=============================================================================
