------------------------------ MODULE ElicitDefs ------------------------------
(* Extension check X10, part (a): the ELICITATION decision table.             *)
(*                                                                            *)
(* Server -> client `elicitation/create` in form mode and URL mode:           *)
(* mcp/server.go ServerSession.Elicit (era, capability and mode gating,       *)
(* validation of the RESULT against the requested schema incl. defaults),     *)
(* mcp/client.go Client.elicit, validateElicitSchema, validateElicit*Property,*)
(* validateTitledEnumEntry, validateDefaultProperty, Client.capabilities,     *)
(* callElicitationCompleteHandler (notification without params), and the      *)
(* 2026-07-28 path where the request travels inside InputRequests             *)
(* (mcp/mrtr.go fulfillInputRequest -> Client.elicit).                        *)
(*                                                                            *)
(* PROPERTIES (what a user of the SDK relies on).  Sources: doc comments of   *)
(* ElicitParams ("Only top-level properties are allowed, without nesting",    *)
(* "This is only used for form / url elicitation"), ElicitResult ("content    *)
(* ... only present when action is accept. Contains values matching the       *)
(* requested schema"), validateElicitSchema ("Per the MCP specification,      *)
(* elicitation schemas are limited to flat objects with primitive properties  *)
(* only") and the rules its helpers state in their messages, ServerSession.   *)
(* Elicit ("client does not support elicitation / \"form\" / \"url\"          *)
(* elicitation", "if both 'Form' and 'URL' are nil, we assume the client      *)
(* supports form elicitation for backward compatibility"), Client.            *)
(* capabilities ("for older versions, {} is treated the same as {form:{}}"),  *)
(* assertServerInitiatedRequestAllowed (2026-07-28 "forbids server-initiated  *)
(* JSON-RPC requests for elicitation"), newMethodInfo ("We need to ensure     *)
(* that p is non-null to guard against crashes"), docs/client.md              *)
(* "Elicitation" ("The elicitation handler must return a result that matches  *)
(* the requested schema; otherwise, elicitation returns an error. If your     *)
(* handler supports URL mode elicitation, you must declare that capability    *)
(* explicitly") and the MCP rule quoted by X06 ("Servers MUST NOT send        *)
(* elicitation requests with modes that are not supported by the client").    *)
(*                                                                            *)
(*  A1 NoCrash   No elicitation message a peer can send - whatever its        *)
(*     params, also none at all - crashes the receiving client.               *)
(*  A2 Gate      ServerSession.Elicit puts `elicitation/create` on the wire   *)
(*     only on a session older than 2026-07-28, only to a client that         *)
(*     declared the elicitation capability, and in mode form / url only if    *)
(*     the client declared that mode ({} counts as form); otherwise it        *)
(*     returns an error.  On a 2026-07-28 session no `elicitation/create`     *)
(*     request is ever sent.                                                  *)
(*  A3 WellFormedOnly   The client's ElicitationHandler is consulted at most  *)
(*     once per request, and only for a well-formed request: form mode        *)
(*     without a URL and with no schema or a flat object schema of primitive  *)
(*     properties (string with format email/uri/date/date-time, non-negative  *)
(*     minLength <= maxLength and a string default; string enum - plain,      *)
(*     with as many enumNames, or oneOf of titled non-empty string consts -   *)
(*     with a string default; number / integer with minimum <= maximum and a  *)
(*     numeric default; boolean with a boolean default; array of a string     *)
(*     enum / anyOf of titled consts), or URL mode with a URL and without a   *)
(*     schema.  Every other request is answered with an error.                *)
(*  A4 OnlyOnAccept   For a well-formed, admissible request the handler's     *)
(*     answer decides: a handler error is an error; decline / cancel come     *)
(*     back as they are (their content is not validated); accept with content *)
(*     that satisfies the schema comes back as accept with the values the     *)
(*     handler gave; accept with content that violates the schema is an error.*)
(*  A5 Matches   Whenever an accept comes back for a request with a schema    *)
(*     (whose own defaults are valid values), the content the requester sees  *)
(*     satisfies the schema: every required property is present, every        *)
(*     present property is the valid value the handler supplied or - only     *)
(*     for a property the handler left out - the schema's default.            *)
(*  A6 Unknown completion   notifications/elicitation/complete for an id      *)
(*     nobody waits for is harmless, and the user's                           *)
(*     ElicitationCompleteHandler sees every well-formed completion.          *)
(*                                                                            *)
(* DEVIATIONS of the code from this, modelled as the code is (Expected) and   *)
(* named in Deviation(c) (D2, D3):                                            *)
(*  D1 (REPAIRED in /repo 69d58c9; Expected follows the repair) both methods  *)
(*     are registered missingParamsOK and used to dereference nil req.Params  *)
(*     - the client process died.  Now elicitation/create without params is   *)
(*     answered -32602 (after the "no handler" answer) and the completion     *)
(*     notification without params only reaches the user's handler.           *)
(*  D2 validateElicitStringProperty returns as soon as it has seen `enum` /   *)
(*     `oneOf`: validateDefaultProperty[string] is skipped, so a string enum  *)
(*     whose default is not a string reaches the handler.         (breaks A3) *)
(*  D3 both sides validate an accept only `if res.Content != nil`: an accept  *)
(*     without content comes back as success although the schema has          *)
(*     required properties.                                       (breaks A5) *)
(*  Further code-shaped facts that no property above contradicts: a root      *)
(*  schema without `type` is let through ("if specified"); the mode "" on the *)
(*  wire is form for the client whatever else is set, while the server infers *)
(*  url from URL / ElicitationID; Client.elicit does not look at the          *)
(*  capabilities the client declared (a raw peer can reach the handler with   *)
(*  an undeclared mode); defaults are checked for their JSON type only        *)
(*  (integer: any number) and applied AFTER validation, so an invalid default *)
(*  makes the server-side re-validation fail; an unknown action string is     *)
(*  passed through; URL mode does not require an elicitationId.               *)
(*                                                                            *)
(*  Cases     the abstract product (three sub-products, see below)            *)
(*  Expected  the code-shaped procedure, check by check in the code's order   *)
(*  Holds     A1..A6 stated declaratively over (case, outcome)                *)
EXTENDS Integers, Sequences, FiniteSets, TLC

-----------------------------------------------------------------------------
\* Property classes of the single schema property "p"
NoP == [ty |-> "none", nested |-> FALSE, fmt |-> "none", len |-> "none", def |-> "none",
        en |-> "none", oneof |-> "none", rng |-> "none", items |-> "none"]
Str(f, l, d, e, o) == [NoP EXCEPT !.ty = "string", !.fmt = f, !.len = l, !.def = d, !.en = e, !.oneof = o]
Num(t, r, d) == [NoP EXCEPT !.ty = t, !.rng = r, !.def = d]
Bool(d) == [NoP EXCEPT !.ty = "boolean", !.def = d]
Arr(i, d) == [NoP EXCEPT !.ty = "array", !.items = i, !.def = d]
Oth(t, n, e) == [NoP EXCEPT !.ty = t, !.nested = n, !.en = e]

\* fmt: allowed = one of email/uri/date/date-time, other = "phone"
\* len: ok = 1..30, negmin = minLength -1, negmax = maxLength -5, inverted = 10..5
\* def: ok / int / float / bool / arr = a value of the right type that satisfies the property; viol = right type, violates
\*      the property's own constraint; nonmember = a string that is not an enum member; badtype = wrong JSON type
PlainStr == {Str(f, l, d, "none", "none") : f \in {"none", "allowed", "other"},
                                            l \in {"none", "ok", "negmin", "negmax", "inverted"},
                                            d \in {"none", "ok", "badtype"}}
            \cup {Str(f, "ok", "viol", "none", "none") : f \in {"none", "allowed"}}
EnumStr == {Str(f, l, d, e, "none") : f \in {"none", "other"}, l \in {"none", "ok"},
                                      d \in {"none", "ok", "nonmember", "badtype"}, e \in {"plain", "names_ok"}}
           \cup {Str("none", "none", "none", e, "none") : e \in {"names_short", "names_nonarray"}}
OneofStr == {Str(f, l, d, "none", "ok") : f \in {"none", "other"}, l \in {"none", "ok"},
                                          d \in {"none", "ok", "nonmember", "badtype"}}
            \cup {Str("none", "none", "none", "none", o) : o \in {"noconst", "numconst", "emptyconst", "notitle"}}
NumP == {Num(t, r, d) : t \in {"number", "integer"}, r \in {"none", "ok", "inverted"}, d \in {"none", "int", "float", "badtype"}}
        \cup {Num(t, "ok", "viol") : t \in {"number", "integer"}}
BoolP == {Bool(d) : d \in {"none", "bool", "badtype"}}
ArrP == {Arr(i, d) : i \in {"str_enum", "anyof_ok"}, d \in {"none", "arr", "badtype"}}
        \cup {Arr(i, "none") : i \in {"none", "str_plain", "anyof_missing", "anyof_badentry", "int"}}
OthP == {Oth("object", FALSE, "none"), Oth("null", FALSE, "none"), Oth("none", FALSE, "none"), Oth("none", FALSE, "plain"),
         Oth("object", TRUE, "none"), Oth("string", TRUE, "none"), Oth("none", TRUE, "none")}
Props == PlainStr \cup EnumStr \cup OneofStr \cup NumP \cup BoolP \cup ArrP \cup OthP

\* a few representatives used where the property is not the point
PStr == Str("none", "none", "none", "none", "none")
PStrDef == Str("none", "none", "ok", "none", "none")
PEnum == Str("none", "none", "none", "plain", "none")
PInt == Num("integer", "none", "none")
PObj == Oth("object", FALSE, "none")

\* Schema classes.  root: nil (no schema) | object | objempty (type object, no properties) | notype (properties, no
\* type) | string (type string).  second: a second property "q": good = a plain string, bad = type object.
Sch(r, p, s) == [root |-> r, p |-> p, second |-> s]
SchNil == Sch("nil", NoP, "none")
SchSimple == Sch("object", PStr, "none")
Schemas == {SchNil, Sch("objempty", NoP, "none")}
           \cup {Sch("object", p, "none") : p \in Props}
           \cup {Sch("object", p, s) : p \in {PStr, PStrDef, PEnum, PInt, PObj}, s \in {"good", "bad"}}
           \cup {Sch(r, p, "none") : r \in {"notype", "string"}, p \in {PStr, PEnum, PObj}}

-----------------------------------------------------------------------------
\* The documented rule (A3) for one property, and the assumption A5 makes about defaults
Primitive(p) == ~p.nested /\ p.ty \in {"string", "number", "integer", "boolean", "array"}
DefTypeOK(p) ==
  CASE p.ty = "string" -> p.def # "badtype"
    [] p.ty \in {"number", "integer"} -> p.def # "badtype"
    [] p.ty = "boolean" -> p.def # "badtype"
    [] OTHER -> TRUE                 \* no rule is stated for the default of a multi-select
PropWF(p) ==
  /\ Primitive(p)
  /\ p.ty = "string" =>
       /\ (p.en = "none" /\ p.oneof = "none") => (p.fmt # "other" /\ p.len \in {"none", "ok"})
       /\ p.en \in {"none", "plain", "names_ok"}
       /\ p.oneof \in {"none", "ok"}
  /\ p.ty \in {"number", "integer"} => p.rng # "inverted"
  /\ p.ty = "array" => p.items \in {"str_enum", "anyof_ok"}
  /\ p.ty \notin {"string", "array"} => p.en = "none"
  /\ DefTypeOK(p)
SchemaWF(s) ==
  CASE s.root \in {"nil", "objempty"} -> TRUE
    [] s.root = "string" -> FALSE
    [] OTHER -> PropWF(s.p) /\ s.second # "bad"        \* root "notype": the code's "if specified" is accepted here too
\* the default (if any) is a valid value of its own property
DefSat(p) == \/ p.def \in {"none", "ok", "int", "bool", "arr"}
             \/ (p.def = "float" /\ p.ty = "number")
HasDef(p) == p.def # "none"
\* a value of the right type that violates the property exists in the concretisation
HasViol(p) == \/ (p.ty = "string" /\ (p.en # "none" \/ p.oneof # "none" \/ p.len = "ok"))
              \/ p.ty = "integer" \/ (p.ty = "number" /\ p.rng = "ok")
              \/ (p.ty = "array" /\ p.items \in {"str_enum", "anyof_ok"})

-----------------------------------------------------------------------------
\* Handler answers.  act: accept decline cancel bogus (an action string outside the three) herr (the handler fails)
\* val (the content): nil (no content) | empty ({}) | valid ({p: valid}) | wrongtype | viol | extra ({p: valid, z: ..})
Res(a, v) == [act |-> a, val |-> v]
ResFor(p) == {Res("accept", v) : v \in {"nil", "empty", "valid", "wrongtype", "extra"}}
             \cup (IF HasViol(p) THEN {Res("accept", "viol")} ELSE {})
             \cup {Res(a, v) : a \in {"decline", "cancel", "bogus"}, v \in {"nil", "wrongtype"}}
             \cup {Res("herr", "nil")}
ResDefault == Res("accept", "valid")

-----------------------------------------------------------------------------
\* Paths: d<era> = ServerSession.Elicit on a session of that era; m0728 = the request travels in InputRequests of a
\* tools/call result to a 2026-07-28 client; m1125 = same handler, legacy client (the server bridges through Elicit);
\* raw = a scripted peer writes elicitation/create on a 2025-11-25 session and reads the answer; rawc = the other way
\* round: ServerSession.Elicit on a real server whose client is a scripted peer (2025-11-25) that declares what
\* `decl` says and answers with exactly what `res` says - no client-side validation, no defaults ("handler" = the
\* peer answers at all; otherwise it replies method-not-found).
Paths == {"d0618", "d1125", "d0728", "m0728", "m1125", "raw", "rawc"}
Era(path) == CASE path \in {"d0618"} -> "0618" [] path \in {"d0728", "m0728"} -> "0728" [] OTHER -> "1125"
Decls == {"infer", "empty", "form", "url", "both"}
Modes == {"unset", "form", "url", "bogus"}

Case(k, path, h, d, m, u, e, pr, uh, s, rq, r) ==
  [kind |-> k, path |-> path, handler |-> h, decl |-> d, mode |-> m, url |-> u, eid |-> e, params |-> pr, uh |-> uh,
   sch |-> s, req |-> rq, res |-> r]

\* (1) gating: every path x declaration x mode x url x elicitationId, with / without a simple schema
GateCases == {Case("gate", path, h, d, m, u, e, "normal", FALSE, s, FALSE, r) :
                path \in Paths, h \in BOOLEAN, d \in Decls, m \in Modes, u \in BOOLEAN, e \in BOOLEAN,
                s \in {SchNil, SchSimple}, r \in {Res("accept", "valid"), Res("accept", "nil"), Res("decline", "nil")}}
\* (2) schema x answer, where everything else admits the request
CodePropOK(p) ==
  IF p.nested THEN FALSE
  ELSE CASE p.ty = "string" ->
              IF p.en # "none" THEN p.en \in {"plain", "names_ok"}            \* returns here (D2)
              ELSE IF p.oneof # "none" THEN p.oneof = "ok"                      \* and here
              ELSE p.fmt # "other" /\ p.len \in {"none", "ok"} /\ p.def # "badtype"
         [] p.ty \in {"number", "integer"} -> p.rng # "inverted" /\ p.def # "badtype"
         [] p.ty = "boolean" -> p.def # "badtype"
         [] p.ty = "array" -> p.items \in {"str_enum", "anyof_ok"}
         [] OTHER -> FALSE
CodeSchemaOK(s) ==
  CASE s.root \in {"nil", "objempty"} -> TRUE
    [] s.root = "string" -> FALSE
    [] OTHER -> CodePropOK(s.p) /\ s.second # "bad"
SchemaCases == UNION {{Case("schema", path, TRUE, "both", "unset", FALSE, FALSE, "normal", FALSE, s, rq, r) :
                          path \in {"d1125", "m0728", "rawc"}, rq \in BOOLEAN,
                          r \in (IF CodeSchemaOK(s) \/ SchemaWF(s) THEN ResFor(s.p) ELSE {ResDefault})} :
                       s \in Schemas \ {SchNil}}
SchemaCaseOK(c) == /\ (c.req => c.sch.root \in {"object", "notype"})
                   /\ (~(CodeSchemaOK(c.sch) \/ SchemaWF(c.sch)) => ~c.req)
\* (3) messages without params (raw peer): elicitation/create and the completion notification
RawParamCases == {Case("rawp", "raw", h, "both", "unset", FALSE, FALSE, pr, FALSE, SchNil, FALSE, Res("decline", "nil")) :
                    h \in BOOLEAN, pr \in {"absent", "null"}}
NotifCases == {Case("notif", "raw", h, "both", "url", FALSE, TRUE, pr, uh, SchNil, FALSE, Res("decline", "nil")) :
                 h \in BOOLEAN, uh \in BOOLEAN, pr \in {"normal", "absent", "null"}}

CaseSet == GateCases \cup {c \in SchemaCases : SchemaCaseOK(c)} \cup RawParamCases \cup NotifCases

-----------------------------------------------------------------------------
\* What the client advertises (Client.capabilities); present = FALSE: no elicitation capability at all
Adv(c) ==
  CASE c.decl = "infer" -> IF c.handler THEN [present |-> TRUE, modes |-> IF Era(c.path) = "0618" THEN {} ELSE {"form"}]
                           ELSE [present |-> FALSE, modes |-> {}]
    [] c.decl = "empty" -> [present |-> TRUE, modes |-> {}]
    [] c.decl = "form" -> [present |-> TRUE, modes |-> {"form"}]
    [] c.decl = "url" -> [present |-> TRUE, modes |-> {"url"}]
    [] OTHER -> [present |-> TRUE, modes |-> {"form", "url"}]
Supports(a, m) == /\ a.present
                  /\ m = "form" => ("form" \in a.modes \/ a.modes = {})
                  /\ m = "url" => "url" \in a.modes
\* the mode of the request: the SDK server infers it (inferElicitMode); a raw peer's "" is form for the client
EffMode(c) == IF c.mode # "unset" THEN c.mode
              ELSE IF c.path = "raw" THEN "form"
              ELSE IF c.url \/ c.eid THEN "url" ELSE "form"
ReqWF(c) == /\ c.params = "normal"
            /\ CASE EffMode(c) = "form" -> ~c.url /\ SchemaWF(c.sch)
                 [] EffMode(c) = "url" -> c.url /\ c.sch.root = "nil"
                 [] OTHER -> FALSE
\* the requester may send it (A2).  m0728 is not gated by the SDK (X06 records that); the raw peer sends anyway.
ServerPath(c) == c.path \in {"d0618", "d1125", "d0728", "m1125", "rawc"}
SDKClient(c) == c.path # "rawc"
MaySend(c) == /\ Era(c.path) # "0728"
              /\ Adv(c).present
              /\ EffMode(c) \in {"form", "url"} => Supports(Adv(c), EffMode(c))
Admitted(c) == c.handler /\ (ServerPath(c) => MaySend(c))

-----------------------------------------------------------------------------
\* Outcome: [crash, sent, asked, ret, code, action, cont, pv, zv, ucalled]
\*   sent    an elicitation/create request reached the client's receiving side (raw: always)
\*   asked   how often the ElicitationHandler ran
\*   ret     "result" | "error" as seen by the requester (Elicit's caller / the tool handler's second run / the raw peer)
\*   code    "ip" (-32602) | "local" (an error that is not a wire error) | "other" | "none"
\*   cont    "nil" | "obj";  pv  what the requester sees for p: absent | same (the handler's value) | default | other
\*   zv      the extra member z came through;  ucalled  the user's ElicitationCompleteHandler ran (notif cases)
Out(cr, s, a, r, cd, act, ct, pv, zv, uc) ==
  [crash |-> cr, sent |-> s, asked |-> a, ret |-> r, code |-> cd, action |-> act, cont |-> ct, pv |-> pv, zv |-> zv, ucalled |-> uc]
ErrOut(s, a, cd) == Out(FALSE, s, a, "error", cd, "", "nil", "absent", FALSE, FALSE)
Crash == Out(TRUE, TRUE, 0, "error", "other", "", "nil", "absent", FALSE, FALSE)

\* content as the handler built it
HCont(v) == IF v = "nil" THEN "nil" ELSE "obj"
HPv(v) == IF v \in {"nil", "empty"} THEN "absent" ELSE "same"
\* JSON: `content,omitempty` drops an empty object
Wire(ct, pv, zv) == IF ct = "obj" /\ pv = "absent" /\ ~zv THEN "nil" ELSE ct
\* the content is validated against properties only when the schema has any
Validated(c) == EffMode(c) = "form" /\ c.sch.root \in {"object", "notype"}
ValSat(c) == CASE c.sch.root = "objempty" -> TRUE
               [] c.res.val \in {"valid", "extra"} -> TRUE
               [] c.res.val = "empty" -> ~c.req
               [] OTHER -> FALSE            \* wrongtype, viol; "nil" is never validated

\* Client.elicit; returns an outcome with sent = s
ClientElicit(c, s, wiremode) ==
  IF ~c.handler THEN ErrOut(s, 0, "ip")
  ELSE IF c.params # "normal" THEN ErrOut(s, 0, "ip")                  \* 69d58c9: missing required "params"
  ELSE LET m == IF wiremode = "unset" THEN "form" ELSE wiremode IN
  CASE m = "form" ->
         IF c.url THEN ErrOut(s, 0, "ip")
         ELSE IF ~CodeSchemaOK(c.sch) THEN ErrOut(s, 0, "ip")
         ELSE IF c.res.act = "herr" THEN ErrOut(s, 1, "other")
         ELSE IF c.res.act = "accept" /\ c.sch.root # "nil" /\ c.res.val # "nil"
              THEN IF ~ValSat(c) THEN ErrOut(s, 1, "ip")
                   ELSE IF c.res.val = "empty" /\ HasDef(c.sch.p)
                        THEN Out(FALSE, s, 1, "result", "none", "accept", "obj", "default", FALSE, FALSE)
                        ELSE Out(FALSE, s, 1, "result", "none", "accept", "obj", HPv(c.res.val), c.res.val = "extra", FALSE)
              ELSE Out(FALSE, s, 1, "result", "none", IF c.res.act = "bogus" THEN "maybe" ELSE c.res.act,
                       HCont(c.res.val), HPv(c.res.val), c.res.val = "extra", FALSE)
    [] m = "url" ->
         IF c.sch.root # "nil" THEN ErrOut(s, 0, "ip")
         ELSE IF ~c.url THEN ErrOut(s, 0, "ip")
         ELSE IF c.res.act = "herr" THEN ErrOut(s, 1, "other")
         ELSE Out(FALSE, s, 1, "result", "none", IF c.res.act = "bogus" THEN "maybe" ELSE c.res.act,
                  HCont(c.res.val), HPv(c.res.val), c.res.val = "extra", FALSE)
    [] OTHER -> ErrOut(s, 0, "ip")
\* what arrives after JSON
OverWire(o) == IF o.ret = "result" THEN [o EXCEPT !.cont = Wire(o.cont, o.pv, o.zv)] ELSE o

\* ServerSession.Elicit
ServerElicit(c) ==
  IF Era(c.path) = "0728" THEN ErrOut(FALSE, 0, "local")
  ELSE IF ~Adv(c).present THEN ErrOut(FALSE, 0, "local")
  ELSE IF EffMode(c) = "form" /\ "form" \notin Adv(c).modes /\ "url" \in Adv(c).modes THEN ErrOut(FALSE, 0, "local")
  ELSE IF EffMode(c) = "url" /\ "url" \notin Adv(c).modes THEN ErrOut(FALSE, 0, "local")
  ELSE LET r == OverWire(ClientElicit(c, TRUE, EffMode(c))) IN
       IF r.ret = "error" THEN r
       ELSE IF r.action # "accept" \/ r.cont = "nil" THEN r
       ELSE IF c.sch.root = "nil" THEN r
       ELSE IF r.pv = "default" /\ ~DefSat(c.sch.p) THEN ErrOut(TRUE, r.asked, "local")
       ELSE r

\* ServerSession.Elicit against the scripted client: only the server's own checks apply
ServerElicitRawClient(c) ==
  IF ~Adv(c).present THEN ErrOut(FALSE, 0, "local")
  ELSE IF EffMode(c) = "form" /\ "form" \notin Adv(c).modes /\ "url" \in Adv(c).modes THEN ErrOut(FALSE, 0, "local")
  ELSE IF EffMode(c) = "url" /\ "url" \notin Adv(c).modes THEN ErrOut(FALSE, 0, "local")
  ELSE IF ~c.handler THEN ErrOut(TRUE, 0, "other")
  ELSE IF c.res.act = "herr" THEN ErrOut(TRUE, 1, "other")
  ELSE LET pass == Out(FALSE, TRUE, 1, "result", "none", IF c.res.act = "bogus" THEN "maybe" ELSE c.res.act,
                       HCont(c.res.val), HPv(c.res.val), c.res.val = "extra", FALSE) IN
       IF c.res.act # "accept" \/ c.res.val = "nil" THEN pass
       ELSE IF c.sch.root = "nil" THEN pass
       ELSE IF ~CodeSchemaOK(c.sch) THEN ErrOut(TRUE, 1, "local")
       ELSE IF ~ValSat(c) THEN ErrOut(TRUE, 1, "local")
       ELSE IF c.res.val = "empty" /\ HasDef(c.sch.p) THEN [pass EXCEPT !.pv = "default"]
       ELSE pass

Expected(c) ==
  CASE c.kind = "notif" ->
         \* without params (69d58c9) the waiter lookup is skipped; the user's handler is called all the same
         Out(FALSE, TRUE, 0, "result", "none", "", "nil", "absent", FALSE, c.uh)
    [] c.path \in {"d0618", "d1125", "d0728"} -> ServerElicit(c)
    [] c.path = "m1125" -> LET r == ServerElicit(c) IN IF r.ret = "error" THEN [r EXCEPT !.code = "other"] ELSE r
    [] c.path = "m0728" -> OverWire(ClientElicit(c, FALSE, EffMode(c)))
    [] c.path = "rawc" -> ServerElicitRawClient(c)
    [] OTHER -> OverWire(ClientElicit(c, TRUE, c.mode))       \* raw

-----------------------------------------------------------------------------
\* The properties
A1_NoCrash(c, o) == ~o.crash
A2_Gate(c, o) == /\ (ServerPath(c) /\ o.sent) => MaySend(c)
                 /\ c.path = "m0728" => ~o.sent
A3_WellFormedOnly(c, o) ==
  /\ o.asked <= 1
  /\ (SDKClient(c) /\ o.asked = 1) => (c.handler /\ ReqWF(c))
  /\ (SDKClient(c) /\ c.kind # "notif" /\ ~ReqWF(c)) => o.ret = "error"
  /\ (ServerPath(c) /\ ~MaySend(c)) => (o.ret = "error" /\ o.asked = 0)
A4_OnlyOnAccept(c, o) ==
  (c.kind # "notif" /\ Admitted(c) /\ ReqWF(c) /\ DefSat(c.sch.p)) =>
     CASE c.res.act = "herr" -> o.ret = "error" /\ o.asked = 1
       [] c.res.act \in {"decline", "cancel"} -> o.ret = "result" /\ o.action = c.res.act /\ o.asked = 1
       [] c.res.act = "bogus" -> o.asked = 1
       [] OTHER ->   \* accept
            IF ~Validated(c) THEN o.ret = "result" /\ o.action = "accept" /\ o.asked = 1
            ELSE CASE c.res.val \in {"wrongtype", "viol"} -> o.ret = "error"
                   [] c.res.val = "empty" /\ c.req -> o.ret = "error"
                   [] c.res.val = "nil" -> o.asked = 1           \* see A5 / D3
                   [] OTHER -> /\ o.ret = "result" /\ o.action = "accept" /\ o.asked = 1
                               /\ c.res.val \in {"valid", "extra"} => o.pv = "same"
                               /\ c.res.val = "extra" => o.zv
A5_Matches(c, o) ==
  (c.kind # "notif" /\ o.ret = "result" /\ o.action = "accept" /\ Validated(c) /\ DefSat(c.sch.p)) =>
       /\ c.req => o.pv # "absent"
       /\ o.pv = "same" => c.res.val \in {"valid", "extra"}
       /\ o.pv = "default" => (HasDef(c.sch.p) /\ c.res.val \in {"nil", "empty"})
       /\ o.pv # "other"
A6_Completion(c, o) == (c.kind = "notif" /\ c.params = "normal") => (o.ucalled <=> c.uh)

Clauses == {"A1.NoCrash", "A2.Gate", "A3.WellFormedOnly", "A4.OnlyOnAccept", "A5.Matches", "A6.Completion"}
Clause(n, c, o) == CASE n = "A1.NoCrash" -> A1_NoCrash(c, o)
                     [] n = "A2.Gate" -> A2_Gate(c, o)
                     [] n = "A3.WellFormedOnly" -> o.crash \/ A3_WellFormedOnly(c, o)
                     [] n = "A4.OnlyOnAccept" -> o.crash \/ A4_OnlyOnAccept(c, o)
                     [] n = "A5.Matches" -> o.crash \/ A5_Matches(c, o)
                     [] OTHER -> o.crash \/ A6_Completion(c, o)
Holds(c, o) == \A n \in Clauses : Clause(n, c, o)

\* The named deviations: exactly where the code-shaped Expected breaks a property
Deviation(c) ==
  CASE /\ c.kind = "schema" /\ SDKClient(c) /\ c.sch.root \in {"object", "notype"} /\ c.sch.p.ty = "string"
       /\ c.sch.p.def = "badtype" /\ CodeSchemaOK(c.sch) -> "D2"
    [] /\ c.kind = "schema" /\ c.req /\ c.res = Res("accept", "nil") /\ CodeSchemaOK(c.sch) /\ DefSat(c.sch.p) -> "D3"
    [] OTHER -> "none"

\* The observable part of an outcome that Expected predicts exactly (drift); codes: "other" predicts nothing
SameOutcome(o, x) ==
  /\ o.crash = x.crash
  /\ ~x.crash => /\ o.sent = x.sent /\ o.asked = x.asked /\ o.ret = x.ret /\ o.ucalled = x.ucalled
                 /\ (x.code # "other" => o.code = x.code)
                 /\ x.ret = "result" => (o.action = x.action /\ o.cont = x.cont /\ o.pv = x.pv /\ o.zv = x.zv)
=============================================================================
