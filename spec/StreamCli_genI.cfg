\* behaviour export: up to six cuts, bodies with and without progress alternating (budget per stretch without progress)
\* (tools/checks/c09.py builds its configurations from the same template - the Fix* switches of the configurations that model
\*  the real code come from its REPAIRED table; this file is the thorough-tier one, for manual runs:
\*  java -cp $TLA_CP tlc2.TLC -config StreamCli_genI.cfg StreamCliMC)
SPECIFICATION Spec
CONSTANTS
  KindSet = {"post", "sa"}
  ShapeSet <- TwoShapes
  SchemeSet = {"dec"}
  MSet = {3}
  MRSet = {2}
  MaxCuts = 6
  ClassSet = {"bnd"}
  AnswerSet = {"terr", "ok", "504"}
  TailSet = {"good"}
  RetrySet = {"none"}
  FixScanner = FALSE
  FixCursor = TRUE
  Fix5xx = TRUE
CONSTRAINT Interleaved
INVARIANTS Export
CHECK_DEADLOCK FALSE
