----------------------------- MODULE VerifTrace -----------------------------
(* Shared plumbing for trace validation and monitors (DESIGN.md 5.9).         *)
(* The observation log is an ndjson file next to the spec; `l` is the index   *)
(* of the next line to consume.  Acceptance is by high-water mark: register 1 *)
(* holds the largest l reached (run TLC with -workers 1).                     *)
EXTENDS Integers, Sequences, TLC, Json

TraceLog == ndJsonDeserialize("obs.ndjson")
NLines == Len(TraceLog)

AsSet(s) == {s[i] : i \in DOMAIN s}
HasKey(r, k) == k \in DOMAIN r

\* TLCSet returns TRUE; use as a conjunct in Init
MarkInit == TLCSet(1, 1)
\* use as CONSTRAINT (evaluated on every new state): remember the furthest line
MarkAt(l) == IF l > TLCGet(1) THEN TLCSet(1, l) ELSE TRUE
Accepted == IF TLCGet(1) = NLines + 1 THEN TRUE
            ELSE PrintT(ToJson([hwm |-> TLCGet(1), lines |-> NLines])) /\ FALSE

\* Report a monitor failure and continue (PrintT returns TRUE).
Fail(l, inv) == PrintT(ToJson([monfail |-> inv, line |-> l]))
Check(l, inv, ok) == IF ok THEN TRUE ELSE Fail(l, inv)
=============================================================================
