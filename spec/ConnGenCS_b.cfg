SPECIFICATION GenSpec
CONSTANTS
  Callers = {"k1","k2","k3"}
  Reqs = {"r1","d1","n1"}
  CallReqs = {"r1","d1"}
  CancelOf <- NoCancelOf
  DupOf <- Dup1
  Closers = {"c1"}
  Waiters = {"w1"}
  WriteOutcomes = {"ok","broken"}
  EnvEOF = TRUE
CHECK_DEADLOCK FALSE
