SPECIFICATION SeamSpec
CONSTANTS
  Sess = {"s1","s2","s3"}
  Reqs = {"r1","r2","d1"}
  Gets = {"g1","g2"}
  Cfgs <- CfgAll
  MaxEmit = 2
  MaxSreq = 1
  MaxSa = 1
  MaxBc = 1
  DupOf <- Dup1
  Gates = TRUE
CONSTRAINT Export
CHECK_DEADLOCK FALSE
