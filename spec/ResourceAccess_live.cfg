SPECIFICATION FairSpec
CONSTANTS
  Readers = {"r1", "r2"}
  XE = {"E2"}
  XT = {"Tda", "Tp"}
  MaxMut = 3
  MaxRead = 3
CONSTANT XU <- URIs3
INVARIANTS TypeOK Linearizable
PROPERTY ReadsEnd
CHECK_DEADLOCK FALSE
