------------------------------- MODULE ConnGen -------------------------------
(* Behaviour generation for the scenario harness: Conn with a history of the  *)
(* ENVIRONMENT actions, written in the harness' step vocabulary.  Run with    *)
(* `-simulate file=...,num=N -depth D`; tools read `hist` from the last state *)
(* of every generated behaviour.                                              *)
EXTENDS ConnMC
VARIABLE hist
gvars == <<vars, hist>>

H(s) == hist' = Append(hist, s)
OutName(o) == IF o = "timeout" THEN "stall" ELSE o

GenInit == Init /\ hist = <<>>
GenNext ==
  \/ (SdkNext /\ UNCHANGED hist)
  \/ \E k \in Callers :
        \/ (CallStart(k) /\ H("call|" \o k))
        \/ (CtxCancel(k) /\ H("cancel|" \o k))
        \/ (\E o \in {"ok", "broken", "rejected"} : CallWriterReturn(k, o) /\ H("wret|call:" \o k \o "|" \o o))
        \/ (\E o \in {"ok", "broken", "rejected", "timeout"} : NWriterReturn(k, o) /\ H("wret|notif:cancelled:" \o k \o "|" \o OutName(o)))
        \/ (ReadResp(k) /\ H("resp|" \o k \o "|ok"))
  \/ \E r \in Reqs :
        \/ (ReadReq(r) /\ H(IF r \in DOMAIN CancelOf THEN "pcancel|" \o CancelOf[r]
                            ELSE IF r \in DOMAIN DupOf THEN "reqdup|" \o r \o "|" \o DupOf[r]
                            ELSE IF r \in CallReqs THEN "req|" \o r \o "|call" ELSE "req|" \o r \o "|notif"))
        \/ (HReturn(r) /\ H("hret|" \o r))
        \/ (\E o \in {"ok", "broken", "rejected"} : RpWriterReturn(r, o) /\ H("wret|resp:" \o r \o "|" \o o))
  \/ (ReadRespUnknown /\ H("respunknown"))
  \/ (ReadEOF /\ ~transportClosed /\ H("eof"))
  \/ (ReadEOF /\ transportClosed /\ UNCHANGED hist)
  \/ \E c \in Closers : CloseStart(c) /\ H("close|" \o c)
  \/ \E w \in Waiters : WaitStart(w) /\ H("wait|" \o w)
GenSpec == GenInit /\ [][GenNext]_gvars
=============================================================================
