SPECIFICATION MCSpec
CONSTANTS
  MaxSess = 1
  MaxPost = 3
  MaxSend = 1
  Cap = 1
  Direct = TRUE
  RandomSelect = FALSE
  KindSet = {"call", "badjson"}
  WithNoId = FALSE
  WithUnknown = FALSE
INVARIANTS TypeOK ClosedRefuses Refusal AtMostOnce
PROPERTIES NoPushAfterClose NoWriteAfterClose
CHECK_DEADLOCK FALSE
