SPECIFICATION TSpec
CONSTANTS
  Sess = {"s1","s2","s3"}
  Reqs = {"r1","r2","r3","d1","d2","d3"}
  Gets = {"g1","g2","g3","g4","g5","g6","g7","g8","g9","g10","g11","g12","g13","g14","g15","g16"}
  Cfgs <- TraceCfgs
  MaxEmit = 40
  MaxSreq = 40
  MaxSa = 40
  MaxBc = 40
  DupOf <- TraceDupOf
  Gates = TRUE
CONSTRAINT TMark
INVARIANTS ResumeExact IdsDense IdStable StoreBeforeDeliver CompleteAtEnd ResponseOnOwnExchange NestedRouting NoCrossSession LockDiscipline IdUnique
POSTCONDITION TAccepted
CHECK_DEADLOCK FALSE
