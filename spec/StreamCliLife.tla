---------------------------- MODULE StreamCliLife ----------------------------
(* Extension check X12: the LIFECYCLE of the streamable-HTTP CLIENT transport *)
(* (mcp/streamable.go: StreamableClientTransport.Connect, streamableClientConn *)
(* sessionUpdated / connectStandaloneSSE / Write / Read / fail / Close, driven  *)
(* by mcp.Client.Connect and a ClientSession through internal/jsonrpc2).       *)
(* Stream cuts and resumption are C09 (StreamCli.tla), version negotiation C07, *)
(* the server's preconditions C12; here: which request is sent when, with which *)
(* headers, what each class of answer does to the message and to the connection.*)
(*                                                                            *)
(* PROPERTIES (sources: doc comment of StreamableClientTransport.Connect and   *)
(* of DisableStandaloneSSE; the design note mcp/streamable_client.go; the doc  *)
(* comments of ErrSessionMissing, jsonrpc2.ErrRejected, noprotocolerrorbody,   *)
(* closeDeleteTimeout, ClientSession.Close, Connection.Close; the MCP text     *)
(* quoted in the code: 2.1.4, 2.2, 2.2.3, 2.5, 2.5.3)                          *)
(*                                                                            *)
(*  L1 SessionHeader  No request ever carries an Mcp-Session-Id other than an  *)
(*     id the server issued on an earlier response of this connection; the     *)
(*     initialize POST carries none; once the server has issued an id on the   *)
(*     response to initialize, every later request (POST, GET, DELETE) carries *)
(*     exactly that id; a sessionless server never sees the header.            *)
(*  L2 VersionHeader  The initialize POST carries no Mcp-Protocol-Version;     *)
(*     every request sent after the initialize result is known carries the     *)
(*     negotiated version, and no request carries a version before it is known.*)
(*  L3 Shape  Every message written is exactly one POST (plus at most one      *)
(*     retry after a successful authorization) with Content-Type               *)
(*     application/json, an Accept listing application/json and                *)
(*     text/event-stream, and that message as body; the GET has Accept         *)
(*     text/event-stream and no body; Last-Event-ID appears only on a          *)
(*     resumption GET.                                                         *)
(*  L4 Standalone  The standalone GET is sent at most once initially, only     *)
(*     after the initialize result is known, never when DisableStandaloneSSE   *)
(*     is set; 405 (and, outside strict mode, any other 4xx) to it leaves the  *)
(*     session fully usable.                                                   *)
(*  L5 PerMessage  A POST that fails before reaching the server, is answered   *)
(*     with a transient status (429 500 502 503 504), with a non-2xx status    *)
(*     whose body is a JSON-RPC error, or whose authorization is refused,      *)
(*     fails exactly that call or notification (ErrRejected): every other      *)
(*     pending call still gets its own answer, later calls are sent and        *)
(*     answered, no DELETE is sent.                                            *)
(*  L6 Gone  Once a POST has been answered 404 (without a JSON-RPC error body) *)
(*     the session is reported missing: every pending call fails with an error *)
(*     wrapping ErrSessionMissing, every later call fails at once with         *)
(*     ErrConnectionClosed naming the missing session, no new message, no GET  *)
(*     and no DELETE is sent any more.                                         *)
(*  L7 Terminal  Any other non-2xx answer, a changed session id, an            *)
(*     unsupported content type or an undecodable body ends the connection:    *)
(*     no later call is sent, every pending call completes exactly once, the   *)
(*     transport is closed (L8).                                               *)
(*  L8 Close  The session-terminating DELETE is sent at most once, only with   *)
(*     the session id, exactly when the connection ends (ClientSession.Close,  *)
(*     a failed Connect, a terminal failure) while an id is held and the       *)
(*     session has not been reported missing; Close waits for pending calls,   *)
(*     returns within closeDeleteTimeout of the DELETE, is idempotent; after   *)
(*     Close has returned no request is issued, the standalone stream has been *)
(*     cancelled, every response body has been closed and no goroutine of the  *)
(*     transport is left.                                                      *)
(*  L9 Live  (fairness: the server answers every request and ends every        *)
(*     response stream) Connect returns; every call and notification returns;  *)
(*     Close returns.  Connect also returns when its context ends.             *)
(*                                                                            *)
(* DEVIATIONS of the code from the idealised design (modelled as they are):    *)
(*  D1 the client adopts the FIRST session id it sees on ANY successful POST   *)
(*     response, not only on the response to initialize;                       *)
(*  D2 a non-2xx answer whose body is a JSON-RPC error with a usable id is a   *)
(*     per-message rejection even when the status is 404 (noprotocolerrorbody);*)
(*  D3 the standalone GET: any 4xx (also 404), and ANY status with a content   *)
(*     type other than text/event-stream, is "no standalone stream"; a 5xx     *)
(*     WITH text/event-stream, or a transport error, breaks the connection;    *)
(*  D4 a Write parked in OAuthHandler.Authorize re-POSTs after a successful    *)
(*     authorization even if the connection has failed or closed meanwhile;    *)
(*  D5 (switch FixCancel) Client.Connect waits for the response headers of the *)
(*     standalone GET on the connection's detached context: while that GET is  *)
(*     unanswered Connect ignores the end of its own context;                  *)
(*  D6 (switch FixStream) the SSE response stream of a POST is tied to the     *)
(*     caller's context, not to the connection: when the connection fails or   *)
(*     is closed while such a stream is open, its goroutine and body stay      *)
(*     until the server ends the stream or the caller's context ends;          *)
(*  D7 streamableClientConn.Close (DELETE, up to 5 s) runs under the jsonrpc2  *)
(*     state lock: every other operation of the session waits for it.          *)
(*                                                                            *)
(* One action per request / response step.  Environment: Ans* (the scripted    *)
(* server answers an open request with a class), Auth, Ev (end of a POST       *)
(* response stream), SaEv, DelTimeout; application: Connect, CancelConnect,    *)
(* Call, Notify, Close; SDK-internal: ConnInit / ConnSA (Client.Connect after the *)
(* initialize call / after the standalone GET), Reader / ReaderFail / ReaderEOF (jsonrpc2 read loop over  *)
(* streamableClientConn.Read), TClose (the idle+shutting-down tail of          *)
(* updateInFlight calling streamableClientConn.Close), Done.                   *)
EXTENDS Integers, Sequences, FiniteSets, TLC

CONSTANTS NC,          \* application calls c1..cNC (upper bound over all profiles)
          Profiles,    \* the configurations explored: records
                       \*   [name, nc, sa, oauth, del, post, get, inith, hset, notify, saev, auth, close, cancel]
          FixCancel, FixStream   \* the idealised design instead of D5 / D6

CallTag(k) == IF k = 1 THEN "c1" ELSE IF k = 2 THEN "c2" ELSE "c3"
AppCalls == {CallTag(k) : k \in 1..NC}
CallTags == AppCalls \cup {"init"}
NotifTags == {"inited", "n1"}
PostTags == CallTags \cup NotifTags \cup {"r1"}
Tags == PostTags \cup {"get", "del"}

PostClasses == {"json", "badjson", "sse", "202", "badct", "rpcerr", "rpc404", "404", "http", "401", "5xx", "neterr"}
GetClasses  == {"sse", "405", "404", "4xx", "500", "200plain", "503sse", "neterr"}
TwoXX(c) == c \in {"json", "badjson", "sse", "202", "badct"}
RejClass(c) == c \in {"rpcerr", "rpc404", "5xx", "neterr"}
Results == {"ok", "eos", "rej", "gone", "fatal", "closed", "eof"}

VARIABLES
  P,         \* the configuration (profile) of this behaviour, chosen initially, never changed
  conn,      \* Client.Connect as the application sees it: "none" | "running" | "ok" | "err"
  cph,       \* where Client.Connect is: "-" | "init" | "sa" | "sa2" | "inited" | "closing" | "done"
  connres,   \* class of Connect's error
  cancelled, \* Connect's context has been cancelled
  sid, pv,   \* streamableClientConn.sessionID ("" none) / initializedResult known
  fail,      \* streamableClientConn.failed: "" | "gone" | "fatal" | "rej" (class of the stored error)
  rq,        \* latest request per tag: [st: none|open|auth|done, att, hsid, hpv]
  reg,       \* jsonrpc2 outgoingCalls (call tags)
  ret,       \* how each call was retired ("" not yet)
  stream,    \* SSE response body of a call: "none" | "open" | "done"
  inbox,     \* streamableClientConn.incoming
  nt,        \* the application's notification: "new" | "writing" | a result
  sa,        \* standalone stream: "off" | "none" | "wait" | "open" | "refused" | "closed"
  ping,      \* the server's ping request: "none" | "queued" | "posting" | "done"
  nsaev,     \* events the server wrote on the standalone stream
  sanotes,   \* notifications of the standalone stream delivered to the client
  closing, rerr, werr, reading, nnotif, incoming, tc, jdone,   \* jsonrpc2 inFlightState (+ transport close state)
  closeIss, closeRet, closeErr,
  nauth,
  issued,    \* ghost: ids the server has issued so far
  ndel,      \* ghost: DELETE requests sent
  goneAt,    \* ghost: the session was reported missing before the transport was closed
  late,      \* ghost: a NEW message / GET / DELETE was sent after Close returned or after the session was reported missing
  fatalSeen  \* ghost: the environment has given a terminal answer (or the application closed / cancelled)

vars == <<P, conn, cph, connres, cancelled, sid, pv, fail, rq, reg, ret, stream, inbox, nt, sa, ping, nsaev, sanotes,
          closing, rerr, werr, reading, nnotif, incoming, tc, jdone, closeIss, closeRet, closeErr, nauth,
          issued, ndel, goneAt, late, fatalSeen>>

SA == P.sa                  \* the standalone stream is enabled (DisableStandaloneSSE = FALSE)
OAuth == P.oauth            \* an OAuthHandler is configured
DelCls == P.del             \* how the server answers the DELETE: "ok" | "405" | "404" | "neterr" | "timeout"
PostSet == P.post           \* answer classes the scripted server uses for POSTs
GetSet == P.get             \* ... for the initial GET
InitH == P.inith            \* session-id headers it puts on answers to initialize: subset of {"", "A"}
HSet == P.hset              \* ... on other 2xx answers: subset of {"", "A", "B"}
MaxNotify == P.notify
MaxSaEv == P.saev
MaxAuth == P.auth
MaxClose == P.close
AllowCancel == P.cancel     \* CancelConnect is generated

\* the whole state as a record, so that the compound effect of one step can be composed from functions
S == [conn |-> conn, cph |-> cph, connres |-> connres, cancelled |-> cancelled, sid |-> sid, pv |-> pv, fail |-> fail,
      rq |-> rq, reg |-> reg, ret |-> ret, stream |-> stream, inbox |-> inbox, nt |-> nt, sa |-> sa, ping |-> ping,
      nsaev |-> nsaev, sanotes |-> sanotes, closing |-> closing, rerr |-> rerr, werr |-> werr, reading |-> reading,
      nnotif |-> nnotif, incoming |-> incoming, tc |-> tc, jdone |-> jdone, closeIss |-> closeIss, closeRet |-> closeRet,
      closeErr |-> closeErr, nauth |-> nauth, issued |-> issued, ndel |-> ndel, goneAt |-> goneAt, late |-> late,
      fatalSeen |-> fatalSeen]
Set(R) ==
  /\ UNCHANGED P
  /\ conn' = R.conn /\ cph' = R.cph /\ connres' = R.connres /\ cancelled' = R.cancelled /\ sid' = R.sid /\ pv' = R.pv
  /\ fail' = R.fail /\ rq' = R.rq /\ reg' = R.reg /\ ret' = R.ret /\ stream' = R.stream /\ inbox' = R.inbox /\ nt' = R.nt
  /\ sa' = R.sa /\ ping' = R.ping /\ nsaev' = R.nsaev /\ sanotes' = R.sanotes /\ closing' = R.closing /\ rerr' = R.rerr
  /\ werr' = R.werr /\ reading' = R.reading /\ nnotif' = R.nnotif /\ incoming' = R.incoming /\ tc' = R.tc /\ jdone' = R.jdone
  /\ closeIss' = R.closeIss /\ closeRet' = R.closeRet /\ closeErr' = R.closeErr /\ nauth' = R.nauth /\ issued' = R.issued
  /\ ndel' = R.ndel /\ goneAt' = R.goneAt /\ late' = R.late /\ fatalSeen' = R.fatalSeen

NoReq == [st |-> "none", att |-> 0, hsid |-> "", hpv |-> FALSE]
Init ==
  /\ P \in Profiles
  /\ conn = "none" /\ cph = "-" /\ connres = "" /\ cancelled = FALSE /\ sid = "" /\ pv = FALSE /\ fail = ""
  /\ rq = [t \in Tags |-> NoReq] /\ reg = {} /\ ret = [t \in CallTags |-> ""] /\ stream = [t \in CallTags |-> "none"]
  /\ inbox = <<>> /\ nt = "new" /\ sa = (IF SA THEN "none" ELSE "off") /\ ping = "none" /\ nsaev = 0 /\ sanotes = 0
  /\ closing = FALSE /\ rerr = "" /\ werr = FALSE /\ reading = TRUE /\ nnotif = 0 /\ incoming = 0 /\ tc = "open" /\ jdone = FALSE
  /\ closeIss = 0 /\ closeRet = 0 /\ closeErr = FALSE /\ nauth = 0
  /\ issued = {} /\ ndel = 0 /\ goneAt = FALSE /\ late = FALSE /\ fatalSeen = FALSE

-----------------------------------------------------------------------------
(* jsonrpc2: inFlightState.shuttingDown / idle                                *)
Shutting(R) == R.closing \/ R.rerr # "" \/ R.werr
Idle(R) == R.reg = {} /\ R.nnotif = 0 /\ R.incoming = 0
Writing(R, t) == R.rq[t].st \in {"open", "auth"}
\* a call has returned to its caller: it has been retired and its Write is over
Back(R, t) == R.ret[t] # "" /\ ~Writing(R, t)

\* a request goes out: headers are what setMCPHeaders finds under c.mu at that moment.  `fresh` = it carries a new
\* message (or is the GET / DELETE), as opposed to the re-POST after an authorization (D4)
Send(R, t, fresh) ==
  [R EXCEPT !.rq[t] = [st |-> "open", att |-> R.rq[t].att + 1, hsid |-> R.sid, hpv |-> R.pv],
            !.late = @ \/ (fresh /\ (R.closeRet > 0 \/ R.rerr = "gone"))]

\* streamableClientConn.fail: failOnce
Fail(R, f) == IF R.fail = "" THEN [R EXCEPT !.fail = f] ELSE R

\* Client.Connect gives up: ClientSession.Close, which returns once the connection is done
ConnFail(R, res) ==
  IF R.jdone THEN [R EXCEPT !.cph = "done", !.conn = "err", !.connres = res, !.closing = TRUE]
  ELSE [R EXCEPT !.cph = "closing", !.connres = res, !.closing = TRUE]

\* Write of message t returns class w: jsonrpc2.write records a broken Writer unless the error is a rejection (or
\* the caller's context is over: w = "ctx"); then Call retires the call / Notify drops its count / the response
\* path drops the incoming count.  For the initialized notification Client.Connect goes on from here.
WriteRet(R, t, w) ==
  LET R1 == [R EXCEPT !.werr = @ \/ (w \in {"gone", "fatal"})]
      res == IF w = "ctx" THEN "rej" ELSE w
  IN
  CASE t \in CallTags ->
         IF w # "ok" /\ t \in R1.reg THEN [R1 EXCEPT !.reg = @ \ {t}, !.ret[t] = res] ELSE R1
    [] t = "inited" ->
         IF w = "ok" THEN [R1 EXCEPT !.nnotif = @ - 1, !.cph = "done", !.conn = "ok"]
         ELSE ConnFail([R1 EXCEPT !.nnotif = @ - 1], res)
    [] t = "n1" -> [R1 EXCEPT !.nnotif = @ - 1, !.nt = res]
    [] t = "r1" -> [R1 EXCEPT !.incoming = @ - 1, !.ping = "done"]

\* streamableClientConn.Write up to the POST: a failed connection refuses at once
StartWrite(R, t) ==
  IF R.fail # "" THEN WriteRet(R, t, R.fail) ELSE Send(R, t, TRUE)

\* Client.Connect after sessionUpdated: the initialized notification (jsonrpc2.Notify, then Write)
StartInited(R) ==
  IF R.reg = {} /\ R.incoming = 0 /\ Shutting(R)
  THEN ConnFail(R, "closed")
  ELSE LET R1 == [R EXCEPT !.cph = "inited", !.nnotif = @ + 1] IN
       IF R1.fail # "" THEN WriteRet(R1, "inited", R1.fail)
       ELSE IF R1.cancelled THEN WriteRet(R1, "inited", "ctx")     \* not sent: the context is already over
       ELSE Send(R1, "inited", TRUE)

-----------------------------------------------------------------------------
(* application                                                                *)
Connect ==
  /\ conn = "none"
  /\ Set(Send([S EXCEPT !.conn = "running", !.cph = "init", !.reg = {"init"}], "init", TRUE))

CancelConnect ==
  /\ AllowCancel /\ conn = "running" /\ ~cancelled
  /\ \/ /\ cph = "sa" /\ rq["get"].st = "open"
        /\ IF FixCancel
           THEN \* idealised: the GET is tied to Connect's context as well; Connect gives up and closes
                Set(ConnFail([S EXCEPT !.cancelled = TRUE, !.rq["get"].st = "done", !.sa = "refused",
                                       !.fatalSeen = TRUE], "rej"))
           ELSE Set([S EXCEPT !.cancelled = TRUE, !.fatalSeen = TRUE])                     \* D5
     \/ /\ cph = "inited" /\ rq["inited"].st = "open"
        /\ Set(WriteRet([S EXCEPT !.cancelled = TRUE, !.rq["inited"].st = "done",
                                  !.fatalSeen = TRUE], "inited", "ctx"))

Call(k) ==
  LET t == CallTag(k) IN
  /\ k \in 1..P.nc /\ conn = "ok" /\ rq[t].att = 0 /\ ret[t] = ""
  /\ \A j \in 1..(k - 1) : rq[CallTag(j)].att > 0 \/ ret[CallTag(j)] # ""      \* symmetry: calls are issued in order
  /\ IF Shutting(S) THEN Set([S EXCEPT !.ret[t] = "closed"])
     ELSE Set(StartWrite([S EXCEPT !.reg = @ \cup {t}], t))

Notify ==
  /\ MaxNotify > 0 /\ conn = "ok" /\ nt = "new"
  /\ IF reg = {} /\ incoming = 0 /\ Shutting(S) THEN Set([S EXCEPT !.nt = "closed"])
     ELSE Set(StartWrite([S EXCEPT !.nt = "writing", !.nnotif = @ + 1], "n1"))

Close ==
  /\ conn = "ok" /\ closeIss < MaxClose                               \* also while an earlier Close is still waiting
  /\ Set([S EXCEPT !.closeIss = @ + 1, !.closing = TRUE, !.closeRet = IF jdone THEN @ + 1 ELSE @, !.fatalSeen = TRUE])

-----------------------------------------------------------------------------
(* the scripted server                                                        *)
\* an answer that, by L5, must leave the connection alone
OkTwo(t, cls) == IF t \in CallTags THEN cls \in {"json", "sse"} ELSE TwoXX(cls)
Benign(R, t, cls, h) == \/ RejClass(cls)
                        \/ cls = "401" /\ OAuth /\ R.rq[t].att = 1
                        \/ TwoXX(cls) /\ OkTwo(t, cls) /\ (h = "" \/ R.sid \in {"", h})
AnsPostR(R, t, cls, h) ==
  LET R0 == [R EXCEPT !.rq[t].st = "done", !.fatalSeen = @ \/ ~Benign(R, t, cls, h)]
  IN
  CASE RejClass(cls) -> WriteRet(R0, t, "rej")
    [] cls = "401" -> IF OAuth /\ R.rq[t].att = 1 THEN [R0 EXCEPT !.rq[t].st = "auth", !.nauth = @ + 1]
                      ELSE WriteRet(Fail(R0, "fatal"), t, "fatal")
    [] cls = "404" -> WriteRet(Fail(R0, "gone"), t, "gone")
    [] cls = "http" -> WriteRet(Fail(R0, "fatal"), t, "fatal")
    [] OTHER ->   \* 2xx: the session id header is looked at first (D1)
       LET R1 == [R0 EXCEPT !.sid = IF h # "" /\ @ = "" THEN h ELSE @, !.issued = IF h # "" THEN @ \cup {h} ELSE @] IN
       IF h # "" /\ R0.sid # "" /\ R0.sid # h THEN WriteRet(R1, t, "fatal")                 \* mismatching session IDs
       ELSE IF t \notin CallTags THEN WriteRet(R1, t, "ok")                                   \* any 2xx will do
       ELSE CASE cls = "json" -> WriteRet([R1 EXCEPT !.inbox = IF R1.reading THEN Append(@, [k |-> t, v |-> "ok"]) ELSE @], t, "ok")
              [] cls = "badjson" -> WriteRet(Fail(R1, "fatal"), t, "ok")                      \* handleJSON fails to decode
              [] cls = "sse" -> WriteRet([R1 EXCEPT !.stream[t] = IF FixStream /\ R1.tc = "closed" THEN "done" ELSE "open"], t, "ok")
              [] OTHER -> WriteRet(R1, t, "fatal")                                            \* 202 / other content type

AnsPost(t, cls, h) ==
  /\ t \in PostTags /\ rq[t].st = "open" /\ cls \in PostSet
  /\ h \in (IF ~TwoXX(cls) THEN {""} ELSE IF t = "init" THEN InitH ELSE HSet)
  /\ (cls = "401" /\ OAuth /\ rq[t].att = 1) => nauth < MaxAuth
  /\ (cls \in {"rpcerr", "rpc404"}) => t \in CallTags      \* a JSON-RPC error needs the id of a call (a null id is the plain status)
  /\ Set(AnsPostR(S, t, cls, h))

Auth(t, out) ==
  /\ t \in PostTags /\ rq[t].st = "auth" /\ out \in {"ok", "fail"}
  /\ IF out = "ok" THEN Set(Send(S, t, FALSE))                                               \* D4
     ELSE Set(WriteRet([S EXCEPT !.rq[t].st = "done"], t, "rej"))

\* the end of the SSE response stream of call t: with the response, or without any event
Ev(t, how) ==
  /\ t \in CallTags /\ stream[t] = "open" /\ how \in {"resp", "eof"}
  /\ Set([S EXCEPT !.stream[t] = "done",
                   !.inbox = IF reading THEN Append(@, [k |-> t, v |-> IF how = "resp" THEN "ok" ELSE "eos"]) ELSE @])

AnsGet(cls) ==
  /\ rq["get"].st = "open" /\ cls \in GetSet
  /\ LET R0 == [S EXCEPT !.rq["get"].st = "done",
                         !.fatalSeen = @ \/ cls \in {"503sse", "neterr"}]
         R1 == CASE cls = "sse" -> [R0 EXCEPT !.sa = "open"]
                 [] cls = "503sse" -> Fail([R0 EXCEPT !.sa = "refused"], "rej")              \* D3
                 [] cls = "neterr" -> Fail([R0 EXCEPT !.sa = "refused"], "fatal")
                 [] OTHER -> [R0 EXCEPT !.sa = "refused"]
     IN Set([R1 EXCEPT !.cph = "sa2"])        \* Client.Connect goes on in ConnSA (the read loop may notice a failure first)

SaEv(kind) ==
  /\ sa = "open" /\ nsaev < MaxSaEv /\ kind \in {"note", "ping"} /\ (kind = "ping" => ping = "none")
  /\ Set([S EXCEPT !.nsaev = @ + 1, !.ping = IF kind = "ping" THEN "queued" ELSE @,
                   !.inbox = IF reading THEN Append(@, [k |-> kind, v |-> ""]) ELSE @])

\* streamableClientConn.Close after the DELETE: cancel the connection context, close done
Closed(R) ==
  [R EXCEPT !.tc = "closed",
            !.sa = IF @ = "open" THEN "closed" ELSE @,
            !.stream = IF FixStream THEN [t \in CallTags |-> IF R.stream[t] = "open" THEN "done" ELSE R.stream[t]] ELSE @]

DelTimeout ==
  /\ tc = "deleting"
  /\ Set(Closed([S EXCEPT !.rq["del"].st = "done", !.closeErr = TRUE]))

-----------------------------------------------------------------------------
(* SDK-internal steps                                                         *)

\* Client.Connect once the initialize call has returned
ConnInitG == cph = "init" /\ Back(S, "init")
ConnInit ==
  /\ ConnInitG
  /\ IF ret["init"] # "ok"
     THEN Set(ConnFail(S, ret["init"]))
     ELSE LET R1 == [S EXCEPT !.pv = TRUE] IN                                                \* sessionUpdated
          IF SA THEN Set(Send([R1 EXCEPT !.cph = "sa", !.sa = "wait"], "get", TRUE))         \* connectStandaloneSSE, synchronous
          ELSE Set(StartInited(R1))

\* Client.Connect once connectStandaloneSSE has returned: the initialized notification
ConnSAG == cph = "sa2"
ConnSA ==
  /\ ConnSAG
  /\ Set(StartInited(S))

\* jsonrpc2.readIncoming over streamableClientConn.Read
ReaderG == reading /\ fail = "" /\ inbox # <<>>
Reader ==
  /\ ReaderG
  /\ LET m == Head(inbox) R0 == [S EXCEPT !.inbox = Tail(@)] IN
     CASE m.k \in CallTags ->
            IF m.k \in reg THEN Set([R0 EXCEPT !.reg = @ \ {m.k}, !.ret[m.k] = m.v]) ELSE Set(R0)
       [] m.k = "note" -> IF Shutting(R0) THEN Set(R0) ELSE Set([R0 EXCEPT !.sanotes = @ + 1])   \* not enqueued while shutting down
       [] m.k = "ping" ->     \* acceptRequest, the handler, then the response: refused only by a broken Writer
            IF R0.werr THEN Set([R0 EXCEPT !.ping = "done"])
            ELSE Set(StartWrite([R0 EXCEPT !.ping = "posting", !.incoming = @ + 1], "r1"))

ReaderFailG == reading /\ fail # ""
ReaderFail ==
  /\ ReaderFailG
  /\ Set([S EXCEPT !.reading = FALSE, !.rerr = fail, !.reg = {}, !.goneAt = @ \/ (fail = "gone" /\ tc = "open"),
                   !.ret = [t \in CallTags |-> IF t \in reg THEN fail ELSE ret[t]]])

ReaderEOFG == reading /\ fail = "" /\ tc = "closed"
ReaderEOF ==
  /\ ReaderEOFG
  /\ Set([S EXCEPT !.reading = FALSE, !.rerr = "eof", !.reg = {},
                   !.ret = [t \in CallTags |-> IF t \in reg THEN "eof" ELSE ret[t]]])

\* the tail of updateInFlight: idle and shutting down -> streamableClientConn.Close
NeedTClose(R) == Idle(R) /\ Shutting(R) /\ R.tc = "open"
TClose ==
  /\ NeedTClose(S)
  /\ IF fail = "gone" \/ sid = "" THEN Set(Closed(S))
     ELSE LET R1 == [Send(S, "del", TRUE) EXCEPT !.ndel = @ + 1] IN
          IF DelCls = "timeout" THEN Set([R1 EXCEPT !.tc = "deleting"])
          ELSE Set(Closed([R1 EXCEPT !.rq["del"].st = "done", !.closeErr = (DelCls = "neterr")]))

NeedDone(R) == Idle(R) /\ Shutting(R) /\ R.tc = "closed" /\ ~R.reading /\ ~R.jdone
Done ==
  /\ NeedDone(S)
  /\ Set([S EXCEPT !.jdone = TRUE, !.closeRet = closeIss,
                   !.conn = IF cph = "closing" THEN "err" ELSE @, !.cph = IF cph = "closing" THEN "done" ELSE @])

\* the steps of updateInFlight's tail are part of the critical section that made them due; while the DELETE is
\* open the state lock is held (D7)
Urgent == NeedTClose(S) \/ NeedDone(S)
Locked == tc = "deleting"

\* the schedulable steps, each under its own name (TLC reports coverage and labels edges by these names)
Free == ~Locked /\ ~Urgent
TCloseN == ~Locked /\ TClose
DoneN == ~Locked /\ Done
ConnInitN == Free /\ ConnInit
ConnSAN == Free /\ ConnSA
ReaderN == Free /\ Reader
ReaderFailN == Free /\ ReaderFail
ReaderEOFN == Free /\ ReaderEOF
ConnectN == Free /\ Connect
CancelConnectN == Free /\ CancelConnect
NotifyN == Free /\ Notify
CloseN == Free /\ Close
CallN(k) == Free /\ Call(k)
AnsPostN(t, c, h) == Free /\ AnsPost(t, c, h)
AuthN(t, o) == Free /\ Auth(t, o)
EvN(t, w) == Free /\ Ev(t, w)
AnsGetN(c) == Free /\ AnsGet(c)
SaEvN(k) == Free /\ SaEv(k)

SDKNext == TCloseN \/ DoneN \/ ConnInitN \/ ConnSAN \/ ReaderN \/ ReaderFailN \/ ReaderEOFN
EnvNext == \/ DelTimeout \/ ConnectN \/ CancelConnectN \/ NotifyN \/ CloseN
           \/ \E k \in 1..NC : CallN(k)
           \/ \E t \in PostTags, c \in PostClasses, h \in {"", "A", "B"} : AnsPostN(t, c, h)
           \/ \E t \in PostTags, o \in {"ok", "fail"} : AuthN(t, o)
           \/ \E t \in CallTags, w \in {"resp", "eof"} : EvN(t, w)
           \/ \E c \in GetClasses : AnsGetN(c)
           \/ \E k \in {"note", "ping"} : SaEvN(k)
Next == SDKNext \/ EnvNext
Spec == Init /\ [][Next]_vars

\* no SDK-internal step is enabled (the guards of the internal actions)
Settled == ~(ConnInitG \/ ConnSAG \/ ReaderG \/ ReaderFailG \/ ReaderEOFG \/ NeedTClose(S) \/ NeedDone(S))

\* fairness: the SDK's own steps; the server answers every request (with some class of the configuration), ends
\* every response stream and lets the DELETE time out; authorizations return
ServerAnswers == \/ DelTimeout
                 \/ \E t \in PostTags, c \in PostClasses, h \in {"", "A", "B"} : AnsPostN(t, c, h)
                 \/ \E c \in GetClasses : AnsGetN(c)
                 \/ \E t \in PostTags, o \in {"ok", "fail"} : AuthN(t, o)
                 \/ \E t \in CallTags, w \in {"resp", "eof"} : EvN(t, w)
FairSpec == Spec /\ WF_vars(TCloseN \/ DoneN)
                 /\ WF_vars(ConnInitN \/ ConnSAN \/ ReaderN \/ ReaderFailN \/ ReaderEOFN)
                 /\ WF_vars(ServerAnswers)

-----------------------------------------------------------------------------
(* the properties on the model                                                *)
TypeOK ==
  /\ conn \in {"none", "running", "ok", "err"} /\ cph \in {"-", "init", "sa", "sa2", "inited", "closing", "done"}
  /\ sid \in {"", "A", "B"} /\ fail \in {"", "gone", "fatal", "rej"}
  /\ \A t \in Tags : rq[t].st \in {"none", "open", "auth", "done"} /\ rq[t].att \in 0..2
  /\ reg \subseteq CallTags /\ \A t \in CallTags : ret[t] \in Results \cup {""}
  /\ nnotif \in 0..2 /\ incoming \in 0..1 /\ tc \in {"open", "deleting", "closed"}
  /\ closeRet <= closeIss /\ rerr \in {"", "gone", "fatal", "rej", "eof"}

\* L1
SessionHeader ==
  /\ \A t \in Tags : rq[t].att > 0 => rq[t].hsid \in issued \cup {""}
  /\ rq["init"].att > 0 => rq["init"].hsid = ""
  /\ sid # "" => sid \in issued
\* L2
VersionHeader ==
  /\ rq["init"].att > 0 => ~rq["init"].hpv
  /\ \A t \in Tags \ {"init", "del"} : rq[t].att > 0 => rq[t].hpv
  /\ \A t \in Tags : (rq[t].att > 0 /\ rq[t].hpv) => ret["init"] = "ok"
\* L3 / D4
OnePostPerMessage == \A t \in Tags : rq[t].att = 2 => (OAuth /\ t \in PostTags)
\* L4
Standalone ==
  /\ rq["get"].att <= 1
  /\ rq["get"].att = 1 => (SA /\ rq["get"].hpv)
  /\ sa = "off" <=> ~SA
\* L5
PerMessage == (fail \in {"gone", "fatal"} \/ werr \/ fail = "rej") => fatalSeen
Usable == (~fatalSeen /\ conn = "ok") => (~Shutting(S) /\ tc = "open" /\ ndel = 0)
\* L6
GoneStops == ~late
GoneNoDelete == goneAt => ndel = 0
GoneFailsAll == (rerr = "gone") => (reg = {} /\ \A t \in AppCalls : (rq[t].att = 0 /\ ret[t] # "") => ret[t] \in {"closed", "gone"})
\* L7: after a terminal failure has been noticed nothing is registered any more
TerminalFailsPending == (rerr \in {"gone", "fatal", "rej"}) => reg = {}
\* L8
DeleteOnce == ndel <= 1 /\ (ndel = 1 => (rq["del"].hsid # "" /\ rq["del"].hsid \in issued))
DeleteWhenLive == /\ (tc # "open" /\ ndel = 0) => (fail = "gone" \/ rq["del"].att = 0)
                  /\ ndel = 1 => ~goneAt
CloseWaits == closeRet > 0 => (jdone /\ reg = {} /\ tc = "closed")
StandaloneCancelled == tc = "closed" => sa \notin {"open", "wait"}
\* every call is retired at most once is by construction (reg guards ret); a returned call stays returned
RetiredOnce == \A t \in CallTags : t \in reg => ret[t] = ""

\* leads (D5, D6): the idealised properties, violated by the model as implemented
NothingLeft == jdone => \A t \in CallTags : stream[t] # "open"
ConnectHonoursContext == (cancelled /\ Settled /\ tc # "deleting") => conn # "running"

\* L9
ConnectReturns == (conn = "running") ~> (conn \in {"ok", "err"})
CallsReturn == \A t \in AppCalls : (rq[t].att > 0 \/ ret[t] # "") ~> Back(S, t)
NotifyReturns == (nt = "writing") ~> (nt \notin {"new", "writing"})
CloseReturns == (closeIss > 0) ~> (closeRet = closeIss)
FailureEnds == (fail # "") ~> jdone
=============================================================================
