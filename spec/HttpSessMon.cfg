SPECIFICATION MSpec
CONSTANTS
  MIds = {1,2,3,4,5,6,7,8}
CONSTRAINT MMark
POSTCONDITION MAccepted
CHECK_DEADLOCK FALSE
