SPECIFICATION MSpec
CONSTANTS
  MIds = {1,2,3,4,5,6,7,8,9,10,11,12,13,14,15,16}
CONSTRAINT MMark
POSTCONDITION MAccepted
CHECK_DEADLOCK FALSE
