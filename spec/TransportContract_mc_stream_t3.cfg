SPECIFICATION Spec
CONSTANTS
  Class = "stream"
  Ideal = FALSE
  KSet = {"n", "orph"}
  NW <- W11
  NR <- W11
  NC <- W21
  WMax = 3
  CMax = 2
INVARIANTS TypeOK Fifo NoSpuriousError NoLoss RestAll ClosedStopsWrites
PROPERTIES ClosedForGood
CHECK_DEADLOCK FALSE
