SPECIFICATION Spec
CONSTANTS
  Senders = {"a", "b", "c"}
  MaxCalls = 2
  AdmitRule = "calls"
INVARIANTS TypeOK CountsMatch
PROPERTIES ClosedOnlyWhenIdle CloseTerminates SendersLearn
CHECK_DEADLOCK FALSE
