------------------------------ MODULE NotifyGen ------------------------------
(* Behaviour generation for the C18 scenario harness: Notify under the        *)
(* scenario discipline (Stepwise = TRUE) with a history of the ENVIRONMENT    *)
(* actions in the harness' step vocabulary.  Every history entry carries      *)
(* `pre`, the projection of the specification state in which the step was     *)
(* taken, i.e. the state the SDK had settled in after the previous step; the  *)
(* harness logs the same projection of the real server / clients after every  *)
(* step (binding; differences are drift, never a verdict).                    *)
(*   - exhaustive (BFS) on a small configuration: every complete behaviour is *)
(*     printed from the invariant Export when Terminal holds;                 *)
(*   - `-simulate`: the same print, one line per random behaviour;            *)
(*   - lead configurations: LeadNeverLost / LeadFresh print the scenario of   *)
(*     the counterexample that TLC is expected to find.                       *)
EXTENDS NotifyMC, Json

CONSTANTS MinSteps, MaxSteps,
          GenOps,  \* step vocabulary the generated scripts may use
          Script, \* <<>>, or the operations (names only) the environment performs, in this order: a directed scenario
                  \* family - TLC still chooses the arguments and every interleaving of the SDK's own steps
          Bias   \* simulation only: prefer letting time pass while a timer is armed (RandomElement)
VARIABLES hist, nh, stopped
gvars == <<vars, hist, nh, stopped>>

\* directed scenario families of the cache-race dimension (Notify_lead_cold*.cfg): the fill races the notification while
\* the cache is EMPTY - at the first call ever, or EMPTY AGAIN after a notification found it filled and emptied it, or
\* after everything in it expired
ScriptNone == <<>>
ScriptFirst == <<"hold", "list", "change", "tick", "tick", "release", "list">>   \* the first call ever
ScriptReadFirst == <<"subscribe", "hold", "list", "updated", "release", "list">>
ScriptRefill == <<"list", "change", "tick", "tick", "hold", "list", "change", "tick", "tick", "release", "list">>
ScriptExpired == <<"list", "expire", "hold", "list", "change", "tick", "tick", "release", "list">>
ScriptReadRefill == <<"subscribe", "list", "updated", "hold", "list", "updated", "release", "list">>
ScriptReadExpired == <<"subscribe", "list", "expire", "hold", "list", "updated", "release", "list">>

Topics == Notifs \cup Uris
Proj == [nh |-> nh, lsub |-> lsub, rsub |-> rsub, ref |-> [n \in Notifs |-> ref[n] # "nil"], now |-> now,
         \* what Server.capabilities() answers right now, and the sizes of the feature sets
         adv |-> [n \in Notifs |-> Adv(n, size)], size |-> size]
H(op, a1, a2) == /\ op \in GenOps
                 /\ Script = <<>> \/ (Len(hist) < Len(Script) /\ Script[Len(hist) + 1] = op)
                 /\ hist' = Append(hist, [op |-> op, a1 |-> a1, a2 |-> a2, pre |-> Proj])
Go == ~stopped /\ Len(hist) < MaxSteps
Same == UNCHANGED <<hist, nh, stopped>>
\* a listen request in the step vocabulary: the URIs in order, then those the SubscribeHandler rejects: "u1+u2/u2"
RECURSIVE Join(_)
Join(q) == IF q = <<>> THEN "" ELSE IF Len(q) = 1 THEN q[1] ELSE q[1] \o "+" \o Join(Tail(q))
ListenArg(q, rej) == Join(q) \o "/" \o Join(SelectSeq(q, LAMBDA u : u \in rej))

GenInit == Init /\ hist = <<>> /\ nh = [s \in Sessions |-> [t \in Topics |-> 0]] /\ stopped = FALSE

GenSdk ==
  \/ (\E n \in Notifs : TimerFire(n) \/ OrphFire(n) \/ CallbackRun(n)) /\ Same
  \/ RaceChange /\ Same
  \/ (\E s \in Sessions, u \in Uris : FinishUnsub(s, u)) /\ Same
  \/ (\E s \in Sessions : ListenStep(s)) /\ Same
  \/ (\E s \in Sessions : Read(s) \/ Invalidate(s)) /\ Same
  \/ \E s \in Sessions : UserHandler(s) /\ nh' = [nh EXCEPT ![s][hnd[s].msg.topic] = @ + 1] /\ UNCHANGED <<hist, stopped>>
  \/ (\E s \in Sessions, c \in Slots : ServeList(s, c) \/ CachePut(s, c)) /\ Same

TimeEnv ==
  \/ Tick /\ H("tick", "", "")
  \/ \E k \in Kinds, d \in Dirs : TickRace(k, d) /\ H("tchange", k, d)
OtherEnv ==
  \/ \E k \in Kinds, d \in Dirs : Change(k, d) /\ H("change", k, d)
  \/ \E u \in Uris : Updated(u) /\ H("updated", u, "")
  \/ \E s \in Sessions : (Connect(s) /\ H("connect", s, "")) \/ (Close(s) /\ H("close", s, ""))
  \/ \E s \in Sessions, u \in Uris : (Subscribe(s, u) /\ H("subscribe", s, u)) \/ (Unsubscribe(s, u) /\ H("unsubscribe", s, u))
  \/ \E s \in Listeners, q \in UriSeqs, rej \in SUBSET Uris : Listen(s, q, rej) /\ H("listen", s, ListenArg(q, rej))
  \/ \E s \in Listeners : Unlisten(s) /\ H("unlisten", s, "")
  \/ \E s \in Sessions, c \in Slots, i \in Items : ListStart(s, c, i) /\ H("list", s, i)
  \/ \E s \in Sessions : Expire(s) /\ H("expire", s, "")
  \/ \E g \in GateNames, s \in Sessions : (Hold(g, s) /\ Cardinality(gates) < 2 /\ H("hold", g, s)) \/ (Release(g, s) /\ H("release", g, s))
TickEn == EnvOK /\ now < MaxTime /\ \E n \in Notifs : TimerArmed(n)
GenEnv ==
  /\ Go /\ UNCHANGED <<nh, stopped>>
  /\ IF Bias /\ TickEn /\ RandomElement(1..5) <= 3 THEN TimeEnv ELSE (TimeEnv \/ OtherEnv)

\* the harness' drain: stop acting, open every gate, let every timer fire
Stop == /\ ~stopped /\ EnvOK /\ Len(hist) >= MinSteps
        /\ stopped' = TRUE /\ UNCHANGED <<vars, hist, nh>>
DrainRelease == /\ stopped /\ EnvOK /\ gates # {}
                /\ gates' = {}
                /\ UNCHANGED <<size, told, now, ver, ref, refDue, orph, cbs, sess, lsub, rsub, usub, pun, chan, nq, hnd, cache, cgen, call, handled, race, budget, ent, got, bad, lst>>
                /\ Same
DrainTick == /\ stopped /\ EnvOK /\ gates = {} /\ now < MaxTime + D
             /\ \E n \in Notifs : TimerArmed(n)
             /\ now' = now + 1
             /\ UNCHANGED <<size, told, ver, ref, refDue, orph, cbs, sess, lsub, rsub, usub, pun, chan, nq, hnd, cache, cgen, call, handled, gates, race, budget, ent, got, bad, lst>>
             /\ Same

GenNext == GenSdk \/ GenEnv \/ Stop \/ DrainRelease \/ DrainTick
GenSpec == GenInit /\ [][GenNext]_gvars

Terminal == stopped /\ Quiescent
Scenario(why) == [why |-> why, steps |-> hist, final |-> Proj, calls |-> call]
Export == IF Terminal THEN PrintT(ToJson(Scenario("terminal"))) ELSE TRUE

\* expected counterexamples (leads): print the scenario, then fail
LeadNeverLost == IF NeverLost THEN TRUE ELSE PrintT(ToJson(Scenario("NeverLost"))) /\ FALSE
LeadFresh == IF Fresh THEN TRUE ELSE PrintT(ToJson(Scenario("Fresh"))) /\ FALSE
LeadUpdated == IF UpdatedExactlySubscribers THEN TRUE ELSE PrintT(ToJson(Scenario("UpdatedExactlySubscribers"))) /\ FALSE
=============================================================================
