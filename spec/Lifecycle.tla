------------------------------ MODULE Lifecycle ------------------------------
(* Receive path of a server session: the initialization gate and the         *)
(* per-request `_meta` validation (property C06).                            *)
(*                                                                           *)
(*  Letters     the message alphabet (method x per-request meta class x      *)
(*              initialize-params class x spelling of the _meta keys on the  *)
(*              wire x presentation of the metadata: which members of the    *)
(*              params object are named `_meta` exactly / up to letter case, *)
(*              how often, and likewise for the entries inside)              *)
(*  Carried     which per-request metadata a message CARRIES, computed from  *)
(*              what is written (Members): everything below looks at         *)
(*              Mt(l) = Carried(l), never at the written classes             *)
(*  Step        the code-shaped transition: ServerSession.handle             *)
(*              (mcp/server.go), validateRequestMeta (mcp/shared.go),        *)
(*              handleReceive/checkRequest, ServerSession.initialize /       *)
(*              initialized, Server.discover -- check by check, in the       *)
(*              code's order.  Output per step: reply class and code on the  *)
(*              wire, the set of user-visible handlers invoked, the          *)
(*              InitializeParams snapshot, the next session state.           *)
(*  PStep,      the property: a phase tracker that looks only at messages    *)
(*  Clauses     and observations, and the clauses of C06 stated over         *)
(*              (tracker state, message, observation).  The same definitions *)
(*              judge the model (LifecycleMC) and the real code              *)
(*              (LifecycleMon).                                              *)
(*                                                                           *)
(* Everything here is SEQUENTIAL (one message, everything it causes, the     *)
(* next message) and looks at the session only.  Two extensions build on it: *)
(*  LifecycleRun   handlers with a DURATION: messages delivered while the    *)
(*                 handler of an earlier call or notification is still       *)
(*                 running; "ping is always served" as PingAlwaysServed      *)
(*  LifecycleHttp  the streamable HTTP transports: Mcp-Protocol-Version      *)
(*                 header x per-request _meta of the body x endpoint /       *)
(*                 session phase (the two may disagree)                      *)
EXTENDS Integers, Sequences, FiniteSets, TLC

\* types for Apalache (comments for TLC): a letter, the code-shaped session state, an observation, the phase tracker
\* @typeAlias: letter = {m: Str, mt: Str, ip: Str, sp: Str, mk: Str};
\* @typeAlias: lcst = {ip: Str, at: Int, idp: Bool};
\* @typeAlias: lcobs = {reply: Str, code: Int, nlist: Int, h: Set(Str), ipv: Str, tag: Int};
\* @typeAlias: lcmu = {acc: Bool, inited: Bool, modern: Bool, ipv: Str, tag: Int};
\* @typeAlias: lcres = {o: $lcobs, st: $lcst};
Lifecycle_typeAliases == TRUE

\* ---------------------------------------------------------------- alphabet
MInit     == "initialize"
MInited   == "notifications/initialized"
MPing     == "ping"
MCancel   == "notifications/cancelled"
MDiscover == "server/discover"
MRoots    == "notifications/roots/list_changed"
MProgress == "notifications/progress"
MSetLevel == "logging/setLevel"
MSub      == "resources/subscribe"
MUnsub    == "resources/unsubscribe"

\* feature calls that go through the `default:` branch of the method switch
GatedCalls == {"tools/list", "tools/call", "prompts/list", "prompts/get", "resources/list",
               "resources/templates/list", "resources/read", "completion/complete"}
\* feature calls that share the first `case` with initialize / ping
UngatedCalls == {MSetLevel, MSub, MUnsub}
FeatureCalls == GatedCalls \cup UngatedCalls
FeatureNotifs == {MRoots, MProgress}
Methods == {MInit, MInited, MPing, MCancel, MDiscover} \cup FeatureCalls \cup FeatureNotifs
Notifs == {MInited, MCancel, MRoots, MProgress}
IsNotif(m) == m \in Notifs

\* methods that do not exist in protocol 2026-07-28
Removed == {MInit, MPing, MInited, MRoots, MSetLevel, MSub, MUnsub}
\* what a legacy session may receive before initialize has been accepted
PreInitAllowed == {MInit, MInited, MPing, MCancel}

\* classes of per-request _meta (params._meta):
\*   none          no _meta at all
\*   legacy        protocolVersion is a string below "2026-07-28" (capabilities and info present)
\*   ok            2026-07-28, clientCapabilities and clientInfo present and well-formed
\*   noinfo        2026-07-28, clientInfo absent (optional), clientCapabilities fine
\*   nocaps        2026-07-28, clientCapabilities absent or null
\*   badcaps       2026-07-28, clientCapabilities of the wrong JSON type
\*   badinfo       2026-07-28, clientInfo of the wrong JSON type
\*   newer         a version string above 2026-07-28 that the SDK does not know; rest complete
\*   newer_nocaps  the same without clientCapabilities
MetaClasses == {"none", "legacy", "ok", "noinfo", "nocaps", "badcaps", "badinfo", "newer", "newer_nocaps"}
IsModernVer(mt) == mt \notin {"none", "legacy"}          \* carries the 2026-07-28 per-request metadata
MetaSupported(mt) == mt \notin {"newer", "newer_nocaps"}   \* names a version the server supports
MetaComplete(mt) == mt \in {"ok", "noinfo", "newer"}      \* capabilities present and well-formed, info well-formed if present

\* classes of initialize params: a known legacy version, an unknown older / newer string,
\* 2026-07-28 itself, "params" missing, "params": null
InitParamClasses == {"legacy", "unk_old", "unk_new", "modern", "missing", "null"}
GoodInit(ip) == ip \notin {"missing", "null"}

\* How the member names of the per-request metadata (`_meta` and the three io.modelcontextprotocol/... keys)
\* are WRITTEN on the wire.  A JSON string may write any character as an escape; the keys contain a
\* solidus, which JSON serialisers in the field do write escaped:
\*   plain   every character literally ("io.modelcontextprotocol/protocolVersion")
\*   esc     every solidus as the two-character escape \/ (PHP's json_encode default)
\*   uni     one or more characters (the solidus or any other, also of `_meta` itself) as \uXXXX
\* All three are the SAME JSON text value: a message class (m, mt, ip) means the same request in every
\* spelling.  Step, PStep and the clauses therefore never look at l.sp - "carrying the 2026-07-28
\* per-request metadata" is a statement about the JSON value, not about its bytes - and every spelling
\* of a class must be answered like the plain one.  Only meaningful when there is a _meta (mt # "none").
\* (Letter CASE is not a spelling: a name in another case is another name - see l.mk below.)
Spellings == {"plain", "esc", "uni"}

\* ---- presentation of the metadata in the params object (l.mk)
\* The per-request metadata of a request is the value of the member of `params` whose name is `_meta`,
\* read the way every other member of the request is read:
\*   * member names are matched EXACTLY; a member whose name differs from `_meta` in letter case
\*     (`_Meta`, `_META`, ...) is an unknown member of params and is ignored, whatever it contains and
\*     wherever it stands;
\*   * when a name occurs more than once the occurrences are read in order and the LAST one decides
\*     (a last occurrence with the value null leaves the request without metadata);
\*   * the same two rules hold for the entries inside the `_meta` object (the three
\*     io.modelcontextprotocol/... keys).
\* l.mt is the class of the metadata object that is WRITTEN most prominently; l.mk says where and how
\* often it is written; Members(l) spells this out and Carried(l) is the class the request carries:
\*   exact    one member `_meta` of class mt                                  (the ordinary request)
\*   case     no `_meta`; one case variant of it holds an object of class mt        -> carries nothing
\*   both     `_meta` of class mt, and next to it (before or after) a case variant holding an object of
\*            the opposite kind (complete and supported where mt is not, unsupported where mt is good),
\*            i.e. supplying the missing / overriding entries                        -> carries mt
\*   dup      `_meta` twice or three times: first object(s) of the opposite kind (or null), the last of
\*            class mt                                                               -> carries mt
\*   dupnull  `_meta` twice: an object of class mt, then null                       -> carries nothing
\*   icase    one `_meta` whose entries all stand under case variants of the three keys: the object has
\*            none of the three entries                                             -> carries nothing
\*   iboth    one `_meta` of class mt with, next to its entries, case variants of the keys holding the
\*            opposite kind of values                                               -> carries mt
\*   idup     one `_meta` with its keys twice (the version always): the opposite kind of value first,
\*            mt's value last                                                        -> carries mt
\* (dup / idup: the earlier occurrences repeat only keys that the last occurrence writes again - a missing
\* entry of the last one is written as an explicit null - so that "the last object decides" and "the last
\* entry of every key decides" are the same reading; the property does not choose between the two.)
Forms == {"exact", "case", "both", "dup", "dupnull", "icase", "iboth", "idup"}
Opposite(mt) == IF mt \in {"ok", "noinfo"} THEN "newer" ELSE "ok"

\* class of ONE written metadata object, from how its entries are written
ObjClass(mt, mk) ==
  CASE mk = "icase" -> "empty"      \* no entry under an exact key
    [] mk = "iboth" -> mt           \* exact entries decide; the variants are other keys
    [] mk = "idup"  -> mt           \* the last entry of every key decides
    [] OTHER        -> mt
\* the members of params named `_meta` up to letter case, in wire order: <<"exact" | "variant", class of the value>>
\* @type: $letter => Seq(<<Str, Str>>);
Members(l) ==
  CASE l.mt = "none"     -> <<>>
    [] l.mk = "case"     -> << <<"variant", l.mt>> >>
    [] l.mk = "both"     -> << <<"exact", l.mt>>, <<"variant", Opposite(l.mt)>> >>
    [] l.mk = "dup"      -> << <<"exact", Opposite(l.mt)>>, <<"exact", l.mt>> >>
    [] l.mk = "dupnull"  -> << <<"exact", l.mt>>, <<"exact", "null">> >>
    [] OTHER             -> << <<"exact", ObjClass(l.mt, l.mk)>> >>
\* @type: $letter => Seq(<<Str, Str>>);
ExactMembers(l) == LET \* @type: <<Str, Str>> => Bool;
                       IsExact(e) == e[1] = "exact"      \* (a named LAMBDA: Apalache needs its type)
                   IN SelectSeq(Members(l), IsExact)
\* THE reading: only exact members count, the last one decides, null / an object without the entries = nothing
\* @type: $letter => Str;
Carried(l) ==
  LET ex == ExactMembers(l) IN
  IF ex = <<>> THEN "none"
  ELSE LET c == ex[Len(ex)][2] IN IF c \in {"null", "empty"} THEN "none" ELSE c
\* @type: $letter => Str;
Mt(l) == Carried(l)

\* Two WRONG readings, used only to show that no presentation is redundant (ASSUME below): matching names
\* without regard to letter case and merging what matches (encoding/json's way), and letting the first
\* occurrence decide.
\* @type: $letter => Str;
ReadIgnoringCase(l) ==
  CASE l.mt = "none" -> "none"
    [] l.mk \in {"case", "icase"} -> l.mt
    [] l.mk \in {"both", "iboth"} -> Opposite(l.mt)
    [] OTHER -> Carried(l)
\* @type: $letter => Str;
ReadFirstWins(l) ==
  CASE l.mt = "none" -> "none"
    [] l.mk \in {"dup", "idup"} -> Opposite(l.mt)
    [] l.mk = "dupnull" -> l.mt
    [] OTHER -> Carried(l)
\* @type: Str => <<Bool, Bool, Bool>>;
Verdict3(mt) == <<IsModernVer(mt), MetaComplete(mt), MetaSupported(mt)>>

\* which (class, presentation) pairs are in the alphabet besides the ordinary one
BothClasses == {"legacy", "ok", "nocaps", "badcaps", "newer", "newer_nocaps"}
FormCombos ==
  ({"ok", "newer"} \X {"case"}) \cup ({"ok"} \X {"icase", "dupnull"}) \cup
  (BothClasses \X {"both", "dup"}) \cup
  ({"nocaps", "newer"} \X {"iboth"}) \cup ({"ok", "nocaps", "newer"} \X {"idup"})

\* @type: (Str, Str, Str, Str, Str) => $letter;
L(m, mt, ip, sp, mk) == [m |-> m, mt |-> mt, ip |-> ip, sp |-> sp, mk |-> mk]
Letters ==
  {L(MInit, "none", p, "plain", "exact") : p \in InitParamClasses} \cup
  {L(MInit, t, "legacy", s, "exact") : t \in MetaClasses \ {"none"}, s \in Spellings} \cup
  {L(m, "none", "na", "plain", "exact") : m \in Methods \ {MInit}} \cup
  {L(m, t, "na", s, "exact") : m \in Methods \ {MInit}, t \in MetaClasses \ {"none"}, s \in Spellings} \cup
  {L(MInit, c[1], "legacy", "plain", c[2]) : c \in FormCombos} \cup
  {L(m, c[1], "na", "plain", c[2]) : m \in Methods \ {MInit}, c \in FormCombos}

\* every presentation other than the ordinary one is read differently - with a different verdict-relevant
\* outcome - by at least one of the two wrong readings
ASSUME \A l \in Letters : l.mk # "exact" =>
          \/ Verdict3(ReadIgnoringCase(l)) # Verdict3(Carried(l))
          \/ Verdict3(ReadFirstWins(l)) # Verdict3(Carried(l))
ASSUME \A l \in Letters : l.mk = "exact" => Carried(l) = l.mt

\* the letters whose sequences are enumerated completely
CoreLetters ==
  { L(MInit, "none", "legacy", "plain", "exact"), L(MInit, "none", "missing", "plain", "exact"), L(MInit, "none", "unk_new", "plain", "exact"),
    L(MInited, "none", "na", "plain", "exact"), L(MPing, "none", "na", "plain", "exact"), L(MCancel, "none", "na", "plain", "exact"),
    L("tools/list", "none", "na", "plain", "exact"), L("tools/call", "none", "na", "plain", "exact"),
    L(MSub, "none", "na", "plain", "exact"), L(MSetLevel, "none", "na", "plain", "exact"), L(MRoots, "none", "na", "plain", "exact"),
    L(MProgress, "none", "na", "plain", "exact"),
    L("tools/list", "ok", "na", "plain", "exact"), L("tools/list", "nocaps", "na", "plain", "exact"), L("tools/list", "newer", "na", "plain", "exact"),
    L(MDiscover, "ok", "na", "plain", "exact"), L(MDiscover, "none", "na", "plain", "exact"), L(MPing, "ok", "na", "plain", "exact"),
    \* the same JSON in another spelling: an invalid request that must not reach the tool handler, a removed method
    L("tools/call", "newer", "na", "esc", "exact"), L(MPing, "ok", "na", "uni", "exact"),
    \* what only LOOKS like per-request metadata: a case variant of `_meta` alone (a legacy request), and next to an
    \* incomplete `_meta` whose missing entry it supplies (an invalid request)
    L("tools/call", "ok", "na", "plain", "case"), L("tools/list", "nocaps", "na", "plain", "both") }

\* ------------------------------------------------------- observations
\* reply: "result" | "error" | "none"; code: JSON-RPC error code (0 when there is none or the
\* error carries no code); nlist: number of entries of error.data.supported; h: user-visible
\* handlers invoked while the message was processed; ipv / tag: InitializeParams() after the step
\* (version class, "nil" when unset; the index of the message that supplied them, 0 when unset)
Handlers == {"mw", "tool", "prompt", "resource", "completion", "subscribe", "unsubscribe", "roots",
             "progress", "inited"}
IpClasses == {"nil", "legacy", "unk_old", "unk_new", "modern"}
NSupported == 5     \* len(supportedProtocolVersions)

CInvalidRequest == -32600
CMethodNotFound == -32601
CInvalidParams  == -32602
CUnsupportedVer == -32022

\* ------------------------------------------------ code-shaped transition
\* session state: InitializeParams (class of its protocolVersion, "nil" if unset; `at` = index of
\* the message that set it) and whether InitializedParams is set
St0 == [ip |-> "nil", at |-> 0, idp |-> FALSE]

\* @type: (Str, Int, Int, Set(Str), $lcst) => $lcobs;
Obs(reply, code, nlist, h, st) ==
  [reply |-> reply, code |-> code, nlist |-> nlist, h |-> h, ipv |-> st.ip, tag |-> st.at]
\* an error returned by handle: a call gets an error reply, a notification gets nothing
\* @type: ($letter, Int, Int, Set(Str), $lcst) => $lcres;
Reject(l, code, nlist, h, st) ==
  [o |-> IF IsNotif(l.m) THEN Obs("none", 0, 0, h, st) ELSE Obs("error", code, nlist, h, st), st |-> st]
\* @type: ($letter, Set(Str), $lcst) => $lcres;
Serve(l, h, st) ==
  [o |-> IF IsNotif(l.m) THEN Obs("none", 0, 0, h, st) ELSE Obs("result", 0, 0, h, st), st |-> st]

\* the method handler behind the receiving middleware
FeatureHandler(m) ==
  CASE m = "tools/call" -> {"tool"}
    [] m = "prompts/get" -> {"prompt"}
    [] m = "resources/read" -> {"resource"}
    [] m = "completion/complete" -> {"completion"}
    [] m = MSub -> {"subscribe"}
    [] m = MUnsub -> {"unsubscribe"}
    [] m = MRoots -> {"roots"}
    [] m = MProgress -> {"progress"}
    [] OTHER -> {}

\* handleReceive: checkRequest, unmarshalParams, receiving middleware, method handler
\* @type: ($lcst, $letter, Int) => $lcres;
Receive(st, l, n) ==
  IF l.m = MInit /\ l.ip = "missing" THEN Reject(l, CInvalidRequest, 0, {}, st)     \* checkRequest
  ELSE IF l.m = MInit /\ l.ip = "null" THEN Reject(l, 0, 0, {}, st)                \* initializeMethodInfo.unmarshalParams
  ELSE IF l.m = MInit THEN
    (IF st.ip # "nil" THEN Reject(l, 0, 0, {"mw"}, st)                              \* duplicate initialize
     ELSE Serve(l, {"mw"}, [st EXCEPT !.ip = l.ip, !.at = n]))
  ELSE IF l.m = MInited THEN
    (IF st.ip = "nil" \/ st.idp THEN Reject(l, 0, 0, {"mw"}, st)                    \* premature / duplicate
     ELSE Serve(l, {"mw", "inited"}, [st EXCEPT !.idp = TRUE]))
  ELSE IF l.m = MDiscover THEN
    Serve(l, {"mw"}, [st EXCEPT !.ip = "modern", !.at = n])                         \* Server.discover overwrites
  ELSE Serve(l, {"mw"} \cup FeatureHandler(l.m), st)

\* ServerSession.handle for the n-th message of the session.  validateRequestMeta reads params._meta through
\* extractRequestMeta, which uses the SDK's request decoder (exact member names, later occurrences over
\* earlier ones): what it sees is Carried(l).
\* @type: ($lcst, $letter, Int) => $lcres;
Step(st, l, n) ==
  LET new == IsModernVer(Mt(l)) IN
  \* validateRequestMeta: clientInfo if present, then clientCapabilities
  IF new /\ Mt(l) = "badinfo" THEN Reject(l, CInvalidParams, 0, {}, st)
  ELSE IF new /\ Mt(l) \in {"nocaps", "badcaps", "newer_nocaps"} THEN Reject(l, CInvalidParams, 0, {}, st)
  \* supported-version check
  ELSE IF new /\ ~MetaSupported(Mt(l)) THEN Reject(l, CUnsupportedVer, NSupported, {}, st)
  \* method switch
  ELSE IF l.m \in Removed THEN
    (IF new THEN Reject(l, CMethodNotFound, 0, {}, st)
     \* of the methods sharing this case only the lifecycle ones are served before initialization
     ELSE IF st.ip = "nil" /\ l.m \notin {MInit, MPing, MInited} THEN Reject(l, 0, 0, {}, st)
     ELSE Receive(st, l, n))
  ELSE IF l.m = MDiscover THEN
    (IF ~new THEN Reject(l, CMethodNotFound, 0, {}, st) ELSE Receive(st, l, n))
  ELSE IF st.ip = "nil" /\ ~new THEN Reject(l, 0, 0, {}, st)                        \* invalid during initialization
  ELSE IF st.ip = "nil" /\ new THEN Receive([st EXCEPT !.ip = "modern", !.at = n], l, n)
  ELSE Receive(st, l, n)

\* ------------------------------------------------------------ the property
\* Phase tracker: looks only at the messages sent and at what was observed.
\*   acc     a legacy initialize request has been answered with a result
\*   inited  an initialized notification arrived after that
\*   modern  a request with complete, supported 2026-07-28 metadata has been served: the session is
\*           no longer a legacy-protocol session (the first sentence of C06 does not speak about it)
\*   ipv/tag the InitializeParams snapshot after the previous message
Mu0 == [acc |-> FALSE, inited |-> FALSE, modern |-> FALSE, ipv |-> "nil", tag |-> 0]

\* @type: $lcobs => Bool;
Served(o) == o.reply = "result" \/ o.h # {}
\* @type: $lcobs => Bool;
HandlerServed(o) == o.reply = "result" \/ (o.h \ {"mw"}) # {}
\* @type: $letter => Bool;
LegacyMsg(l) == ~IsModernVer(Mt(l))
\* ms: the endpoint serves protocol 2026-07-28 at all (FALSE on a stateful streamable HTTP endpoint, whose
\* transport refuses it): "names a supported version" is relative to the endpoint.  server/discover is the
\* negotiation request itself: such an endpoint answers it with its own (legacy-only) version list instead
\* of -32022, so for discover only the SDK-level support of the named version counts.
\* @type: ($letter, Bool) => Bool;
VerSupported(l, ms) == MetaSupported(Mt(l)) /\ (ms \/ l.m = MDiscover)
\* @type: ($letter, Bool) => Bool;
ModernGood(l, ms) == IsModernVer(Mt(l)) /\ MetaComplete(Mt(l)) /\ VerSupported(l, ms)

\* @type: ($lcmu, $letter, $lcobs, Bool) => $lcmu;
PStep(mu, l, o, ms) ==
  [acc    |-> mu.acc \/ (l.m = MInit /\ LegacyMsg(l) /\ o.reply = "result"),
   inited |-> mu.inited \/ (l.m = MInited /\ LegacyMsg(l) /\ mu.acc),
   modern |-> mu.modern \/ (ModernGood(l, ms) /\ l.m \notin Removed /\ Served(o)),
   ipv    |-> o.ipv,
   tag    |-> o.tag]

\* @type: $lcmu => Str;
\* (spelled out: Apalache has no concatenation of strings; the same six names as
\*  (IF mu.inited THEN "initialized" ELSE IF mu.acc THEN "initAccepted" ELSE "fresh") \o (IF mu.modern THEN "+modern" ELSE ""))
PhaseName(mu) == IF mu.modern
                 THEN (IF mu.inited THEN "initialized+modern" ELSE IF mu.acc THEN "initAccepted+modern" ELSE "fresh+modern")
                 ELSE (IF mu.inited THEN "initialized" ELSE IF mu.acc THEN "initAccepted" ELSE "fresh")

\* @type: ($lcmu, $lcobs) => Bool;
StateUnchanged(mu, o) == o.ipv = mu.ipv /\ o.tag = mu.tag
\* @type: $lcmu => Bool;
LegacySession(mu) == ~mu.modern

\* On a legacy-protocol session nothing other than initialize, initialized, ping and cancellation
\* reaches server-side handlers until an initialize request has been accepted.
\* @type: ($lcmu, $letter, $lcobs) => Bool;
GateBeforeInit(mu, l, o) ==
  (LegacySession(mu) /\ ~mu.acc /\ LegacyMsg(l) /\ l.m \notin PreInitAllowed)
     => (~Served(o) /\ o.ipv = "nil")
\* A second initialize is rejected without changing session state.
\* @type: ($lcmu, $letter, $lcobs) => Bool;
DuplicateInitRejected(mu, l, o) ==
  (mu.acc /\ l.m = MInit /\ LegacyMsg(l)) => (o.reply = "error" /\ StateUnchanged(mu, o))
\* An initialized notification before initialize was accepted is rejected without changing state.
\* @type: ($lcmu, $letter, $lcobs) => Bool;
PrematureInitializedRejected(mu, l, o) ==
  (LegacySession(mu) /\ ~mu.acc /\ l.m = MInited /\ LegacyMsg(l))
     => ("inited" \notin o.h /\ o.reply # "result" /\ StateUnchanged(mu, o))
\* A repeated initialized notification is rejected without changing state.
\* @type: ($lcmu, $letter, $lcobs) => Bool;
RepeatedInitializedRejected(mu, l, o) ==
  (mu.acc /\ mu.inited /\ l.m = MInited /\ LegacyMsg(l))
     => ("inited" \notin o.h /\ o.reply # "result" /\ StateUnchanged(mu, o))
\* ... "without changing session state", seen from outside: whatever was rejected before, the first initialized
\* notification after an accepted initialize is the one that takes effect (the InitializedHandler runs).
\* @type: ($lcmu, $letter, $lcobs) => Bool;
FirstInitializedTakesEffect(mu, l, o) ==
  (LegacySession(mu) /\ mu.acc /\ ~mu.inited /\ l.m = MInited /\ LegacyMsg(l)) => "inited" \in o.h
\* ping is always served.
\* @type: ($lcmu, $letter, $lcobs) => Bool;
PingAlways(mu, l, o) == (LegacySession(mu) /\ l.m = MPing /\ LegacyMsg(l)) => o.reply = "result"
\* Requests carrying 2026-07-28 metadata are served (without a handshake) only if the metadata is
\* complete and names a supported version; otherwise -32602, or -32022 listing the supported versions.
\* @type: ($lcmu, $letter, $lcobs, Bool) => Bool;
ModernServedIffMetaComplete(mu, l, o, ms) ==
  (IsModernVer(Mt(l)) /\ ~ModernGood(l, ms)) =>
     /\ ~Served(o)
     /\ StateUnchanged(mu, o)
     /\ (~IsNotif(l.m) =>
           /\ o.reply = "error"
           /\ \/ (o.code = CInvalidParams /\ ~MetaComplete(Mt(l)))
              \/ (o.code = CUnsupportedVer /\ o.nlist > 0 /\ ~VerSupported(l, ms)))
\* Methods removed from 2026-07-28 are answered method-not-found.
\* @type: ($lcmu, $letter, $lcobs, Bool) => Bool;
RemovedMethodsNotFound(mu, l, o, ms) ==
  (ModernGood(l, ms) /\ l.m \in Removed) =>
     /\ ~HandlerServed(o)
     /\ StateUnchanged(mu, o)
     /\ (~IsNotif(l.m) => (o.reply = "error" /\ o.code = CMethodNotFound))

ClauseNames == {"GateBeforeInit", "DuplicateInitRejected", "PrematureInitializedRejected",
                "RepeatedInitializedRejected", "FirstInitializedTakesEffect", "PingAlways", "ModernServedIffMetaComplete",
                "RemovedMethodsNotFound"}
\* @type: (Str, $lcmu, $letter, $lcobs, Bool) => Bool;
ClauseHolds(c, mu, l, o, ms) ==
  CASE c = "GateBeforeInit" -> GateBeforeInit(mu, l, o)
    [] c = "DuplicateInitRejected" -> DuplicateInitRejected(mu, l, o)
    [] c = "PrematureInitializedRejected" -> PrematureInitializedRejected(mu, l, o)
    [] c = "RepeatedInitializedRejected" -> RepeatedInitializedRejected(mu, l, o)
    [] c = "FirstInitializedTakesEffect" -> FirstInitializedTakesEffect(mu, l, o)
    [] c = "PingAlways" -> PingAlways(mu, l, o)
    [] c = "ModernServedIffMetaComplete" -> ModernServedIffMetaComplete(mu, l, o, ms)
    [] c = "RemovedMethodsNotFound" -> RemovedMethodsNotFound(mu, l, o, ms)
\* @type: ($lcmu, $letter, $lcobs, Bool) => Set(Str);
Failed(mu, l, o, ms) == {c \in ClauseNames : ~ClauseHolds(c, mu, l, o, ms)}

\* premises (for vacuity witnesses): the clause says something about this step
\* @type: (Str, $lcmu, $letter, Bool) => Bool;
Premise(c, mu, l, ms) ==
  CASE c = "GateBeforeInit" -> LegacySession(mu) /\ ~mu.acc /\ LegacyMsg(l) /\ l.m \notin PreInitAllowed
    [] c = "DuplicateInitRejected" -> mu.acc /\ l.m = MInit /\ LegacyMsg(l)
    [] c = "PrematureInitializedRejected" -> LegacySession(mu) /\ ~mu.acc /\ l.m = MInited /\ LegacyMsg(l)
    [] c = "RepeatedInitializedRejected" -> mu.acc /\ mu.inited /\ l.m = MInited /\ LegacyMsg(l)
    [] c = "FirstInitializedTakesEffect" -> LegacySession(mu) /\ mu.acc /\ ~mu.inited /\ l.m = MInited /\ LegacyMsg(l)
    [] c = "PingAlways" -> LegacySession(mu) /\ l.m = MPing /\ LegacyMsg(l)
    [] c = "ModernServedIffMetaComplete" -> IsModernVer(Mt(l)) /\ ~ModernGood(l, ms)
    [] c = "RemovedMethodsNotFound" -> ModernGood(l, ms) /\ l.m \in Removed

\* Outside the first sentence of C06 (not judged, only counted): a session that has served a 2026-07-28
\* request without any initialize, and then serves legacy traffic / accepts initialized.
\* @type: ($lcmu, $letter, $lcobs) => Bool;
OutsideLegacyScope(mu, l, o) ==
  /\ mu.modern /\ ~mu.acc /\ LegacyMsg(l)
  /\ \/ (l.m \notin PreInitAllowed /\ Served(o))
     \/ (l.m = MInited /\ "inited" \in o.h)

\* The documented departure of the code-shaped Step from the property (DESIGN.md section 9, lead 4):
\* these methods sit in the ungated `case` of the method switch and are served on a fresh session.
\* It is a lead of the model; it becomes a finding only when the real code reproduces it.
\* (historical lead: logging/setLevel, resources/subscribe, resources/unsubscribe and roots/list_changed used to be
\* served before initialize; repaired in /repo, see KNOWN_FINDINGS.txt - the model has no departure left)
\* @type: ($lcmu, $letter) => Bool;
UngatedLead(mu, l) == FALSE
=============================================================================
