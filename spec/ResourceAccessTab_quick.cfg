CONSTANTS
  TailLen = 2
  PathLen = 2
