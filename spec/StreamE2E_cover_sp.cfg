SPECIFICATION Spec
CONSTANTS
  Reqs <- R1
  HasSa = TRUE
  PrimeSet <- OnlyPrime
  MaxRetries = 2
  MaxWrites = 2
  MaxCuts = 2
  MaxFails = 1
  ArmN = 0
  CutHows <- HowsAll
  FailKinds <- FailsBasic
  SrvRenumberBug = FALSE

CHECK_DEADLOCK FALSE
