SPECIFICATION GenSpec
CONSTANTS
  Sessions = {"M1", "M2"}
  Legacy = {}
  InitOn = {"M1", "M2"}
  InitSub = {}
  Kinds = {}
  NotifOf <- NotifStd
  Uris = {"u1", "u2"}
  Want <- WantAll
  CapOff = {}
  CapMode <- ModeInferred
  InitSize <- Size3
  MaxSize = 3
  Dirs = {"mod"}
  SendGate = "configured"
  TTLPos = FALSE
  D = 2
  MaxTime = 2
  MaxChanges = 0
  MaxUpdates = 1
  MaxCalls = 0
  NPages = 1
  ListenOwns = TRUE
  ResubRace = TRUE
  GenCheck = TRUE
  ColdBump = TRUE
  ModernUnsub = TRUE
  ForeignUnsub = FALSE
  Listeners = {"M1"}
  MaxListens = 2
  FailUndo = TRUE
  Stepwise = TRUE
  Gates = FALSE
  GateNames = {}
  ClientFirst = FALSE
  MinSteps = 1
  MaxSteps = 4
  Bias = FALSE
  Script <- ScriptNone
  GenOps = {"listen", "unlisten", "subscribe", "unsubscribe", "updated", "close"}
INVARIANTS Export UpdatedExactlySubscribers SubsOnlyCurrent ForgottenOnClose
CHECK_DEADLOCK FALSE
