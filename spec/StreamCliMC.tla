---------------------------- MODULE StreamCliMC ----------------------------
(* Bounded configurations of StreamCli (property C09).                       *)
(*  StreamCli_mc_fixed.cfg  the design the property asks for (all three      *)
(*                          switches on): every invariant, exhaustively.      *)
(*  StreamCli_mc_asis.cfg   the code as it stands: what holds regardless     *)
(*                          (types, termination, the call never hangs).       *)
(*  StreamCli_gen*.cfg      the code as it stands; every terminal state is   *)
(*                          exported as a scenario for the Go harness: the    *)
(*                          environment's choices (cuts, answers), the        *)
(*                          code-shaped expectation and the invariants the    *)
(*                          model predicts to be violated (leads).            *)
(*                          gen1: every single-cut behaviour; gen2 / gen3:    *)
(*                          every two- / three-cut behaviour of reduced       *)
(*                          configurations; gen1L: the 13-event stream;       *)
(*                          genI: up to 6 cuts, progress and no progress       *)
(*                          alternating (CONSTRAINT Interleaved).             *)
(*                          genR: one cut anywhere, then runs of k bodies that *)
(*                          end at offset 0, k up to MaxRetries + 1, followed  *)
(*                          by a whole body (CONSTRAINT Runs); genK: the same  *)
(*                          against a stuck server (the run never ends);       *)
(*                          genS: single cuts on event boundaries, every       *)
(*                          sequence of answers over the whole status class.   *)
EXTENDS StreamCli, Json

Viol == {nm \in {"ExactlyOnceInOrder", "NoTruncatedSurfaced", "ResumeCursor", "RealResponseWithinBudget", "CleanFailure",
                 "BoundedRetries"} :
           \/ nm = "BoundedRetries" /\ ~BoundedRetries(ObsOf)
           \/ nm = "ExactlyOnceInOrder" /\ ~ExactlyOnceInOrder(ObsOf)
           \/ nm = "NoTruncatedSurfaced" /\ ~NoTruncatedSurfaced(ObsOf)
           \/ nm = "ResumeCursor" /\ ~ResumeCursor(ObsOf)
           \/ nm = "RealResponseWithinBudget" /\ ~RealResponseWithinBudget(ObsOf)
           \/ nm = "CleanFailure" /\ ~CleanFailure(ObsOf)}
\* used as an invariant: evaluated once per distinct state, TRUE always
Export == IF Done THEN PrintT(ToJson([cfg |-> cfg, exp |-> ObsOf, viol |-> Viol])) ELSE TRUE

AllShapes == Shapes
FirstOnly == {[ids |-> "all", prime |-> "first"]}
TwoShapes == {[ids |-> "all", prime |-> "first"], [ids |-> "all", prime |-> "none"]}
PrimedShapes == {[ids |-> "all", prime |-> "first"], [ids |-> "all", prime |-> "every"]}
IdShapes == {[ids |-> "all", prime |-> "first"], [ids |-> "all", prime |-> "every"], [ids |-> "all", prime |-> "none"]}

\* State constraint of the generation configuration "genI" (interleaved progress / no progress): long
\* scripts in which bodies that bring a new id across alternate with bodies that bring none, so that
\* the TOTAL number of fruitless bodies exceeds the budget while no stretch without progress does.
\* Cuts are read errors on event boundaries (plus the server's own end of a finished POST stream).
Progressed(i) == bodies[i].knd # "none" /\ ~NoProg(ObsOf, i)
Interleaved ==
  \A i \in 1..Len(bodies) :
    /\ bodies[i].knd \in {"none", "err"} \/ bodies[i].from >= cfg.M
    /\ i >= 2 => ~(NoProg(ObsOf, i) /\ NoProg(ObsOf, i - 1))
    /\ i >= 2 => ~(Progressed(i) /\ Progressed(i - 1))

\* State constraint of the generation configurations "genR" / "genK" (runs of empty resumed bodies): the first
\* body is cut anywhere; every later body is served whole or ends at offset 0 (read error or clean EOF: the
\* server, or a proxy, accepts the resumption with 200 and delivers nothing; the same termination every time).
\* With MaxCuts = 5 and MaxRetries
\* up to 3 the runs have every length k from 1 to MaxRetries + 1 (the client gives up) after progress was made;
\* at most MaxFailed attempts fail in between.
EmptyBody(b) == b.knd # "none" /\ b.cls = "bnd" /\ b.n = 0
NFailed == LET f[i \in 0..Len(recon)] ==
                 IF i = 0 THEN Cardinality({j \in 1..Len(outs) : outs[j] # "ok"})
                 ELSE f[i - 1] + Cardinality({j \in 1..Len(recon[i].outs) : recon[i].outs[j] # "ok"})
           IN f[Len(recon)]
Runs ==
  /\ \A i \in 2..Len(bodies) : bodies[i].knd = "none" \/ EmptyBody(bodies[i]) \/ bodies[i].from >= cfg.M
  /\ \A i, j \in 2..Len(bodies) :    \* one kind of termination per script (mixed kinds: gen2, gen3)
        (EmptyBody(bodies[i]) /\ EmptyBody(bodies[j]) /\ bodies[i].from < cfg.M /\ bodies[j].from < cfg.M)
           => bodies[i].knd = bodies[j].knd
  /\ NFailed <= 1

\* reachability witnesses (each must be VIOLATED, otherwise the model is vacuous)
NeverResumed == ~(outcome = "resp" /\ Len(recon) >= 2)
NeverExhausted == ~(failed /\ rwp > cfg.mr)
NeverGaveUpAttempts == ~(failed /\ att > cfg.mr /\ cfg.mr > 0)
NeverSynthetic == ~(outcome = "err" /\ ~failed)
NeverStandaloneDone == ~(outcome = "open" /\ Len(recon) >= 1)
\* a stuck server was given up on after progress had been made: more bodies than MaxCuts were cut
NeverGaveUpOnStuck == ~(failed /\ cfg.tail = "stuck" /\ rwp > cfg.mr /\ prev # None /\ ncut > MaxCuts)
NeverRetriedStatus == ~(outcome = "resp" /\ \E i \in 1..Len(recon) : \E j \in 1..Len(recon[i].outs) : recon[i].outs[j] \in TransientStatus)
=============================================================================
