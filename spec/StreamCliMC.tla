---------------------------- MODULE StreamCliMC ----------------------------
(* Bounded configurations of StreamCli (property C09).                       *)
(*  StreamCli_mc_fixed.cfg  the design the property asks for (all three      *)
(*                          switches on): every invariant, exhaustively.      *)
(*  StreamCli_mc_asis.cfg   the code as it stands: what holds regardless     *)
(*                          (types, termination, the call never hangs).       *)
(*  StreamCli_gen*.cfg      the code as it stands; every terminal state is   *)
(*                          exported as a scenario for the Go harness: the    *)
(*                          environment's choices (cuts, answers), the        *)
(*                          code-shaped expectation and the invariants the    *)
(*                          model predicts to be violated (leads).            *)
(*                          gen1: every single-cut behaviour; gen2 / gen3:    *)
(*                          every two- / three-cut behaviour of reduced       *)
(*                          configurations; gen1L: the 13-event stream;       *)
(*                          genI: up to 6 cuts, progress and no progress       *)
(*                          alternating (CONSTRAINT Interleaved).             *)
(*                          genR: one cut anywhere, then runs of k bodies that *)
(*                          end at offset 0, k up to MaxRetries + 1, followed  *)
(*                          by a whole body (CONSTRAINT Runs); genK: the same  *)
(*                          against a stuck server (the run never ends);       *)
(*                          genS: single cuts on event boundaries, every       *)
(*                          sequence of answers over the whole status class.   *)
(*                          genB / genBA / genB5: the two budgets crossed      *)
(*                          (CONSTRAINT Budgets1, Budgets2, BudgetsAll): a     *)
(*                          first cut after progress, then per ATTEMPT refused *)
(*                          / transient status / 200 with no event / 200 with  *)
(*                          a `retry:` event only (bare, named, with the id    *)
(*                          resumed from) / 200 with the rest; every sequence  *)
(*                          for MaxRetries 1-2 (genBA), the grid 0..MaxRetries *)
(*                          + 1 fruitless resumptions x 1..MaxRetries failed   *)
(*                          attempts at every position for MaxRetries 2, 3     *)
(*                          (genB) and the default 5 (genB5).                  *)
(*                          genJ: a first cut after an id, then the reconnect  *)
(*                          refused with a JSON-RPC error BODY (status 400,    *)
(*                          409, 404 x id own / other / null) at attempt 1 or, *)
(*                          after a failed attempt, 2 (CONSTRAINT JsonErr).    *)
EXTENDS StreamCli, Json

Viol == {nm \in {"ExactlyOnceInOrder", "NoTruncatedSurfaced", "ResumeCursor", "RealResponseWithinBudget", "CleanFailure",
                 "BoundedRetries"} :
           \/ nm = "BoundedRetries" /\ ~BoundedRetries(ObsOf)
           \/ nm = "ExactlyOnceInOrder" /\ ~ExactlyOnceInOrder(ObsOf)
           \/ nm = "NoTruncatedSurfaced" /\ ~NoTruncatedSurfaced(ObsOf)
           \/ nm = "ResumeCursor" /\ ~ResumeCursor(ObsOf)
           \/ nm = "RealResponseWithinBudget" /\ ~RealResponseWithinBudget(ObsOf)
           \/ nm = "CleanFailure" /\ ~CleanFailure(ObsOf)}
\* used as an invariant: evaluated once per distinct state, TRUE always
Export == IF Done THEN PrintT(ToJson([cfg |-> cfg, exp |-> ObsOf, viol |-> Viol])) ELSE TRUE

AllShapes == Shapes
FirstOnly == {[ids |-> "all", prime |-> "first"]}
TwoShapes == {[ids |-> "all", prime |-> "first"], [ids |-> "all", prime |-> "none"]}
PrimedShapes == {[ids |-> "all", prime |-> "first"], [ids |-> "all", prime |-> "every"]}
IdShapes == {[ids |-> "all", prime |-> "first"], [ids |-> "all", prime |-> "every"], [ids |-> "all", prime |-> "none"]}

\* State constraint of the generation configuration "genI" (interleaved progress / no progress): long
\* scripts in which bodies that bring a new id across alternate with bodies that bring none, so that
\* the TOTAL number of fruitless bodies exceeds the budget while no stretch without progress does.
\* Cuts are read errors on event boundaries (plus the server's own end of a finished POST stream).
Progressed(i) == bodies[i].knd # "none" /\ ~NoProg(ObsOf, i)
Interleaved ==
  \A i \in 1..Len(bodies) :
    /\ bodies[i].knd \in {"none", "err"} \/ bodies[i].from >= cfg.M
    /\ i >= 2 => ~(NoProg(ObsOf, i) /\ NoProg(ObsOf, i - 1))
    /\ i >= 2 => ~(Progressed(i) /\ Progressed(i - 1))

\* State constraint of the generation configurations "genR" / "genK" (runs of empty resumed bodies): the first
\* body is cut anywhere; every later body is served whole or ends at offset 0 (read error or clean EOF: the
\* server, or a proxy, accepts the resumption with 200 and delivers nothing; the same termination every time).
\* With MaxCuts = 5 and MaxRetries
\* up to 3 the runs have every length k from 1 to MaxRetries + 1 (the client gives up) after progress was made;
\* at most MaxFailed attempts fail in between.
EmptyBody(b) == b.knd # "none" /\ b.cls = "bnd" /\ b.n = 0
NFailed == LET f[i \in 0..Len(recon)] ==
                 IF i = 0 THEN Cardinality({j \in 1..Len(outs) : outs[j] # "ok"})
                 ELSE f[i - 1] + Cardinality({j \in 1..Len(recon[i].outs) : recon[i].outs[j] # "ok"})
           IN f[Len(recon)]
Runs ==
  /\ \A i \in 2..Len(bodies) : bodies[i].knd = "none" \/ EmptyBody(bodies[i]) \/ bodies[i].from >= cfg.M
  /\ \A i, j \in 2..Len(bodies) :    \* one kind of termination per script (mixed kinds: gen2, gen3)
        (EmptyBody(bodies[i]) /\ EmptyBody(bodies[j]) /\ bodies[i].from < cfg.M /\ bodies[j].from < cfg.M)
           => bodies[i].knd = bodies[j].knd
  /\ NFailed <= 1

\* State constraints of the generation configurations "genB" / "genB5" (the two budgets crossed: attempts per reconnection
\* x resumptions in a row without progress).  The first body is cut on an event boundary after at least one id has come
\* across (the stream is resumable); from then on the environment chooses PER ATTEMPT: refused ("terr"), a transient
\* status, or 200 - and what the 200 body is: nothing at all, a `retry:` event and nothing else (bare / named / with the id
\* the client resumed from), or the whole rest of the stream.  (Partial progress between fruitless stretches: genI.)
\* BudgetsAll (genBA, MaxRetries 1 and 2): EVERY sequence over this alphabet until the client completes or gives up: each
\* counter runs through budget - 1, budget, budget + 1 against every value of the other, failures in every reconnection,
\* kinds mixed.  Budgets1 / Budgets2 (genB: MaxRetries 2 and 3; genB5: the default, 5): the grid: k = 0 .. MaxRetries + 1 fruitless
\* bodies of one kind in a row, then the rest; j = 1 .. MaxRetries failed attempts of one kind in at most nf of the k + 1
\* reconnections, at every position - every k below, at and above the no-progress budget meets every j below and at the
\* attempt budget in one behaviour.  One termination kind per script (mixed kinds: gen2, gen3).
Failed(o) == {j \in 1..Len(o) : o[j] # "ok"}
NFailRecons == Cardinality({i \in 1..Len(recon) : Failed(recon[i].outs) # {}}) + (IF pc = "recon" /\ Failed(outs) # {} THEN 1 ELSE 0)
FailKinds == (UNION {{recon[i].outs[j] : j \in 1..Len(recon[i].outs)} : i \in 1..Len(recon)}
              \cup {outs[j] : j \in 1..Len(outs)}) \ {"ok"}
Later == 2..Len(bodies)
Ended(i) == cfg.kind = "post" /\ bodies[i].from >= cfg.M     \* the server's own end of a finished POST stream
Fruit(i) == EmptyBody(bodies[i]) /\ ~Ended(i)
Budgets(all, nf) ==
  /\ \A i \in 1..Len(bodies) : bodies[i].cls \in {"none", "bnd"}
  /\ bodies # <<>> => (bodies[1].knd # "none" /\ bodies[1].c # None /\ bodies[1].rt = "none")
  /\ \A i \in Later : \/ (bodies[i].knd = "none" /\ bodies[i].rt = "none")
                       \/ (EmptyBody(bodies[i]) /\ bodies[i].knd = bodies[1].knd)
                       \/ Ended(i)
  /\ ~all =>
       /\ \A i, j \in Later : (Fruit(i) /\ Fruit(j)) => bodies[i].rt = bodies[j].rt
       /\ NFailRecons <= nf
       /\ Cardinality(FailKinds) <= 1
BudgetsAll == Budgets(TRUE, 0)
Budgets1 == Budgets(FALSE, 1)
Budgets2 == Budgets(FALSE, 2)

\* reachability witnesses (each must be VIOLATED, otherwise the model is vacuous)
NeverResumed == ~(outcome = "resp" /\ Len(recon) >= 2)
NeverExhausted == ~(failed /\ rwp > cfg.mr)
NeverGaveUpAttempts == ~(failed /\ att > cfg.mr /\ cfg.mr > 0)
NeverSynthetic == ~(outcome = "err" /\ ~failed)
NeverStandaloneDone == ~(outcome = "open" /\ Len(recon) >= 1)
\* a stuck server was given up on after progress had been made: more bodies than MaxCuts were cut
NeverGaveUpOnStuck == ~(failed /\ cfg.tail = "stuck" /\ rwp > cfg.mr /\ prev # None /\ ncut > MaxCuts)
\* the two budgets met in one behaviour, both used as far as WithinBudget allows, and the call completed: MaxRetries - 1
\* fruitless bodies in a row, then a reconnection whose first MaxRetries - 1 attempts failed
RunBefore(i, k) == i > k /\ \A j \in (i - k)..(i - 1) : NoProg(ObsOf, j)
NeverCrossedBudgets ==
  ~(outcome = "resp" /\ cfg.mr >= 3 /\ WithinBudget(ObsOf)
    /\ \E i \in 2..Len(recon) : Cardinality(Failed(recon[i].outs)) = cfg.mr - 1 /\ RunBefore(i + 1, cfg.mr - 1))
\* the client gave up on bodies that all carried a `retry:` event (and nothing new)
NeverGaveUpOnRetryOnly ==
  ~(failed /\ rwp > cfg.mr /\ cfg.mr >= 1 /\ prev # None
    /\ \A i \in (Len(bodies) - cfg.mr)..Len(bodies) : EmptyBody(bodies[i]) /\ bodies[i].rt # "none")
\* TLC evaluates invariants also on the states a CONSTRAINT cuts off: the budget family exports only what its constraint
\* admits, and every exported behaviour names the witnesses it is (c09.py requires each to occur: no vacuity)
BudgetWit == {nm \in {"CrossedBudgets", "GaveUpOnRetryOnly"} :
                \/ nm = "CrossedBudgets" /\ ~NeverCrossedBudgets
                \/ nm = "GaveUpOnRetryOnly" /\ ~NeverGaveUpOnRetryOnly}
ExportB(ok) == IF ok /\ Done THEN PrintT(ToJson([cfg |-> cfg, exp |-> ObsOf, viol |-> Viol, wit |-> BudgetWit])) ELSE TRUE
ExportBudgetsAll == ExportB(BudgetsAll)
ExportBudgets1 == ExportB(Budgets1)
ExportBudgets2 == ExportB(Budgets2)
\* State constraint of the generation configuration "genJ" (a resumption refused with a JSON-RPC error body): the first body is
\* cut on an event boundary after at least one id has come across (the stream is resumable: the client WILL ask again); the
\* attempts of the reconnection are refused / answered with a transient status until one is answered with a member of
\* ErrBodyAnswers (attempt 1, or 2 when the budget allows).  Only behaviours that contain such an answer are exported.
JsonErr == bodies # <<>> => (bodies[1].knd # "none" /\ bodies[1].cls = "bnd" /\ bodies[1].c # None)
HasErrBody == \E i \in 1..Len(recon) : \E j \in 1..Len(recon[i].outs) : recon[i].outs[j] \in ErrBodyAnswers
ExportJsonErr == IF JsonErr /\ Done /\ HasErrBody THEN PrintT(ToJson([cfg |-> cfg, exp |-> ObsOf, viol |-> Viol])) ELSE TRUE
\* reachability: a call failed because its stream's resumption was refused with a JSON-RPC error body
NeverRefusedWithErrBody == ~(failed /\ outcome = "err" /\ HasErrBody)
NeverRetriedStatus == ~(outcome = "resp" /\ \E i \in 1..Len(recon) : \E j \in 1..Len(recon[i].outs) : recon[i].outs[j] \in TransientStatus)
=============================================================================
