---------------------------- MODULE StreamCliMC ----------------------------
(* Bounded configurations of StreamCli (property C09).                       *)
(*  StreamCli_mc_fixed.cfg  the design the property asks for (all three      *)
(*                          switches on): every invariant, exhaustively.      *)
(*  StreamCli_mc_asis.cfg   the code as it stands: what holds regardless     *)
(*                          (types, termination, the call never hangs).       *)
(*  StreamCli_gen*.cfg      the code as it stands; every terminal state is   *)
(*                          exported as a scenario for the Go harness: the    *)
(*                          environment's choices (cuts, answers), the        *)
(*                          code-shaped expectation and the invariants the    *)
(*                          model predicts to be violated (leads).            *)
(*                          gen1: every single-cut behaviour; gen2 / gen3:    *)
(*                          every two- / three-cut behaviour of reduced       *)
(*                          configurations; gen1L: the 13-event stream;       *)
(*                          genI: up to 6 cuts, progress and no progress       *)
(*                          alternating (CONSTRAINT Interleaved).             *)
EXTENDS StreamCli, Json

Viol == {nm \in {"ExactlyOnceInOrder", "NoTruncatedSurfaced", "ResumeCursor", "RealResponseWithinBudget", "CleanFailure"} :
           \/ nm = "ExactlyOnceInOrder" /\ ~ExactlyOnceInOrder(ObsOf)
           \/ nm = "NoTruncatedSurfaced" /\ ~NoTruncatedSurfaced(ObsOf)
           \/ nm = "ResumeCursor" /\ ~ResumeCursor(ObsOf)
           \/ nm = "RealResponseWithinBudget" /\ ~RealResponseWithinBudget(ObsOf)
           \/ nm = "CleanFailure" /\ ~CleanFailure(ObsOf)}
\* used as an invariant: evaluated once per distinct state, TRUE always
Export == IF Done THEN PrintT(ToJson([cfg |-> cfg, exp |-> ObsOf, viol |-> Viol])) ELSE TRUE

AllShapes == Shapes
FirstOnly == {[ids |-> "all", prime |-> "first"]}
TwoShapes == {[ids |-> "all", prime |-> "first"], [ids |-> "all", prime |-> "none"]}
PrimedShapes == {[ids |-> "all", prime |-> "first"], [ids |-> "all", prime |-> "every"]}

\* State constraint of the generation configuration "genI" (interleaved progress / no progress): long
\* scripts in which bodies that bring a new id across alternate with bodies that bring none, so that
\* the TOTAL number of fruitless bodies exceeds the budget while no stretch without progress does.
\* Cuts are read errors on event boundaries (plus the server's own end of a finished POST stream).
Progressed(i) == bodies[i].knd # "none" /\ ~NoProg(ObsOf, i)
Interleaved ==
  \A i \in 1..Len(bodies) :
    /\ bodies[i].knd \in {"none", "err"} \/ bodies[i].from >= cfg.M
    /\ i >= 2 => ~(NoProg(ObsOf, i) /\ NoProg(ObsOf, i - 1))
    /\ i >= 2 => ~(Progressed(i) /\ Progressed(i - 1))

\* reachability witnesses (each must be VIOLATED, otherwise the model is vacuous)
NeverResumed == ~(outcome = "resp" /\ Len(recon) >= 2)
NeverExhausted == ~(failed /\ rwp > cfg.mr)
NeverGaveUpAttempts == ~(failed /\ att > cfg.mr /\ cfg.mr > 0)
NeverSynthetic == ~(outcome = "err" /\ ~failed)
NeverStandaloneDone == ~(outcome = "open" /\ Len(recon) >= 1)
=============================================================================
