-------------------------- MODULE MultiRoundTripMC --------------------------
(* Bounded configurations of MultiRoundTrip (extension check X01).            *)
(*  MultiRoundTrip_mc.cfg     exhaustive: the code's limits (10 / 3), ids      *)
(*                            {a,b}, every input-request map, all four client  *)
(*                            modes, two calls of the three methods or of      *)
(*                            another one, two retries by the application      *)
(*  MultiRoundTrip_mc3.cfg    the same with ids {a,b,c}, one call (thorough)   *)
(*  MultiRoundTrip_live.cfg   termination under weak fairness, limits 3 / 2    *)
(*                            (no VIEW)                                        *)
(*  MultiRoundTrip_cover.cfg  the graph handed to tools/graphwalk.py: limits   *)
(*                            3 / 2 and a representative set of maps; its      *)
(*                            paths are turned into environment scripts        *)
(*                            (handler results, client handler results and     *)
(*                            their order) that the Go harness plays against   *)
(*                            the real client and server                       *)
(*  MultiRoundTrip_sim.cfg    (module MultiRoundTripGen) seeded simulation     *)
(*                            with the code's limits, ids {a,b,c}, two calls   *)
EXTENDS MultiRoundTrip

\* representative maps for behaviour generation: load shedding, each kind alone, mixed pairs, same kind twice
M(x, y) == [k \in Keys |-> IF k = "a" THEN x ELSE IF k = "b" THEN y ELSE "-"]
GenMaps == {M("-", "-"), M("elicit", "-"), M("sample", "-"), M("roots", "-"),
            M("elicit", "sample"), M("elicit", "elicit"), M("roots", "sample"), M("-", "elicit")}

\* Fingerprint for the safety runs: a variable is hidden where no action reads it before it is overwritten
\* (params: read by CSend only; sreq: read when the handler is entered; wres: read when the reply arrives).
\* Every value of a hidden variable is visible in the state in which it is produced or consumed, which is
\* where the invariants speak about it.
MCView == <<mode, hasE, hasS, callno, other, pc,
            IF pc = "c_send" THEN params ELSE Fresh,
            tries, shed,
            IF pc = "s_recv" THEN sreq ELSE Fresh,
            sround, res, inv, first,
            IF pc = "c_got" THEN wres ELSE NoWire,
            who, fpend, frun, fdone, orphan, late, manual, outcome>>

\* Cover configuration: one initial state; the first step (Setup) chooses the client, so that a path through
\* the graph is a complete, self-contained behaviour.  Every disjunct is a named action (edge labels).
CoverInit ==
  /\ mode = "none" /\ hasE = FALSE /\ hasS = FALSE
  /\ callno = 0 /\ other = FALSE /\ pc = "idle"
  /\ params = Fresh /\ tries = 0 /\ shed = 0
  /\ sreq = Fresh /\ sround = 0 /\ res = NoRes /\ inv = 0 /\ first = TRUE /\ wres = NoWire
  /\ who = "none" /\ fpend = {} /\ frun = {} /\ fdone = NoneDone /\ orphan = {} /\ late = {}
  /\ manual = 0 /\ outcome = NoOutcome
Setup(m, e, s) ==
  /\ mode = "none" /\ mode' = m /\ hasE' = e /\ hasS' = s
  /\ UNCHANGED <<callno, other, pc, params, tries, shed, sreq, sround, res, inv, first, wres,
                 who, fpend, frun, fdone, orphan, late, manual, outcome>>
Ready == mode # "none"
GAppCall(o) == Ready /\ AppCall(o)
GAppRetry == Ready /\ AppRetry
GCSend == Ready /\ CSend
GSOther == Ready /\ SOther
GSInvoke(t, R, s) == Ready /\ SInvoke(t, R, s)
GSPost == Ready /\ SPost
GSMw == Ready /\ SMw
GFBegin(k) == Ready /\ FBegin(k)
GFEnd(k, r) == Ready /\ FEnd(k, r)
GFSkip(k) == Ready /\ FSkip(k)
GFAbandon(k) == Ready /\ FAbandon(k)
GOEnd(k) == Ready /\ OEnd(k)
GFLate(k) == Ready /\ FLate(k)
GLBegin(k) == Ready /\ LBegin(k)
GLDrop(k) == Ready /\ LDrop(k)
GFJoin == Ready /\ FJoin
GCPass == Ready /\ CPass
GCFinal == Ready /\ CFinal
GCInput == Ready /\ CInput
CoverNext ==
  \/ \E m \in Modes, e \in BOOLEAN, s \in BOOLEAN : Setup(m, e, s)
  \/ \E o \in Others : GAppCall(o)
  \/ GAppRetry
  \/ GCSend
  \/ GSOther
  \/ \E t \in {"complete", "input", "invalid", "err"}, R \in HandlerMaps, s \in BOOLEAN : GSInvoke(t, R, s)
  \/ GSPost
  \/ GSMw
  \/ \E k \in Keys : GFBegin(k)
  \/ \E k \in Keys, r \in {"ok", "fail"} : GFEnd(k, r)
  \/ \E k \in Keys : GFSkip(k)
  \/ \E k \in Keys : GFAbandon(k)
  \/ \E k \in Keys : GOEnd(k)
  \/ \E k \in Keys : GFLate(k)
  \/ \E k \in Keys : GLBegin(k)
  \/ \E k \in Keys : GLDrop(k)
  \/ GFJoin
  \/ GCPass
  \/ GCFinal
  \/ GCInput
CoverSpec == CoverInit /\ [][CoverNext]_vars
CoverInv == Ready => (Bounded /\ EchoExact /\ CliJustified /\ FinalOutcome /\ EndsForAReason /\ WireOK)

\* reachability witnesses (each must be VIOLATED, otherwise the model is vacuous)
NeverLimit     == ~(pc = "done" /\ outcome.code = "limit")
NeverShedLimit == ~(pc = "done" /\ outcome.code = "shedlimit")
NeverBusy      == ~(pc = "done" /\ outcome.code = "busy")
NeverRawInput  == ~(pc = "done" /\ outcome.t = "rawinput")
NeverHybrid    == ~(mode = "old" /\ who = "client")
NeverOrphan    == orphan = {}
NeverLate      == late = {}
NeverManual    == ~(manual = MaxManual /\ pc = "done" /\ outcome.t = "complete")
NeverNeedsInput == ~(pc = "done" /\ outcome.t = "needsinput")
NeverSecondRound == ~(mode = "new" /\ inv = 3 /\ pc = "done" /\ outcome.t = "complete")
=============================================================================
