-------------------------- MODULE MultiRoundTripMC --------------------------
(* Bounded configurations of MultiRoundTrip (extension check X01).            *)
(*  MultiRoundTrip_mc.cfg     exhaustive, the code's limits (10 / 3), two ids, *)
(*                            every input-request map, all four client modes,  *)
(*                            one call of the three methods or of another one  *)
(*  MultiRoundTrip_mc2.cfg    two consecutive calls, limits 4 / 2              *)
(*  MultiRoundTrip_live.cfg   termination under weak fairness, limits 4 / 2    *)
(*  MultiRoundTrip_cover.cfg  the graph handed to tools/graphwalk.py: limits   *)
(*                            3 / 2 and a representative set of maps; its      *)
(*                            paths are turned into environment scripts        *)
(*                            (handler results, client handler results and     *)
(*                            their order) that the Go harness plays against   *)
(*                            the real client and server                       *)
EXTENDS MultiRoundTrip

\* representative maps for behaviour generation: load shedding, each kind alone, mixed pairs, same kind twice
M(x, y) == [k \in Keys |-> IF k = "a" THEN x ELSE IF k = "b" THEN y ELSE "-"]
GenMaps == {M("-", "-"), M("elicit", "-"), M("sample", "-"), M("roots", "-"),
            M("elicit", "sample"), M("elicit", "elicit"), M("roots", "sample"), M("-", "elicit")}

\* Fingerprint for the safety runs: a variable is hidden where no action reads it before it is overwritten
\* (params: read by CSend only; sreq: read when the handler is entered; wres: read when the reply arrives).
\* Every value of a hidden variable is visible in the state in which it is produced or consumed, which is
\* where the invariants speak about it.
MCView == <<mode, hasE, hasS, callno, other, pc,
            IF pc = "c_send" THEN params ELSE Fresh,
            tries, shed,
            IF pc = "s_recv" THEN sreq ELSE Fresh,
            sround, res, inv, first,
            IF pc = "c_got" THEN wres ELSE NoWire,
            who, fpend, frun, fdone, orphan, outcome>>

\* reachability witnesses (each must be VIOLATED, otherwise the model is vacuous)
NeverLimit     == ~(pc = "done" /\ outcome.code = "limit")
NeverShedLimit == ~(pc = "done" /\ outcome.code = "shedlimit")
NeverBusy      == ~(pc = "done" /\ outcome.code = "busy")
NeverRawInput  == ~(pc = "done" /\ outcome.t = "rawinput")
NeverHybrid    == ~(mode = "old" /\ who = "client")
NeverOrphan    == orphan = {}
NeverNeedsInput == ~(pc = "done" /\ outcome.t = "needsinput")
NeverSecondRound == ~(mode = "new" /\ inv = 3 /\ pc = "done" /\ outcome.t = "complete")
=============================================================================
