SPECIFICATION Spec
CONSTANTS
  Readers = {"spec", "code"}
  Size = "quick"
INVARIANTS TypeOK SpecHolds SpecReports ChunkIndependent CodeLeads Export
