SPECIFICATION Spec
CONSTANTS
  Sessions = {"L1", "M1"}
  Legacy = {"L1"}
  InitOn = {}
  InitSub = {}
  Kinds = {"resources", "templates"}
  NotifOf <- NotifStd
  Uris = {}
  Want <- WantAll
  CapOff = {}
  CapMode <- ModeInferred
  InitSize <- SizeR1T0
  MaxSize = 1
  Dirs = {"add", "rm"}
  SendGate = "configured"
  TTLPos = FALSE
  D = 0
  MaxTime = 0
  MaxChanges = 4
  MaxUpdates = 0
  MaxCalls = 0
  NPages = 1
  ListenOwns = TRUE
  ResubRace = TRUE
  GenCheck = TRUE
  ColdBump = TRUE
  ModernUnsub = FALSE
  ForeignUnsub = TRUE
  Listeners = {}
  MaxListens = 0
  FailUndo = TRUE
  Stepwise = FALSE
  Gates = FALSE
  GateNames = {"inv", "usr", "put"}
  ClientFirst = TRUE
INVARIANTS TypeOK NeverLost OnlyEntitled NoneWhenDisabled UpdatedExactlySubscribers Fresh ForgottenOnClose MapsOnlySessions
CHECK_DEADLOCK FALSE
