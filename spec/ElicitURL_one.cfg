SPECIFICATION Spec
CONSTANTS
  Unknown = "u"
  MaxLen = 2
  Calls = {1}
  HResults = {"accept", "decline", "cancel", "herr"}
  Ids = {"x", "y"}
  MaxSpur = 4
  Handlers = {TRUE, FALSE}
  AllowCancel = TRUE
  DeclineNoCompl = FALSE
  TrackOwed = FALSE
  ListsOf <- ListsOne
  KindsOf <- AllKinds
INVARIANTS Safety
VIEW MCView
CHECK_DEADLOCK FALSE
