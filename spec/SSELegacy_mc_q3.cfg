SPECIFICATION MCSpec
CONSTANTS
  MaxSess = 1
  MaxPost = 3
  MaxSend = 1
  Cap = 1
  Direct = TRUE
  RandomSelect = TRUE
  KindSet = {"call", "badjson"}
  WithNoId = FALSE
  WithUnknown = FALSE
INVARIANTS TypeOK EndpointFirst Routing AtMostOnce Order Refusal
PROPERTIES NoWriteAfterClose WriteFailsAfterClose Monotone
CHECK_DEADLOCK FALSE
