\* simulation: everything but OAuth
SPECIFICATION SettledSpec
CONSTANTS
  NC = 3
  SASet = {TRUE}
  OAuthSet = {FALSE}
  DelSet = {"ok"}
  PostSet = {"json", "badjson", "sse", "202", "badct", "rpcerr", "rpc404", "404", "http", "5xx", "neterr"}
  GetSet = {"sse", "405", "404", "4xx", "500", "200plain", "503sse", "neterr"}
  InitH = {"", "A"}
  HSet = {"", "A", "B"}
  MaxNotify = 1
  MaxSaEv = 3
  MaxAuth = 0
  MaxClose = 2
  AllowCancel = FALSE
  FixCancel = FALSE
  FixStream = FALSE
INVARIANTS TypeOK SessionHeader VersionHeader DeleteOnce GoneStops
CHECK_DEADLOCK FALSE
