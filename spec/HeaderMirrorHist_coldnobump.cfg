CONSTANT MaxLen = 6
CONSTANT RaceLen = 5
CONSTANT NoticeLen = 6
CONSTANT DriftLen = 3
CONSTANT ColdNoBump <- True
CONSTANT CfgSet <- SubCfgs
SPECIFICATION HSpec
CONSTRAINT Export
INVARIANT TypeOK
INVARIANT FactListedStaysKnown
INVARIANT FactNeverListedKnowsNothing
INVARIANT FactInformedHoldsCurrent
INVARIANT FactOutdatedOnlyFromOrphans
INVARIANT FactNoticeSuffices
CHECK_DEADLOCK FALSE
