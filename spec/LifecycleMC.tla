----------------------------- MODULE LifecycleMC -----------------------------
(* Bounded configurations of Lifecycle (property C06).                       *)
(*  Lifecycle_table.cfg  the (phase x message) table: the joint graph of the  *)
(*                       code-shaped session state and the property's phase   *)
(*                       tracker over the FULL alphabet (hist hidden by a     *)
(*                       VIEW).  Every edge is one cell; the clauses are      *)
(*                       checked on every edge; the graph is dumped and       *)
(*                       turned into replay sequences (every cell behind a    *)
(*                       shortest prefix, plus transition-cover walks).       *)
(*  Lifecycle_seq*.cfg   every sequence of exactly MaxLen core letters; the   *)
(*                       clauses are checked on every step of every sequence  *)
(*                       and every complete sequence is exported.             *)
(*  Lifecycle_sim.cfg    seeded simulation over the full alphabet, exported.  *)
(*  Lifecycle_wit.cfg    vacuity: some behaviour exercises every clause.      *)
EXTENDS Lifecycle, Json, SequencesExt

CONSTANTS
          \* @type: Int;
          MaxLen,      \* bound on the length of hist (0 = unbounded; needs a VIEW)
          \* @type: Str;
          AlphaSel     \* "core" | "mid" | "full": which letters may be sent

VARIABLES
          \* @type: $lcst;
          st,          \* code-shaped session state
          \* @type: $lcmu;
          mu,          \* the property's phase tracker
          \* @type: Seq($letter);
          hist,        \* letters sent so far
          \* @type: Set(Str);
          bad,         \* clauses violated by the last step
          \* @type: Bool;
          lead,        \* the last step is an instance of the documented lead (UngatedLead)
          \* @type: Set(Str);
          seen         \* clauses whose premise has been true on some step (vacuity)
vars == <<st, mu, hist, bad, lead, seen>>

\* mid: every method, the four meta classes that matter most (long random sequences stay interesting)
\* (each of the three meta classes once more in a non-plain spelling of its keys, and some presentations of the
\* metadata other than the ordinary one: a case variant of `_meta` alone / next to an incomplete `_meta`,
\* duplicate `_meta` members ending in an unsupported version / in null)
\* (Pair(a, b) is <<a, b>>: Apalache needs to be told that it is a tuple, not a sequence)
\* @type: (Str, Str) => <<Str, Str>>;
Pair(a, b) == <<a, b>>
MidLetters == {l \in Letters : /\ l.mt \in {"none", "ok", "nocaps", "newer"}
                               /\ \/ (l.mk = "exact" /\ l.sp = "plain")
                                  \/ (l.mk = "exact" /\ Pair(l.mt, l.sp) \in {Pair("ok", "uni"), Pair("nocaps", "esc"), Pair("newer", "esc")})
                                  \/ Pair(l.mt, l.mk) \in {Pair("ok", "case"), Pair("nocaps", "both"), Pair("newer", "dup"),
                                                            Pair("ok", "dupnull"), Pair("ok", "idup")}}
Alpha == CASE AlphaSel = "core" -> CoreLetters [] AlphaSel = "mid" -> MidLetters [] OTHER -> Letters

Init == /\ st = St0 /\ mu = Mu0 /\ hist = <<>> /\ bad = {} /\ lead = FALSE /\ seen = {}

\* @type: (Str, Str, Str, Str, Str) => Bool;
Do(m, mt, ip, sp, mk) ==
  LET l == L(m, mt, ip, sp, mk)
      n == Len(hist) + 1
      r == Step(st, l, n)
  IN /\ l \in Alpha
     /\ (MaxLen = 0 \/ Len(hist) < MaxLen)
     /\ st' = r.st
     /\ bad' = Failed(mu, l, r.o, TRUE)
     /\ lead' = UngatedLead(mu, l)
     /\ seen' = seen \cup {c \in ClauseNames : Premise(c, mu, l, TRUE)}
     /\ mu' = PStep(mu, l, r.o, TRUE)
     /\ hist' = Append(hist, l)

Next == \E l \in Alpha : Do(l.m, l.mt, l.ip, l.sp, l.mk)
Spec == Init /\ [][Next]_vars

\* ---- design check: the code-shaped model satisfies every clause on every step, except for the
\* documented lead, which breaks GateBeforeInit and nothing else
DesignOK == bad = {} \/ (lead /\ bad = {"GateBeforeInit"})
InvGateBeforeInit == "GateBeforeInit" \in bad => lead
InvDuplicateInitRejected == "DuplicateInitRejected" \notin bad
InvPrematureInitializedRejected == "PrematureInitializedRejected" \notin bad
InvRepeatedInitializedRejected == "RepeatedInitializedRejected" \notin bad
InvFirstInitializedTakesEffect == "FirstInitializedTakesEffect" \notin bad
InvPingAlways == "PingAlways" \notin bad
InvModernServedIffMetaComplete == "ModernServedIffMetaComplete" \notin bad
InvRemovedMethodsNotFound == "RemovedMethodsNotFound" \notin bad
\* the lead is real in the model: it does break the clause (otherwise the exception above is stale)
LeadBreaksGate == lead => "GateBeforeInit" \in bad
\* structural sanity of the transcription
TypeOK == /\ st.ip \in IpClasses /\ st.idp \in BOOLEAN /\ (st.ip = "nil" <=> st.at = 0)
          /\ (st.idp => st.ip # "nil")
          /\ (mu.acc => st.ip # "nil") /\ (mu.inited => mu.acc)
          /\ mu.ipv = st.ip /\ mu.tag = st.at

\* ---- the (phase x message) table: the whole row of the current joint state, evaluated as a state
\* predicate (so it is sound under TableView, which hides hist, bad and lead)
\* @type: $letter => Set(Str);
RowFailed(l) == Failed(mu, l, Step(st, l, Len(hist) + 1).o, TRUE)
RowOK == \A l \in Alpha : RowFailed(l) = {} \/ (UngatedLead(mu, l) /\ RowFailed(l) = {"GateBeforeInit"})
\* @type: Str => Bool;
RowClauseOK(c) == \A l \in Alpha : c \in RowFailed(l) => (c = "GateBeforeInit" /\ UngatedLead(mu, l))
RowGateBeforeInit == RowClauseOK("GateBeforeInit")
RowDuplicateInitRejected == RowClauseOK("DuplicateInitRejected")
RowPrematureInitializedRejected == RowClauseOK("PrematureInitializedRejected")
RowRepeatedInitializedRejected == RowClauseOK("RepeatedInitializedRejected")
RowFirstInitializedTakesEffect == RowClauseOK("FirstInitializedTakesEffect")
RowPingAlways == RowClauseOK("PingAlways")
RowModernServedIffMetaComplete == RowClauseOK("ModernServedIffMetaComplete")
RowRemovedMethodsNotFound == RowClauseOK("RemovedMethodsNotFound")
RowLeadBreaksGate == \A l \in Alpha : UngatedLead(mu, l) => "GateBeforeInit" \in RowFailed(l)

\* ---- views
TableView == <<st.ip, st.idp, mu.acc, mu.inited, mu.modern>>
WitView == <<st.ip, st.idp, mu.acc, mu.inited, mu.modern, seen>>

\* ---- export of complete sequences (used as an invariant: evaluated once per distinct state)
\* @type: $letter => $letter;
LetterJson(l) == [m |-> l.m, mt |-> l.mt, ip |-> l.ip, sp |-> l.sp, mk |-> l.mk]
Export == IF MaxLen > 0 /\ Len(hist) = MaxLen
          THEN PrintT(ToJson([seq |-> [i \in 1..Len(hist) |-> LetterJson(hist[i])]]))
          ELSE TRUE

\* ---- export of the model's lead cells (table config; evaluated once per joint state)
ExportLeads == \A l \in Alpha :
                 IF RowFailed(l) # {}
                 THEN PrintT(ToJson([lead |-> LetterJson(l), phase |-> PhaseName(mu), clauses |-> SetToSeq(RowFailed(l))]))
                 ELSE TRUE
\* the alphabet with what each letter carries (table config, once): the generator and the HTTP leg of the
\* replay select on the carried class, and take it from here
ExportAlphabet == IF Len(hist) = 0
                  THEN \A l \in Alpha : PrintT(ToJson([alpha |-> LetterJson(l), carried |-> Carried(l)]))
                  ELSE TRUE
\* one line per joint state: how many cells its row has
ExportRow == PrintT(ToJson([row |-> PhaseName(mu), ip |-> st.ip, idp |-> st.idp, cells |-> Cardinality(Alpha)]))

\* ---- vacuity witness (must be VIOLATED): one behaviour makes every clause's premise true
NotAllSeen == seen # ClauseNames
\* reachability witnesses (each must be VIOLATED)
NeverLead == ~lead
=============================================================================
