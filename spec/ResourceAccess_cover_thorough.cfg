SPECIFICATION Spec
CONSTANTS
  Readers = {"r1", "r2"}
  XE = {"E2"}
  XT = {"Tda", "Tp", "Tab"}
  MaxMut = 3
  MaxRead = 2
CONSTANT XU <- URIs3
VIEW CoverView
INVARIANTS Linearizable
CHECK_DEADLOCK FALSE
