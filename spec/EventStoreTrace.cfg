SPECIFICATION TSpec
CONSTANTS
  Sessions = {"s1","s2"}
  Streams = {"t1","t2"}
  Sizes = {0}
  Limits = {1}
  Iters = {"k1","k2"}
  DefaultMax = 10485760
CONSTRAINT TMark
INVARIANTS Accounting SuffixRetained Bounded ClosedReleased NoPanic ReplayExact IdleHoldsNothing
POSTCONDITION TAccepted
CHECK_DEADLOCK FALSE
