SPECIFICATION Spec
CONSTANTS
  Reqs <- R1
  HasSa = FALSE
  PrimeSet <- Both
  MaxRetries = 2
  MaxWrites = 3
  MaxCuts = 2
  MaxFails = 1
  ArmN = 1
  CutHows <- HowsBasic
  FailKinds <- FailsBasic
  SrvRenumberBug = TRUE
INVARIANTS ExactlyOnceInOrder
CHECK_DEADLOCK FALSE
