SPECIFICATION SeamSpec
CONSTANTS
  Calls = {"k1", "k2"}
  CCl = {"c1"}
  SCl = {"s1"}
  Stateless = FALSE
  Timeout = TRUE
  Sse = TRUE
  Nested = FALSE
  Faults = {"cut"}
  DelModes = {}
  Helds = TRUE
  Notifs = FALSE
  Cancels = FALSE
  AwaitHandlers = TRUE
  StopSseOnClose = TRUE
VIEW MCView
INVARIANTS TypeOK NothingDispatchedAfterClose RunningHandlersFinish SessionRemoved
CHECK_DEADLOCK FALSE
