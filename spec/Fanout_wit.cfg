SPECIFICATION Spec
CONSTANTS
  NS = 2
  MinLen = 2
  MaxLen = 3
  CallOK <- CallAll
  MaxHeld = 99
  Mode = "sync"
  LateRelease = FALSE
  AnyOrder = FALSE
  SymReduce = FALSE
  Canon = FALSE
CHECK_DEADLOCK FALSE
VIEW MCView
