------------------------- MODULE TransportContractMC -------------------------
(* Bounded configurations of TransportContract (X05).  Constants of the .cfg   *)
(* files: Class, Ideal, KSet and the three call budgets below.                 *)
(*   TransportContract_mc_<class>.cfg    the code as it is (Ideal = FALSE):    *)
(*        every property the class is expected to satisfy + liveness           *)
(*   TransportContract_ideal_<class>.cfg the contract as designed: T2, T3 too  *)
(*   TransportContract_lead_*.cfg        must be VIOLATED (D1 / D3 found)      *)
(*   TransportContract_cover_*.cfg       state graph dumped for graphwalk.py   *)
(*   TransportContract_sim_*.cfg         larger budgets for -simulate          *)
EXTENDS TransportContract

W00 == [A |-> 0, B |-> 0]
W10 == [A |-> 1, B |-> 0]
W11 == [A |-> 1, B |-> 1]
W20 == [A |-> 2, B |-> 0]
W02 == [A |-> 0, B |-> 2]
W21 == [A |-> 2, B |-> 1]
W12 == [A |-> 1, B |-> 2]
W22 == [A |-> 2, B |-> 2]
W30 == [A |-> 3, B |-> 0]
W03 == [A |-> 0, B |-> 3]
W32 == [A |-> 3, B |-> 2]
W33 == [A |-> 3, B |-> 3]

\* reachability witnesses (each must be VIOLATED, otherwise the configuration is vacuous)
NeverBlockedWrite == ~(\E e \in Ends : \E w \in 1..WMax : wpc[e][w] = "begun" /\ ~ENABLED WriteSend(e, w))
NeverDelivered2 == \A e \in Ends : Len(Delivered(e)) < 2
NeverEofAfterMsg == \A e \in Ends : ~(\E i \in DOMAIN got[e] : got[e][i][1] = "err" /\ i > 1 /\ got[e][i - 1][1] = "msg" /\ ~closed[e])
NeverWriteErr == \A e \in Ends : \A w \in 1..WMax : wres[e][w] # "err"
NeverDropped == ~(\E e \in Ends : \E w \in 1..WMax : wres[e][w] = "ok" /\ closed[P(e)] /\ InFlight(<<e, w>>))
NeverLateAccept == ~(\E e \in Ends : \E w \in 1..WMax : wpc[e][w] = "begun" /\ closeRet[P(e)] /\ ~closed[e] /\ LateAccept(P(e)))

\* the cover graph forgets the history variables that do not influence behaviour
CoverView == <<wpc, wkind, wres, rpc, rtake, nread, cpc, closed, failed, peerGone, med, inbox, intake, exited, closeRet,
               [e \in Ends |-> Len(got[e])]>>
=============================================================================
