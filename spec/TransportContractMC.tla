------------------------- MODULE TransportContractMC -------------------------
(* Bounded configurations of TransportContract (X05).  Constants of the .cfg   *)
(* files: Class, Ideal, KSet, WMax / CMax and the three call budgets (A, B).   *)
(*   _mc_<class>_q     1 Write, 1 Read, 1 Close per side     (both tiers)      *)
(*   _mc_rdv_q2        2 concurrent Writes A->B, 2 Reads at B, 1 Close each    *)
(*   _mc_<class>_t1/t2 2 Writes one way, 2 Reads at the receiver, 1 Close each *)
(*   _mc_<class>_t3    1 Write, 1 Read per side, 2 Closes at A and 1 at B      *)
(*   _mc_rdv_t4        2+1 Writes, 1+2 Reads, 1 Close each                     *)
(*        the code as it is (Ideal = FALSE): T1, T5, T6, RestAll (= L1..L3 at  *)
(*        rest) and those of T2 / T3 the class is expected to satisfy          *)
(*   _ideal_<class>    the contract as designed (D1..D3 off): T2 and T3 too    *)
(*   _lead_<class>_T2/T3  as implemented: T2 / T3 must be VIOLATED (D1 / D3)   *)
(*   _live_<class>     FairSpec: L1..L3 as temporal properties, 1 Write        *)
(*   _cover_<class>_q/t   state graph (VIEW CoverView) dumped for graphwalk.py *)
(*   _sim_<class>      3 Writes, 3 Reads, 2 Closes per side for -simulate      *)
EXTENDS TransportContract

W00 == [A |-> 0, B |-> 0]
W10 == [A |-> 1, B |-> 0]
W01 == [A |-> 0, B |-> 1]
W11 == [A |-> 1, B |-> 1]
W20 == [A |-> 2, B |-> 0]
W02 == [A |-> 0, B |-> 2]
W21 == [A |-> 2, B |-> 1]
W12 == [A |-> 1, B |-> 2]
W22 == [A |-> 2, B |-> 2]
W30 == [A |-> 3, B |-> 0]
W03 == [A |-> 0, B |-> 3]
W32 == [A |-> 3, B |-> 2]
W33 == [A |-> 3, B |-> 3]

\* reachability witnesses (each must be VIOLATED, otherwise the configuration is vacuous)
NeverBlockedWrite == ~(\E e \in Ends : \E w \in 1..WMax : wpc[e][w] = "begun" /\ ~ENABLED WriteSend(e, w))
NeverDelivered2 == \A e \in Ends : Len(Delivered(e)) < 2
NeverEofAfterMsg == \A e \in Ends : ~(\E i \in DOMAIN got[e] : got[e][i][1] = "err" /\ i > 1 /\ got[e][i - 1][1] = "msg" /\ ~closed[e])
NeverWriteErr == \A e \in Ends : \A w \in 1..WMax : wres[e][w] # "err"
NeverDropped == ~(\E e \in Ends : \E w \in 1..WMax : wres[e][w] = "ok" /\ closed[P(e)] /\ InFlight(<<e, w>>))
NeverLateAccept == ~(\E e \in Ends : \E w \in 1..WMax : wpc[e][w] = "begun" /\ closeRet[P(e)] /\ ~closed[e] /\ LateAccept(P(e)))

\* the cover graph forgets the history variables that do not influence behaviour
CoverView == <<wpc, wkind, wres, rpc, rtake, nread, cpc, closed, failed, peerGone, med, inbox, intake, exited, closeRet,
               [e \in Ends |-> Len(got[e])]>>
=============================================================================
