SPECIFICATION Spec
CONSTANTS
  URIs = {"u1","u2"}
  FirstURI = "u1"
  CCalls = {"k1"}
  Flavours = {"err","rej"}
  LCs = {"lc","nolc"}
  MaxPre = 2
  MaxPost = 3
  MaxLen = 6
  MaxNotif = 1
  MaxFaults = 1
CONSTRAINT EmitC
CHECK_DEADLOCK FALSE
