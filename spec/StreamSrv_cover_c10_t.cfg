SPECIFICATION SeamSpec
CONSTANTS
  Sess = {"s1"}
  Reqs = {"r1","r2"}
  Gets = {"g1"}
  Cfgs <- CfgStoreMixed
  MaxEmit = 1
  MaxSreq = 0
  MaxSa = 0
  MaxBc = 0
  DupOf <- NoDup
  Gates = FALSE
VIEW MCView
CHECK_DEADLOCK FALSE
