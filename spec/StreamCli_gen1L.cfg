\* behaviour export: single-cut table of the 13-event reference stream (ids spelled as the SDK server spells them)
\* (tools/checks/c09.py builds its configurations from the same template - the Fix* switches of the configurations that model
\*  the real code come from its REPAIRED table; this file is the thorough-tier one, for manual runs:
\*  java -cp $TLA_CP tlc2.TLC -config StreamCli_gen1L.cfg StreamCliMC)
SPECIFICATION Spec
CONSTANTS
  KindSet = {"post"}
  ShapeSet <- FirstOnly
  SchemeSet = {"dec"}
  MSet = {12}
  MRSet = {2}
  MaxCuts = 1
  ClassSet = {"bnd", "field", "name", "id", "idfull", "data", "datafull"}
  AnswerSet = {"ok"}
  TailSet = {"good"}
  RetrySet = {"none"}
  FixScanner = FALSE
  FixCursor = TRUE
  Fix5xx = TRUE
INVARIANTS Export
CHECK_DEADLOCK FALSE
