SPECIFICATION Spec
CONSTANTS
  KindSet = {"post"}
  ShapeSet <- FirstOnly
  SchemeSet = {"dec"}
  MSet = {12}
  MRSet = {2}
  MaxCuts = 1
  ClassSet = {"bnd", "field", "name", "id", "idfull", "data", "datafull"}
  AnswerSet = {"ok"}
  FixScanner = FALSE
  FixCursor = FALSE
  Fix5xx = FALSE
INVARIANTS Export
CHECK_DEADLOCK FALSE
