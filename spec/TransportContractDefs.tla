------------------------- MODULE TransportContractDefs -------------------------
(* The class table of TransportContract (X05): for every class of transport,   *)
(* the buffering it has and the way a Close travels, as functions of the class *)
(* (the specification instantiates them with its constant Class, the monitor   *)
(* with the class recorded in the log).  A = client side, B = server side for   *)
(* the HTTP classes.                                                           *)
EXTENDS Integers

Ends == {"A", "B"}
P(e) == IF e = "A" THEN "B" ELSE "A"
Big == 100
Classes == {"rdv", "buf", "stdio", "sse", "stream", "streamns"}
HttpC(cl) == cl \in {"sse", "stream", "streamns"}

\* a Write by e is handed straight to the peer's intake (no medium that buffers): net.Pipe / io.Pipe rendezvous with
\* the peer's reader goroutine; a POST pushed into the server connection's queue before it is answered
RdvC(cl, e) == cl = "rdv" \/ (HttpC(cl) /\ e = "A")
\* capacity of the receiving side: ioConn's reader goroutine holds ONE message; the HTTP connections queue 10 / 100
ICapC(cl) == IF cl \in {"rdv", "buf", "stdio"} THEN 1 ELSE Big
\* what e does when it learns that the peer's stream has ended
\*   once      ioConn: the error is handed to one Read (D4)
\*   autoclose sseClientConn closes itself; the handler closes the server connection when the GET / DELETE says so
\*   fail      streamableClientConn: fail() - Reads and Writes return the failure
\*   none      it never learns (D5)
EofModeC(cl, e) == CASE cl \in {"rdv", "buf", "stdio"} -> "once"
                     [] cl = "sse" -> "autoclose"
                     [] cl = "stream" -> IF e = "A" THEN "fail" ELSE "autoclose"
                     [] cl = "streamns" -> IF e = "A" THEN "fail" ELSE "none"
\* e's Close is signalled to the peer's intake (D5: not by StdioTransport before the process exits, not by a
\* streamable client that has no session to DELETE)
NotifyC(cl, e) == cl # "stdio" /\ ~(cl = "streamns" /\ e = "A")
\* D1: Read selects between the closed signal and a buffered queue
DrainAfterCloseC(cl, e) == (cl = "sse" /\ e = "B") \/ cl \in {"stream", "streamns"}
\* D2: the POST handler selects between the queue and the closed signal
LateAcceptC(cl, e) == HttpC(cl) /\ e = "B"
\* D3: Write does not look at the closed flag and nothing makes the underlying write fail
WriteAfterCloseOKC(cl, e) == cl = "stdio" \/ (cl = "streamns" /\ e = "A")
\* D6: streamableServerConn.Write routes by request id
OrphanRejectedC(cl, e) == cl \in {"stream", "streamns"} /\ e = "B"
=============================================================================
