SPECIFICATION Spec
CONSTANTS
  NS = 2
  MinLen = 2
  MaxLen = 2
  CallOK <- CallAll
  MaxHeld = 99
  Mode = "asyncButLast"
  LateRelease = FALSE
  AnyOrder = FALSE
  SymReduce = FALSE
  Canon = FALSE
CHECK_DEADLOCK FALSE
VIEW MCView
INVARIANTS ObservedInOrder
