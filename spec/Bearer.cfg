
