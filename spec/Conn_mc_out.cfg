SPECIFICATION Spec
CONSTANTS
  Callers = {"k1","k2"}
  Reqs = {}
  CallReqs = {}
  CancelOf <- NoCancelOf
  DupOf <- NoDupOf
  Closers = {"c1"}
  Waiters = {"w1"}
  WriteOutcomes = {"ok","broken","rejected"}
  EnvEOF = TRUE
VIEW MCView
INVARIANTS IdleWhenDone CountsNonNegative DoneMeansDrained RefusedNeverWritten OwnResponse AnsweredAtMostOnce NoReplyToNotification OneSyncHandler OnlyMatchingCancelled NoStuck ClosedMeansDone
PROPERTIES CompleteOnce NoHandlerStartAfterTransportClosed CloseOnlyWhenIdle WorkDecreasesUnderShutdown
CHECK_DEADLOCK FALSE
