SPECIFICATION MSpec
CONSTANTS
  MSessions = {"s1","s2"}
  MStreams = {"t1","t2"}
  MIters = {"k1","k2"}
  MDefaultMax = 10485760
CONSTRAINT MMark
POSTCONDITION MAccepted
CHECK_DEADLOCK FALSE
