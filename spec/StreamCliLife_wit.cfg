\* base of the reachability witnesses (INVARIANT appended by the check)
SPECIFICATION Spec
CONSTANTS
  NC = 3
  Profiles <- ProfMC
  FixCancel = FALSE
  FixStream = FALSE
CHECK_DEADLOCK FALSE
