-------------------------- MODULE OAuthFlowConcMon --------------------------
(* Property monitor for C15, the interleaving dimension: evaluated by TLC     *)
(* over observations of N calls of the REAL AuthorizationCodeHandler.Authorize*)
(* in flight on one handler (one line per replayed schedule of OAuthFlowConc, *)
(* written by harness/auth/c15_conc_test.go).  Every clause is the clause of  *)
(* C15 read for ONE attempt, with the concrete strings that attempt sent and  *)
(* received:                                                                  *)
(*   ExchangeOnlyOwnState  a token request with an authorization code by      *)
(*                     attempt a implies: the state in the callback given to  *)
(*                     a equals the state parameter of the authorization      *)
(*                     request a's fetcher was handed ("the one generated for *)
(*                     this attempt"), and the RFC 9207 check passes against  *)
(*                     the issuer of the metadata served to a                 *)
(*                     (OAuthFlow!IssOK: a received iss is string-equal; it   *)
(*                     is present when support is advertised)                 *)
(*   UsedOnlyIfMatching  the registration / authorization / token endpoint    *)
(*                     that attempt a uses belongs to the metadata whose      *)
(*                     issuer is the authorization server named to a (the     *)
(*                     metadata of another attempt is not what a asked for)   *)
(*   PreregBoundToIssuer  the pre-registered client id never travels to an    *)
(*                     authorization server with another issuer               *)
(*   NoTokenAfterFailure  whenever TokenSource() is looked at, its token is   *)
(*                     one that was there before, or one issued to an attempt *)
(*                     for which none of the above failed                     *)
(*   NoPanic                                                                  *)
(* "drift:*" lines compare with the specification OAuthFlowConc beyond the    *)
(* text of C15 (not a verdict): values of one attempt showing up in another   *)
(* (code_verifier, client id, resource, redirect_uri, the code, the token an  *)
(* attempt installs), and the specified outcome / hold points of each attempt.*)
EXTENDS VerifTrace, FiniteSets

VARIABLE l
MInit == l = 1 /\ MarkInit

Atts(e) == AsSet(e.att)
CodeToks(a) == {t \in AsSet(a.toks) : t.grant = "authorization_code"}

StateOwn(a) == a.auth.called /\ a.cb.got /\ a.auth.state # "" /\ a.cb.state = a.auth.state
IssOwn(a) == /\ (a.cb.iss # "" => a.cb.iss = a.issuer)
             /\ (a.adv => a.cb.iss # "")
MetaOwn(a) == /\ \A r \in AsSet(a.regs) \cup AsSet(a.toks) : r.as = a.asked /\ a.asked # ""
              /\ (a.auth.called => a.auth.as = a.asked /\ a.asked # "")
              /\ (a.issuer # "" => a.issuer = a.asked)
PreOwn(e, a) == /\ \A t \in AsSet(a.toks) : t.client = e.cfg.preid => t.as = e.cfg.preiss
                /\ (a.auth.called /\ a.auth.client = e.cfg.preid => a.auth.as = e.cfg.preiss)
Passed(e, a) == StateOwn(a) /\ IssOwn(a) /\ MetaOwn(a) /\ PreOwn(e, a)

ExchangeOK(e) == \A a \in Atts(e) : CodeToks(a) # {} => StateOwn(a) /\ IssOwn(a)
MetaOK(e) == \A a \in Atts(e) : MetaOwn(a)
PreregOK(e) == \A a \in Atts(e) : PreOwn(e, a)
Legit(e, tok) == \/ tok = ""
                 \/ tok \in AsSet(e.init)
                 \/ \E a \in Atts(e) : tok \in AsSet(a.issued) /\ Passed(e, a)
Seen(e) == {s.token : s \in AsSet(e.snaps)} \cup {a.after : a \in Atts(e)} \cup {e.final}
NoTokenAfterFailure(e) == \A tok \in Seen(e) : Legit(e, tok)

\* beyond the text of C15
VerifierOK(e) == \A a \in Atts(e) : \A t \in CodeToks(a) : t.vchal = a.auth.chal /\ a.auth.method = "S256"
ClientOK(e) == \A a \in Atts(e) : /\ \A t \in CodeToks(a) : t.client = a.auth.client
                                  /\ (a.ownreg # "" /\ a.auth.called => a.auth.client = a.ownreg)
ResourceOK(e) == \A a \in Atts(e) : /\ (a.auth.called => a.auth.resource = a.mcpurl)
                                    /\ \A t \in CodeToks(a) : t.resource = a.mcpurl
RedirectOK(e) == \A a \in Atts(e) : \A t \in CodeToks(a) : a.auth.called /\ t.redirect = a.auth.redirect
CodeOK(e) == \A a \in Atts(e) : \A t \in CodeToks(a) : a.cb.got /\ t.code = a.cb.code
InstallOK(e) == \A a \in Atts(e) : /\ (a.inststep => a.insttok \in AsSet(a.issued) /\ a.newtstok = a.insttok)
                                   /\ (a.newtstok # "" => a.newtstok \in AsSet(a.issued))
OutcomeOK(e) == \A a \in Atts(e) : a.err = a.expres /\ a.path = a.exppath /\ a.drained = 0 /\ a.skipped = <<>>

MNext == /\ l <= NLines /\ l' = l + 1
         /\ LET e == TraceLog[l] IN
              /\ Check(l, "NoPanic", e.panic = "" /\ \A a \in Atts(e) : a.panic = "")
              /\ Check(l, "ExchangeOnlyOwnState", ExchangeOK(e))
              /\ Check(l, "UsedOnlyIfMatching", MetaOK(e))
              /\ Check(l, "PreregBoundToIssuer", PreregOK(e))
              /\ Check(l, "NoTokenAfterFailure", NoTokenAfterFailure(e))
              /\ Check(l, "drift:verifier", VerifierOK(e))
              /\ Check(l, "drift:client", ClientOK(e))
              /\ Check(l, "drift:resource", ResourceOK(e))
              /\ Check(l, "drift:redirect", RedirectOK(e))
              /\ Check(l, "drift:code", CodeOK(e))
              /\ Check(l, "drift:install", InstallOK(e))
              /\ Check(l, "drift:outcome", OutcomeOK(e))
MSpec == MInit /\ [][MNext]_l
MMark == MarkAt(l)
MAccepted == Accepted
=============================================================================
