SPECIFICATION Spec
CONSTANTS
  Eras = {"legacy", "modern"}
  D = 2
  Fams = {"fd"}
  Clones = {"base"}
  Reqs = {"r1", "r2"}
  SetLevels = {"warning"}
  ReqLevels = {"absent", "info", "error", "bogus"}
  DirectLevels = {"info", "error"}
  Slog <- SlogTwo
  Ticks = {2}
  MaxFlight = 1
  Race = FALSE
  AsIs = TRUE
CHECK_DEADLOCK FALSE
