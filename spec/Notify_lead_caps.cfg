SPECIFICATION GenSpec
CONSTANTS
  Sessions = {"L1", "M1"}
  Legacy = {"L1"}
  InitOn = {"L1", "M1"}
  InitSub = {}
  Kinds = {"tools"}
  NotifOf <- NotifStd
  Uris = {}
  Want <- WantAll
  CapOff = {}
  CapMode <- ModeInferred
  InitSize <- Size1
  MaxSize = 2
  Dirs = {"add", "rm", "clear"}
  SendGate = "effective"
  TTLPos = FALSE
  D = 2
  MaxTime = 4
  MaxChanges = 2
  MaxUpdates = 0
  MaxCalls = 0
  NPages = 1
  ListenOwns = TRUE
  ResubRace = TRUE
  GenCheck = TRUE
  ColdBump = TRUE
  ModernUnsub = FALSE
  ForeignUnsub = FALSE
  Listeners = {}
  MaxListens = 0
  FailUndo = TRUE
  Stepwise = TRUE
  Gates = FALSE
  GateNames = {"inv", "usr", "put"}
  ClientFirst = FALSE
  MinSteps = 1
  MaxSteps = 8
  Bias = FALSE
  Script <- ScriptNone
  GenOps = {"change", "tick"}
INVARIANTS LeadNeverLost
CHECK_DEADLOCK FALSE
