----------------------------- MODULE ElicitURLMon -----------------------------
(* Monitor for X10 part (b): the properties U1..U6 of ElicitURL stated over   *)
(* what the harness observed at the seams of the REAL client (one event per   *)
(* line), independent of the model's internal steps.  A failed clause is a    *)
(* verdict (monfail); nothing here mentions how the middleware gets there.    *)
(*   start c / recv c try / resp c kind ids / notify id / cnotif id / ucall id *)
(*   hbegin c id / hend c h / cancel c / ret c out / snap keys / hang c / end  *)
(* `hang c` is logged after the drain phase: every attempt has been answered, *)
(* every consultation has returned, every completion that was sent has been   *)
(* handled, nothing else was done - and call c has still not returned.        *)
EXTENDS VerifTrace, FiniteSets

CallNos == 1..3
NoR == [kind |-> "none", ids |-> <<>>]
VARIABLES l, cfgh, started, rets, sends, nresp, fst, lastr, asked, hr, seen, cancelled, nq, ccnt, ucnt, lastc
mvars == <<l, cfgh, started, rets, sends, nresp, fst, lastr, asked, hr, seen, cancelled, nq, ccnt, ucnt, lastc>>

Zero == [c \in CallNos |-> 0]
Fresh(h) ==
  /\ cfgh' = h /\ started' = {} /\ rets' = Zero /\ sends' = Zero /\ nresp' = Zero
  /\ fst' = [c \in CallNos |-> NoR] /\ lastr' = [c \in CallNos |-> NoR]
  /\ asked' = [c \in CallNos |-> <<>>] /\ hr' = [c \in CallNos |-> <<>>] /\ seen' = [c \in CallNos |-> {}]
  /\ cancelled' = {} /\ nq' = <<>> /\ ccnt' = 0 /\ ucnt' = 0 /\ lastc' = ""

Range(s) == {s[i] : i \in DOMAIN s}
UrlKinds == {"urlreq", "urlbad", "urlnourl"}
NoHerr(c) == \A k \in DOMAIN hr[c] : hr[c][k] # "herr"
\* c has received the error and has neither retried nor returned
WaitingFor(c) == c \in started /\ rets[c] = 0 /\ sends[c] = 1 /\ fst[c].kind = "urlreq"

RetryJustified(c) ==
  /\ cfgh /\ rets[c] = 0 /\ fst[c].kind = "urlreq" /\ nresp[c] = 1
  /\ asked[c] = fst[c].ids /\ Len(hr[c]) = Len(asked[c]) /\ NoHerr(c)
  /\ Range(fst[c].ids) \subseteq seen[c]
HandlerJustified(c, id) ==
  /\ cfgh /\ WaitingFor(c)
  /\ Len(asked[c]) < Len(fst[c].ids) /\ fst[c].ids[Len(asked[c]) + 1] = id
  /\ Len(hr[c]) = Len(asked[c]) /\ NoHerr(c)
Faithful(c, o) ==
  CASE o \in {"ok", "err"} -> lastr[c].kind = o /\ nresp[c] = sends[c]
    [] o = "urlreq" -> lastr[c].kind \in UrlKinds /\ nresp[c] = sends[c] /\ (sends[c] = 2 \/ ~cfgh)
    [] o = "badmode" -> fst[c].kind = "urlbad" /\ sends[c] = 1
    [] o = "elicitfail" -> sends[c] = 1 /\ (fst[c].kind = "urlnourl" \/ (hr[c] # <<>> /\ hr[c][Len(hr[c])] = "herr"))
    [] o = "ctxerr" -> c \in cancelled
    [] OTHER -> FALSE
\* a waiter may only belong to a call that has not returned and was told to wait for that id
KeyOwned(k) == \E c \in started : rets[c] = 0 /\ fst[c].kind \in {"urlreq", "urlnourl"} /\ k \in Range(fst[c].ids)
\* after the drain a call may only still be blocked because a completion it was told to wait for has not been
\* handled since it received the error
HangJustified(c) == WaitingFor(c) /\ \E i \in Range(fst[c].ids) : i \notin seen[c]

Step(e) ==
  CASE e.ev = "reset" -> Fresh(e.cfgh)
    [] e.ev = "start" ->
         /\ started' = started \cup {e.c}
         /\ UNCHANGED <<cfgh, rets, sends, nresp, fst, lastr, asked, hr, seen, cancelled, nq, ccnt, ucnt, lastc>>
    [] e.ev = "recv" ->
         /\ Check(l, "U2.RetryJustified", sends[e.c] = 0 \/ RetryJustified(e.c))
         /\ Check(l, "U2.NoThirdAttempt", sends[e.c] < 2)
         /\ Check(l, "U1.ExactlyOnce", e.c \in started /\ rets[e.c] = 0)
         /\ sends' = [sends EXCEPT ![e.c] = @ + 1]
         /\ UNCHANGED <<cfgh, started, rets, nresp, fst, lastr, asked, hr, seen, cancelled, nq, ccnt, ucnt, lastc>>
    [] e.ev = "resp" ->
         /\ lastr' = [lastr EXCEPT ![e.c] = [kind |-> e.kind, ids |-> e.ids]]
         /\ fst' = IF nresp[e.c] = 0 THEN [fst EXCEPT ![e.c] = [kind |-> e.kind, ids |-> e.ids]] ELSE fst
         /\ nresp' = [nresp EXCEPT ![e.c] = @ + 1]
         /\ UNCHANGED <<cfgh, started, rets, sends, asked, hr, seen, cancelled, nq, ccnt, ucnt, lastc>>
    [] e.ev = "notify" ->
         /\ nq' = Append(nq, e.id)
         /\ UNCHANGED <<cfgh, started, rets, sends, nresp, fst, lastr, asked, hr, seen, cancelled, ccnt, ucnt, lastc>>
    [] e.ev = "cnotif" ->
         /\ Check(l, "U5.CompletionsInOrder", nq # <<>> /\ Head(nq) = e.id)
         /\ nq' = IF nq # <<>> THEN Tail(nq) ELSE nq
         /\ seen' = [c \in CallNos |-> IF WaitingFor(c) THEN seen[c] \cup {e.id} ELSE seen[c]]
         /\ ccnt' = ccnt + 1 /\ lastc' = e.id
         /\ UNCHANGED <<cfgh, started, rets, sends, nresp, fst, lastr, asked, hr, cancelled, ucnt>>
    [] e.ev = "ucall" ->
         /\ Check(l, "U5.UserHandlerOncePerCompletion", ucnt + 1 = ccnt /\ e.id = lastc)
         /\ ucnt' = ucnt + 1
         /\ UNCHANGED <<cfgh, started, rets, sends, nresp, fst, lastr, asked, hr, seen, cancelled, nq, ccnt, lastc>>
    [] e.ev = "hbegin" ->
         /\ Check(l, "U3.HandlerJustified", HandlerJustified(e.c, e.id))
         /\ asked' = [asked EXCEPT ![e.c] = Append(@, e.id)]
         /\ UNCHANGED <<cfgh, started, rets, sends, nresp, fst, lastr, hr, seen, cancelled, nq, ccnt, ucnt, lastc>>
    [] e.ev = "hend" ->
         /\ hr' = [hr EXCEPT ![e.c] = Append(@, e.h)]
         /\ UNCHANGED <<cfgh, started, rets, sends, nresp, fst, lastr, asked, seen, cancelled, nq, ccnt, ucnt, lastc>>
    [] e.ev = "cancel" ->
         /\ cancelled' = cancelled \cup {e.c}
         /\ UNCHANGED <<cfgh, started, rets, sends, nresp, fst, lastr, asked, hr, seen, nq, ccnt, ucnt, lastc>>
    [] e.ev = "ret" ->
         /\ Check(l, "U1.ExactlyOnce", e.c \in started /\ rets[e.c] = 0)
         /\ Check(l, "U1.Faithful", Faithful(e.c, e.out))
         /\ rets' = [rets EXCEPT ![e.c] = @ + 1]
         /\ UNCHANGED <<cfgh, started, sends, nresp, fst, lastr, asked, hr, seen, cancelled, nq, ccnt, ucnt, lastc>>
    [] e.ev = "snap" ->
         /\ Check(l, "U4.NoLeak", \A k \in AsSet(e.keys) : KeyOwned(k))
         /\ UNCHANGED <<cfgh, started, rets, sends, nresp, fst, lastr, asked, hr, seen, cancelled, nq, ccnt, ucnt, lastc>>
    [] e.ev = "hang" ->
         /\ Check(l, "U6.Returns", HangJustified(e.c))
         /\ UNCHANGED <<cfgh, started, rets, sends, nresp, fst, lastr, asked, hr, seen, cancelled, nq, ccnt, ucnt, lastc>>
    [] e.ev = "end" ->
         /\ Check(l, "U4.NoLeak", e.keys = <<>>)
         /\ Check(l, "U1.ExactlyOnce", \A c \in started : rets[c] = 1)
         /\ Check(l, "U5.UserHandlerOncePerCompletion", ucnt = ccnt)
         /\ UNCHANGED <<cfgh, started, rets, sends, nresp, fst, lastr, asked, hr, seen, cancelled, nq, ccnt, ucnt, lastc>>
    [] OTHER -> UNCHANGED <<cfgh, started, rets, sends, nresp, fst, lastr, asked, hr, seen, cancelled, nq, ccnt, ucnt, lastc>>

MInit == l = 1 /\ MarkInit /\ cfgh = FALSE /\ started = {} /\ rets = Zero /\ sends = Zero /\ nresp = Zero
         /\ fst = [c \in CallNos |-> NoR] /\ lastr = [c \in CallNos |-> NoR]
         /\ asked = [c \in CallNos |-> <<>>] /\ hr = [c \in CallNos |-> <<>>] /\ seen = [c \in CallNos |-> {}]
         /\ cancelled = {} /\ nq = <<>> /\ ccnt = 0 /\ ucnt = 0 /\ lastc = ""
MNext == l <= NLines /\ l' = l + 1 /\ Step(TraceLog[l])
MSpec == MInit /\ [][MNext]_mvars
MMark == MarkAt(l)
MAccepted == Accepted
=============================================================================
