-------------------------- MODULE TransportContractMon --------------------------
(* Property monitor of X05, evaluated by TLC over the call logs recorded from   *)
(* real mcp.Connection pairs (harness/mcp/x05_transport_test.go).  It states    *)
(* T1..T7, L1..L4 of TransportContract.tla over begin / end events ordered by   *)
(* one global sequence number - nothing about how the transport gets there.     *)
(* The deviations D1..D3 are NOT excused here (a transport that shows them      *)
(* breaks T2 / T3); D4..D6 are part of the statements of L2 and T5.             *)
(*                                                                              *)
(*  reset trace kind cls                                                        *)
(*  b  op ep i k          a call begins (W: writer i, message kind k; R: the    *)
(*                        i-th Read of ep; C: closer i)                         *)
(*  e  op ep i res src w  it has returned: ok | err | msg (src, w) | panic      *)
(*  x  ep                 stdio: the process of ep exits                        *)
(*  mark m0 sida sidb     the link is up (SessionID() of both ends)             *)
(*  mark m1 pend sida sidb  the schedule is over and the SDK has settled; pend  *)
(*                        = the calls that have not returned                    *)
(*  mark m2 pend leak sida sidb   both ends have been closed (and exited) since *)
(*  skip                  a step of the schedule that was not applicable        *)
EXTENDS TransportContractDefs, VerifTrace, FiniteSets

VARIABLES l, evs, sids
mvars == <<l, evs, sids>>

N == Len(evs)
Is(j, ev, op, ep) == evs[j].ev = ev /\ evs[j].op = op /\ evs[j].ep = ep
\* index of the begin / end event of a call (0: none)
BI(op, ep, i) == IF \E j \in 1..N : Is(j, "b", op, ep) /\ evs[j].i = i
                 THEN CHOOSE j \in 1..N : Is(j, "b", op, ep) /\ evs[j].i = i ELSE 0
EI(op, ep, i) == IF \E j \in 1..N : Is(j, "e", op, ep) /\ evs[j].i = i
                 THEN CHOOSE j \in 1..N : Is(j, "e", op, ep) /\ evs[j].i = i ELSE 0
Idxs == [j \in 1..N |-> j]
\* the successful Reads of ep, in order (indices into evs)
DI(ep) == SelectSeq(Idxs, LAMBDA j : Is(j, "e", "R", ep) /\ evs[j].res = "msg")
DeliveredAt(ep, w) == \E j \in 1..N : Is(j, "e", "R", ep) /\ evs[j].res = "msg" /\ evs[j].w = w
CloseRetBefore(ep, j) == \E c \in 1..(j - 1) : Is(c, "e", "C", ep)
CloseBegunBefore(j) == \E c \in 1..(j - 1) : evs[c].ev = "b" /\ evs[c].op = "C"
CloseRet(ep) == CloseRetBefore(ep, N + 1)
ErrTaken(ep) == \E j \in 1..N : Is(j, "e", "R", ep) /\ evs[j].res = "err"
Exited(ep) == \E j \in 1..N : evs[j].ev = "x" /\ evs[j].ep = ep

\* ---- safety, over the events so far -----------------------------------------
Nm(base, ep) == base \o "@" \o ep
Safety(cls) ==
  /\ Check(l, "T4.NoPanic", \A j \in 1..N : evs[j].res # "panic")
  /\ \A ep \in Ends :
       LET D == DI(ep) pe == P(ep) IN
       /\ Check(l, Nm("T1.NoDup", ep), \A a, b \in DOMAIN D : a # b => evs[D[a]].w # evs[D[b]].w)
       /\ Check(l, Nm("T1.NoInvention", ep), \A a \in DOMAIN D :
              evs[D[a]].src = pe /\ BI("W", pe, evs[D[a]].w) > 0 /\ BI("W", pe, evs[D[a]].w) < D[a])
       /\ Check(l, Nm("T1.InOrder", ep), \A a, b \in DOMAIN D : a < b =>
              ~(EI("W", pe, evs[D[b]].w) > 0 /\ EI("W", pe, evs[D[b]].w) < BI("W", pe, evs[D[a]].w)))
       /\ Check(l, Nm("T1.NoGap", ep), \A b \in DOMAIN D : \A j \in 1..N :
              (Is(j, "e", "W", pe) /\ evs[j].res = "ok" /\ j < BI("W", pe, evs[D[b]].w))
                 => \E a \in 1..(b - 1) : evs[D[a]].w = evs[j].i)
       /\ Check(l, Nm("T2.ClosedStopsReads", ep), \A a \in DOMAIN D : ~CloseRetBefore(ep, BI("R", ep, evs[D[a]].i)))
       /\ Check(l, Nm("T3.ClosedStopsWrites", ep), \A j \in 1..N : (Is(j, "b", "W", ep) /\ CloseRetBefore(ep, j)) =>
              /\ (EI("W", ep, evs[j].i) > 0 => evs[EI("W", ep, evs[j].i)].res # "ok")
              /\ ~DeliveredAt(pe, evs[j].i))
       /\ Check(l, Nm("T4.CloseSameResult", ep), \A a, b \in 1..N : (Is(a, "e", "C", ep) /\ Is(b, "e", "C", ep)) => evs[a].res = evs[b].res)
       /\ Check(l, Nm("T5.NoSpuriousReadError", ep), \A j \in 1..N : (Is(j, "e", "R", ep) /\ evs[j].res = "err") => CloseBegunBefore(j))
       /\ Check(l, Nm("T5.NoSpuriousWriteError", ep), \A j \in 1..N : (Is(j, "e", "W", ep) /\ evs[j].res = "err") =>
              (CloseBegunBefore(j) \/ (evs[j].k = "orph" /\ OrphanRejectedC(cls, ep))))

\* ---- at rest ------------------------------------------------------------------
Pending(e, op, ep) == \E k \in DOMAIN e.pend : e.pend[k].op = op /\ e.pend[k].ep = ep
PeerCloseSeen(cls, ep) == IF cls = "stdio" THEN Exited(P(ep))
                          ELSE CloseRet(P(ep)) /\ NotifyC(cls, P(ep)) /\ EofModeC(cls, ep) # "none"
AtM1(e) ==
  LET cls == e.cls IN
  /\ Check(l, "Drift.Unsettled", e.note = "")
  /\ Safety(cls)
  /\ Check(l, "L1.CloseReturns", \A ep \in Ends : ~Pending(e, "C", ep))
  /\ Check(l, "L2.CloseUnblocksRead", \A ep \in Ends : Pending(e, "R", ep) =>
         ~(CloseRet(ep) \/ (PeerCloseSeen(cls, ep) /\ ~ErrTaken(ep))))
  /\ Check(l, "L3.CloseUnblocksWrite", \A ep \in Ends : Pending(e, "W", ep) => ~(CloseRet(ep) \/ CloseRet(P(ep))))
  /\ Check(l, "T6.NoLoss", (~CloseBegunBefore(N + 1)) => \A ep \in Ends : Pending(e, "R", ep) =>
         \A j \in 1..N : (Is(j, "e", "W", P(ep)) /\ evs[j].res = "ok") => DeliveredAt(ep, evs[j].i))
AtM2(e) ==
  /\ Check(l, "Drift.Unsettled", e.note = "")
  /\ Safety(e.cls)
  /\ Check(l, "L1.CloseReturns", \A ep \in Ends : ~Pending(e, "C", ep))
  /\ Check(l, "L2.CloseUnblocksRead", \A ep \in Ends : ~Pending(e, "R", ep))
  /\ Check(l, "L3.CloseUnblocksWrite", \A ep \in Ends : ~Pending(e, "W", ep))
  /\ Check(l, "L4.NothingLeft", Len(e.leak) = 0)

Step(e) ==
  CASE e.ev = "reset" -> evs' = <<>> /\ sids' = [ep \in Ends |-> ""]
    [] e.ev \in {"b", "e", "x"} -> evs' = Append(evs, e) /\ UNCHANGED sids
    [] e.ev = "mark" -> /\ (IF e.name = "m1" THEN AtM1(e) ELSE IF e.name = "m2" THEN AtM2(e)
                            ELSE Check(l, "Drift.Broken", e.name = "m0"))
                        /\ Check(l, "T7.SessionIDStable@A", sids["A"] # "" => e.sida = sids["A"])
                        /\ Check(l, "T7.SessionIDStable@B", sids["B"] # "" => e.sidb = sids["B"])
                        /\ sids' = [A |-> IF sids["A"] = "" THEN e.sida ELSE sids["A"],
                                    B |-> IF sids["B"] = "" THEN e.sidb ELSE sids["B"]]
                        /\ UNCHANGED evs
    [] OTHER -> UNCHANGED <<evs, sids>>

MInit == l = 1 /\ evs = <<>> /\ sids = [ep \in Ends |-> ""] /\ MarkInit
MNext == /\ l <= NLines
         /\ l' = l + 1
         /\ Step(TraceLog[l])
MSpec == MInit /\ [][MNext]_mvars
MMark == MarkAt(l)
MAccepted == Accepted
=============================================================================
