SPECIFICATION SettledSpec
CONSTANTS
  MaxSess = 1
  MaxPost = 2
  MaxSend = 1
  Cap = 1
  Direct = TRUE
  RandomSelect = TRUE
  KindSet = {"call", "notif", "badjson", "badreq"}
  WithNoId = FALSE
  WithUnknown = FALSE
INVARIANTS TypeOK Routing AtMostOnce
VIEW CoverView
CHECK_DEADLOCK FALSE
