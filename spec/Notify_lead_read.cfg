SPECIFICATION GenSpec
CONSTANTS
  Sessions = {"M1"}
  Legacy = {}
  InitOn = {"M1"}
  Kinds = {}
  NotifOf <- NotifStd
  Uris = {"u1"}
  Want <- WantAll
  CapOff = {}
  TTLPos = TRUE
  D = 2
  MaxTime = 4
  MaxChanges = 0
  MaxUpdates = 1
  MaxCalls = 2
  ModernUnsub = FALSE
  Stepwise = TRUE
  Gates = TRUE
  GateNames = {"put"}
  ClientFirst = FALSE
  MinSteps = 1
  MaxSteps = 9
  Bias = FALSE
INVARIANTS LeadFresh
CHECK_DEADLOCK FALSE
