SPECIFICATION Spec
CONSTANTS
  N = 2
  SharedFields = {"client"}
  RegModes = {"dcr", "pre"}
  AdvChoices <- AdvUniform
  LaterServers = {"S1", "S2"}
  CbKinds = {"own", "other", "stale", "badiss"}
  TokenOutcomes = {"good"}
INVARIANT ClientBoundToAttempt
CHECK_DEADLOCK FALSE
