SPECIFICATION GSpec
CONSTANTS
  Sess = {"s1"}
  Reqs = {"r1","r2"}
  Gets = {"g1"}
  Cfgs <- CfgPlainSse
  MaxEmit = 0
  MaxSreq = 1
  MaxSa = 0
  MaxBc = 0
  DupOf <- NoDup
  Gates = FALSE
VIEW MCView
INVARIANTS ResumeExact IdsDense IdStable StoreBeforeDeliver CompleteAtEnd CompleteAtRest FinalObtainable RefusedOnlyOnConflict ResponseOnOwnExchange NestedRouting NoCrossSession RoutingEntryLifecycle LockDiscipline IdUnique
CHECK_DEADLOCK FALSE
