\* no behaviour: the ASSUMEs of DispatchTab do the work
