SPECIFICATION Spec
CONSTANTS
  Callers = {}
  Reqs = {"r1","d1","n1"}
  CallReqs = {"r1","d1"}
  CancelOf <- NoCancelOf
  DupOf <- Dup1
  Closers = {"c1"}
  Waiters = {}
  WriteOutcomes = {"ok","broken"}
  EnvEOF = TRUE
VIEW MCView
INVARIANTS IdleWhenDone CountsNonNegative DoneMeansDrained RefusedNeverWritten OwnResponse AnsweredAtMostOnce NoReplyToNotification OneSyncHandler OnlyMatchingCancelled NoStuck ClosedMeansDone
PROPERTIES CompleteOnce NoHandlerStartAfterTransportClosed CloseOnlyWhenIdle WorkDecreasesUnderShutdown
CHECK_DEADLOCK FALSE
