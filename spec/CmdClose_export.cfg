SPECIFICATION Spec
CONSTANTS
  TD = 8
  Slack = 1
  Classes <- AllClasses
INVARIANT Export
CHECK_DEADLOCK FALSE
