--------------------------- MODULE EventStoreTrace ---------------------------
(* Strict trace specification for C20: every logged operation must be the     *)
(* EventStore action of the same name with the logged arguments, and the      *)
(* logged result and projected state must equal the specification's.          *)
EXTENDS EventStore, VerifTrace

VARIABLE l
tvars == <<svars, l>>

Item2(q) == [i \in DOMAIN q |-> IF q[i].sz = 0 THEN <<-1, 0>> ELSE <<q[i].n, q[i].sz>>]

StateMatches(e) ==
  /\ e.curmax = maxBytes'
  /\ \A i \in DOMAIN e.state :
       LET st == e.state[i]  p == <<st.s, st.t>> IN
         IF p \in open' THEN st.open /\ st.first = first'[p] /\ st.items = Item2(data'[p])
         ELSE ~st.open

ResMatches(e) ==
  /\ e.op = "after" =>
       /\ e.res.kind = res'.kind
       /\ res'.kind = "items" => e.res.items = Item2(res'.items)
  \* a step of a ranging: the item of the copy taken when the ranging began, the end, or the error
  /\ e.op \in {"ibegin", "inext"} =>
       /\ e.res.kind = res'.kind
       /\ res'.kind = "item" => e.res.items = Item2(<<res'.item>>)

TReset == /\ open' = {} /\ first' = [p \in Pairs |-> 0] /\ data' = [p \in Pairs |-> <<>>]
          /\ nBytes' = 0 /\ maxBytes' = DefaultMax
          /\ appended' = [p \in Pairs |-> <<>>] /\ lastSz' = 0 /\ cnt' = 0
          /\ res' = [kind |-> "none"] /\ panicked' = FALSE
          /\ its' = [k \in Iters |-> NoIter]

TStep(e) ==
  /\ e.panic = ""
  /\ CASE e.op = "open"   -> Open(e.s, e.t)
       [] e.op = "append" -> AppendItem(e.s, e.t, e.n, e.sz)
       [] e.op = "after"  -> After(e.s, e.t, e.idx)
       [] e.op = "setmax" -> SetMax(e.max)
       [] e.op = "closed" -> Closed(e.s)
       [] e.op = "iget"   -> Get(e.k, e.s, e.t, e.idx)
       [] e.op = "ibegin" -> Begin(e.k)
       [] e.op = "inext"  -> IterNext(e.k)
       [] e.op = "istop"  -> Stop(e.k)
       [] e.op = "idrop"  -> Drop(e.k)
  /\ StateMatches(e) /\ ResMatches(e)

TInit == Init /\ l = 1 /\ MarkInit
TNext == /\ l <= NLines /\ l' = l + 1
         /\ LET e == TraceLog[l] IN IF e.ev = "reset" THEN TReset ELSE TStep(e)
TSpec == TInit /\ [][TNext]_tvars
TMark == MarkAt(l)
TAccepted == Accepted
\* the design-level invariants are re-checked on every state of every accepted trace
=============================================================================
