SPECIFICATION SeamSpec
CONSTANTS
  Calls = {"k1"}
  CCl = {"c1", "c2"}
  SCl = {"s1", "s2"}
  Stateless = FALSE
  Timeout = FALSE
  Sse = FALSE
  Nested = FALSE
  Faults = {"cut"}
  DelModes = {"fail", "hold"}
  Helds = FALSE
  Notifs = TRUE
  Cancels = FALSE
  AwaitHandlers = TRUE
  StopSseOnClose = TRUE
VIEW MCView
INVARIANTS TypeOK NothingDispatchedAfterClose RunningHandlersFinish SessionRemoved
CHECK_DEADLOCK FALSE
