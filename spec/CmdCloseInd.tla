---------------------------- MODULE CmdCloseInd ----------------------------
(* Apalache entry point for the inductive invariant CmdClose!IndInv (X04):    *)
(*   apalache-mc check --cinit=CInit --init=Init    --inv=IndInv --length=0   *)
(*   apalache-mc check --cinit=CInit --init=IndInit --inv=IndInv --length=1   *)
(* Init, Next and IndInv are those of CmdClose, the class alphabet is         *)
(* CmdCloseMC!AllClasses; nothing is copied.  (CmdCloseMC EXTENDS Json, which *)
(* Apalache cannot type: the check puts spec/apalache_stubs/Json.tla next to  *)
(* the modules.)                                                              *)
EXTENDS CmdCloseMC, Apalache

\* every class of the TLC configurations, timers on time or one tick late, and ANY TerminateDuration that is a
\* multiple of 8 ticks (the TLC configurations take TD = 8 and TD = 16)
CInit == /\ TD \in Nat /\ TD > 0 /\ TD % 8 = 0 /\ Slack \in {0, 1} /\ Classes = AllClasses

IndInit ==
  /\ cls = Gen(1) /\ now = Gen(1) /\ pc = Gen(1) /\ deadline = Gen(1) /\ waiter = Gen(1) /\ res = Gen(1)
  /\ child = Gen(1) /\ status = Gen(1) /\ due = Gen(3) /\ closeAt = Gen(1) /\ termAt = Gen(1) /\ killAt = Gen(1)
  /\ exitAt = Gen(1) /\ retAt = Gen(1) /\ err = Gen(1) /\ err2 = Gen(1) /\ hist = Gen(3)
  /\ IndInv

\* sanity of the step case: action invariants, each must be VIOLATED with --init=IndInit --length=1
SanityNoKill == ~(killAt = NoT /\ killAt' # NoT)
SanityNoTick == now' = now
SanityNoDone == ~(pc = "kill" /\ err' = "done")
=============================================================================
