\* thorough (-coverage 1): no idle timeout, no standalone stream, notifications
SPECIFICATION Spec
CONSTANTS
  Calls = {"k1"}
  CCl = {"c1"}
  SCl = {"s1"}
  Stateless = FALSE
  Timeout = FALSE
  Sse = FALSE
  Nested = FALSE
  Faults = {"cut", "net"}
  DelModes = {"hang", "fail"}
  Helds = FALSE
  Notifs = TRUE
  Cancels = FALSE
  AwaitHandlers = TRUE
  StopSseOnClose = TRUE
INVARIANTS TypeOK NothingDispatchedAfterClose RunningHandlersFinish SessionRemoved
CHECK_DEADLOCK FALSE
