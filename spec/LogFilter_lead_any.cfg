SPECIFICATION HSpec
CONSTANTS
  Eras = {"legacy"}
  D = 2
  Fams = {"f0"}
  Clones = {"base"}
  Reqs = {}
  SetLevels = {"debug", "warning"}
  ReqLevels = {"absent"}
  DirectLevels = {"error"}
  Slog <- SlogMid
  Ticks = {1, 2}
  MaxFlight = 2
  Race = TRUE
  AsIs = TRUE
  MaxLen = 4
INVARIANTS LeadAny
CHECK_DEADLOCK FALSE
