SPECIFICATION SettledSpec
CONSTANTS
  MaxSess = 3
  MaxPost = 6
  MaxSend = 2
  Cap = 3
  Direct = FALSE
  RandomSelect = TRUE
  KindSet = {"call", "notif", "slow", "badjson", "badreq", "ctype"}
  WithNoId = TRUE
  WithUnknown = TRUE
INVARIANTS TypeOK Routing AtMostOnce Order Refusal TableExact
CHECK_DEADLOCK FALSE
