-------------------------- MODULE MultiRoundTripGen --------------------------
(* Behaviour generation for extension check X01 by TLC simulation             *)
(* (-simulate): MultiRoundTrip with the code's limits (10 / 3) and a history  *)
(* variable that records the environment's choices - which client, which      *)
(* calls, what the handler returns at each invocation, how and in which order *)
(* the client's handlers end.  Every finished behaviour is printed as JSON    *)
(* from the state constraint; tools/checks/x01.py turns it into a script for  *)
(* the Go harness.                                                            *)
EXTENDS MultiRoundTripMC, Json

VARIABLE hist
gvars == <<vars, hist>>

GenInit == CoverInit /\ hist = <<>>

Quiet(A) == A /\ UNCHANGED hist
Rec(A, x) == A /\ hist' = Append(hist, x)

GenNext ==
  \/ \E m \in Modes, e \in BOOLEAN, s \in BOOLEAN :
        Rec(Setup(m, e, s), [a |-> "setup", mode |-> m, hasE |-> e, hasS |-> s])
  \/ \E o \in Others : Rec(GAppCall(o), [a |-> "call", other |-> o])
  \/ Rec(GAppRetry, [a |-> "retry"])
  \/ \E t \in {"complete", "input", "invalid", "err"}, R \in HandlerMaps, s \in BOOLEAN :
        Rec(GSInvoke(t, R, s), [a |-> "inv", t |-> t, reqs |-> R, st |-> s, n |-> inv + 1])
  \/ \E k \in Keys, r \in {"ok", "fail"} : Rec(GFEnd(k, r), [a |-> "end", k |-> k, r |-> r, n |-> inv])
  \/ Quiet(GCSend) \/ Quiet(GSOther) \/ Quiet(GSPost) \/ Quiet(GSMw)
  \/ \E k \in Keys : Quiet(GFBegin(k))
  \/ \E k \in Keys : Quiet(GFSkip(k))
  \/ \E k \in Keys : Quiet(GFAbandon(k))
  \/ \E k \in Keys : Quiet(GOEnd(k))
  \/ \E k \in Keys : Quiet(GFLate(k))
  \/ \E k \in Keys : Quiet(GLBegin(k))
  \/ \E k \in Keys : Quiet(GLDrop(k))
  \/ Quiet(GFJoin) \/ Quiet(GCPass) \/ Quiet(GCFinal) \/ Quiet(GCInput)
GenSpec == GenInit /\ [][GenNext]_gvars

Finished == pc = "done" /\ callno = MaxCalls /\ orphan = {} /\ late = {}
\* used as a state constraint: evaluated on every generated state, TRUE always
Export == IF Finished THEN PrintT(ToJson(hist)) ELSE TRUE
=============================================================================
