------------------------------ MODULE ConnPair ------------------------------
(* Abstract model of the SHUTDOWN PROTOCOL between two SDK endpoints joined by *)
(* a transport with bounded buffering (C05 "from either side", C01 "never      *)
(* stays blocked").  Conn.tla models ONE endpoint against an adversarial       *)
(* environment, which is enough for safety but not for termination: whether    *)
(* Close returns depends on what the peer - the same SDK - does while it is    *)
(* itself shutting down.  This module keeps only what matters for that:        *)
(*   per endpoint  closing, reader alive, transport end closed, done,          *)
(*                 outgoing calls still pending, incoming calls being handled, *)
(*                 writers blocked on the transport                            *)
(*   per direction a FIFO of messages with capacity Cap (Cap = 1: net.Pipe     *)
(*                 plus the one message ioConn's read goroutine holds)         *)
(* The two repairs made in /repo are switches, so that TLC exhibits both       *)
(* historical deadlocks when they are off and proves termination when on:      *)
(*   RespDuringShutdown  (0f734ea) responses are written while shutting down   *)
(*   RefuseOffLoop       (3f1b19a) a refusal is written off the read loop      *)
EXTENDS Integers, Sequences, FiniteSets, TLC

CONSTANTS Cap, RespDuringShutdown, RefuseOffLoop,
          CallsAB, CallsBA,     \* ordinary calls A->B and B->A that the applications may start
          Nest                  \* calls in CallsAB whose handler (at B) makes one nested call back to A before returning

E == {"A", "B"}
Peer(e) == IF e = "A" THEN "B" ELSE "A"
NestedOf(c) == "n" \o c
Calls == CallsAB \cup CallsBA \cup {NestedOf(c) : c \in Nest}
Caller(c) == IF c \in CallsAB THEN "A" ELSE IF c \in CallsBA THEN "B" ELSE "B"   \* nested calls are issued by B's handler
IsNested(c) == c \notin CallsAB \cup CallsBA

VARIABLES closing, reading, trClosed, done,
          out,        \* [E -> SUBSET Calls]       calls registered and not yet completed
          result,     \* [Calls -> {"none","ok","refused","eof","closed"}]
          handling,   \* [E -> SUBSET Calls]       incoming calls counted as in flight (handler running or response pending)
          hstate,     \* [Calls -> {"none","run","nested","ret","done"}]  handler of the call at the callee
          ch,         \* [E -> Seq(msg)]  messages travelling TO endpoint e
          rblocked,   \* [E -> msg or NoMsg]  the read loop of e is blocked writing this message (a refusal)
          wq          \* [E -> Seq(msg)]  other writers of e blocked on the transport (responses, calls), in order
vars == <<closing, reading, trClosed, done, out, result, handling, hstate, ch, rblocked, wq>>

Msg(kind, c, v) == [kind |-> kind, c |-> c, v |-> v]
NoMsg == Msg("none", "", "")
ShuttingDown(e) == closing[e] \/ ~reading[e]
Idle(e) == out[e] = {} /\ handling[e] = {}

Init ==
  /\ closing = [e \in E |-> FALSE] /\ reading = [e \in E |-> TRUE] /\ trClosed = [e \in E |-> FALSE]
  /\ done = [e \in E |-> FALSE]
  /\ out = [e \in E |-> {}] /\ result = [c \in Calls |-> "none"]
  /\ handling = [e \in E |-> {}] /\ hstate = [c \in Calls |-> "none"]
  /\ ch = [e \in E |-> <<>>] /\ rblocked = [e \in E |-> NoMsg] /\ wq = [e \in E |-> <<>>]

\* ---- the transport: a write by e puts a message on ch[Peer(e)] when there is room
Room(e) == Len(ch[Peer(e)]) < Cap
Broken(e) == trClosed[e] \/ trClosed[Peer(e)]

\* ---- applications
StartCall(c) ==
  LET e == Caller(c) IN
  /\ ~IsNested(c) /\ result[c] = "none" /\ c \notin out[e] /\ hstate[c] = "none"
  /\ IF ShuttingDown(e)
     THEN /\ result' = [result EXCEPT ![c] = "closed"] /\ UNCHANGED <<out, wq>>
     ELSE /\ out' = [out EXCEPT ![e] = @ \cup {c}] /\ wq' = [wq EXCEPT ![e] = Append(@, Msg("call", c, "-"))]
          /\ UNCHANGED result
  /\ UNCHANGED <<closing, reading, trClosed, done, handling, hstate, ch, rblocked>>

Close(e) == /\ ~closing[e] /\ closing' = [closing EXCEPT ![e] = TRUE]
            /\ UNCHANGED <<reading, trClosed, done, out, result, handling, hstate, ch, rblocked, wq>>

\* ---- writers other than the read loop: the head of wq[e] goes out when there is room; it fails when the transport broke
WriterStep(e) ==
  /\ wq[e] # <<>>
  /\ LET m == Head(wq[e]) IN
     IF Broken(e)
     THEN /\ wq' = [wq EXCEPT ![e] = Tail(@)]
          /\ IF m.kind = "call" THEN /\ out' = [out EXCEPT ![e] = @ \ {m.c}]
                                     /\ result' = [result EXCEPT ![m.c] = IF @ = "none" THEN "eof" ELSE @]
                                     /\ UNCHANGED handling
                                ELSE /\ handling' = [handling EXCEPT ![e] = @ \ {m.c}] /\ UNCHANGED <<out, result>>
          /\ UNCHANGED ch
     ELSE /\ Room(e)
          /\ ch' = [ch EXCEPT ![Peer(e)] = Append(@, m)]
          /\ wq' = [wq EXCEPT ![e] = Tail(@)]
          /\ IF m.kind = "resp" THEN handling' = [handling EXCEPT ![e] = @ \ {m.c}] ELSE UNCHANGED handling
          /\ UNCHANGED <<out, result>>
  /\ UNCHANGED <<closing, reading, trClosed, done, hstate, rblocked>>

\* ---- the read loop of e
Recv(e) ==
  /\ reading[e] /\ rblocked[e] = NoMsg /\ ch[e] # <<>> /\ ~trClosed[e]
  /\ LET m == Head(ch[e]) IN
     /\ ch' = [ch EXCEPT ![e] = Tail(@)]
     /\ IF m.kind = "resp"
        THEN /\ out' = [out EXCEPT ![e] = @ \ {m.c}]
             /\ result' = [result EXCEPT ![m.c] = IF m.c \in out[e] THEN m.v ELSE @]
             /\ UNCHANGED <<handling, hstate, rblocked, wq>>
        ELSE \* an incoming call: refused while shutting down, otherwise handed to its handler
             IF ShuttingDown(e)
             THEN /\ IF ~RespDuringShutdown
                     THEN \* the refusal cannot be written at all: the request is dropped, its caller is never answered
                          UNCHANGED <<handling, rblocked, wq>>
                     ELSE IF RefuseOffLoop
                          THEN /\ handling' = [handling EXCEPT ![e] = @ \cup {m.c}]
                               /\ wq' = [wq EXCEPT ![e] = Append(@, Msg("resp", m.c, "refused"))] /\ UNCHANGED rblocked
                          ELSE /\ handling' = [handling EXCEPT ![e] = @ \cup {m.c}]
                               /\ rblocked' = [rblocked EXCEPT ![e] = Msg("resp", m.c, "refused")] /\ UNCHANGED wq
                  /\ UNCHANGED <<out, result, hstate>>
             ELSE /\ handling' = [handling EXCEPT ![e] = @ \cup {m.c}]
                  /\ hstate' = [hstate EXCEPT ![m.c] = "run"]
                  /\ UNCHANGED <<out, result, rblocked, wq>>
  /\ UNCHANGED <<closing, reading, trClosed, done>>

\* the read loop itself is blocked in a write (refusal written on the loop)
ReaderWrite(e) ==
  /\ rblocked[e] # NoMsg
  /\ IF Broken(e) THEN UNCHANGED ch ELSE (Room(e) /\ ch' = [ch EXCEPT ![Peer(e)] = Append(@, rblocked[e])])
  /\ handling' = [handling EXCEPT ![e] = @ \ {rblocked[e].c}]
  /\ rblocked' = [rblocked EXCEPT ![e] = NoMsg]
  /\ UNCHANGED <<closing, reading, trClosed, done, out, result, hstate, wq>>

\* ---- handlers (they always return: the proviso of C05)
HandlerNest(c) ==   \* B's handler of c calls back into A
  /\ c \in Nest /\ hstate[c] = "run" /\ hstate' = [hstate EXCEPT ![c] = "nested"]
  /\ LET n == NestedOf(c) IN
       IF ShuttingDown("B")
       THEN result' = [result EXCEPT ![n] = "closed"] /\ UNCHANGED <<out, wq>>
       ELSE /\ out' = [out EXCEPT !["B"] = @ \cup {n}] /\ wq' = [wq EXCEPT !["B"] = Append(@, Msg("call", n, "-"))]
            /\ UNCHANGED result
  /\ UNCHANGED <<closing, reading, trClosed, done, handling, ch, rblocked>>

HandlerReturn(c) ==
  LET e == Peer(Caller(c)) IN
  /\ \/ (hstate[c] = "run" /\ c \notin Nest)
     \/ (hstate[c] = "nested" /\ result[NestedOf(c)] # "none")       \* the nested call has completed, one way or another
  /\ hstate' = [hstate EXCEPT ![c] = "done"]
  /\ IF ShuttingDown(e) /\ ~RespDuringShutdown
     THEN handling' = [handling EXCEPT ![e] = @ \ {c}] /\ UNCHANGED wq            \* the response is refused and dropped
     ELSE wq' = [wq EXCEPT ![e] = Append(@, Msg("resp", c, "ok"))] /\ UNCHANGED handling
  /\ UNCHANGED <<closing, reading, trClosed, done, out, result, ch, rblocked>>

\* ---- shutdown
CloseTransport(e) ==   \* idle and shutting down: close our end of the transport
  /\ ShuttingDown(e) /\ Idle(e) /\ ~trClosed[e] /\ trClosed' = [trClosed EXCEPT ![e] = TRUE]
  /\ UNCHANGED <<closing, reading, done, out, result, handling, hstate, ch, rblocked, wq>>

ReaderExit(e) ==       \* the read loop sees the end of the stream: every pending call fails
  /\ reading[e] /\ rblocked[e] = NoMsg /\ (trClosed[e] \/ (trClosed[Peer(e)] /\ ch[e] = <<>>))
  /\ reading' = [reading EXCEPT ![e] = FALSE]
  /\ result' = [c \in Calls |-> IF c \in out[e] /\ result[c] = "none" THEN "eof" ELSE result[c]]
  /\ out' = [out EXCEPT ![e] = {}]
  /\ UNCHANGED <<closing, trClosed, done, handling, hstate, ch, rblocked, wq>>

Done(e) == /\ ~done[e] /\ ShuttingDown(e) /\ Idle(e) /\ trClosed[e] /\ ~reading[e] /\ done' = [done EXCEPT ![e] = TRUE]
           /\ UNCHANGED <<closing, reading, trClosed, out, result, handling, hstate, ch, rblocked, wq>>

SdkNext == \/ \E e \in E : WriterStep(e) \/ Recv(e) \/ ReaderWrite(e) \/ CloseTransport(e) \/ ReaderExit(e) \/ Done(e)
           \/ \E c \in Calls : HandlerNest(c) \/ HandlerReturn(c)
AppNext == (\E c \in Calls : StartCall(c)) \/ (\E e \in E : Close(e))
Next == SdkNext \/ AppNext
Spec == Init /\ [][Next]_vars /\ WF_vars(SdkNext)

-----------------------------------------------------------------------------
TypeOK == /\ \A e \in E : Len(ch[e]) <= Cap
          /\ \A e \in E : done[e] => (Idle(e) /\ ~reading[e])
\* a response only completes the call it answers
OwnResponse == \A c \in Calls : result[c] \in {"ok", "refused"} => hstate[c] \in {"none", "run", "nested", "ret", "done"}
\* shape of termination: nothing of the SDK can move, yet some Close has not completed or some call is still pending
Stuck == ~ENABLED SdkNext /\ \E e \in E : (closing[e] /\ ~done[e]) \/ (\E c \in out[e] : TRUE)
NoStuck == ~(Stuck /\ \E e \in E : closing[e])
\* C05 / C01 as liveness under weak fairness of the SDK's own steps (handlers return, the transport honours Close)
CloseTerminates == \A e \in E : closing[e] ~> done[e]
CallsComplete == \A c \in Calls : (c \in out[Caller(c)] /\ \E e \in E : closing[e]) ~> (result[c] # "none")
PeerNotices == \A e \in E : done[e] ~> ~reading[Peer(e)]
=============================================================================
