------------------------- MODULE TransportContractTrace -------------------------
(* Strict conformance of the recorded call logs against TransportContract: every *)
(* begin / end line is the Begin / End action of that call with the recorded      *)
(* result; between two lines TLC may take any internal step (commit of a Write,   *)
(* pump, effect of Close, the peer learning of it); at the markers the model must *)
(* be AT REST as well - exactly the calls the log lists as blocked are blocked in *)
(* the model.  A log that cannot be explained is DRIFT, never a verdict.  One TLC *)
(* run per class (the .cfg sets Class).                                           *)
EXTENDS TransportContract, VerifTrace

VARIABLE l
tvars == <<vars, l>>

TW == [e \in Ends |-> WMax]
TC == [e \in Ends |-> CMax]
TR == [e \in Ends |-> 1000]

Blocked == UNION {
             {<<"W", e, w>> : w \in {x \in 1..WMax : wpc[e][x] \in {"begun", "sent"}}}
             \cup (IF rpc[e] # "idle" THEN {<<"R", e, nread[e]>>} ELSE {})
             \cup {<<"C", e, c>> : c \in {x \in 1..CMax : cpc[e][x] \in {"begun", "did"}}} : e \in Ends}
PendSet(ev) == {<<ev.pend[k].op, ev.pend[k].ep, ev.pend[k].i>> : k \in DOMAIN ev.pend}

Reset ==
  /\ wpc' = [e \in Ends |-> [w \in 1..WMax |-> "idle"]]
  /\ wkind' = [e \in Ends |-> [w \in 1..WMax |-> "n"]]
  /\ wres' = [e \in Ends |-> [w \in 1..WMax |-> "none"]]
  /\ rpc' = [e \in Ends |-> "idle"] /\ rtake' = [e \in Ends |-> <<"none">>]
  /\ nread' = [e \in Ends |-> 0] /\ got' = [e \in Ends |-> <<>>]
  /\ cpc' = [e \in Ends |-> [c \in 1..CMax |-> "idle"]]
  /\ closed' = [e \in Ends |-> FALSE] /\ failed' = [e \in Ends |-> FALSE] /\ peerGone' = [e \in Ends |-> FALSE]
  /\ med' = [e \in Ends |-> <<>>] /\ inbox' = [e \in Ends |-> <<>>] /\ intake' = [e \in Ends |-> "run"]
  /\ exited' = [e \in Ends |-> FALSE]
  /\ closeRet' = [e \in Ends |-> FALSE]
  /\ okBefore' = [e \in Ends |-> [w \in 1..WMax |-> {}]] /\ endBefore' = [e \in Ends |-> [w \in 1..WMax |-> {}]]
  /\ wLate' = [e \in Ends |-> [w \in 1..WMax |-> FALSE]]
  /\ rLate' = [e \in Ends |-> FALSE] /\ lateDeliv' = [e \in Ends |-> FALSE] /\ anyClose' = FALSE

Event(e) ==
  CASE e.ev = "reset" -> Reset
    [] e.ev = "b" /\ e.op = "W" -> WriteBegin(e.ep, e.i, e.k)
    [] e.ev = "e" /\ e.op = "W" -> wres[e.ep][e.i] = e.res /\ WriteEnd(e.ep, e.i)
    [] e.ev = "b" /\ e.op = "R" -> ReadBegin(e.ep) /\ nread'[e.ep] = e.i
    [] e.ev = "e" /\ e.op = "R" /\ e.res = "msg" -> rtake[e.ep] = <<"msg", e.src, e.w>> /\ ReadEnd(e.ep)
    [] e.ev = "e" /\ e.op = "R" /\ e.res = "err" -> rtake[e.ep] = <<"err">> /\ ReadEnd(e.ep)
    [] e.ev = "b" /\ e.op = "C" -> CloseBegin(e.ep, e.i)
    [] e.ev = "e" /\ e.op = "C" -> CloseEnd(e.ep, e.i)
    [] e.ev = "x" -> ProcessExit(e.ep)
    [] e.ev = "mark" /\ e.name \in {"m1", "m2"} -> AtRest /\ Blocked = PendSet(e) /\ UNCHANGED vars
    [] e.ev = "skip" \/ (e.ev = "mark" /\ e.name = "m0") -> UNCHANGED vars
    [] OTHER -> FALSE

TraceInit == Init /\ l = 1 /\ MarkInit
TraceNext ==
  \/ Internal /\ l' = l
  \/ /\ l <= NLines
     /\ l' = l + 1
     /\ Event(TraceLog[l])
TraceSpec == TraceInit /\ [][TraceNext]_tvars
TMark == MarkAt(l)
TAccepted == Accepted
=============================================================================
