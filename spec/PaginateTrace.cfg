SPECIFICATION TSpec
CONSTANTS
  Ids = {1,2,3,4,5}
  PageSizes = {1}
  MaxMut = 0
  MaxTrav = 0
  HiddenSets = {{}}
CONSTANT ClassMaps <- TraceMaps
CONSTRAINT TMark
INVARIANTS ExactlyOnceNoMutation StableExactlyOnce StrictlyIncreasing NoDuplicates EndsWithEmptyCursor IndexFresh EndClassExplicit PageShape IteratorEqualsManual
POSTCONDITION TAccepted
CHECK_DEADLOCK FALSE
