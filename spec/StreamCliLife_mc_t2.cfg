\* thorough: standalone stream with two calls
SPECIFICATION Spec
CONSTANTS
  NC = 2
  SASet = {TRUE}
  OAuthSet = {FALSE}
  DelSet = {"ok"}
  PostSet = {"json", "sse", "404", "http"}
  GetSet = {"sse", "405", "503sse", "neterr"}
  InitH = {"A"}
  HSet = {""}
  MaxNotify = 0
  MaxSaEv = 2
  MaxAuth = 0
  MaxClose = 1
  AllowCancel = FALSE
  FixCancel = FALSE
  FixStream = FALSE
INVARIANTS TypeOK SessionHeader VersionHeader OnePostPerMessage Standalone PerMessage Usable GoneStops GoneNoDelete GoneFailsAll
  TerminalFailsPending DeleteOnce DeleteWhenLive CloseWaits StandaloneCancelled RetiredOnce
CHECK_DEADLOCK FALSE
