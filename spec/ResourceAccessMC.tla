--------------------------- MODULE ResourceAccessMC ---------------------------
(* Bounded configurations of ResourceAccess (X07, P6): exhaustive model       *)
(* checking, the graph for the transition cover, reachability witnesses.      *)
EXTENDS ResourceAccess, Json

\* the URIs read in the bounded configurations: E1's, E2's (also matched by Tda, Tp, Tab, Tany), one that only
\* templates match, one that nothing matches
U_E1 == ExactU("E1")
U_E2 == ExactU("E2")
U_T  == <<"res:", "//h/", "a", "/", "a">>
U_N  == <<"res:", "//g/", "a">>
URIs4 == {U_E1, U_E2, U_T, U_N}
URIs3 == {U_E2, U_T, U_N}
URIs2 == {U_E2, U_N}

\* the graph handed to tools/graphwalk.py: ghosts and the output are hidden; enabledness depends on view variables only
Proj(r) == <<rd[r].st, rd[r].u, rd[r].bind>>
CoverView == <<ex, tm, gen, [r \in Readers |-> Proj(r)], nMut, nRead>>

\* the cached match relation of ResourceAccess agrees with the definitions the monitor uses
DefsAgree == \A u \in XU : Allowed(ex, tm, u) = AllowedG(ex, tm, u) /\ Lookup(ex, tm, u) = LookupG(ex, tm, u)

\* reachability witnesses (each must be VIOLATED, otherwise the model is vacuous)
NeverAmbiguous == ~(res.kind = "read" /\ Cardinality(res.poss) >= 3)
NeverServedByRemoved == ~(res.kind = "read" /\ res.out.k = "E" /\ ex[res.out.key] = 0)          \* removed while in the handler
NeverServedByReplaced == ~(res.kind = "read" /\ res.out.k = "T" /\ tm[res.out.key] > res.out.g)  \* replaced while in the handler
NeverTemplateDespiteExact == ~(res.kind = "read" /\ res.out.k = "T" /\ ~NoExact(ex, res.u))      \* exact added after the lookup
NeverNotFoundDespiteRegistered == ~(res.kind = "read" /\ res.out = NotFound /\ Cardinality(res.poss) >= 2)    \* removed before the lookup
NeverSecondTemplate == ~(res.kind = "read" /\ res.out.k = "T" /\ \E y \in XT : tm[y] > 0 /\ Match(y, res.u) /\ TemplateRank(y) < TemplateRank(res.out.key))

\* all witnesses in ONE run (with -workers 1): a CONSTRAINT records in TLC registers 11..16 which of them have been
\* reached, the POSTCONDITION demands all of them
WitPreds == <<NeverAmbiguous, NeverServedByRemoved, NeverServedByReplaced, NeverTemplateDespiteExact,
              NeverNotFoundDespiteRegistered, NeverSecondTemplate>>
WitInit == \A i \in 1..6 : TLCSet(10 + i, 0)
WitSpec == (Init /\ WitInit) /\ [][Next]_vars
WitMark == IF res.kind # "read" THEN TRUE       \* every witness is about the outcome of a read
           ELSE \A i \in 1..6 : IF ~WitPreds[i] /\ TLCGet(10 + i) = 0 THEN TLCSet(10 + i, 1) ELSE TRUE
WitAll == IF \A i \in 1..6 : TLCGet(10 + i) = 1 THEN TRUE
          ELSE PrintT(ToJson([witness_missing |-> {i \in 1..6 : TLCGet(10 + i) = 0}])) /\ FALSE
=============================================================================
