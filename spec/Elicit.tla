------------------------------- MODULE Elicit -------------------------------
(* X10 part (a): design-level check and case export; definitions in ElicitDefs. *)
(* TLC enumerates the complete product, evaluates the property on the          *)
(* code-shaped outcome of every case, requires that it fails exactly on the    *)
(* named deviations (D2, D3 of ElicitDefs), and exports the cases for the Go   *)
(* harness (harness/mcp/x10_elicit_test.go).                                   *)
EXTENDS ElicitDefs, Json, SequencesExt

Leads == {c \in CaseSet : ~Holds(c, Expected(c))}
\* the property fails on the code-shaped outcome exactly where a deviation is named
DesignOK == \A c \in CaseSet : Holds(c, Expected(c)) <=> Deviation(c) = "none"
\* and each deviation breaks the clause it is said to break, and nothing else
DevClause == [D2 |-> "A3.WellFormedOnly", D3 |-> "A5.Matches"]
DevExact == \A c \in Leads : \A n \in Clauses : Clause(n, c, Expected(c)) <=> n # DevClause[Deviation(c)]

\* vacuity witnesses
Some(P(_)) == \E c \in CaseSet : P(c)
W1(c) == Expected(c).ret = "result" /\ Expected(c).pv = "default"
W2(c) == Expected(c).ret = "error" /\ Expected(c).code = "local" /\ Expected(c).sent
W3(c) == Expected(c).ret = "error" /\ Expected(c).code = "local" /\ ~Expected(c).sent
W4(c) == Expected(c).ret = "error" /\ Expected(c).code = "ip" /\ Expected(c).asked = 1
W5(c) == Expected(c).ret = "error" /\ Expected(c).code = "ip" /\ Expected(c).asked = 0
W6(c) == Expected(c).ret = "result" /\ Expected(c).action = "decline" /\ Expected(c).cont = "obj"
W7(c) == Expected(c).ret = "result" /\ Expected(c).zv
W8(c) == c.path = "m0728" /\ Expected(c).ret = "result" /\ Expected(c).action = "accept" /\ Expected(c).pv = "same"
W9(c) == ~SchemaWF(c.sch) /\ c.kind = "schema" /\ Expected(c).asked = 0
W10(c) == c.path = "rawc" /\ Expected(c).ret = "error" /\ Expected(c).code = "local" /\ Expected(c).sent /\ c.res.val = "wrongtype"
W11(c) == c.path = "rawc" /\ Expected(c).ret = "result" /\ Expected(c).pv = "default"
Witnesses == /\ Some(W1) /\ Some(W2) /\ Some(W3) /\ Some(W4) /\ Some(W5) /\ Some(W6) /\ Some(W7) /\ Some(W8) /\ Some(W9) /\ Some(W10) /\ Some(W11)
             /\ (\A d \in {"D2", "D3"} : \E c \in CaseSet : Deviation(c) = d)
             /\ (\E c \in CaseSet : c.params # "normal" /\ c.handler /\ Expected(c).code = "ip")
             /\ (\A path \in Paths \ {"d0728"} : \E c \in CaseSet : c.path = path /\ Expected(c).asked = 1)

CaseSeq == SetToSeq(CaseSet)
Export == ndJsonSerialize("cases.ndjson", CaseSeq)
Kinds == {"gate", "schema", "rawp", "notif"}
Count(k) == Cardinality({c \in CaseSet : c.kind = k})

ASSUME DesignOK
ASSUME DevExact
ASSUME Witnesses
ASSUME PrintT(ToJson([cases |-> Cardinality(CaseSet), gate |-> Count("gate"), schema |-> Count("schema"),
                      rawp |-> Count("rawp"), notif |-> Count("notif"), leads |-> Cardinality(Leads),
                      props |-> Cardinality(Props), schemas |-> Cardinality(Schemas),
                      asked |-> Cardinality({c \in CaseSet : Expected(c).asked = 1}),
                      results |-> Cardinality({c \in CaseSet : Expected(c).ret = "result"})]))
ASSUME Export
=============================================================================
