-------------------------- MODULE LifecycleHttpMon --------------------------
(* Monitor for the HTTP decision table of C06: one line = one case of         *)
(* LifecycleHttp!HCases, concretised and sent to a real StreamableHTTPHandler *)
(* by harness/mcp/c06_http_test.go, with what came back.                      *)
(*  verdict  LifecycleHttp!HClauseNames on the real outcome                   *)
(*  drift    equality with the code-shaped LifecycleHttp!HExpected            *)
EXTENDS VerifTrace, FiniteSets
LH == INSTANCE LifecycleHttp

VARIABLES l, prem
mvars == <<l, prem>>
MInit == l = 1 /\ prem = [k \in LH!HClauseNames |-> 0] /\ MarkInit

Case(e) == [ep |-> e.c.ep, hv |-> e.c.hv, bv |-> e.c.bv, m |-> e.c.m]
Out(e) == [reply |-> e.o.reply, code |-> e.o.code, nlist |-> e.o.nlist, lmod |-> e.o.lmod, h |-> AsSet(e.o.h), nsess |-> e.o.nsess]

MNext ==
  /\ l <= NLines
  /\ l' = l + 1
  /\ LET e == TraceLog[l]
         c == Case(e)
         o == Out(e)
     IN /\ \A k \in LH!HClauseNames : Check(l, k, LH!HClauseHolds(k, c, o))
        /\ Check(l, "OneReply", e.nrep <= 1)
        /\ Check(l, "drift", LH!HAgrees(c, o))
        /\ prem' = [k \in LH!HClauseNames |-> prem[k] + (IF LH!HPremise(k, c) THEN 1 ELSE 0)]
        /\ (IF l = NLines THEN PrintT(ToJson([premises |-> prem'])) ELSE TRUE)

MSpec == MInit /\ [][MNext]_mvars
MMark == MarkAt(l)
MAccepted == Accepted
=============================================================================
