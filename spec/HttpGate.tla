------------------------------- MODULE HttpGate ------------------------------
(* Case enumeration and design-level check for C12 part (a); definitions in   *)
(* HttpGateDefs.  The state space is the tree of partial requests: one        *)
(* dimension is fixed per step, and at most K dimensions may deviate from the *)
(* well-formed request of the handler (quick K = 3: every single fault, every *)
(* pair, every triple; thorough K = 5), plus a coarse product with any number *)
(* of simultaneous deviations.  Every complete request is a leaf; TLC         *)
(* evaluates the code-shaped Expected against the property on it and exports  *)
(* the case.  A disagreement is a lead (DESIGN.md section 3): it must be      *)
(* reproduced on the real handlers before it counts.                          *)
EXTENDS HttpGateDefs, Json
CONSTANT K
VARIABLES mode, kind, vals, used
vars == <<mode, kind, vals, used>>

\* mode "near":   any class per dimension, at most K deviations from Default
\* mode "coarse": Default or one representative deviation per dimension, any number of deviations at once
\*                (only leaves with more than K deviations are new)
Rep(k, d) ==
  CASE d = "listener" -> "other" [] d = "host" -> "other" [] d = "ctype" -> "other"
    [] d = "accept" -> (IF k = "sse" THEN "other" ELSE "jsononly")
    [] d = "body" -> (IF k = "sse" THEN "malformed" ELSE "oversize")
    [] d = "vhdr" -> (IF k = "sse" THEN "absent" ELSE "future")
    [] d = "meta" -> (IF k = "sse" THEN "absent" ELSE "neNew")
    [] d \in {"mm", "mn", "mp"} -> (IF k = "sse" THEN "absent" ELSE "different")
    [] d = "msg" -> "notif"
Init == mode \in {"near", "coarse"} /\ kind \in Kinds /\ vals = <<>> /\ used = 0
Choose(v) == LET d == DimSeq[Len(vals) + 1]
                 dev == v # Default(kind, d)
             IN /\ (dev /\ mode = "near") => used < K
                /\ vals' = Append(vals, v)
                /\ used' = IF dev THEN used + 1 ELSE used
                /\ UNCHANGED <<mode, kind>>
Next == /\ Len(vals) < NDims
        /\ LET d == DimSeq[Len(vals) + 1]
           IN \E v \in (IF mode = "near" THEN Vals(kind, d) ELSE {Default(kind, d), Rep(kind, d)}) : Choose(v)
Spec == Init /\ [][Next]_vars

Complete == Len(vals) = NDims /\ (mode = "coarse" => used > K)
Case == ToCase(kind, vals)
DesignOK(c) == \A o \in Outcomes(c) : Holds(c, o)
\* state constraint, evaluated once per state of the tree: export the leaf
Emit == IF Complete /\ ValidCase(Case)
        THEN LET c == Case
                 x == Expected(c)
                 f == FirstFault(c)
             IN PrintT(ToJson([gatecase |-> c, exp |-> x, first |-> f, cls |-> FaultClass(c, f), lead |-> ~DesignOK(c)]))
        ELSE TRUE
\* the type of what is enumerated
TypeOK == /\ kind \in Kinds /\ (mode = "near" => used \in 0..K) /\ Len(vals) <= NDims
          /\ \A i \in DOMAIN vals : vals[i] \in Vals(kind, DimSeq[i])
          /\ used = Cardinality({i \in DOMAIN vals : vals[i] # Default(kind, DimSeq[i])})
=============================================================================
