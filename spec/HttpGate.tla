------------------------------- MODULE HttpGate ------------------------------
(* Design-level check and case export for C12 part (a); definitions in        *)
(* HttpGateDefs.  K bounds the number of dimensions in which a request may    *)
(* deviate from the well-formed request of its handler (quick: every single   *)
(* fault and every pair; thorough: K = 4).                                    *)
EXTENDS HttpGateDefs, Json, SequencesExt
CONSTANT K

CaseSet == CasesK(K)

\* Design: the code-shaped procedure against the property.  A disagreement is a lead (DESIGN.md section 3):
\* it is exported and must be reproduced on the real handlers before it counts.
Leads == {c \in CaseSet : \E o \in Outcomes(c) : ~Holds(c, o)}
LeadJson(c) == [c |-> c, first |-> FirstFault(c), cls |-> FaultClass(c, FirstFault(c))]

\* vacuity witnesses
SomeReached == \A k \in Kinds : \E c \in CaseSet : c.kind = k /\ Expected(c).reach = "yes"
SomeEachStatus == \A st \in {400, 403, 413, 415} : \E c \in CaseSet : Expected(c).status = st
SomeEachCode == \A cd \in {CodeMismatch, CodeUnsupportedVersion, CodeInvalidParams} : \E c \in CaseSet : Expected(c).code = cd
SomeEachFault == \A i \in DOMAIN FaultOrder : \E c \in CaseSet : FirstFault(c) = FaultOrder[i]
\* every rejected request has a fault or is rejected by a rule that is stricter than the property (listed, not judged)
Stricter == {c \in CaseSet : Faults(c) = {} /\ Expected(c).reach = "no"}

ASSUME SomeReached /\ SomeEachStatus /\ SomeEachCode /\ SomeEachFault
ASSUME PrintT(ToJson([cases |-> Cardinality(CaseSet), K |-> K, leads |-> Cardinality(Leads), stricter |-> Cardinality(Stricter),
                      faulty |-> Cardinality({c \in CaseSet : Faults(c) # {}})]))
ASSUME ndJsonSerialize("gate_leads.ndjson", SetToSeq({LeadJson(c) : c \in Leads}))
ASSUME ndJsonSerialize("gate_cases.ndjson", SetToSeq(CaseSet))
=============================================================================
