------------------------------- MODULE HttpGate ------------------------------
(* Case enumeration and design-level check for C12 part (a); definitions in   *)
(* HttpGateDefs.  The state space is the tree of partial requests: one        *)
(* dimension is fixed per step, and at most K dimensions may deviate from the *)
(* well-formed request of the handler (quick: every single and every pair of  *)
(* deviations and more; thorough: K = 4).  Every complete request is a leaf;  *)
(* TLC evaluates the code-shaped Expected against the property on it and      *)
(* exports the case.  A disagreement is a lead (DESIGN.md section 3): it must  *)
(* be reproduced on the real handlers before it counts.                        *)
EXTENDS HttpGateDefs, Json
CONSTANT K
VARIABLES kind, vals, used
vars == <<kind, vals, used>>

Init == kind \in Kinds /\ vals = <<>> /\ used = 0
Choose(v) == LET d == DimSeq[Len(vals) + 1]
                 dev == v # Default(kind, d)
             IN /\ dev => used < K
                /\ vals' = Append(vals, v)
                /\ used' = IF dev THEN used + 1 ELSE used
                /\ UNCHANGED kind
Next == Len(vals) < NDims /\ \E v \in Vals(kind, DimSeq[Len(vals) + 1]) : Choose(v)
Spec == Init /\ [][Next]_vars

Complete == Len(vals) = NDims
Case == ToCase(kind, vals)
DesignOK(c) == \A o \in Outcomes(c) : Holds(c, o)
\* state constraint, evaluated once per state of the tree: export the leaf
Emit == IF Complete /\ ValidCase(Case)
        THEN LET c == Case
                 x == Expected(c)
                 f == FirstFault(c)
             IN PrintT(ToJson([gatecase |-> c, exp |-> x, first |-> f, cls |-> FaultClass(c, f), lead |-> ~DesignOK(c)]))
        ELSE TRUE
\* the type of what is enumerated
TypeOK == /\ kind \in Kinds /\ used \in 0..K /\ Len(vals) <= NDims
          /\ \A i \in DOMAIN vals : vals[i] \in Vals(kind, DimSeq[i])
          /\ used = Cardinality({i \in DOMAIN vals : vals[i] # Default(kind, DimSeq[i])})
\* a rejected request either violates a precondition or is rejected by a rule stricter than the property; a request that
\* is handed to the server violates none (this is Sound on Expected, stated as an invariant so that TLC names the case)
ExpectedSound == (Complete /\ ValidCase(Case)) => (Expected(Case).reach # "no" => Faults(Case) = {})
=============================================================================
