---------------------------- MODULE Capabilities ----------------------------
(* Extension check X06: capability declaration and capability gating of the  *)
(* Go MCP SDK, both directions, legacy (initialize handshake, <= 2025-11-25) *)
(* and 2026-07-28 (server/discover, per-request _meta clientCapabilities).   *)
(*                                                                           *)
(* PROPERTIES                                                                *)
(*  (sources: doc comments of ServerOptions.Capabilities / HasTools /        *)
(*   ClientOptions.Capabilities / CreateMessageHandler / ElicitationHandler, *)
(*   docs/server.md and docs/client.md "Capabilities", docs/protocol.md      *)
(*   "Discovery" and "Per-request _meta keys", the MCP lifecycle / sampling  *)
(*   / elicitation / roots rules referred to by those texts)                 *)
(*                                                                           *)
(*  P1 ServerAdvertised.  For every server configuration and at every        *)
(*     moment, each capability the server advertises is the explicitly       *)
(*     configured field of ServerOptions.Capabilities if that field is set   *)
(*     ("any non-nil field overrides the inferred value"; "adding a feature  *)
(*     or handler will not change its configuration"), and otherwise the     *)
(*     inferred one: tools / prompts / resources = {listChanged:true} iff a  *)
(*     feature of that kind is registered at that moment or Has<Kind> is     *)
(*     set, resources.subscribe iff a SubscribeHandler is set, completions   *)
(*     iff a CompletionHandler is set, logging iff Capabilities is nil; the  *)
(*     options value is never modified and nothing unconfigured is added.    *)
(*  P2 SamePath.  What a server (a client) advertises is the same on every   *)
(*     path: initialize result = server/discover result over any transport;  *)
(*     initialize params = server/discover _meta = the _meta of every later  *)
(*     request = what ServerRequest.ClientCapabilities() returns to handlers.*)
(*  P3 ServedIffConfigured.  A server without a CompletionHandler            *)
(*     (SubscribeHandler) never advertises completions by inference and      *)
(*     always answers completion/complete (resources/subscribe) with an      *)
(*     error without running user code; with the handler it serves them.     *)
(*  P4 ClientAdvertised.  For every client configuration, roots is           *)
(*     {listChanged:true} when Capabilities is nil and otherwise exactly     *)
(*     RootsV2 (absent when nil; the deprecated Roots field is ignored);     *)
(*     sampling / elicitation are the explicit field if set, and otherwise   *)
(*     present iff the handler is installed (sampling.tools iff it is the    *)
(*     with-tools handler; elicitation meaning "form only").  A client with  *)
(*     no handler for X never advertises X by inference and always answers   *)
(*     X with an error.                                                      *)
(*  P5 NoUngatedRequest.  A server never puts sampling/createMessage,        *)
(*     sampling/createMessage with tools, elicitation/create in mode m or    *)
(*     roots/list on the wire to a client that did not declare sampling,     *)
(*     sampling.tools, elicitation mode m ({} = form only) or roots: the     *)
(*     call fails locally and no client handler runs; when the capability    *)
(*     was declared and the client has the handler the call succeeds.  On a  *)
(*     2026-07-28 session a server never sends any of them.                  *)
(*  P6 ListChangedGate.  An endpoint whose capability k says                 *)
(*     listChanged:false never sends notifications/k/list_changed; a client  *)
(*     sends notifications/roots/list_changed after AddRoots iff it          *)
(*     advertised roots.listChanged; after a change of kind k every legacy   *)
(*     session that was told k.listChanged at its handshake, and every       *)
(*     2026-07-28 session whose subscriptions/listen was acknowledged for    *)
(*     k, eventually receives the notification; a 2026-07-28 session never   *)
(*     receives one it was not acknowledged for; the acknowledgement is      *)
(*     exactly the wanted kinds whose capability at that moment says         *)
(*     listChanged (dynamic part, CapabilitiesDyn.tla).                      *)
(*                                                                           *)
(* Deviations of the code from the idealised design, modelled as the code    *)
(* behaves (Expected / CapabilitiesDyn) and named:                           *)
(*  S-D1 explicit Resources field + SubscribeHandler + (a resource is        *)
(*       registered or HasResources): capabilities() forces subscribe:true   *)
(*       into the explicit field (breaks P1; lead).                          *)
(*  C-D1 CreateMessage / CreateMessageWithTools / ListRoots send without     *)
(*       looking at the client's capabilities; only Elicit checks (breaks    *)
(*       P5; leads).                                                         *)
(*  C-D2 Client.shouldSendListChangedNotification falls back to the ignored  *)
(*       Capabilities.Roots.ListChanged when RootsV2 is nil: a client that   *)
(*       advertises no roots capability still sends list_changed (breaks P6; *)
(*       lead).                                                              *)
(*  D-D1 list-changed gating looks at the options, not at what a session was *)
(*       told: a legacy session whose handshake carried no capability k      *)
(*       receives notifications/k/list_changed once the first feature of     *)
(*       kind k is added (documented: "any clients already connected will be *)
(*       notified"); allowed by P6, reachable in CapabilitiesDyn (witness).  *)
(*  N    served without being advertised (not constrained by any property):  *)
(*       resources/subscribe with a handler but subscribe:false, roots/list  *)
(*       on a client without the roots capability, logging/setLevel without  *)
(*       logging, list methods of absent kinds.                              *)
(*                                                                           *)
(* This module evaluates the design of the two decision tables (Holds(c,     *)
(* Expected(c)); failures are leads, replayed on the real code) and exports  *)
(* the complete case products for the Go harness.                            *)
EXTENDS CapabilitiesDefs

SLeads == {c \in ServerCases : ServerLead(c)}
CLeads == {c \in ClientCases : ClientLead(c)}

\* the transcription leaves the documented rule only where the deviations say so
SLeadsAreSD1 == SLeads = {c \in ServerCases : c.xr \in {"lcF", "lcT"} /\ c.sh /\ (c.hr \/ c.rr # "none")}
CLeadsAreCD == CLeads = {c \in ClientCases :
                 \/ (c.path \in LegacyPaths /\ \E g \in {"samp", "samptools", "roots"} : ~Allowed(g, CAdvCode(c)))
                 \/ (~c.cn /\ c.r2 = "nil" /\ c.r1)}
\* vacuity witnesses
SomeEachKindValue == /\ \A v \in {"absent", "lcF", "lcT"} : \E c \in ServerCases : AdvDecl(c).t = v
                     /\ \A v \in {"absent", "lcF", "lcT", "lcFsub", "lcTsub"} : \E c \in ServerCases : AdvDecl(c).r = v
                     /\ \E c \in ServerCases : ~AdvDecl(c).lg /\ AdvDecl(c).co
SomeGate == \A g \in Gated : /\ \E c \in ClientCases : c.path \in LegacyPaths /\ Allowed(g, CAdvCode(c)) /\ Serves(g, c)
                             /\ \E c \in ClientCases : c.path \in LegacyPaths /\ ~Allowed(g, CAdvCode(c))
                             /\ (g # "roots" => \E c \in ClientCases : c.path \in LegacyPaths /\ Allowed(g, CAdvCode(c)) /\ ~Serves(g, c))

SetSeq(S) == SetToSeq(S)
SClauses(c, o) == {f \in ServerFields : ~S_Adv(c, o, f)}
SLeadJson(c) == [c |-> c, fields |-> SetSeq(SClauses(c, ServerExpected(c)))]
Export == /\ ndJsonSerialize("srv_cases.ndjson", SetSeq(ServerCases))
          /\ ndJsonSerialize("cli_cases.ndjson", SetSeq(ClientCases))
          /\ ndJsonSerialize("srv_leads.ndjson", SetSeq({SLeadJson(c) : c \in SLeads}))
          /\ ndJsonSerialize("cli_leads.ndjson", SetSeq(CLeads))

ASSUME SLeadsAreSD1
ASSUME CLeadsAreCD
ASSUME SomeEachKindValue /\ SomeGate
ASSUME PrintT(ToJson([srvCases |-> Cardinality(ServerCases), cliCases |-> Cardinality(ClientCases),
                      srvLeads |-> Cardinality(SLeads), cliLeads |-> Cardinality(CLeads)]))
ASSUME Export
=============================================================================
