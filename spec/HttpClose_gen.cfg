SPECIFICATION GenSpec
CONSTANTS
  Calls = {"k1", "k2", "k3"}
  CCl = {"c1", "c2"}
  SCl = {"s1", "s2"}
  Stateless = FALSE
  Timeout = TRUE
  Sse = TRUE
  Nested = TRUE
  Faults = {"cut", "net", "vanish"}
  DelModes = {"fail", "hang", "hold"}
  Helds = TRUE
  Notifs = TRUE
  Cancels = TRUE
  AwaitHandlers = TRUE
  StopSseOnClose = TRUE
CONSTRAINT Export
INVARIANTS TypeOK NothingDispatchedAfterClose RunningHandlersFinish SessionRemoved
CHECK_DEADLOCK FALSE
