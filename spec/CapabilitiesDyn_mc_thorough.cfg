SPECIFICATION FairSpec
CONSTANTS
  DKinds = {"tools", "resources"}
  Legacy = {"L1"}
  Modern = {"M1"}
  Wants <- AllWants
INVARIANTS TypeOK InvDisabled InvModernAcked InvAckExact InvSnapCurrent InvOwedArmed
PROPERTIES LiveNotified
CHECK_DEADLOCK FALSE
