SPECIFICATION Spec
CONSTANTS
  Cap = 1
  RespDuringShutdown = TRUE
  RefuseOffLoop = FALSE
  CallsAB = {"a1","a2"}
  CallsBA = {"b1","b2"}
  Nest = {"a1"}
INVARIANTS TypeOK NoStuck

CHECK_DEADLOCK FALSE
