------------------------------ MODULE OAuthFlow ------------------------------
(* Specification of auth.AuthorizationCodeHandler.Authorize (property C15).   *)
(* A sequential state machine, one action per step of the Go code, in the     *)
(* code's order (auth/authorization_code.go, auth/shared.go, oauthex/*.go):   *)
(*   Setup, ParseChallenge, FetchPRM(loc), FallbackRootAS, FetchASM(loc),     *)
(*   UnreadASM, PredefinedEndpoints, Register, GetCode, CheckState, CheckIss,*)
(*   Exchange, Install, Finish.                                               *)
(* The environment chooses, at the step where the code first reads it: the    *)
(* challenge, the MCP server URL class, the HTTP outcome / document served at *)
(* every fetch, the registration configuration, the registration response,   *)
(* the authorization result and the token endpoint outcome.  The choice is a  *)
(* parameter of the action so that `-dump dot,actionlabels` exports it.       *)
(* The outcomes at the authorization-server metadata locations are independent *)
(* of each other: when a fatal outcome at one location ends the discovery, the *)
(* environment still holds an outcome ready at every LATER location of the    *)
(* list (UnreadASM: the code as specified never reads them; an implementation  *)
(* that wrongly goes on does, e.g. "rejected document, then 404 everywhere"    *)
(* = a server whose metadata failed validation, not a server without metadata).*)
(*                                                                            *)
(* URLs are abstracted to classes with three dimensions (URLClasses below):   *)
(* scheme class (https, http, script-capable js/data/vbs) x authority class   *)
(* (loopback host, other host, no authority) x form (hierarchical             *)
(* scheme://authority/..., opaque scheme:...).  The two checks of the code    *)
(* look at different dimensions (checkURLScheme: the scheme; checkHTTPSOr-    *)
(* Loopback: scheme https OR a loopback authority under ANY scheme), so a     *)
(* script-capable scheme in hierarchical form with a loopback authority       *)
(* (javascript://localhost/%0A...) passes the second check alone.             *)
(* Documents are named variants; PRMFacts/ASMFacts give the facts the code    *)
(* and the property look at.  The same fact records are computed by the Go    *)
(* harness from the concrete documents it serves, and the property predicates *)
(* below (ReqSafe, MatchOK, PkceOK, ScriptFree, StateOK, IssOK, PreOK) are    *)
(* the ones the monitor OAuthFlowMon evaluates on the real observations.      *)
EXTENDS Integers, Sequences, FiniteSets, TLC

-----------------------------------------------------------------------------
\* Property predicates (shared with the monitor)

\* (the `@type` / `@typeAlias` comments are annotations for Apalache, which discharges the inductive invariant IndInv at
\* the end of this module; TLC ignores them)
\* @typeAlias: url = {sch: Str, auth: Str, form: Str};
\* @typeAlias: req = {kind: Str, cls: $url};
\* @typeAlias: doc = {kind: Str, match: Str, pkce: Bool, script: Bool};
\* @typeAlias: prmf = {res: Str, as: Seq($url), path: Bool, other: $url};
\* @typeAlias: asmf = {iss: Str, pkce: Bool, ip: Bool, cimd: Bool, auth: $url, tok: $url, reg: $url, intro: $url, other: $url};
\* @typeAlias: asmu = {mode: Str, ip: Bool, cimd: Bool, reg: $url, auth: $url, tok: $url};
OAuthFlow_aliases == TRUE
\* URL classes: scheme class x authority class x form
ScriptSchemes == {"js", "data", "vbs"}          \* javascript:, data:, vbscript:
Schemes == {"https", "http"} \cup ScriptSchemes
Authorities == {"lo", "rem", "none"}            \* loopback host / any other host / no authority component
Forms == {"hier", "opaque"}                     \* scheme://authority/path  /  scheme:rest
\* @type: (Str, Str, Str) => $url;
U(s, a, f) == [sch |-> s, auth |-> a, form |-> f]
\* an authority exists exactly in the hierarchical form; http(s) URLs are hierarchical
URLClasses == {c \in [sch : Schemes, auth : Authorities, form : Forms] :
                 /\ (c.form = "opaque") <=> (c.auth = "none")
                 /\ (c.sch \in {"https", "http"} => c.form = "hier")}
NoURL == U("-", "-", "-")                        \* the field / parameter is absent
Https == U("https", "rem", "hier")
Lo == U("http", "lo", "hier")                    \* http://localhost:..., http://127.0.0.1/..., http://[::1]/...
Http == U("http", "rem", "hier")
Js == U("js", "none", "opaque")                  \* javascript:alert(1)
Data == U("data", "none", "opaque")
Vbs == U("vbs", "none", "opaque")
JsLo == U("js", "lo", "hier")                    \* javascript://localhost/%0Aalert(1), data://127.0.0.1/..., vbscript://[::1]/...
JsRem == U("js", "rem", "hier")                  \* javascript://evil.example/%0Aalert(1)

\* @type: $url => Bool;
Script(c) == c.sch \in ScriptSchemes
\* "an https or loopback URL": https, or a loopback authority under a scheme that is not script-capable
\* (a URL with a script-capable scheme is never a safe request target, whatever its authority)
\* @type: $url => Bool;
Safe(c) == ~Script(c) /\ (c.sch = "https" \/ c.auth = "lo")

\* the two checks of the code (oauthex/oauth2.go); an absent URL passes both
\* @type: $url => Bool;
CodeSchemeOK(c) == ~Script(c)                                           \* checkURLScheme: deny-list javascript/data/vbscript
\* @type: $url => Bool;
CodeHttpsOrLo(c) == c = NoURL \/ c.sch = "https" \/ c.auth = "lo"       \* checkHTTPSOrLoopback: !IsLoopback(host) && scheme != "https" fails

\* @type: $req => Bool;
ReqSafe(r) == Safe(r.cls)
\* Relation of an issuer identifier (the `issuer` of a metadata document, PreregisteredClient.Issuer,
\* the RFC 9207 `iss` parameter) to the identifier it is compared with.  RFC 8414 3.3 wants the two
\* IDENTICAL, RFC 9207 2.4 a simple string comparison; the SDK documents one tolerance (one trailing slash).
\*   IssSame   identical, or identical modulo one trailing slash
\*   IssEquiv  the same server under URI normalisation (RFC 3986 6.2.2.1: letter case of scheme/host;
\*             DNS: a trailing dot after the host).  Not identical, but not unambiguously "a different
\*             issuer" either: the property is not taken to forbid or to demand their acceptance.
\*   IssNear   near misses, each of which names a DIFFERENT authorization server / identifier:
\*     port      same scheme/host/path, another (or no / an added non-default) port  -- another origin
\*     scheme    http <-> https, or a script-capable scheme, on the same authority  -- another origin
\*     userinfo  scheme://user@host...                  -- not the identifier asked for
\*     query     identifier?x=1  (RFC 8414 2: an issuer has no query component)
\*     fragment  identifier#x    (RFC 8414 2: ... nor a fragment)
\*     hostsfx   as.example.com.evil.example.org  -- the expected host is a proper prefix of another host
\*     sub       an extra path segment / characters appended to the identifier
\*     prefix    a strict path prefix (scheme://host of an issuer that has a path: another tenant)
\*   "other"   unrelated identifier
IssSame == {"exact", "slash"}
IssEquiv == {"case", "dot"}
IssNear == {"port", "scheme", "userinfo", "query", "fragment", "hostsfx", "sub", "prefix"}
IssRels == IssSame \cup IssEquiv \cup IssNear \cup {"other"}
\* the property: anything that is neither the same nor equivalent is a mismatch
IssMatch(rel) == rel \in IssSame \cup IssEquiv
\* the code (authutil.IssuersEqual): only the documented tolerance
CodeIssMatch(rel) == rel \in IssSame

\* resource identifiers must be identical (RFC 9728 3.3); issuers: see above
\* @type: $doc => Bool;
MatchOK(d) == IF d.kind = "prm" THEN d.match = "exact" ELSE IssMatch(d.match)
\* @type: $doc => Bool;
PkceOK(d) == d.kind = "asm" => d.pkce
\* @type: $doc => Bool;
ScriptFree(d) == ~d.script
\* the three document checks the property names
\* @type: $doc => Bool;
DocOK(d) == MatchOK(d) /\ PkceOK(d) /\ ScriptFree(d)
StateOK(s) == s = "equal"
\* RFC 9207: a received iss must equal the issuer (simple string comparison: every other relation,
\* "slash", "case" and "dot" included, fails); it must be present when support is advertised
IssOK(iss, adv) == (iss # "absent" => iss = "equal") /\ (adv => iss # "absent")
\* relation of the issuer the pre-registered credentials are bound to, to the issuer in use
PreOK(rel) == rel = "unset" \/ IssMatch(rel)

-----------------------------------------------------------------------------
\* Environment: variant sets (a .cfg may override any of them with `<-`)

\* "hdr_jsrem" / "hdr_jslo": resource_metadata is a script-capable scheme in hierarchical form with a
\* non-loopback / loopback authority
ChallengesCore == {"none", "bearer", "hdr_https", "hdr_other", "hdr_multi", "hdr_lo", "hdr_http", "hdr_js", "hdr_jsrem", "hdr_jslo",
                   "scope403", "other403", "malformed"}
\* lead challenges: variants for which the code-shaped model is expected to violate an invariant.
\* ("hdr_jslo" was one until the repair of /repo: GetProtectedResourceMetadata checked the metadata URL with
\* checkHTTPSOrLoopback only, which a loopback authority satisfies under any scheme; it now applies checkURLScheme first.)
ChallengeLeads == {}
Challenges == ChallengesCore \cup ChallengeLeads
McpURLs == {"https", "lo", "http"}
\* @type: Str => $url;
McpCls(m) == CASE m = "https" -> Https [] m = "lo" -> Lo [] m = "http" -> Http

PRMHttpFail == {"404", "500", "neterr", "badct", "badjson"}
\* "field_js*": a script-capable scheme in a URL field other than authorization_servers
\* (jwks_uri, resource_documentation, resource_policy_uri, resource_tos_uri)
\* suffixes: _http = Http, _js / _data = opaque script, _jslo = JsLo, _jsrem = JsRem
PRMDocsCore == {"good", "good_lo", "good_path", "good2", "res_other", "res_slash", "res_sub",
                "as_http", "as_js", "as_data", "as_jslo", "as_jsrem", "as2_http", "as2_js", "as2_jslo", "no_as",
                "field_js", "field_jslo", "field_jsrem"}
\* lead documents: variants for which the code-shaped model is expected to violate an invariant
\* (none at present: "field_js" was one until /repo 7fe7bee made GetProtectedResourceMetadata
\* check every URL field)
PRMLeadDocs == {}
PRMDocs == PRMDocsCore \cup PRMLeadDocs
PRMOutcomes == PRMHttpFail \cup PRMDocs

ASM4xx == {"404", "401"}
ASMHttpFail == {"500", "neterr", "badct", "badjson"}
ASMFlagDocs == {"good", "good_lo", "iss_slash"}          \* the three flags vary for these
\* documents whose `issuer` is a near miss of / equivalent to the URL asked for ("iss_" \o relation)
ASMIssDocs == {"iss_port", "iss_scheme", "iss_userinfo", "iss_query", "iss_fragment", "iss_hostsfx",
               "iss_prefix", "iss_case", "iss_dot"}
\* documents that are valid but for the class of ONE URL field: <<field, class>>.  Fields: auth(orization_endpoint),
\* tok(en_endpoint), reg(istration_endpoint), intro(spection_endpoint) -- the four the code also checks with
\* checkHTTPSOrLoopback -- and `other` (jwks_uri [jwks_], service_documentation / op_policy_uri / op_tos_uri [doc_],
\* revocation_endpoint [rev_]), which only get checkURLScheme.  Every field takes the non-loopback http class and the
\* script-capable scheme in its three shapes: opaque, hierarchical with a loopback authority, hierarchical with another one.
\* (the table is a set of triples <<document, field, class>> and ASMFieldVar the function it denotes: the same value as the
\* record [auth_http |-> <<"auth", Http>>, ...], in a form that Apalache can type - a record cannot be applied to a name that
\* is not a literal)
\* @type: Set(<<Str, Str, $url>>);
ASMFieldTab ==
  {<<"auth_http",   "auth", Http>>,  <<"auth_js",   "auth", Js>>,  <<"auth_data",  "auth", Data>>,
   <<"auth_jslo",   "auth", JsLo>>,  <<"auth_jsrem",   "auth", JsRem>>,
   <<"tok_http",    "tok", Http>>,   <<"tok_js",    "tok", Js>>,   <<"tok_jslo",    "tok", JsLo>>,   <<"tok_jsrem",    "tok", JsRem>>,
   <<"reg_http",    "reg", Http>>,   <<"reg_js",    "reg", Js>>,   <<"reg_jslo",    "reg", JsLo>>,   <<"reg_jsrem",    "reg", JsRem>>,
   <<"intro_http",  "intro", Http>>, <<"intro_js",  "intro", Js>>, <<"intro_jslo",  "intro", JsLo>>, <<"intro_jsrem",  "intro", JsRem>>,
   <<"rev_http",    "other", Http>>,
   <<"jwks_js",     "other", Js>>,   <<"doc_js",    "other", Js>>,   <<"rev_js",      "other", Js>>,
   <<"jwks_jslo",   "other", JsLo>>, <<"doc_jslo",  "other", JsLo>>, <<"rev_jslo",    "other", JsLo>>,
   <<"jwks_jsrem",  "other", JsRem>>}
ASMFieldDocs == {t[1] : t \in ASMFieldTab}
\* @type: Str -> <<Str, $url>>;
ASMFieldVar == [o \in ASMFieldDocs |-> LET e == CHOOSE t \in ASMFieldTab : t[1] = o IN <<e[2], e[3]>>]
ASMDocs == ASMFlagDocs \cup {"pkce_plain", "iss_other", "iss_sub", "no_pkce"} \cup ASMFieldDocs \cup ASMIssDocs
ASMOutcomes == ASM4xx \cup ASMHttpFail \cup ASMDocs
\* what the well-known locations AFTER a fatal one hold ready (never read by the code as specified):
\* "not there" in both 4xx flavours, or a valid document
ASMRest == ASM4xx \cup {"good"}
\* TRUE: the code as it is specified (a rejected document / a non-4xx failure ends the discovery).
\* FALSE (OAuthFlow_wit.cfg only): discovery goes on to the next location and forgets the rejection; the
\* design invariants must then fail (NoFallbackAfterRejected), which shows that they are not vacuous.
ASMFatalStops == TRUE
\* the fields of authorization-server metadata on which checkURLScheme runs: all of them in the code as specified.
\* OAuthFlow_wit2.cfg leaves out the four that checkHTTPSOrLoopback looks at as well ("the stronger check covers them"):
\* NoScriptSchemes must then fail (a script-capable scheme with a loopback authority passes checkHTTPSOrLoopback),
\* which shows that the two checks are not redundant and that the JsLo class is what tells them apart.
ASMSchemeChecked == {"auth", "tok", "reg", "intro", "other"}
RegFlags == {"none", "ep"}

RegConfigs == {"cimd", "pre", "dcr", "cimd_pre", "cimd_dcr", "pre_dcr", "all"}
\* ("hostonly" is the "prefix" relation when the authorization server has a path, "exact" otherwise)
PreRels == {"unset", "exact", "slash", "hostonly", "other", "sub",
            "port", "scheme", "userinfo", "query", "fragment", "hostsfx", "case", "dot"}
\* "js_uri" / "jslo_uri": a URL field of the registration response has a script-capable scheme (opaque / JsLo)
DCROutcomes == {"201", "200", "400", "500", "noid", "js_uri", "jslo_uri", "neterr", "badjson"}
AuthStates == {"equal", "different", "empty", "lower", "prefix"}
AuthIsses == {"absent", "equal", "different", "slash",
              "port", "scheme", "userinfo", "query", "fragment", "hostsfx", "case", "dot"}
TokenOutcomes == {"good", "expiring", "400", "500", "noat", "neterr"}

\* class of the resource_metadata URL in the challenge (NoURL: no such parameter)
\* @type: Str => $url;
ChHdr(c) == CASE c \in {"hdr_https", "hdr_other", "hdr_multi", "scope403"} -> Https
              [] c = "hdr_lo" -> Lo
              [] c = "hdr_http" -> Http
              [] c = "hdr_js" -> Js
              [] c = "hdr_jslo" -> JsLo
              [] c = "hdr_jsrem" -> JsRem
              [] OTHER -> NoURL

\* facts of a protected-resource metadata document
\* @type: Str => $prmf;
PRMFacts(o) ==
  LET \* @type: $prmf;
      b == [res |-> "exact", as |-> <<Https>>, path |-> FALSE, other |-> NoURL] IN
  CASE o = "good"      -> b
    [] o = "good_lo"   -> [b EXCEPT !.as = <<Lo>>]
    [] o = "good_path" -> [b EXCEPT !.path = TRUE]
    [] o = "good2"     -> [b EXCEPT !.as = <<Https, Https>>]
    [] o = "res_other" -> [b EXCEPT !.res = "other"]
    [] o = "res_slash" -> [b EXCEPT !.res = "slash"]
    [] o = "res_sub"   -> [b EXCEPT !.res = "sub"]
    [] o = "as_http"   -> [b EXCEPT !.as = <<Http>>]
    [] o = "as_js"     -> [b EXCEPT !.as = <<Js>>]
    [] o = "as_data"   -> [b EXCEPT !.as = <<Data>>]
    [] o = "as_jslo"   -> [b EXCEPT !.as = <<JsLo>>]
    [] o = "as_jsrem"  -> [b EXCEPT !.as = <<JsRem>>]
    [] o = "as2_http"  -> [b EXCEPT !.as = <<Https, Http>>]
    [] o = "as2_js"    -> [b EXCEPT !.as = <<Https, Js>>]
    [] o = "as2_jslo"  -> [b EXCEPT !.as = <<Https, JsLo>>]
    [] o = "no_as"     -> [b EXCEPT !.as = <<>>]
    [] o = "field_js"  -> [b EXCEPT !.other = Js]
    [] o = "field_jslo"  -> [b EXCEPT !.other = JsLo]
    [] o = "field_jsrem" -> [b EXCEPT !.other = JsRem]

\* facts of an authorization-server metadata document.  ip: authorization_response_iss_parameter_supported,
\* cimd: client_id_metadata_document_supported, rg: "ep" = a registration endpoint is present.
\* `other`: jwks_uri, service_documentation, op_policy_uri, op_tos_uri, revocation_endpoint (never https-checked)
\* auth, tok, reg, intro, other are URL classes (NoURL: the field is absent)
\* the URL field k of the facts f / f with its URL field k set to c (k is a value, not a literal: spelled out per field)
\* @type: ($asmf, Str) => $url;
FieldURL(f, k) == CASE k = "auth" -> f.auth [] k = "tok" -> f.tok [] k = "reg" -> f.reg [] k = "intro" -> f.intro [] k = "other" -> f.other
\* @type: ($asmf, Str, $url) => $asmf;
SetFieldURL(f, k, c) == [f EXCEPT !.auth = IF k = "auth" THEN c ELSE @, !.tok = IF k = "tok" THEN c ELSE @, !.reg = IF k = "reg" THEN c ELSE @,
                                  !.intro = IF k = "intro" THEN c ELSE @, !.other = IF k = "other" THEN c ELSE @]
\* @type: (Str, Bool, Bool, Str) => $asmf;
ASMFacts(o, ip, cimd, rg) ==
  LET b == [iss |-> "exact", pkce |-> TRUE, ip |-> ip, cimd |-> cimd, auth |-> Https, tok |-> Https,
            reg |-> (IF rg = "ep" THEN Https ELSE NoURL), intro |-> NoURL, other |-> NoURL] IN
  CASE o \in ASMFieldDocs -> SetFieldURL(b, ASMFieldVar[o][1], ASMFieldVar[o][2])
    [] o = "good"       -> b
    [] o = "good_lo"    -> [b EXCEPT !.auth = Lo, !.tok = Lo, !.reg = (IF rg = "ep" THEN Lo ELSE NoURL)]
    [] o = "iss_slash"  -> [b EXCEPT !.iss = "slash"]
    [] o = "pkce_plain" -> b
    [] o = "iss_other"  -> [b EXCEPT !.iss = "other"]
    [] o = "iss_sub"    -> [b EXCEPT !.iss = "sub"]
    [] o = "iss_port"     -> [b EXCEPT !.iss = "port"]
    [] o = "iss_scheme"   -> [b EXCEPT !.iss = "scheme"]
    [] o = "iss_userinfo" -> [b EXCEPT !.iss = "userinfo"]
    [] o = "iss_query"    -> [b EXCEPT !.iss = "query"]
    [] o = "iss_fragment" -> [b EXCEPT !.iss = "fragment"]
    [] o = "iss_hostsfx"  -> [b EXCEPT !.iss = "hostsfx"]
    [] o = "iss_prefix"   -> [b EXCEPT !.iss = "prefix"]
    [] o = "iss_case"     -> [b EXCEPT !.iss = "case"]
    [] o = "iss_dot"      -> [b EXCEPT !.iss = "dot"]
    [] o = "no_pkce"    -> [b EXCEPT !.pkce = FALSE]

\* @type: $prmf => Bool;
PRMScript(f) == (\E i \in DOMAIN f.as : Script(f.as[i])) \/ Script(f.other)
\* @type: $asmf => Bool;
ASMScript(f) == \E c \in {f.auth, f.tok, f.reg, f.intro, f.other} : Script(c)

HasCimd(rc) == rc \in {"cimd", "cimd_pre", "cimd_dcr", "all"}
HasPre(rc) == rc \in {"pre", "cimd_pre", "pre_dcr", "all"}
HasDcr(rc) == rc \in {"dcr", "cimd_dcr", "pre_dcr", "all"}

-----------------------------------------------------------------------------
VARIABLES
          \* @type: Str;
          pc,
          \* challenge variant, MCP URL class ("-" once no longer read)
          \* @type: Str;
          ch,
          \* @type: Str;
          mcp,
          \* candidate PRM locations / index of the next candidate (PRM, then ASM)
          \* @type: Seq(Str);
          plist,
          \* @type: Int;
          idx,
          \* @type: {cls: $url, path: Bool};
          srv,           \* authorization server chosen: [cls, path]
          \* @type: $asmu;
          asm,           \* metadata in use: [mode, ip, cimd, reg, auth, tok]
          \* resolved registration; relation of the pre-registered issuer
          \* @type: Str;
          client,
          \* @type: Str;
          pre,
          \* @type: {state: Str, iss: Str};
          ares,
          \* @type: Str;
          tokq,
          \* @type: Str;
          result,
          \* @type: Str;
          ts,            \* "init" | "new"  (what TokenSource() returns)
          \* ghost / history
          \* @type: Str;
          cause,         \* the fatal outcome at an ASM location while the later locations are still to be scripted
          \* @type: Set($req);
          requested,     \* set of [kind, cls] requested through the http.Client
          \* @type: Set($doc);
          used,          \* set of documents trusted: [kind, match, pkce, script]
          \* @type: Set($doc);
          served,        \* set of documents the authorization server in use answered with: [kind, match, pkce, script]
          \* @type: Bool;
          predef,        \* the predefined endpoints of the authorization server were adopted
          \* @type: Bool;
          exchanged,
          \* @type: Set(Str);
          credsTo,
          \* @type: Bool;
          failed

vars == <<pc, ch, mcp, plist, idx, srv, asm, client, pre, ares, tokq, result, ts, cause, requested, used, served, predef,
          exchanged, credsTo, failed>>

Aux == <<cause, served, predef>>

NoAS == [cls |-> NoURL, path |-> FALSE]
NoASM == [mode |-> "-", ip |-> FALSE, cimd |-> FALSE, reg |-> NoURL, auth |-> NoURL, tok |-> NoURL]
NoRes == [state |-> "-", iss |-> "-"]

Init == /\ pc = "setup" /\ ch = "-" /\ mcp = "-" /\ plist = <<>> /\ idx = 0 /\ srv = NoAS /\ asm = NoASM
        /\ client = "-" /\ pre = "-" /\ ares = NoRes /\ tokq = "-" /\ result = "-" /\ ts = "init"
        /\ cause = "-" /\ requested = {} /\ used = {} /\ served = {} /\ predef = FALSE
        /\ exchanged = FALSE /\ credsTo = {} /\ failed = FALSE

Fail(r) == pc' = "done" /\ result' = r /\ failed' = TRUE

Setup(c, m) ==
  /\ pc = "setup" /\ c \in Challenges /\ m \in McpURLs
  /\ ch' = c /\ mcp' = m /\ pc' = "parse"
  /\ UNCHANGED <<plist, idx, srv, asm, client, pre, ares, tokq, result, ts, requested, used, exchanged, credsTo, failed>> /\ UNCHANGED Aux

\* oauthex.ParseWWWAuthenticate; 403 without insufficient_scope returns nil at once
ParseChallenge ==
  /\ pc = "parse"
  /\ CASE ch = "malformed" -> Fail("parse") /\ UNCHANGED <<plist, idx>>
       [] ch = "other403" -> pc' = "done" /\ result' = "nil403" /\ UNCHANGED <<plist, idx, failed>>
       [] OTHER -> /\ plist' = (IF ChHdr(ch) # NoURL THEN <<"hdr">> ELSE <<>>) \o <<"path", "root">>
                   /\ idx' = 1 /\ pc' = "prm" /\ UNCHANGED <<result, failed>>
  /\ UNCHANGED <<ch, mcp, srv, asm, client, pre, ares, tokq, ts, requested, used, exchanged, credsTo>> /\ UNCHANGED Aux

\* getProtectedResourceMetadata: one candidate location; any error moves on to the next candidate
\* (FetchPRMNext / FetchASMFatal are top-level rather than LET-defined inside the actions: Apalache finds the assignments of
\* an action only in operators it inlines)
FetchPRMNext == /\ idx' = idx + 1
                /\ UNCHANGED <<pc, ch, mcp, srv, used, result, failed>>
FetchPRM(loc, o) ==
  /\ pc = "prm" /\ idx <= Len(plist) /\ plist[idx] = loc
  /\ LET cls == IF loc = "hdr" THEN ChHdr(ch) ELSE McpCls(mcp)
     IN IF ~CodeSchemeOK(cls) \/ ~CodeHttpsOrLo(cls)     \* checkURLScheme / checkHTTPSOrLoopback(metadataURL) fails: no request
        THEN o = "skip" /\ FetchPRMNext /\ UNCHANGED requested
        ELSE /\ o \in PRMOutcomes
             /\ requested' = requested \cup {[kind |-> "prm", cls |-> cls]}
             /\ IF o \in PRMHttpFail THEN FetchPRMNext
                ELSE LET f == PRMFacts(o) IN
                  IF \/ f.res # "exact"                                              \* prm.Resource != resourceURL
                     \/ \E i \in DOMAIN f.as : ~CodeSchemeOK(f.as[i]) \/ ~CodeHttpsOrLo(f.as[i])   \* checkURLScheme, checkHTTPSOrLoopback
                     \/ ~CodeSchemeOK(f.other)                                        \* checkURLScheme on the four other URL fields
                  THEN FetchPRMNext
                  ELSE IF Len(f.as) = 0
                  THEN Fail("no_as") /\ UNCHANGED <<idx, ch, mcp, srv, used>>
                  ELSE /\ srv' = [cls |-> f.as[1], path |-> f.path]
                       /\ used' = used \cup {[kind |-> "prm", match |-> f.res, pkce |-> TRUE, script |-> PRMScript(f)]}
                       /\ pc' = "asm" /\ idx' = 1 /\ ch' = "-" /\ mcp' = "-"
                       /\ UNCHANGED <<result, failed>>
  /\ UNCHANGED <<plist, asm, client, pre, ares, tokq, ts, exchanged, credsTo>> /\ UNCHANGED Aux

\* 2025-03-26 fallback: the root of the MCP server is the authorization server
FallbackRootAS ==
  /\ pc = "prm" /\ idx > Len(plist)
  /\ srv' = [cls |-> McpCls(mcp), path |-> FALSE]
  /\ pc' = "asm" /\ idx' = 1 /\ ch' = "-" /\ mcp' = "-"
  /\ UNCHANGED <<plist, asm, client, pre, ares, tokq, result, ts, requested, used, exchanged, credsTo, failed>> /\ UNCHANGED Aux

\* @type: Seq(Str);
ASMList == IF srv.path THEN <<"oauth_ins", "oidc_ins", "oidc_app">> ELSE <<"oauth", "oidc">>
ASMLocs == {"oauth", "oidc", "oauth_ins", "oidc_ins", "oidc_app"}

\* GetAuthServerMetadata / oauthex.GetAuthServerMeta: 4xx moves on, anything else is fatal.
\* A fatal outcome before the last location leaves the later locations unread: the environment scripts
\* them in UnreadASM (pc "asmrest"; `cause` keeps the fatal outcome until then).
FetchASMFatal(o) == IF ~ASMFatalStops
                    THEN idx' = idx + 1 /\ UNCHANGED <<pc, asm, used, result, failed, cause>>      \* (witness configuration)
                    ELSE IF idx < Len(ASMList)
                    THEN /\ pc' = "asmrest" /\ cause' = o /\ result' = "asm" /\ failed' = TRUE
                         /\ UNCHANGED <<idx, asm, used>>
                    ELSE Fail("asm") /\ UNCHANGED <<idx, asm, used, cause>>
FetchASM(loc, o, ip, cimd, rg) ==
  /\ pc = "asm" /\ idx <= Len(ASMList) /\ ASMList[idx] = loc
  /\ IF ~CodeSchemeOK(srv.cls) \/ ~CodeHttpsOrLo(srv.cls)        \* checkURLScheme / checkHTTPSOrLoopback(metadataURL) fails: no request
     THEN /\ o = "skip" /\ ip = FALSE /\ cimd = FALSE /\ rg = "ep"
          /\ Fail("asm") /\ UNCHANGED <<idx, asm, used, requested, cause, served>>
     ELSE /\ o \in ASMOutcomes
          /\ (o = "iss_prefix" => srv.path)                     \* a strict path prefix needs a path
          /\ IF o \in ASMFlagDocs THEN ip \in BOOLEAN /\ cimd \in BOOLEAN /\ rg \in RegFlags
             ELSE ip = FALSE /\ cimd = FALSE /\ rg = "ep"
          /\ requested' = requested \cup {[kind |-> "asm", cls |-> srv.cls]}
          /\ IF o \in ASM4xx THEN idx' = idx + 1 /\ UNCHANGED <<pc, asm, used, result, failed, cause, served>>
             ELSE IF o \in ASMHttpFail THEN FetchASMFatal(o) /\ UNCHANGED served
             ELSE LET f == ASMFacts(o, ip, cimd, rg)
                      d == [kind |-> "asm", match |-> f.iss, pkce |-> f.pkce, script |-> ASMScript(f)] IN
               /\ served' = served \cup {d}
               /\ IF \/ ~CodeIssMatch(f.iss)                                \* authutil.IssuersEqual
                     \/ ~f.pkce                                              \* len(CodeChallengeMethodsSupported) == 0
                     \/ \E k \in ASMSchemeChecked : ~CodeSchemeOK(FieldURL(f, k))                        \* checkURLScheme on nine fields
                     \/ \E c \in {f.auth, f.tok, f.reg, f.intro} : ~CodeHttpsOrLo(c)           \* checkHTTPSOrLoopback on four
                  THEN FetchASMFatal(o)
                  ELSE /\ asm' = [mode |-> "doc", ip |-> f.ip, cimd |-> f.cimd, reg |-> f.reg, auth |-> f.auth, tok |-> f.tok]
                       /\ used' = used \cup {d}
                       /\ pc' = "reg" /\ idx' = 0 /\ UNCHANGED <<result, failed, cause>>
  /\ UNCHANGED <<ch, mcp, plist, srv, client, pre, ares, tokq, ts, predef, exchanged, credsTo>>

\* the environment's outcomes at the locations after a fatal one (o3 = "-": there is only one such location)
UnreadASM(o2, o3) ==
  /\ pc = "asmrest"
  /\ o2 \in ASMRest
  /\ o3 \in (IF Len(ASMList) - idx = 2 THEN ASMRest ELSE {"-"})
  /\ pc' = "done" /\ cause' = "-"
  /\ UNCHANGED <<ch, mcp, plist, idx, srv, asm, client, pre, ares, tokq, result, ts, requested, used, served, predef,
                 exchanged, credsTo, failed>>

\* 2025-03-26 fallback for servers without metadata: predefined endpoints under the authorization server URL
PredefinedEndpoints ==
  /\ pc = "asm" /\ idx > Len(ASMList)
  /\ asm' = [mode |-> "predef", ip |-> FALSE, cimd |-> FALSE, reg |-> srv.cls, auth |-> srv.cls, tok |-> srv.cls]
  /\ pc' = "reg" /\ idx' = 0 /\ predef' = TRUE
  /\ UNCHANGED <<ch, mcp, plist, srv, client, pre, ares, tokq, result, ts, cause, requested, used, served, exchanged, credsTo, failed>>

\* "hostonly": the credentials name scheme://host of the authorization server without its path
EffPre(p) == IF p = "hostonly" THEN (IF srv.path THEN "prefix" ELSE "exact") ELSE p

\* handleRegistration: CIMD, then pre-registered (bound to its issuer), then DCR.
\* (srv and the registration facts of asm are not read after this step and are reset.)
Register(rc, p, o) ==
  /\ pc = "reg" /\ rc \in RegConfigs
  /\ IF HasPre(rc) THEN p \in PreRels ELSE p = "na"
  /\ srv' = NoAS /\ asm' = [asm EXCEPT !.cimd = FALSE, !.reg = NoURL]
  /\ IF HasCimd(rc) /\ asm.cimd
     THEN /\ o = "skip" /\ client' = "cimd" /\ pre' = "-" /\ pc' = "code"
          /\ UNCHANGED <<requested, result, failed>>
     ELSE IF HasPre(rc)
     THEN /\ o = "skip"
          /\ IF EffPre(p) = "unset" \/ CodeIssMatch(EffPre(p))          \* Issuer == "" or IssuersEqual
             THEN client' = "prereg" /\ pre' = EffPre(p) /\ pc' = "code" /\ UNCHANGED <<result, failed>>
             ELSE Fail("prereg") /\ UNCHANGED <<client, pre>>
          /\ UNCHANGED requested
     ELSE IF HasDcr(rc) /\ asm.reg # NoURL
     THEN /\ o \in DCROutcomes
          /\ requested' = requested \cup {[kind |-> "reg", cls |-> asm.reg]}
          /\ IF o \in {"201", "200"} THEN client' = "dcr" /\ pre' = "-" /\ pc' = "code" /\ UNCHANGED <<result, failed>>
             ELSE Fail("dcr") /\ UNCHANGED <<client, pre>>
     ELSE o = "skip" /\ Fail("noreg") /\ UNCHANGED <<client, pre, requested>>
  /\ UNCHANGED <<ch, mcp, plist, idx, ares, tokq, ts, used, exchanged, credsTo>> /\ UNCHANGED Aux

\* getAuthorizationCode: the authorization URL (with the client id) is handed to the fetcher
GetCode(st, iss) ==
  /\ pc = "code"
  /\ credsTo' = IF client = "prereg" THEN credsTo \cup {pre} ELSE credsTo
  /\ IF st = "ferr"
     THEN iss = "-" /\ Fail("fetcher") /\ UNCHANGED ares
     ELSE /\ st \in AuthStates /\ iss \in AuthIsses
          /\ ares' = [state |-> st, iss |-> iss] /\ pc' = "checkstate" /\ UNCHANGED <<result, failed>>
  /\ asm' = [asm EXCEPT !.auth = NoURL]
  /\ UNCHANGED <<ch, mcp, plist, idx, srv, client, pre, tokq, ts, requested, used, exchanged>> /\ UNCHANGED Aux

CheckState ==
  /\ pc = "checkstate"
  /\ IF ares.state # "equal" THEN Fail("state") ELSE pc' = "checkiss" /\ UNCHANGED <<result, failed>>
  /\ UNCHANGED <<ch, mcp, plist, idx, srv, asm, client, pre, ares, tokq, ts, requested, used, exchanged, credsTo>> /\ UNCHANGED Aux

\* validateIssuerResponse
CheckIss ==
  /\ pc = "checkiss"
  /\ IF asm.ip
     THEN IF ares.iss = "absent" \/ ares.iss # "equal" THEN Fail("iss") ELSE pc' = "exchange" /\ UNCHANGED <<result, failed>>
     ELSE IF ares.iss # "absent" THEN Fail("iss") ELSE pc' = "exchange" /\ UNCHANGED <<result, failed>>
  /\ UNCHANGED <<ch, mcp, plist, idx, srv, asm, client, pre, ares, tokq, ts, requested, used, exchanged, credsTo>> /\ UNCHANGED Aux

\* exchangeAuthorizationCode: the token request
Exchange(o) ==
  /\ pc = "exchange" /\ o \in TokenOutcomes
  /\ requested' = requested \cup {[kind |-> "token", cls |-> asm.tok]}
  /\ exchanged' = TRUE
  /\ credsTo' = IF client = "prereg" THEN credsTo \cup {pre} ELSE credsTo
  /\ IF o \in {"good", "expiring"} THEN tokq' = o /\ pc' = "install" /\ UNCHANGED <<result, failed>>
     ELSE Fail("exchange") /\ UNCHANGED tokq
  /\ UNCHANGED <<ch, mcp, plist, idx, srv, asm, client, pre, ares, ts, used>> /\ UNCHANGED Aux

\* h.tokenSource = ts; then updateGrantedScopes asks the new source for its token
Install ==
  /\ pc = "install"
  /\ ts' = "new"
  /\ result' = IF tokq = "expiring" THEN "post" ELSE "ok"
  /\ pc' = "done"
  /\ UNCHANGED <<ch, mcp, plist, idx, srv, asm, client, pre, ares, tokq, requested, used, exchanged, credsTo, failed>> /\ UNCHANGED Aux

\* exports the outcome in the edge label; everything but the ghosts is reset
Finish(r, changed) ==
  /\ pc = "done" /\ r = result /\ changed = (ts = "new")
  /\ pc' = "halt"
  /\ ch' = "-" /\ mcp' = "-" /\ plist' = <<>> /\ idx' = 0 /\ srv' = NoAS /\ client' = "-" /\ pre' = "-" /\ tokq' = "-"
  /\ asm' = [NoASM EXCEPT !.ip = asm.ip]
  /\ UNCHANGED <<ares, result, ts, requested, used, exchanged, credsTo, failed>> /\ UNCHANGED Aux

Results == {"ok", "nil403", "parse", "no_as", "asm", "prereg", "dcr", "noreg", "fetcher", "state", "iss", "exchange", "post"}

Next ==
  \/ \E c \in Challenges, m \in McpURLs : Setup(c, m)
  \/ ParseChallenge
  \/ \E loc \in {"hdr", "path", "root"}, o \in PRMOutcomes \cup {"skip"} : FetchPRM(loc, o)
  \/ FallbackRootAS
  \/ \E loc \in ASMLocs, o \in ASMOutcomes \cup {"skip"}, ip \in BOOLEAN, cimd \in BOOLEAN, rg \in RegFlags :
        FetchASM(loc, o, ip, cimd, rg)
  \/ \E o2 \in ASMRest, o3 \in ASMRest \cup {"-"} : UnreadASM(o2, o3)
  \/ PredefinedEndpoints
  \/ \E rc \in RegConfigs, p \in PreRels \cup {"na"}, o \in DCROutcomes \cup {"skip"} : Register(rc, p, o)
  \/ \E st \in AuthStates \cup {"ferr"}, iss \in AuthIsses \cup {"-"} : GetCode(st, iss)
  \/ CheckState
  \/ CheckIss
  \/ \E o \in TokenOutcomes : Exchange(o)
  \/ Install
  \/ \E r \in Results, c \in BOOLEAN : Finish(r, c)

Spec == Init /\ [][Next]_vars

-----------------------------------------------------------------------------
\* Design invariants (C15)

OnlySafeURLs == \A r \in requested : ReqSafe(r)
UsedOnlyIfMatching == \A d \in used : MatchOK(d)
PKCERequired == \A d \in used : PkceOK(d)
NoScriptSchemes == \A d \in used : ScriptFree(d)
ExchangeOnlyIfStateAndIss == exchanged => StateOK(ares.state) /\ IssOK(ares.iss, asm.ip)
PreregBoundToIssuer == \A p \in credsTo : PreOK(p)
\* the "no metadata" fallback is for a server WITHOUT metadata: every document the server did answer with at one of
\* its well-known locations is metadata the decision rests on, and is used only if it passes the three document checks
NoFallbackAfterRejected == predef => \A d \in served : DocOK(d)
NoTokenAfterFailure == [][failed => ts' = ts]_vars
\* state form of the same clause: a new token is there only if every check passed
TokenOnlyIfChecksPassed ==
  ts = "new" => /\ ~failed /\ exchanged /\ StateOK(ares.state) /\ IssOK(ares.iss, asm.ip)
                /\ \A d \in used : DocOK(d)
                /\ (predef => \A d \in served : DocOK(d))
                /\ \A p \in credsTo : PreOK(p)
ResultKnown == pc \in {"done", "halt"} => result \in Results

-----------------------------------------------------------------------------
\* Inductive invariant (discharged by Apalache: Init => IndInv and IndInv /\ Next => IndInv', hence the nine design
\* invariants above hold in every reachable state whatever the length of the behaviour, for the full variant sets of
\* this module = OAuthFlow_mc.cfg).  The module has no CONSTANTS: CInit is trivial.
CInit == TRUE
PCs == {"setup", "parse", "prm", "asm", "asmrest", "reg", "code", "checkstate", "checkiss", "exchange", "install", "done", "halt"}
URLs == URLClasses \cup {NoURL}
ReqSet == [kind : {"prm", "asm", "reg", "token"}, cls : URLs]
DocSet == [kind : {"prm", "asm"}, match : IssRels, pkce : BOOLEAN, script : BOOLEAN]
PreVals == {"-", "unset"} \cup IssRels
\* @type: Set(Seq(Str));
PLists == {<<>>, <<"path", "root">>, <<"hdr", "path", "root">>}
IndTypeOK ==
  /\ pc \in PCs /\ ch \in Challenges \cup {"-"} /\ mcp \in McpURLs \cup {"-"}
  /\ plist \in PLists /\ idx \in 0..4
  /\ srv \in [cls : URLs, path : BOOLEAN]
  /\ asm \in [mode : {"-", "doc", "predef"}, ip : BOOLEAN, cimd : BOOLEAN, reg : URLs, auth : URLs, tok : URLs]
  /\ client \in {"-", "cimd", "prereg", "dcr"} /\ pre \in PreVals
  /\ ares \in [state : AuthStates \cup {"-"}, iss : AuthIsses \cup {"-"}]
  /\ tokq \in {"-", "good", "expiring"} /\ result \in Results \cup {"-"} /\ ts \in {"init", "new"}
  /\ cause \in ASMOutcomes \cup {"-"}
  /\ requested \in SUBSET ReqSet /\ used \in SUBSET DocSet /\ served \in SUBSET DocSet
  /\ predef \in BOOLEAN /\ exchanged \in BOOLEAN /\ credsTo \in SUBSET PreVals /\ failed \in BOOLEAN
\* what each step of the flow has established when the program counter is where it is
IndPhase ==
  \* discovery of the resource metadata: the challenge and the MCP URL are known, a "hdr" candidate has a URL
  /\ pc \in {"parse", "prm"} => ch \in Challenges /\ mcp \in McpURLs
  /\ pc = "prm" => /\ ch \notin {"malformed", "other403"}
                   /\ plist = (IF ChHdr(ch) # NoURL THEN <<"hdr">> ELSE <<>>) \o <<"path", "root">>
                   /\ idx >= 1
  \* discovery of the authorization server metadata: there is a server URL; once a location has been asked it is safe
  /\ pc \in {"asm", "asmrest"} => srv.cls # NoURL /\ idx >= 1
  /\ (pc = "asm" /\ idx > 1) => Safe(srv.cls)
  \* nothing was served / adopted before the metadata discovery ends, and the predefined endpoints are adopted only
  \* when no location answered with a document
  /\ pc \in {"setup", "parse", "prm", "asm"} => served = {} /\ ~predef
  /\ predef => served = {}
  \* the endpoints in use are safe request targets
  /\ pc \in {"reg", "code", "checkstate", "checkiss", "exchange"} => Safe(asm.tok)
  /\ pc = "reg" => asm.reg = NoURL \/ Safe(asm.reg)
  \* failure is final
  /\ pc = "asmrest" => result = "asm" /\ failed
  /\ failed => pc \in {"asmrest", "done", "halt"}
  \* the authorization response has passed the checks that precede the program counter
  /\ pc = "checkiss" => ares.state = "equal"
  /\ pc \in {"exchange", "install"} => ares.state = "equal" /\ IssOK(ares.iss, asm.ip)
  /\ exchanged => pc \in {"install", "done", "halt"} /\ StateOK(ares.state) /\ IssOK(ares.iss, asm.ip)
  /\ pc = "install" => exchanged /\ tokq \in {"good", "expiring"}
  /\ ts = "new" => pc \in {"done", "halt"} /\ ~failed /\ exchanged
  \* pre-registered credentials in use are bound to the issuer
  /\ (pc \in {"code", "checkstate", "checkiss", "exchange"} /\ client = "prereg") => PreOK(pre)
  /\ \A d \in used : DocOK(d)
IndInv ==
  /\ IndTypeOK
  /\ IndPhase
  /\ OnlySafeURLs /\ UsedOnlyIfMatching /\ PKCERequired /\ NoScriptSchemes /\ ExchangeOnlyIfStateAndIss
  /\ PreregBoundToIssuer /\ NoFallbackAfterRejected /\ TokenOnlyIfChecksPassed /\ ResultKnown
IndInit == IndInv
\* sanity of the step case: action invariants, each must be VIOLATED with --init=IndInit --length=1 (IndInit is satisfiable
\* and its states have successors through these steps)
SanityNoInstall == ~(ts = "init" /\ ts' = "new")
SanityNoPredef == ~(~predef /\ predef')
SanityNoDcrRequest == ~(pc = "reg" /\ requested' # requested)
=============================================================================
