---------------------------- MODULE DispatchDefs ----------------------------
(* X15, the decision tables of the method dispatch layer.                     *)
(* (mcp/shared.go checkRequest, methodInfo / newMethodInfo.unmarshalParams,   *)
(* orZero, handleSend; mcp/server.go AddReceivingCustomMethod; mcp/client.go  *)
(* AddSendingCustomMethod, CallCustomMethod; get/setProgressToken,            *)
(* NotifyProgress, ProgressNotificationHandler.)                              *)
(*                                                                            *)
(* PROPERTIES (sources: the doc comments of the functions above, of           *)
(* MethodHandler, Params.isNil / orZero, RequestParams; design/design.md      *)
(* "Progress handling"; docs/protocol.md "Progress"; JSON-RPC 2.0 sections 4  *)
(* and 5 which the MCP base protocol adopts)                                  *)
(*                                                                            *)
(*  R  custom methods on a Server (raw requests against a real Server)        *)
(*   R1 NoCrash        no request whatsoever makes the server panic or kills  *)
(*                     the session.                                           *)
(*   R2 Answered       a request with an id is answered exactly once, one     *)
(*                     without an id never.                                   *)
(*   R3 RefusesStandard AddReceivingCustomMethod returns an error if the name *)
(*                     is that of a standard MCP method (and nil otherwise).  *)
(*   R4 HandlerIff     a request (with id) for a registered custom method     *)
(*                     whose params decode into P runs the handler exactly    *)
(*                     once; params that do not decode are answered -32602    *)
(*                     and the handler does not run.                          *)
(*   R5 Unregistered   a request for a method nobody registered is answered   *)
(*                     -32601 and runs nothing.                               *)
(*   R6 NoShadow       a custom handler never runs for a standard method; the *)
(*                     built-in keeps answering.                              *)
(*   R7 Decoded        the handler receives the decoded params (fields and    *)
(*                     _meta); absent / null params arrive as nil or zero.    *)
(*   R8 Result         the handler's R is the JSON-RPC result; a              *)
(*                     *jsonrpc.Error it returns keeps its code; any other    *)
(*                     error is an error response.                            *)
(*  S  CallCustomMethod / typed senders of a Client (against a scripted peer) *)
(*   S1 NoPanic        the call never panics, whatever the peer answers.      *)
(*   S2 ExactlyOne     it returns a non-nil R and a nil error, or a nil R     *)
(*                     and an error.                                          *)
(*   S3 RefusesStandard AddSendingCustomMethod returns an error if the name   *)
(*                     is that of a standard MCP method.                      *)
(*   S4 Unregistered   CallCustomMethod on a method that AddSendingCustom-    *)
(*                     Method did not (or refused to) register fails and      *)
(*                     writes nothing.                                        *)
(*   S5 WireValid      what is written is a JSON-RPC 2.0 request: it has an   *)
(*                     id (custom methods are calls: the response is decoded  *)
(*                     into R), `params` is omitted or an object (never       *)
(*                     null), and on a 2026-07-28 session it carries the      *)
(*                     per-request _meta triple.                              *)
(*   S6 Decoded        a result of the shape of R is returned decoded; an     *)
(*                     error response is returned as an error that exposes    *)
(*                     the peer's code (jsonrpc.Error); a result that does    *)
(*                     not decode is an error; null / {} / unknown members    *)
(*                     give the zero R or an error - never invented content.  *)
(*   S7 ParamsSent     the caller's params are what is written.               *)
(*   S8 MiddlewareSafe what a sending middleware obtains from GetParams() is  *)
(*                     nil or a usable Params (no typed nil: "orZero - helper *)
(*                     to avoid typed nil").                                  *)
(*  G  progress tokens                                                        *)
(*   G1 Intact         a progress notification that a handler sends with the  *)
(*                     token it found in the request it serves reaches the    *)
(*                     requester's progress handler exactly once with a token *)
(*                     equal (same string / same integer) to the one the      *)
(*                     requester set (string | integer, MCP ProgressToken).   *)
(*  A  A1 Linearizable concurrent Add*Middleware calls from several           *)
(*                     goroutines compose as SOME sequential order of the     *)
(*                     calls: each call's middleware adjacent and in argument *)
(*                     order, a goroutine's later call outside its earlier    *)
(*                     one, nothing lost or duplicated; a request in flight   *)
(*                     keeps the chain it started with.                       *)
(*  Z  Z1 RaceFree     registering a custom method / adding middleware while  *)
(*                     requests are being served is free of data races (the   *)
(*                     registries are guarded by the Client / Server mutex).  *)
(*                                                                            *)
(* Expected(c) transcribes the code check by check; Deviation(c) names the    *)
(* places where the code, as transcribed, breaks a clause:                    *)
(*  DR-PEERSTD  the standard-name test looks at serverMethodInfos only:       *)
(*              "roots/list", "sampling/createMessage", ... are accepted.     *)
(*  DS-NOTIF    a name with the prefix notifications/ is accepted by          *)
(*              AddSendingCustomMethod; defaultSendingMethodHandler then      *)
(*              sends a NOTIFICATION and returns (nil, nil); handleSend's     *)
(*              res.(R) panics.                                               *)
(*  DS-STD      CallCustomMethod only tests membership in Client.sendMethods, *)
(*              which also holds every standard method: it sends tools/list   *)
(*              and handleSend's res.(R) panics on *ListToolsResult.          *)
(*  DS-NULL     CallCustomMethod wraps a nil params pointer without orZero:   *)
(*              a typed nil reaches the middleware and `"params":null` is     *)
(*              written (legacy sessions; 2026-07-28 replaces nil by new(T)). *)
(*  DG-FLOAT    _meta is a map[string]any: an integer token beyond 2^53 is    *)
(*              decoded through float64 and comes back altered.               *)
(*  DZ-MAP      sendingMethodInfos / receivingMethodInfos return the map      *)
(*              under the mutex but it is read after the mutex is released.   *)
EXTENDS Integers, Sequences, FiniteSets, TLC

\* ------------------------------------------------------------------ R
RMeths == {"custom", "unreg", "std", "peerstd", "notifname"}
RIds == {"call", "notif"}
RParams == {"absent", "null", "empty", "valid", "meta", "wrongtype", "array", "scalar"}
RHrets == {"res", "err", "rpcerr"}
RCases == {[t |-> "R", meth |-> m, id |-> i, params |-> p, hret |-> h] : m \in RMeths, i \in RIds, p \in RParams, h \in RHrets}
Decodable(p) == p \in {"absent", "null", "empty", "valid", "meta"}
StdName(m) == m \in {"std", "peerstd"}
HandlerCode == 4242

\* AddReceivingCustomMethod: `if _, ok := serverMethodInfos[method]; ok { return error }`
RRegExpected(c) == CASE c.meth = "unreg" -> "na" [] c.meth = "std" -> "refused" [] OTHER -> "ok"
RPseen(p) == CASE p \in {"absent", "null"} -> "nil" [] p = "empty" -> "zero" [] p = "valid" -> "valid" [] p = "meta" -> "meta" [] OTHER -> "-"
RNone(reg) == [reg |-> reg, replies |-> 0, kind |-> "none", code |-> 0, ran |-> 0, pseen |-> "-", src |-> "none", alive |-> TRUE, panic |-> ""]
RExpected(c) ==
  LET reg == RRegExpected(c)
      registered == reg = "ok" IN
  IF c.id = "notif" THEN RNone(reg)      \* unknown method / checkRequest "missing id": nothing runs, nothing is answered
  ELSE IF c.meth = "unreg" THEN [RNone(reg) EXCEPT !.replies = 1, !.kind = "error", !.code = -32601]
  ELSE IF ~Decodable(c.params) THEN [RNone(reg) EXCEPT !.replies = 1, !.kind = "error", !.code = -32602]
  ELSE IF c.meth = "std" THEN [RNone(reg) EXCEPT !.replies = 1, !.kind = "result", !.src = "builtin"]
  ELSE [RNone(reg) EXCEPT !.replies = 1, !.ran = 1, !.pseen = RPseen(c.params),
                          !.kind = IF c.hret = "res" THEN "result" ELSE "error",
                          !.code = IF c.hret = "rpcerr" THEN HandlerCode ELSE 0,
                          !.src = IF c.hret = "res" THEN "custom" ELSE "none"]

RClauses == {"R1.NoCrash", "R2.Answered", "R3.RefusesStandard", "R4.HandlerIff", "R5.Unregistered", "R6.NoShadow", "R7.Decoded", "R8.Result"}
RClause(n, c, o) ==
  LET served == c.id = "call" /\ o.reg = "ok" /\ c.meth \in {"custom", "peerstd", "notifname"} IN
  CASE n = "R1.NoCrash" -> o.panic = "" /\ o.alive
    [] n = "R2.Answered" -> o.replies = (IF c.id = "call" THEN 1 ELSE 0)
    [] n = "R3.RefusesStandard" -> (StdName(c.meth) => o.reg = "refused") /\ (c.meth \in {"custom", "notifname"} => o.reg = "ok")
    [] n = "R4.HandlerIff" -> served => IF Decodable(c.params) THEN o.ran = 1 ELSE (o.ran = 0 /\ o.kind = "error" /\ o.code = -32602)
    [] n = "R5.Unregistered" -> (c.id = "call" /\ (c.meth = "unreg" \/ (c.meth = "peerstd" /\ o.reg = "refused"))) =>
                                  (o.kind = "error" /\ o.code = -32601 /\ o.ran = 0)
    [] n = "R6.NoShadow" -> c.meth = "std" => (o.ran = 0 /\ ((c.id = "call" /\ Decodable(c.params)) => (o.kind = "result" /\ o.src = "builtin")))
    [] n = "R7.Decoded" -> (served /\ o.ran = 1) => CASE c.params \in {"absent", "null"} -> o.pseen \in {"nil", "zero"}
                                                      [] OTHER -> o.pseen = RPseen(c.params)
    [] n = "R8.Result" -> (served /\ o.ran = 1) => CASE c.hret = "res" -> o.kind = "result" /\ o.src = "custom"
                                                     [] c.hret = "rpcerr" -> o.kind = "error" /\ o.code = HandlerCode
                                                     [] OTHER -> o.kind = "error"

\* ------------------------------------------------------------------ S
SEras == {"legacy", "modern"}
SMeths == {"custom", "unreg", "std", "peerstd", "notifname", "builtin"}
SParams == {"nil", "zero", "valid"}
SAns == {"valid", "null", "empty", "other", "wrongtype", "array", "error"}
SCases == {[t |-> "S", era |-> e, meth |-> m, params |-> p, ans |-> a] : e \in SEras, m \in SMeths, p \in SParams, a \in SAns}
PeerCode == 4242
CodeLocal == 1       \* an error that is not a jsonrpc.Error

SRegExpected(c) == CASE c.meth \in {"unreg", "builtin"} -> "na" [] c.meth = "std" -> "refused" [] OTHER -> "ok"
SNone(reg) == [reg |-> reg, ret |-> "error", val |-> "na", code |-> CodeLocal, wrote |-> 0, wid |-> FALSE, wparams |-> "na", wmeta |-> FALSE,
               wfield |-> FALSE, mw |-> "na"]
\* what json.Unmarshal(answer, newResult()) and handleSend make of the peer's answer
SDecode(c, o) ==
  CASE c.ans = "valid" -> [o EXCEPT !.ret = "result", !.val = "valid", !.code = 0]
    [] c.ans \in {"null", "empty", "other"} -> [o EXCEPT !.ret = "result", !.val = "zero", !.code = 0]
    [] c.ans \in {"wrongtype", "array"} -> [o EXCEPT !.ret = "error", !.code = CodeLocal]
    [] OTHER -> [o EXCEPT !.ret = "error", !.code = PeerCode]
SExpected(c) ==
  LET reg == SRegExpected(c)
      modern == c.era = "modern"
      \* builtin: orZero(params) - an untyped nil is omitted; custom: the pointer itself (typed nil -> null); modern: new(T) + _meta
      wp == IF modern THEN "object" ELSE IF c.params = "nil" THEN (IF c.meth = "builtin" THEN "absent" ELSE "null") ELSE "object"
      mwv == IF modern THEN "ok" ELSE IF c.params = "nil" THEN (IF c.meth = "builtin" THEN "nil" ELSE "typednil") ELSE "ok"
      sent == [SNone(reg) EXCEPT !.wrote = 1, !.wid = TRUE, !.wparams = wp, !.wmeta = modern, !.wfield = c.params = "valid", !.mw = mwv] IN
  CASE c.meth = "unreg" -> SNone(reg)
    [] c.meth = "notifname" -> [sent EXCEPT !.wid = FALSE, !.ret = "panic", !.code = 0]                      \* DS-NOTIF
    [] c.meth = "std" -> IF c.ans \in {"valid", "null", "empty", "other"} THEN [sent EXCEPT !.ret = "panic", !.code = 0]   \* DS-STD
                         ELSE SDecode(c, sent)
    [] OTHER -> SDecode(c, sent)

SClauses == {"S1.NoPanic", "S2.ExactlyOne", "S3.RefusesStandard", "S4.Unregistered", "S5.WireValid", "S6.Decoded", "S7.ParamsSent", "S8.MiddlewareSafe"}
SClause(n, c, o) ==
  LET usable == o.reg \in {"ok", "na"} /\ c.meth # "unreg" /\ o.wrote = 1 /\ o.wid IN
  CASE n = "S1.NoPanic" -> o.ret # "panic"
    [] n = "S2.ExactlyOne" -> o.ret # "nilnil"
    [] n = "S3.RefusesStandard" -> (StdName(c.meth) => o.reg = "refused") /\ (c.meth \in {"custom", "notifname"} => o.reg = "ok")
    [] n = "S4.Unregistered" -> (c.meth = "unreg" \/ o.reg = "refused") => (o.ret = "error" /\ o.wrote = 0)
    [] n = "S5.WireValid" -> o.wrote = 1 => (o.wid /\ o.wparams \in {"absent", "object"} /\ (c.era = "modern" => o.wmeta))
    [] n = "S6.Decoded" -> usable => CASE c.ans = "valid" -> o.ret = "result" /\ o.val = "valid"
                                       [] c.ans = "error" -> o.ret = "error" /\ o.code = PeerCode
                                       [] c.ans \in {"wrongtype", "array"} -> o.ret = "error"
                                       [] OTHER -> o.ret = "error" \/ (o.ret = "result" /\ o.val = "zero")
    [] n = "S7.ParamsSent" -> (o.wrote = 1 /\ c.params = "valid") => o.wfield
    [] n = "S8.MiddlewareSafe" -> o.mw \in {"na", "nil", "ok"}

\* ------------------------------------------------------------------ G
GoToks == {"str", "strempty", "strnum", "struni", "int0", "intsmall", "intneg", "int32", "pow53", "pow53p1", "maxint64", "minint64"}
RawToks == {"rawstr", "raw1.0", "raw1e2", "rawneg0", "rawpow53", "rawpow53p1", "rawbig20"}
GCases == {[t |-> "G", dir |-> "c2s", via |-> v, era |-> e, tok |-> k] : v \in {"tool", "custom"}, e \in SEras, k \in GoToks}
          \cup {[t |-> "G", dir |-> "s2c", via |-> "sampling", era |-> "legacy", tok |-> k] : k \in GoToks}
          \cup {[t |-> "G", dir |-> "raw", via |-> v, era |-> "legacy", tok |-> k] : v \in {"tool", "custom"}, k \in RawToks}
IsStringTok(k) == k \in {"str", "strempty", "strnum", "struni", "rawstr"}
\* float64 holds every integer up to 2^53; beyond that the value is rounded on decoding, and even a value float64 holds exactly
\* (minint64 = -2^63) is re-encoded with the shortest digits that round-trip (-9223372036854776000): another integer
SurvivesFloat(k) == k \notin {"pow53p1", "maxint64", "minint64", "rawpow53p1", "rawbig20"}
GExpected(c) == [n |-> 1, eq |-> SurvivesFloat(c.tok), kind |-> IF IsStringTok(c.tok) THEN "string" ELSE "number"]
GClauses == {"G1.Intact"}
GClause(n, c, o) == o.n = 1 /\ o.eq /\ o.kind = (IF IsStringTok(c.tok) THEN "string" ELSE "number")

\* ------------------------------------------------------------------ A
AKeys == {"c.send", "c.recv", "s.send", "s.recv"}
ACases == {[t |-> "A", tgt |-> x, g |-> g, calls |-> n, len |-> k, inflight |-> f] : x \in AKeys, g \in {2, 3}, n \in {1, 2}, k \in {1, 2}, f \in BOOLEAN}
\* o.order: the middleware a probe request traverses after all goroutines have returned, outermost first, each as
\* <<goroutine, call, argument>>; o.stale: what the request that was in flight traversed after the adds (must be nothing new)
Expect(c) == {<<g, n, k>> : g \in 1..c.g, n \in 1..c.calls, k \in 1..c.len}
Pos(s, x) == CHOOSE i \in DOMAIN s : s[i] = x
Linearizable(c, s) ==
  /\ Len(s) = Cardinality(Expect(c)) /\ {s[i] : i \in DOMAIN s} = Expect(c)
  /\ \A g \in 1..c.g, n \in 1..c.calls, k \in 1..(c.len - 1) : Pos(s, <<g, n, k + 1>>) = Pos(s, <<g, n, k>>) + 1
  /\ \A g \in 1..c.g, n \in 1..(c.calls - 1) : Pos(s, <<g, n + 1, 1>>) < Pos(s, <<g, n, 1>>)
AClauses == {"A1.Linearizable", "A1.InFlightKeepsChain"}
AClause(n, c, o) == CASE n = "A1.Linearizable" -> Linearizable(c, o.order)
                      [] OTHER -> c.inflight => o.stale = 0

\* ------------------------------------------------------------------ Z
ZCases == {[t |-> "Z", what |-> w] : w \in {"regrecv", "regsend", "addmw"}}
ZExpected(c) == [race |-> c.what \in {"regrecv", "regsend"}, crashed |-> FALSE]         \* DZ-MAP
ZClauses == {"Z1.RaceFree"}
ZClause(n, c, o) == ~o.race /\ ~o.crashed

\* ------------------------------------------------------------------ all tables
HasExpected(c) == c.t # "A"
Expected(c) == CASE c.t = "R" -> RExpected(c) [] c.t = "S" -> SExpected(c) [] c.t = "G" -> GExpected(c) [] c.t = "Z" -> ZExpected(c)
ClausesOf(c) == CASE c.t = "R" -> RClauses [] c.t = "S" -> SClauses [] c.t = "G" -> GClauses [] c.t = "A" -> AClauses [] OTHER -> ZClauses
Clause(n, c, o) == CASE c.t = "R" -> RClause(n, c, o) [] c.t = "S" -> SClause(n, c, o) [] c.t = "G" -> GClause(n, c, o)
                     [] c.t = "A" -> AClause(n, c, o) [] OTHER -> ZClause(n, c, o)
Holds(c, o) == \A n \in ClausesOf(c) : Clause(n, c, o)
Failing(c, o) == {n \in ClausesOf(c) : ~Clause(n, c, o)}

\* the clauses the code, as transcribed, breaks - per named deviation
Deviation(c) ==
  CASE c.t = "R" /\ c.meth = "peerstd" -> "DR-PEERSTD"
    [] c.t = "S" /\ c.meth = "notifname" -> "DS-NOTIF"
    [] c.t = "S" /\ c.meth = "std" -> "DS-STD"
    [] c.t = "S" /\ c.meth = "peerstd" -> IF c.era = "legacy" /\ c.params = "nil" THEN "DS-PEERSTD+NULL" ELSE "DS-PEERSTD"
    [] c.t = "S" /\ c.meth = "custom" /\ c.era = "legacy" /\ c.params = "nil" -> "DS-NULL"
    [] c.t = "G" /\ ~SurvivesFloat(c.tok) -> "DG-FLOAT"
    [] c.t = "Z" /\ c.what \in {"regrecv", "regsend"} -> "DZ-MAP"
    [] OTHER -> "none"
DevClauses(d, c) ==
  CASE d = "DR-PEERSTD" -> {"R3.RefusesStandard"}
    [] d = "DS-NOTIF" -> {"S1.NoPanic", "S5.WireValid"} \cup (IF c.era = "legacy" /\ c.params = "nil" THEN {"S8.MiddlewareSafe"} ELSE {})
    [] d = "DS-STD" -> {"S4.Unregistered"} \cup (IF c.ans \in {"valid", "null", "empty", "other"} THEN {"S1.NoPanic"} ELSE {})
                       \cup (IF c.era = "legacy" /\ c.params = "nil" THEN {"S5.WireValid", "S8.MiddlewareSafe"} ELSE {})
    [] d = "DS-PEERSTD" -> {"S3.RefusesStandard"}
    [] d = "DS-PEERSTD+NULL" -> {"S3.RefusesStandard", "S5.WireValid", "S8.MiddlewareSafe"}
    [] d = "DS-NULL" -> {"S5.WireValid", "S8.MiddlewareSafe"}
    [] d = "DG-FLOAT" -> {"G1.Intact"}
    [] d = "DZ-MAP" -> {"Z1.RaceFree"}
    [] OTHER -> {}
\* equality on the judged projection (drift)
SameOutcome(c, o) == o = Expected(c)
=============================================================================
