SPECIFICATION Spec
CONSTANTS
  Reqs <- R1
  HasSa = FALSE
  PrimeSet <- NoPrimeOnly
  MaxRetries = 2
  MaxWrites = 2
  MaxCuts = 2
  MaxFails = 2
  ArmN = 1
  CutHows <- HowsBasic
  FailKinds <- FailsBasic
  SrvRenumberBug = FALSE

CHECK_DEADLOCK FALSE
