----------------------------- MODULE ElicitURLMC -----------------------------
(* Bounded configurations of ElicitURL (extension check X10, part b).         *)
(*  ElicitURL_mc.cfg            exhaustive safety, two calls that may name the *)
(*                              SAME ids (x, y; also x twice in one error),    *)
(*                              two spurious completions, contexts may end     *)
(*  ElicitURL_mc3.cfg           thorough: three spurious completions, ids x y z*)
(*  ElicitURL_distinct.cfg      two calls with disjoint ids: safety incl.      *)
(*                              U5_CompletionReachesWaiter, and U6_Returns     *)
(*                              under weak fairness                            *)
(*  ElicitURL_lead_shared.cfg   shared ids: U5_CompletionReachesWaiter must be *)
(*                              VIOLATED (deviation E1; the counterexample is  *)
(*                              replayed on the real client)                   *)
(*  ElicitURL_lead_decline.cfg  the server owes nothing for a declined         *)
(*                              elicitation: U6_Returns must be VIOLATED (E2)  *)
(*  ElicitURL_cover.cfg / _cover_nh.cfg   the graphs handed to                 *)
(*                              tools/graphwalk.py (with / without a handler)  *)
(*  ElicitURL_sim.cfg           (module ElicitURLGen) seeded simulation        *)
EXTENDS ElicitURL

ListsShared(c) == IF c = 1 THEN {<<"x">>, <<"x", "y">>} ELSE {<<"x">>}
ListsOne(c) == {<<>>, <<"x">>, <<"x", "y">>, <<"x", "x">>}
AllKinds(c) == {"ok", "err", "urlreq", "urlbad", "urlnourl"}
FewKinds(c) == IF c = 1 THEN {"ok", "err", "urlreq"} ELSE {"ok", "urlreq"}
QuickKinds(c) == IF c = 1 THEN {"ok", "urlreq"} ELSE {"urlreq"}
LiveKinds(c) == IF c = 1 THEN {"ok", "urlreq", "urlnourl"} ELSE {"urlreq"}
ListsLive(c) == IF c = 1 THEN {<<"x">>, <<"x", "y">>} ELSE {<<"z">>}
ListsDistinct(c) == IF c = 1 THEN {<<>>, <<"x">>, <<"x", "y">>} ELSE {<<>>, <<"z">>}
ListsCover(c) == {<<"x">>}
CoverKinds(c) == {"ok", "urlreq"}
ListsSim(c) == IF c = 1 THEN {<<>>, <<"x">>, <<"x", "y">>, <<"y", "z">>, <<"x", "x">>}
               ELSE IF c = 2 THEN {<<>>, <<"x">>, <<"z">>, <<"y", "x">>} ELSE {<<"z">>, <<"x">>, <<"z", "y">>}

\* Fingerprint for the safety runs: ghosts that no later action reads and no invariant compares after the call is done
MCView == <<implVars, first, asked, hres, got, used, seen, rets, nspur, owedSent>>
AllDone == \A c \in Calls : pc[c] = "done"
=============================================================================
