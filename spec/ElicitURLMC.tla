----------------------------- MODULE ElicitURLMC -----------------------------
(* Bounded configurations of ElicitURL (extension check X10, part b).         *)
(* Common constants: lists of at most MaxLen = 2 elicitations, Unknown = "u". *)
(*  ElicitURL_mc_quick.cfg      quick: exhaustive safety, two calls that may   *)
(*                              name the SAME id (call 1: [x] or [x,y], call   *)
(*                              2: [x]), answers ok / urlreq, handler accept / *)
(*                              herr, one spurious completion, contexts may    *)
(*                              end                       (84 010 states)      *)
(*  ElicitURL_mc.cfg            thorough: the same with answers ok / err /     *)
(*                              urlreq and two spurious completions            *)
(*                                                        (847 147 states)     *)
(*  ElicitURL_one.cfg           thorough: one call, every kind of answer (ok   *)
(*                              err urlreq urlbad urlnourl), lists [] [x] [x,y]*)
(*                              [x,x], accept / decline / cancel / herr, with  *)
(*                              and without a handler, four spurious           *)
(*                              completions; run with -coverage 1              *)
(*                                                        (428 789 states)     *)
(*  ElicitURL_live_quick.cfg    quick: one call, Safety +                      *)
(*                              U5_CompletionReachesWaiter + U6_Returns under  *)
(*                              weak fairness             (2 266 states)       *)
(*  ElicitURL_live1.cfg         thorough: one call, everything, U6_Returns     *)
(*                                                        (186 790 states)     *)
(*  ElicitURL_distinct.cfg      thorough: two calls with DISJOINT ids: Safety, *)
(*                              U5_CompletionReachesWaiter, U6_Returns         *)
(*                                                        (62 155 states)      *)
(*  ElicitURL_lead_shared.cfg   (module ElicitURLGen) two calls naming the     *)
(*                              same id: U5_CompletionReachesWaiter must be    *)
(*                              VIOLATED (deviation E1); the environment steps *)
(*                              of the counterexample are printed and replayed *)
(*                              on the real client                             *)
(*  ElicitURL_lead_decline.cfg  the server owes nothing for a declined         *)
(*                              elicitation: U6_Returns must be VIOLATED (E2)  *)
(*  ElicitURL_cover1.cfg / ElicitURL_cover.cfg   the one-call and the two-call *)
(*                              (shared id) graphs handed to                   *)
(*                              tools/graphwalk.py; the check script derives   *)
(*                              the per-client-kind variants of cover1         *)
(*  ElicitURL_sim.cfg           (module ElicitURLGen) seeded simulation: three *)
(*                              calls, ids x y z, shared and repeated ids      *)
EXTENDS ElicitURL

ListsShared(c) == IF c = 1 THEN {<<"x">>, <<"x", "y">>} ELSE {<<"x">>}
ListsOne(c) == {<<>>, <<"x">>, <<"x", "y">>, <<"x", "x">>}
AllKinds(c) == {"ok", "err", "urlreq", "urlbad", "urlnourl"}
FewKinds(c) == IF c = 1 THEN {"ok", "err", "urlreq"} ELSE {"ok", "urlreq"}
QuickKinds(c) == IF c = 1 THEN {"ok", "urlreq"} ELSE {"urlreq"}
LiveKinds(c) == IF c = 1 THEN {"ok", "urlreq", "urlnourl"} ELSE {"urlreq"}
ListsLive(c) == IF c = 1 THEN {<<"x">>, <<"x", "y">>} ELSE {<<"z">>}
ListsCover(c) == {<<"x">>}
CoverKinds(c) == {"ok", "urlreq"}
ListsSim(c) == IF c = 1 THEN {<<>>, <<"x">>, <<"x", "y">>, <<"y", "z">>, <<"x", "x">>}
               ELSE IF c = 2 THEN {<<>>, <<"x">>, <<"z">>, <<"y", "x">>} ELSE {<<"z">>, <<"x">>, <<"z", "y">>}

\* Fingerprint for the safety runs: ghosts that no later action reads and no invariant compares after the call is done
MCView == <<implVars, first, asked, hres, got, used, seen, rets, nspur, owedSent>>
AllDone == \A c \in Calls : pc[c] = "done"
=============================================================================
