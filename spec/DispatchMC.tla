----------------------------- MODULE DispatchMC -----------------------------
(* X15: design-level checks of Dispatch.tla (exhaustive, small constants).    *)
(* Safety: the step-by-step execution with Add / registration interleaved     *)
(* between the gates of requests in flight yields exactly the documented      *)
(* functional composition over the chain snapshots (DocOutcome, HandlerSees), *)
(* the code-shaped chain equals the documented one (ChainIsDoc), no panic     *)
(* while re-registrations keep the params type (NoPanic; with RegTypes =      *)
(* {"A","B"} TLC must find the D-REREG counterexample: lead configuration).   *)
(* Liveness (FairSpec): every request issued returns, every notification is   *)
(* handled to the end.  Never* = reachability witnesses (must be violated).   *)
EXTENDS Dispatch

Legs == [ch : Seq(1..MaxMw), at : {"none", "pre", "h", "wait", "post", "done", "fin", "bottom"}, i : 0..MaxMw,
         pt : Seq(1..MaxMw), out : [ok : BOOLEAN, src : 0..(10 + MaxMw), tags : Seq(1..MaxMw), code : Int],
         ty : {"-", "A", "B"}, hid : 0..2]
TypeOK == /\ nmw \in 0..MaxMw /\ nreq \in 0..MaxReq /\ regS \in BOOLEAN /\ regR.h \in 0..2
          /\ \A r \in 1..MaxReq : req[r].k \in Kinds \cup {"-"} /\ req[r].par \in 0..MaxReq /\ req[r].done \in BOOLEAN
          /\ \A r \in 1..MaxReq : req[r].s.at # "bottom" /\ req[r].r.at # "bottom" /\ (IsCall(req[r].k) => req[r].r.at # "done")
          /\ \A p \in {"c", "s"} : \A j \in DOMAIN q[p] : q[p][j] \in 1..nreq

\* addMiddleware's loop builds the documented chain
ChainIsDoc == chain = doc
\* every id sits in exactly one chain, once
IdsOnce == \A m \in 1..nmw : Cardinality({<<x, j>> \in Keys \X (1..MaxMw) : j \in DOMAIN chain[x] /\ chain[x][j] = m}) = 1

HandlerBottom(x) == IF IsCall(x.k) THEN Ok(x.r.hid, <<>>) ELSE Ok(0, <<>>)
RecvOut(x) == IF x.k = "cc" /\ x.r.ty = "-" THEN Err(CodeNotFound) ELSE LegOut(beh, x.r.ch, 1, x.k, HandlerBottom(x))
DocOut(x) == IF x.s.ch = <<>> /\ x.s.at = "done" /\ x.res.code \in {CodeUnreg, CodeRefused} /\ x.r.at = "none" THEN x.res
             ELSE LegOut(beh, x.s.ch, 1, x.k, IF IsCall(x.k) THEN RecvOut(x) ELSE Ok(0, <<>>))
\* M3 at the caller: a finished request returned the functional composition over its two snapshots
DocOutcome == \A r \in 1..nreq : req[r].done => req[r].res = DocOut(req[r])
\* M3 at the handler: it sees the params rewrites of every layer of both legs
HandlerSees == \A r \in 1..nreq : req[r].r.at = "h" =>
                 req[r].r.pt = TagsAbove(beh, req[r].r.ch, Len(req[r].r.ch) + 1, TagsAbove(beh, req[r].s.ch, Len(req[r].s.ch) + 1, <<>>))
\* M2: a parked middleware is one of the layers the documented composition enters
ParkedIsEntered == \A r \in 1..nreq :
                     /\ req[r].s.at \in {"pre", "post"} => \E j \in DOMAIN Entered(beh, req[r].s.ch, 1) : Entered(beh, req[r].s.ch, 1)[j] = req[r].s.ch[req[r].s.i]
                     /\ req[r].r.at \in {"pre", "post"} => \E j \in DOMAIN Entered(beh, req[r].r.ch, 1) : Entered(beh, req[r].r.ch, 1)[j] = req[r].r.ch[req[r].r.i]
                     /\ req[r].r.at = "h" => Through(beh, req[r].r.ch) /\ Through(beh, req[r].s.ch)
\* D2: the handler serving a custom call is registered now or was replaced during the request's life
ServedByRegistered == \A r \in 1..nreq : (req[r].k = "cc" /\ req[r].r.at = "h") => req[r].r.hid \in 1..regR.h
NoPanic == \A r \in 1..nreq : req[r].res.code # CodePanic /\ req[r].s.out.code # CodePanic /\ req[r].r.out.code # CodePanic
\* a message is queued only behind a notification in progress
QueuedOnlyBehindNotification == \A p \in {"c", "s"} : q[p] # <<>> => Busy(World, p)
\* a handler with a nested call in progress stays at its gate
ParentWaits == \A c \in 1..nreq : (req[c].par # 0 /\ ~req[c].done) => req[req[c].par].r.at = "h"

\* L: everything issued returns / is handled to the end
Returns == \A r \in 1..MaxReq : (nreq >= r) ~> (req[r].done /\ req[r].r.at \notin Parked)

\* ---- witnesses (each must be VIOLATED: the situation is reachable)
NeverQueuedCall == ~\E p \in {"c", "s"} : \E j \in DOMAIN q[p] : IsCall(req[q[p][j]].k)
NeverStaleChain == ~\E r \in 1..nreq : req[r].s.at \in Parked /\ req[r].s.ch # chain[Key(Snd(req[r].k), "send")]
NeverNested == ~\E r \in 1..nreq : req[r].par # 0 /\ req[r].done
NeverShortSend == ~\E r \in 1..nreq : req[r].done /\ req[r].res.src > 10 /\ req[r].r.at = "none"
NeverShortRecv == ~\E r \in 1..nreq : req[r].done /\ req[r].res.src > 10 /\ req[r].r.at = "fin"
NeverNotFound == ~\E r \in 1..nreq : req[r].done /\ req[r].res.code = CodeNotFound
NeverSecondHandler == ~\E r \in 1..nreq : req[r].done /\ req[r].res.src = 2
NeverFailOverTag == ~\E r \in 1..nreq : req[r].done /\ req[r].res.code > 4000 /\ req[r].res.code < CodePanic
NeverTagged == ~\E r \in 1..nreq : req[r].done /\ Len(req[r].res.tags) >= 2
NeverRefused == ~\E r \in 1..nreq : req[r].done /\ req[r].res.code = CodeRefused
=============================================================================
