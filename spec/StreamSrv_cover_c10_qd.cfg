SPECIFICATION SeamSpec
CONSTANTS
  Sess = {"s1"}
  Reqs = {"r1","d1"}
  Gets = {}
  Cfgs <- CfgStoreMixed
  MaxEmit = 1
  MaxSreq = 0
  MaxSa = 0
  MaxBc = 0
  DupOf <- Dup1
  Gates = TRUE
VIEW MCView
CHECK_DEADLOCK FALSE
