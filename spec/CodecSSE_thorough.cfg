SPECIFICATION Spec
CONSTANTS
  Readers = {"spec", "code"}
  Size = "thorough"
INVARIANTS TypeOK SpecHolds SpecReports ChunkIndependent CodeLeads Export
