SPECIFICATION GSpec
CONSTANTS
  Sess = {"s1"}
  Reqs = {}
  Gets = {"g1","g2"}
  Cfgs <- CfgStoreNoPrime
  MaxEmit = 0
  MaxSreq = 0
  MaxSa = 2
  Gates = TRUE
VIEW MCView
INVARIANTS ResumeExact IdsDense IdStable StoreBeforeDeliver CompleteAtEnd CompleteAtRest FinalObtainable RefusedOnlyOnConflict ResponseOnOwnExchange NestedRouting NoCrossSession RoutingEntryLifecycle LockDiscipline SdkEnabledExact
CHECK_DEADLOCK FALSE
