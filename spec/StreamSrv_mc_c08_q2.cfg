SPECIFICATION GSpec
CONSTANTS
  Sess = {"s1"}
  Reqs = {}
  Gets = {"g1","g2"}
  Cfgs <- CfgStoreNoPrime
  MaxEmit = 0
  MaxSreq = 0
  MaxSa = 2
  MaxBc = 0
  DupOf <- NoDup
  Gates = TRUE
VIEW MCView
INVARIANTS ResumeExact IdsDense IdStable StoreBeforeDeliver CompleteAtEnd CompleteAtRest FinalObtainable RefusedOnlyOnConflict ResponseOnOwnExchange NestedRouting NoCrossSession RoutingEntryLifecycle LockDiscipline IdUnique SdkEnabledExact
CHECK_DEADLOCK FALSE
