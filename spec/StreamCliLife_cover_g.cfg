\* cover: the remaining answer classes
SPECIFICATION SettledSpec
CONSTANTS
  NC = 1
  SASet = {FALSE}
  OAuthSet = {FALSE}
  DelSet = {"ok"}
  PostSet = {"json", "badjson", "rpc404", "5xx", "neterr", "202"}
  GetSet = {"405"}
  InitH = {"", "A"}
  HSet = {""}
  MaxNotify = 1
  MaxSaEv = 0
  MaxAuth = 0
  MaxClose = 1
  AllowCancel = FALSE
  FixCancel = FALSE
  FixStream = FALSE
INVARIANTS TypeOK SessionHeader VersionHeader OnePostPerMessage Standalone PerMessage Usable GoneStops GoneNoDelete GoneFailsAll
  TerminalFailsPending DeleteOnce DeleteWhenLive CloseWaits StandaloneCancelled RetiredOnce
VIEW CoverView
CHECK_DEADLOCK FALSE
