------------------------------- MODULE Bearer -------------------------------
(* Case space, design-level check and case export for C14; the value classes, *)
(* Expected and Holds are in BearerDefs.                                      *)
(* The case space is a union of products: the CORE product (every dimension   *)
(* crossed with every other on its basic classes) and four SLICES that cross  *)
(* the finer classes of one dimension (time, header, scope lists, challenge)  *)
(* with the classes of the other dimensions the decision can interact with.   *)
EXTENDS BearerDefs

\* every dimension against every other, on the basic classes
Core ==
  { Rec(h, v, r, "exact", g, gf, e, s, a, u, o) :
      h \in HdrCore, v \in Verifiers, r \in Required, g \in Granted, gf \in {"exact", "dup"}, e \in ExpCore, s \in SkewCore,
      a \in BOOLEAN, u \in UrlCore, o \in {"nil", "set"} }
InCore(c) == /\ c.hdr \in HdrCore /\ c.rform = "exact" /\ c.gform \in {"exact", "dup"}
             /\ c.exp \in ExpCore /\ c.skew \in SkewCore /\ c.url \in UrlCore
\* all expiration classes x all skew classes, against what the expiry decision can interact with:
\* a refused header, a refusing verifier, missing scopes (403 and 401 both mandated), AllowMissingExpiration
TimeSlice ==
  { Rec(h, v, sc[1], "exact", sc[2], "exact", e, s, a, "none", "set") :
      h \in {"bearer", "upper", "basic"}, v \in {"ok", "invalid_info", "other"},
      sc \in {<<{}, {}>>, <<{"a"}, {"a", "b"}>>, <<{"a", "b"}, {"a"}>>}, e \in Exps, s \in Skews, a \in BOOLEAN }
\* the extra header shapes
HdrSlice ==
  { Rec(h, v, r, "exact", g, "exact", e, "0", a, u, o) :
      h \in HdrExtra, v \in {"ok", "invalid", "oauth", "other"}, r \in {{}, {"a", "b"}}, g \in {{"a"}, {"a", "b"}},
      e \in {"zero", "m1", "eq", "farfuture"}, a \in BOOLEAN, u \in UrlCore, o \in {"nil", "set"} }
\* the forms of the two scope lists
ScopeSlice ==
  { Rec("bearer", "ok", r, rf, g, gf, e, s, a, u, "set") :
      r \in Required, rf \in RForms, g \in Granted, gf \in GForms, e \in {"zero", "m1", "p1"}, s \in SkewCore,
      a \in BOOLEAN, u \in UrlCore }
\* the forms of the configured URL and of the required list, on requests that are challenged (and on some that are not)
ChalSlice ==
  { Rec(h, v, r, rf, g, "exact", e, "0", FALSE, u, "set") :
      h \in {"absent", "bearer"}, v \in {"ok", "invalid", "oauth"}, r \in Required, rf \in RForms, g \in {{}, {"a", "b"}},
      e \in {"m1", "p1"}, u \in UrlForms }

\* The parts are made disjoint (a case is run once): a slice keeps what no earlier part has.
V(S) == {c \in S : ValidCase(c)}
PCore == V(Core)
PTime == {c \in V(TimeSlice) : ~InCore(c)}
PHdr == V(HdrSlice)
PScope == {c \in V(ScopeSlice) : ~InCore(c)}
PChal == {c \in V(ChalSlice) : ~InCore(c) /\ ~(c.hdr = "bearer" /\ c.ver = "ok" /\ c.url \in UrlCore)}   \* the latter are in ScopeSlice
CaseParts == <<PCore, PTime, PHdr, PScope, PChal>>
NCases == Cardinality(PCore) + Cardinality(PTime) + Cardinality(PHdr) + Cardinality(PScope) + Cardinality(PChal)
\* nothing is lost and nothing is run twice
PartsOK == /\ \A c \in V(TimeSlice) \cup V(ScopeSlice) \cup V(ChalSlice) : InCore(c) => c \in PCore
           /\ \A c \in V(ChalSlice) : c \in PChal \/ c \in PCore \/ c \in PScope
           /\ \A i, j \in 2..5 : i < j => \A c \in CaseParts[j] : c \notin CaseParts[i]
           /\ \A i \in 2..5 : \A c \in CaseParts[i] : ~InCore(c)

DesignOK == \A i \in 1..5 : \A c \in CaseParts[i] : Holds(c, Expected(c))
\* vacuity witnesses
SomeAdmitted == \E c \in PCore : Admit(c)
SomeEach == \A st \in {400, 401, 403, 500} : \E c \in PCore : Expected(c).status = st
\* the table of the time dimension is not degenerate: each skew class both admits and refuses some expiration, and the
\* classes beyond the Duration range are admitted (ahead) / refused (ago) under every skew
TimeOK == /\ \A s \in Skews : /\ \E c \in TimeSlice : c.skew = s /\ Expired(c)
                              /\ \E c \in TimeSlice : c.skew = s /\ c.exp # "zero" /\ ~Expired(c)
          /\ \A c \in TimeSlice : /\ c.exp \in {"q5ahead", "agesahead"} => ~Expired(c)
                                  /\ c.exp \in {"q5ago", "agesago"} => Expired(c)
\* the unsettled header shapes are admitted by the code in some cases and refused in others
UnsettledBoth == /\ \E c \in PHdr : Unsettled(c.hdr) /\ Expected(c).ran
                 /\ \E c \in PHdr : Unsettled(c.hdr) /\ Rest(c) /\ ~Expected(c).ran

\* late: the class's verdict on "Expiration + skew before now"; the harness uses it ONLY to check that the representative it
\* drew lies in the class (exact integer arithmetic on the concrete values; a mismatch is a machinery error, not a verdict)
\* part: which part of the case space the case belongs to (the slices are run on more representatives than the core)
PartName == <<"core", "time", "hdr", "scope", "chal">>
CaseJson(c, p) == [part |-> p, hdr |-> c.hdr, ver |-> c.ver, req |-> SetToSeq(c.req), rform |-> c.rform, granted |-> SetToSeq(c.granted), gform |-> c.gform,
                exp |-> c.exp, skew |-> c.skew, allow |-> c.allow, url |-> c.url, opts |-> c.opts, late |-> Expired(c)]
PartSeq(i) == SetToSeq({CaseJson(c, PartName[i]) : c \in CaseParts[i]})
Export == ndJsonSerialize("cases.ndjson", PartSeq(1) \o PartSeq(2) \o PartSeq(3) \o PartSeq(4) \o PartSeq(5))

ASSUME PartsOK
ASSUME DesignOK
ASSUME SomeAdmitted /\ SomeEach /\ TimeOK /\ UnsettledBoth
ASSUME PrintT(ToJson([cases |-> NCases, core |-> Cardinality(PCore), time |-> Cardinality(PTime), hdr |-> Cardinality(PHdr),
                      scope |-> Cardinality(PScope), chal |-> Cardinality(PChal)]))
ASSUME Export
=============================================================================
