------------------------------- MODULE Bearer -------------------------------
(* Design-level check and case export for C14; definitions in BearerDefs.     *)
EXTENDS BearerDefs

DesignOK == \A c \in CaseSet : Holds(c, Expected(c))
\* vacuity witnesses
SomeAdmitted == \E c \in CaseSet : Admit(c)
SomeEach == \A st \in {400, 401, 403, 500} : \E c \in CaseSet : Expected(c).status = st

SetSeq(S) == SetToSeq(S)
CaseJson(c) == [hdr |-> c.hdr, ver |-> c.ver, req |-> SetSeq(c.req), granted |-> SetSeq(c.granted), dup |-> c.dup, exp |-> c.exp,
                skew |-> c.skew, allow |-> c.allow, url |-> c.url, opts |-> c.opts]
Export == ndJsonSerialize("cases.ndjson", SetSeq({CaseJson(c) : c \in CaseSet}))

ASSUME DesignOK
ASSUME SomeAdmitted /\ SomeEach
ASSUME PrintT(ToJson([cases |-> Cardinality(CaseSet)]))
ASSUME Export
=============================================================================
