------------------------------- MODULE Bearer -------------------------------
(* Case space, design-level check and case export for C14; the value classes, *)
(* Expected and Holds are in BearerDefs.                                      *)
(* The case space is a union of products: the CORE product (every dimension   *)
(* crossed with every other on its basic classes) and five SLICES that cross  *)
(* the finer classes of one dimension (time, header, scope lists, challenge,  *)
(* duration of the verifier call) with the classes of the other dimensions    *)
(* the decision can interact with.                                            *)
EXTENDS BearerDefs

\* every dimension against every other, on the basic classes
Core ==
  { Rec(h, v, r, "exact", g, gf, e, s, a, u, o) :
      h \in HdrCore, v \in Verifiers, r \in Required, g \in Granted, gf \in {"exact", "dup"}, e \in ExpCore, s \in SkewCore,
      a \in BOOLEAN, u \in UrlCore, o \in {"nil", "set"} }
InCore(c) == /\ c.hdr \in HdrCore /\ c.rform = "exact" /\ c.gform \in {"exact", "dup"}
             /\ c.exp \in ExpCore /\ c.skew \in SkewCore /\ c.url \in UrlCore /\ c.dur = "0"
\* all expiration classes x all skew classes, against what the expiry decision can interact with:
\* a refused header, a refusing verifier, missing scopes (403 and 401 both mandated), AllowMissingExpiration
TimeSlice ==
  { Rec(h, v, sc[1], "exact", sc[2], "exact", e, s, a, "none", "set") :
      h \in {"bearer", "upper", "basic"}, v \in {"ok", "invalid_info", "other"},
      sc \in {<<{}, {}>>, <<{"a"}, {"a", "b"}>>, <<{"a", "b"}, {"a"}>>}, e \in Exps, s \in Skews, a \in BOOLEAN }
\* the extra header shapes
HdrSlice ==
  { Rec(h, v, r, "exact", g, "exact", e, "0", a, u, o) :
      h \in HdrExtra, v \in {"ok", "invalid", "oauth", "other"}, r \in {{}, {"a", "b"}}, g \in {{"a"}, {"a", "b"}},
      e \in {"zero", "m1", "eq", "farfuture"}, a \in BOOLEAN, u \in UrlCore, o \in {"nil", "set"} }
\* the forms of the two scope lists
ScopeSlice ==
  { Rec("bearer", "ok", r, rf, g, gf, e, s, a, u, "set") :
      r \in Required, rf \in RForms, g \in Granted, gf \in GForms, e \in {"zero", "m1", "p1"}, s \in SkewCore,
      a \in BOOLEAN, u \in UrlCore }
\* the forms of the configured URL and of the required list, on requests that are challenged (and on some that are not)
ChalSlice ==
  { Rec(h, v, r, rf, g, "exact", e, "0", FALSE, u, "set") :
      h \in {"absent", "bearer"}, v \in {"ok", "invalid", "oauth"}, r \in Required, rf \in RForms, g \in {{}, {"a", "b"}},
      e \in {"m1", "p1"}, u \in UrlForms }
\* time passes during verification: the verifier takes a duration d > 0 (seconds; the remaining life of the token -1 ns,
\* exactly, +1 ns; the life plus seconds), so that a presentation has two instants, arrival and decision.  Against a token
\* that is expired on arrival by 1 ns / by hours, at the boundary, has 1 ns / hours left or has no expiration; without
\* skew, with a positive and with a negative one; in five contexts: admitted if unexpired (no scopes; scopes granted,
\* another spelling of the scheme), a scope missing (403 and possibly 401), a verifier that fails after it took its time,
\* a header that is refused before the verifier is called (no time passes).
DurCtx == {<<"bearer", "ok", {}, {}>>, <<"upper", "ok", {"a"}, {"a", "b"}>>, <<"bearer", "ok", {"a", "b"}, {"a"}>>,
           <<"bearer", "other_info", {}, {}>>, <<"basic", "ok", {}, {}>>}
DurSlice ==
  { RecD(x[1], x[2], x[3], "exact", x[4], "exact", e, s, a, "none", "set", d) :
      x \in DurCtx, e \in ExpCore, s \in {"0", "s", "negs"}, a \in BOOLEAN, d \in Durs \ {"0"} }

\* The parts are made disjoint (a case is run once): a slice keeps what no earlier part has.
V(S) == {c \in S : ValidCase(c)}
PCore == V(Core)
PTime == {c \in V(TimeSlice) : ~InCore(c)}
PHdr == V(HdrSlice)
PScope == {c \in V(ScopeSlice) : ~InCore(c)}
PChal == {c \in V(ChalSlice) : ~InCore(c) /\ ~(c.hdr = "bearer" /\ c.ver = "ok" /\ c.url \in UrlCore)}   \* the latter are in ScopeSlice
PDur == V(DurSlice)    \* d > 0: in no other part
NParts == 6
CaseParts == <<PCore, PTime, PHdr, PScope, PChal, PDur>>
NCases == Cardinality(PCore) + Cardinality(PTime) + Cardinality(PHdr) + Cardinality(PScope) + Cardinality(PChal) + Cardinality(PDur)
\* nothing is lost and nothing is run twice
PartsOK == /\ \A c \in V(TimeSlice) \cup V(ScopeSlice) \cup V(ChalSlice) : InCore(c) => c \in PCore
           /\ \A c \in V(ChalSlice) : c \in PChal \/ c \in PCore \/ c \in PScope
           /\ \A i, j \in 2..NParts : i < j => \A c \in CaseParts[j] : c \notin CaseParts[i]
           /\ \A i \in 2..NParts : \A c \in CaseParts[i] : ~InCore(c)
           /\ \A i \in 1..5 : \A c \in CaseParts[i] : c.dur = "0"

\* Both presentations of every case: the first arrives at 0, the second when the first has been answered.  With an
\* instantaneous verifier every instant of the case is the same one (Frozen), Holds reads its instants only through
\* Inst, and the second presentation is the first again: it is evaluated on the duration slice only.
Frozen == \A k \in 0..3 : Inst([dur |-> "0"], k) = Zero
DesignOK == /\ \A i \in 1..NParts : \A c \in CaseParts[i] : Holds(c, ExpectedAt(c, 0))
            /\ \A c \in PDur : Holds(c, ExpectedAt(c, Arr2(c)))
\* vacuity witnesses
SomeAdmitted == \E c \in PCore : Admit(c)
SomeEach == \A st \in {400, 401, 403, 500} : \E c \in PCore : Expected(c).status = st
\* the table of the time dimension is not degenerate: each skew class both admits and refuses some expiration, and the
\* classes beyond the Duration range are admitted (ahead) / refused (ago) under every skew
TimeOK == /\ \A s \in Skews : /\ \E c \in TimeSlice : c.skew = s /\ Expired(c)
                              /\ \E c \in TimeSlice : c.skew = s /\ c.exp # "zero" /\ ~Expired(c)
          /\ \A c \in TimeSlice : /\ c.exp \in {"q5ahead", "agesahead"} => ~Expired(c)
                                  /\ c.exp \in {"q5ago", "agesago"} => Expired(c)
\* the unsettled header shapes are admitted by the code in some cases and refused in others
UnsettledBoth == /\ \E c \in PHdr : Unsettled(c.hdr) /\ Expected(c).ran
                 /\ \E c \in PHdr : Unsettled(c.hdr) /\ Rest(c) /\ ~Expected(c).ran
\* The duration slice is not degenerate.
\*   Monotone      time does not run backwards: a token expired at an instant is expired at every later one (so the window
\*                 that BearerDefs!Holds leaves open between its two halves is empty here)
\*   DurRegions    the slice has tokens that are unexpired at arrival AND at the decision (admitted), that run out while
\*                 the verifier is at work (unexpired at t0, expired at t1: refused), that are expired on arrival; the
\*                 boundary classes fall on the two sides (1 ns left / at the boundary: in; 1 ns beyond: out); some case
\*                 is admitted at the first presentation and refused at the second
\*   EarlyClockRefuted   a middleware that reads the clock once on arrival, before it calls the verifier, does NOT satisfy
\*                 Holds: on a token that runs out in flight it enters the handler at t1 with a token expired beyond the
\*                 skew (the ONLY-IF half), and on nothing else does it differ
Monotone == \A c \in PDur : \A k \in 0..2 : ExpiredAt(c, k) => ExpiredAt(c, k + 1)
InFlight(c) == AdmitAt(c, 0) /\ ~UnexpiredAt(c, 1)
DurRegions == /\ \E c \in PDur : AdmitAt(c, 0) /\ AdmitAt(c, 1) /\ ExpectedAt(c, 0).ran
              /\ \A d \in {"secs", "Lp1", "long"}, s \in {"0", "s", "negs"} :
                    \E c \in PDur : c.dur = d /\ c.skew = s /\ InFlight(c) /\ ~ExpectedAt(c, 0).ran
              /\ \E c \in PDur : ExpiredAt(c, 0) /\ c.ver = "ok"
              /\ \A c \in PDur : /\ c.dur \in {"Lm1", "L"} => ~ExpiredAt(c, 1)
                                 /\ c.dur \in {"Lp1", "long"} => ExpiredAt(c, 1)
              /\ \E c \in PDur : ExpectedAt(c, 0).ran /\ ~ExpectedAt(c, 1).ran
              /\ \E c \in PDur : ExpectedAt(c, 0).ran /\ ExpectedAt(c, 1).ran
EarlyClockRefuted == /\ \E c \in PDur : InFlight(c) /\ ~Holds(c, ExpectedEarly(c, 0))
                     /\ \A c \in PDur : \A arr \in {0, Arr2(c)} :
                           Holds(c, ExpectedEarly(c, arr)) <=> ~(AdmitAt(c, arr) /\ ~UnexpiredAt(c, arr + 1))

\* late: the class's verdict on "Expiration + skew before now"; the harness uses it ONLY to check that the representative it
\* drew lies in the class (exact integer arithmetic on the concrete values; a mismatch is a machinery error, not a verdict)
\* part: which part of the case space the case belongs to (the slices are run on more representatives than the core)
\* lateK: the same at the instants 0, d, 2d, 3d (d: the duration of a verifier call)
PartName == <<"core", "time", "hdr", "scope", "chal", "dur">>
CaseJson(c, p) == [part |-> p, hdr |-> c.hdr, ver |-> c.ver, req |-> SetToSeq(c.req), rform |-> c.rform, granted |-> SetToSeq(c.granted), gform |-> c.gform,
                exp |-> c.exp, skew |-> c.skew, allow |-> c.allow, url |-> c.url, opts |-> c.opts, dur |-> c.dur, late |-> Expired(c),
                lateK |-> [k \in 1..4 |-> ExpiredAt(c, k - 1)]]
PartSeq(i) == SetToSeq({CaseJson(c, PartName[i]) : c \in CaseParts[i]})
Export == ndJsonSerialize("cases.ndjson", PartSeq(1) \o PartSeq(2) \o PartSeq(3) \o PartSeq(4) \o PartSeq(5) \o PartSeq(6))

ASSUME PartsOK
ASSUME Frozen
ASSUME DesignOK
ASSUME SomeAdmitted /\ SomeEach /\ TimeOK /\ UnsettledBoth
ASSUME Monotone /\ DurRegions /\ EarlyClockRefuted
ASSUME PrintT(ToJson([cases |-> NCases, core |-> Cardinality(PCore), time |-> Cardinality(PTime), hdr |-> Cardinality(PHdr),
                      scope |-> Cardinality(PScope), chal |-> Cardinality(PChal), dur |-> Cardinality(PDur)]))
ASSUME Export
=============================================================================
