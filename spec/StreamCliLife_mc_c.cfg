\* exhaustive: session ids
SPECIFICATION Spec
CONSTANTS
  NC = 2
  SASet = {FALSE}
  OAuthSet = {FALSE}
  DelSet = {"404"}
  PostSet = {"json", "sse", "202"}
  GetSet = {"405"}
  InitH = {"", "A"}
  HSet = {"", "A", "B"}
  MaxNotify = 0
  MaxSaEv = 0
  MaxAuth = 0
  MaxClose = 1
  AllowCancel = FALSE
  FixCancel = FALSE
  FixStream = FALSE
INVARIANTS TypeOK SessionHeader VersionHeader OnePostPerMessage Standalone PerMessage Usable GoneStops GoneNoDelete GoneFailsAll
  TerminalFailsPending DeleteOnce DeleteWhenLive CloseWaits StandaloneCancelled RetiredOnce
CHECK_DEADLOCK FALSE
