\* D5 as implemented: must violate ConnectHonoursContext
SPECIFICATION SettledSpec
CONSTANTS
  NC = 1
  SASet = {TRUE}
  OAuthSet = {FALSE}
  DelSet = {"ok"}
  PostSet = {"json"}
  GetSet = {"sse", "405"}
  InitH = {"A"}
  HSet = {""}
  MaxNotify = 0
  MaxSaEv = 0
  MaxAuth = 0
  MaxClose = 1
  AllowCancel = TRUE
  FixCancel = FALSE
  FixStream = FALSE
INVARIANTS ConnectHonoursContext
CHECK_DEADLOCK FALSE
