\* D5 as implemented: must violate ConnectHonoursContext
SPECIFICATION SettledSpec
CONSTANTS
  NC = 3
  Profiles <- ProfLeadCancel
  FixCancel = FALSE
  FixStream = FALSE
INVARIANTS ConnectHonoursContext
CHECK_DEADLOCK FALSE
