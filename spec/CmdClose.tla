------------------------------ MODULE CmdClose ------------------------------
(* X04 (extension) - the stdio client transport's shutdown protocol.           *)
(*                                                                             *)
(* Code: /repo/mcp/cmd.go (CommandTransport.Connect, pipeRWC.Close),           *)
(* /repo/mcp/transport.go (ioConn.Close: sync.Once around rwc.Close),          *)
(* /repo/mcp/client.go (ClientSession.Close -> jsonrpc2.Connection.Close ->    *)
(* closer.Close), and on the server side StdioTransport / Server.Run ("Run     *)
(* blocks until the client terminates the connection").                        *)
(*                                                                             *)
(* Sources of the statements: the MCP specification text quoted in cmd.go      *)
(*   "For the stdio transport, the client SHOULD initiate shutdown by: first,  *)
(*    closing the input stream to the child process (the server); waiting for  *)
(*    the server to exit, or sending SIGTERM if the server does not exit       *)
(*    within a reasonable time; sending SIGKILL if the server does not exit    *)
(*    within a reasonable time after SIGTERM",                                 *)
(* the doc comments "TerminateDuration controls how long Close waits after     *)
(* closing stdin for the process to exit before sending SIGTERM", "Close       *)
(* closes the input stream to the child process, and awaits normal termination *)
(* of the command.  If the command does not exit, it is signalled to           *)
(* terminate, and then eventually killed", ClientSession.Close "is idempotent  *)
(* and concurrency safe", Server.Run "blocks until the client terminates the   *)
(* connection".  td = TerminateDuration.                                       *)
(*                                                                             *)
(* PROPERTIES                                                                  *)
(*  P1 ESCALATION ORDER.  For every child and every Close: SIGTERM is sent     *)
(*     only after the child has failed to exit for at least td since its stdin *)
(*     was closed; SIGKILL is sent only after SIGTERM and only after the child *)
(*     has failed to exit for at least a further td; a child that exits within *)
(*     td of the stdin close (or had exited before Close) is never signalled,  *)
(*     and one that exits within td of SIGTERM is never killed.                *)
(*  P2 BOUNDED.  Every Close returns, within 3 td (plus scheduling slack),     *)
(*     whatever the child does; it returns as soon as the child has exited;    *)
(*     it never reports "unresponsive subprocess" for a child that SIGKILL     *)
(*     terminates.                                                             *)
(*  P3 REAPED AND FAITHFUL.  When Close returns (other than "unresponsive")    *)
(*     the child process no longer exists - it has been waited for: no zombie, *)
(*     no orphan - and the value returned is the child's wait status: nil iff  *)
(*     it exited with status 0, an *exec.ExitError otherwise.                  *)
(*  P4 SECOND CLOSE.  A second Close (sequential or concurrent), and a Close   *)
(*     of a child that had already exited or crashed, returns without panic,   *)
(*     promptly, sends no signal (no pid is signalled after it was reaped),    *)
(*     and at the Connection / ClientSession level returns what the first      *)
(*     Close returned.  (That a waited-for pid is never signalled is the work  *)
(*     of os.Process - pidfd / done flag; in the model SendTerm and SendKill   *)
(*     deliver nothing once child = "gone" - and is trusted, not observed.)    *)
(*  P5 SESSION.  ClientSession.Close over a CommandTransport returns, and a    *)
(*     child that is an mcp.Server running over StdioTransport sees its Run    *)
(*     return on the stdin close and exits with status 0 without needing any   *)
(*     signal.                                                                 *)
(*                                                                             *)
(* DEVIATIONS of the code from the idealised design (modelled, named):         *)
(*  D1 (P3) select between the wait result and the timer is not re-checked:    *)
(*     when the child exits at the instant a timer fires, the closer goes on   *)
(*     to Process.Signal / Process.Kill, which refuse a reaped process         *)
(*     (os.ErrProcessDone); a refused SIGTERM skips to Kill, a refused Kill    *)
(*     is RETURNED: Close answers "os: process already finished" although the  *)
(*     child was waited for and its status (possibly 0) sits unread in the     *)
(*     result channel.  FaithfulIdeal fails on the code-shaped model           *)
(*     (CmdClose_lead.cfg); Faithful (restricted to err in {nil, exit}) holds. *)
(*  D2 (P4) at the pipeRWC level a second Close returns "closing stdin: ...     *)
(*     file already closed" (os.File refuses) - never reached through the      *)
(*     public API because ioConn.Close is a sync.Once that repeats the first   *)
(*     result.  Modelled by c2 = "rwc".                                        *)
(*  D3 a single-threaded child that is blocked writing to a full stdout pipe   *)
(*     (the parent stops reading once Close runs) never sees the EOF: it needs *)
(*     SIGTERM whatever it would do on EOF (EofEff).  Not a deviation of the   *)
(*     closer; modelled because the environment class changes the outcome.     *)
(*                                                                             *)
(* MODEL.  An explicit clock `now` in ticks of td/TD (TD = 8).  The closer is  *)
(* pipeRWC.Close, one action per step of the code: CloseStdin (stdin.Close,    *)
(* start the cmd.Wait goroutine, arm the first timer), Recv (select takes the  *)
(* wait result), Timeout (select takes the timer), SendTerm, SendKill, and the *)
(* Wait goroutine in two steps: Reap (wait4 returns: the zombie disappears and *)
(* os.Process is marked done) and Deliver (the status is sent on resChan).     *)
(* Timers fire at their deadline or up to Slack ticks later.  The CHILD is     *)
(* chosen by the environment (cls): what it does on EOF (exit now / after      *)
(* td/8 / exactly at td / at 3td/2 / never), on SIGTERM (default action /     *)
(* handler exits after td/8 / exactly td / 3td/2 / ignores), whether it   *)
(* had exited / crashed / been killed before Close, the state of its stdout    *)
(* (quiet / unread output / blocked on a full pipe / closed), its kind (raw    *)
(* single-threaded process / mcp.Server + behaviour after Run returns / pure   *)
(* mcp.Server), and how Close is repeated (c2).  SIGKILL always terminates.    *)
(* All actions other than Tick take no time and are urgent (Tick is enabled    *)
(* only when nothing else is due), so the only nondeterminism is the order of  *)
(* actions that are due at the same tick - exactly the races of the code.      *)
EXTENDS Integers, Sequences, FiniteSets, TLC

\* (the `@type` / `@typeAlias` comments are annotations for Apalache, see IndInv at the end of this module; TLC ignores them)
\* @typeAlias: cls = {kind: Str, eof: Str, term: Str, out: Str, pre: Str, c2: Str};
CmdClose_aliases == TRUE
CONSTANTS
          \* @type: Int;
          TD,       \* ticks per TerminateDuration (a multiple of 8)
          \* @type: Int;
          Slack,    \* a timer may fire up to Slack ticks late (0 or 1)
          \* @type: Set($cls);
          Classes   \* set of child classes explored (CmdCloseMC!AllClasses or a subset)

NoT == -1
Short == TD \div 8
Long == (3 * TD) \div 2
MaxT == 3 * (TD + Slack) + 2
Waits == {"wait1", "wait2", "wait3"}

VARIABLES
          \* @type: $cls;
          cls,       \* the child class (chosen in Init, never changes)
          \* @type: Int;
          now,       \* clock
          \* @type: Str;
          pc,        \* closer: idle wait1 term wait2 kill wait3 ret done
          \* @type: Int;
          deadline,  \* the armed timer of the current wait
          \* @type: Str;
          waiter,    \* the cmd.Wait goroutine: none waiting reaped done
          \* @type: Str;
          res,       \* resChan: "empty" or the wait status
          \* @type: Str;
          child,     \* run | zombie (exited, not waited for) | gone (waited for)
          \* @type: Str;
          status,    \* wait status: none exit0 exit3 exit7 sigterm sigkill
          \* @type: Str -> Int;
          due,       \* [eof, term, kill] -> tick at which the child exits for that cause (NoT: never)
          \* history: ticks (NoT = did not happen)
          \* @type: Int;
          closeAt,
          \* @type: Int;
          termAt,
          \* @type: Int;
          killAt,
          \* @type: Int;
          exitAt,
          \* @type: Int;
          retAt,
          \* @type: Str;
          err,       \* what Close returned: none nil exit done unresponsive
          \* @type: Str;
          err2,      \* what the second Close returned: none nil exit done stdin unresponsive
          \* @type: Seq(Str);
          hist       \* what the child itself can record: eof, term, xeof, xterm
vars == <<cls, now, pc, deadline, waiter, res, child, status, due, closeAt, termAt, killAt, exitAt, retAt, err, err2, hist>>

\* @type: $cls => Str;
EofEff(c) == IF c.kind = "raw" /\ c.out = "full" THEN "never" ELSE c.eof     \* D3
Delay(r) == CASE r \in {"now", "default"} -> 0 [] r = "short" -> Short [] r = "attd" -> TD [] r = "long" -> Long
PreStatus(p) == CASE p = "exit0" -> "exit0" [] p = "crash" -> "exit3" [] p = "sigkill" -> "sigkill" [] OTHER -> "none"
ErrOf(st) == IF st = "exit0" THEN "nil" ELSE "exit"
\* @type: $cls => Bool;
SeesEof(c) == ~(c.kind = "raw" /\ c.out = "full")

Init == /\ cls \in Classes
        /\ now = 0 /\ pc = "idle" /\ deadline = NoT /\ waiter = "none" /\ res = "empty"
        /\ child = IF cls.pre = "running" THEN "run" ELSE "zombie"
        /\ status = PreStatus(cls.pre)
        /\ due = [c \in {"eof", "term", "kill"} |-> NoT]   \* = [eof |-> NoT, term |-> NoT, kill |-> NoT], typed as a function (due[c])
        /\ closeAt = NoT /\ termAt = NoT /\ killAt = NoT /\ retAt = NoT
        /\ exitAt = IF cls.pre = "running" THEN NoT ELSE 0
        /\ err = "none" /\ err2 = "none" /\ hist = <<>>

\* ---- the closer (pipeRWC.Close)
CloseStdin ==
  /\ pc = "idle"
  /\ pc' = "wait1" /\ closeAt' = now /\ deadline' = now + TD /\ waiter' = "waiting"
  /\ due' = IF child = "run" /\ EofEff(cls) # "never" THEN [due EXCEPT !.eof = now + Delay(EofEff(cls))] ELSE due
  /\ hist' = IF child = "run" /\ SeesEof(cls) THEN Append(hist, "eof") ELSE hist
  /\ UNCHANGED <<cls, now, res, child, status, termAt, killAt, exitAt, retAt, err, err2>>

Recv ==
  /\ pc \in Waits /\ res # "empty"
  /\ pc' = "ret" /\ err' = ErrOf(res) /\ retAt' = now
  /\ UNCHANGED <<cls, now, deadline, waiter, res, child, status, due, closeAt, termAt, killAt, exitAt, err2, hist>>

Timeout ==
  /\ pc \in Waits /\ now >= deadline
  /\ IF pc = "wait3" THEN pc' = "ret" /\ err' = "unresponsive" /\ retAt' = now
     ELSE pc' = (IF pc = "wait1" THEN "term" ELSE "kill") /\ UNCHANGED <<err, retAt>>
  /\ UNCHANGED <<cls, now, deadline, waiter, res, child, status, due, closeAt, termAt, killAt, exitAt, err2, hist>>

\* Process.Signal(SIGTERM): refused (os.ErrProcessDone) once the process was waited for -> straight on to Kill
SendTerm ==
  /\ pc = "term"
  /\ IF child = "gone"
     THEN pc' = "kill" /\ UNCHANGED <<deadline, termAt, due, hist>>
     ELSE /\ pc' = "wait2" /\ deadline' = now + TD /\ termAt' = now
          /\ due' = IF child = "run" /\ cls.term # "ignore" THEN [due EXCEPT !.term = now + Delay(cls.term)] ELSE due
          /\ hist' = IF child = "run" /\ cls.term # "default" THEN Append(hist, "term") ELSE hist
  /\ UNCHANGED <<cls, now, waiter, res, child, status, closeAt, killAt, exitAt, retAt, err, err2>>

\* Process.Kill: refused once the process was waited for, and the refusal is what Close returns (D1)
SendKill ==
  /\ pc = "kill"
  /\ IF child = "gone"
     THEN pc' = "ret" /\ err' = "done" /\ retAt' = now /\ UNCHANGED <<deadline, killAt, due>>
     ELSE /\ pc' = "wait3" /\ deadline' = now + TD /\ killAt' = now
          /\ due' = IF child = "run" THEN [due EXCEPT !.kill = now] ELSE due
          /\ UNCHANGED <<err, retAt>>
  /\ UNCHANGED <<cls, now, waiter, res, child, status, closeAt, termAt, exitAt, err2, hist>>

\* the repeated Close: through ioConn / ClientSession the sync.Once repeats the first result; directly on
\* the pipeRWC the closed stdin is refused before anything else happens (D2).  No signal either way.
Close2 ==
  /\ pc = "ret"
  /\ pc' = "done"
  /\ err2' = CASE cls.c2 = "none" -> "none" [] cls.c2 = "rwc" -> "stdin" [] OTHER -> err
  /\ UNCHANGED <<cls, now, deadline, waiter, res, child, status, due, closeAt, termAt, killAt, exitAt, retAt, err, hist>>

\* ---- the cmd.Wait goroutine
Reap ==
  /\ waiter = "waiting" /\ child = "zombie"
  /\ waiter' = "reaped" /\ child' = "gone"
  /\ UNCHANGED <<cls, now, pc, deadline, res, status, due, closeAt, termAt, killAt, exitAt, retAt, err, err2, hist>>

Deliver ==
  /\ waiter = "reaped"
  /\ waiter' = "done" /\ res' = status
  /\ UNCHANGED <<cls, now, pc, deadline, child, status, due, closeAt, termAt, killAt, exitAt, retAt, err, err2, hist>>

\* ---- the child
Due(c) == due[c] # NoT /\ now >= due[c]
ChildExit(c) ==
  /\ child = "run" /\ Due(c)
  /\ child' = "zombie" /\ exitAt' = now
  /\ status' = CASE c = "eof" -> "exit0"
                 [] c = "term" -> (IF cls.term = "default" THEN "sigterm" ELSE "exit7")
                 [] c = "kill" -> "sigkill"
  /\ hist' = CASE c = "eof" -> Append(hist, "xeof")
               [] c = "term" /\ cls.term # "default" -> Append(hist, "xterm")
               [] OTHER -> hist
  /\ UNCHANGED <<cls, now, pc, deadline, waiter, res, due, closeAt, termAt, killAt, retAt, err, err2>>

\* ---- time
Urgent == \/ pc \in {"idle", "term", "kill", "ret"}
          \/ (pc \in Waits /\ (res # "empty" \/ now >= deadline + Slack))
          \/ (waiter = "waiting" /\ child = "zombie") \/ waiter = "reaped"
          \/ (child = "run" /\ \E c \in {"eof", "term", "kill"} : Due(c))
Tick == /\ ~Urgent /\ pc # "done" /\ now < MaxT
        /\ now' = now + 1
        /\ UNCHANGED <<cls, pc, deadline, waiter, res, child, status, due, closeAt, termAt, killAt, exitAt, retAt, err, err2, hist>>

Next == CloseStdin \/ Recv \/ Timeout \/ SendTerm \/ SendKill \/ Close2 \/ Reap \/ Deliver
        \/ (\E c \in {"eof", "term", "kill"} : ChildExit(c)) \/ Tick

Spec == Init /\ [][Next]_vars
FairSpec == Spec /\ WF_vars(Next)

\* ---- what an observer outside sees when everything is over
Outcome == [err |-> err, st |-> status, hist |-> hist, err2 |-> err2]
Returned == pc \in {"ret", "done"}

\* ---- invariants (P1..P4 on the model)
TypeOK ==
  /\ pc \in {"idle", "wait1", "term", "wait2", "kill", "wait3", "ret", "done"}
  /\ waiter \in {"none", "waiting", "reaped", "done"} /\ child \in {"run", "zombie", "gone"}
  /\ status \in {"none", "exit0", "exit3", "exit7", "sigterm", "sigkill"} /\ res \in {"empty", "exit0", "exit3", "exit7", "sigterm", "sigkill"}
  /\ err \in {"none", "nil", "exit", "done", "unresponsive"} /\ err2 \in {"none", "nil", "exit", "done", "stdin", "unresponsive"}
  /\ now \in 0..MaxT

\* P1
TermNotEarly == termAt # NoT => termAt >= closeAt + TD
KillAfterTerm == killAt # NoT => (termAt # NoT /\ killAt >= termAt + TD)
NoNeedlessTerm == (exitAt # NoT /\ closeAt # NoT /\ exitAt < closeAt + TD) => (termAt = NoT /\ killAt = NoT)
NoNeedlessKill == (exitAt # NoT /\ termAt # NoT /\ exitAt < termAt + TD) => killAt = NoT
\* P2
Bounded == Returned => retAt - closeAt <= 3 * (TD + Slack)
Responsive == err # "unresponsive"
ReturnsAtExit == (Returned /\ exitAt # NoT) => retAt <= (IF exitAt > closeAt THEN exitAt ELSE closeAt) + Slack
\* P3
Reaped == (Returned /\ err \in {"nil", "exit", "done"}) => child = "gone"
Faithful == (Returned /\ err \in {"nil", "exit"}) => (err = "nil" <=> status = "exit0")
FaithfulIdeal == Returned => (err \in {"nil", "exit"} /\ (err = "nil" <=> status = "exit0"))     \* fails: D1
\* P4
SecondCloseSame == (pc = "done" /\ cls.c2 \in {"same", "conc"}) => err2 = err
PreExitedUnsignalled == cls.pre # "running" => (termAt = NoT /\ killAt = NoT /\ (Returned => err = ErrOf(PreStatus(cls.pre))))
\* P5 (model level): the pure server is the class eof = now, term = default
PureClean == (cls.kind = "pure" /\ Returned) => (err = "nil" /\ status = "exit0" /\ termAt = NoT /\ retAt = closeAt)

\* closed form for the classes without a boundary reaction (exactly one outcome each)
\* @type: $cls => Bool;
Boundary(c) == c.pre = "running" /\ (EofEff(c) = "attd" \/ (EofEff(c) = "never" /\ c.term = "attd"))
\* @type: $cls => {err: Str, st: Str, hist: Seq(Str)};
Exp(c) ==
  LET e == EofEff(c)
      E == IF SeesEof(c) THEN <<"eof">> ELSE <<>>
      T == IF c.term = "default" THEN <<>> ELSE <<"term">>
  IN CASE c.pre # "running" -> [err |-> ErrOf(PreStatus(c.pre)), st |-> PreStatus(c.pre), hist |-> <<>>]
       [] c.pre = "running" /\ e \in {"now", "short"} -> [err |-> "nil", st |-> "exit0", hist |-> E \o <<"xeof">>]
       [] c.pre = "running" /\ e = "long" /\ c.term = "default" -> [err |-> "exit", st |-> "sigterm", hist |-> E]
       [] c.pre = "running" /\ e = "long" /\ c.term = "short" -> [err |-> "exit", st |-> "exit7", hist |-> E \o <<"term", "xterm">>]
       [] c.pre = "running" /\ e = "long" /\ c.term \in {"attd", "long", "ignore"} -> [err |-> "nil", st |-> "exit0", hist |-> E \o <<"term", "xeof">>]
       [] c.pre = "running" /\ e = "never" /\ c.term = "default" -> [err |-> "exit", st |-> "sigterm", hist |-> E]
       [] c.pre = "running" /\ e = "never" /\ c.term = "short" -> [err |-> "exit", st |-> "exit7", hist |-> E \o <<"term", "xterm">>]
       [] c.pre = "running" /\ e = "never" /\ c.term \in {"long", "ignore"} -> [err |-> "exit", st |-> "sigkill", hist |-> E \o T]
Determined == (pc = "done" /\ ~Boundary(cls)) =>
                 (err = Exp(cls).err /\ status = Exp(cls).st /\ hist = Exp(cls).hist)

\* liveness (P2): every Close returns, and a repeated Close too
Terminates == <>(pc = "done")

\* ---- inductive invariant (discharged by Apalache through CmdCloseInd.tla: Init => IndInv and IndInv /\ Next => IndInv',
\* hence unbounded in the length of the behaviour AND in TD: CmdCloseInd!CInit leaves TD open).  It contains every
\* invariant of CmdClose_mc*.cfg literally.
Running == cls.pre = "running"
IsTime(t) == t = NoT \/ (t >= 0 /\ t <= MaxT)      \* (inequalities, not a set: TD is not fixed)
Causes == {"eof", "term", "kill"}
\* the child's own record: eof?, then term?, then the exit it could see (which the wait status tells)
HistShape ==
  \E t \in {<<>>, <<"term">>} :
     /\ hist = (IF pc # "idle" /\ Running /\ SeesEof(cls) THEN <<"eof">> ELSE <<>>) \o t
               \o (IF Running /\ status = "exit0" THEN <<"xeof">> ELSE IF status = "exit7" THEN <<"xterm">> ELSE <<>>)
     /\ (t # <<>> => termAt # NoT /\ cls.term # "default")
     \* a child that is still running was running when SIGTERM was sent
     /\ (child = "run" /\ termAt # NoT /\ cls.term # "default") => t # <<>>
IndTypeOK ==
  /\ TypeOK /\ cls \in Classes
  /\ IsTime(deadline) /\ IsTime(termAt) /\ IsTime(killAt) /\ IsTime(exitAt) /\ IsTime(retAt)
  /\ closeAt \in {NoT, 0}
  /\ DOMAIN due = Causes /\ \A c \in Causes : IsTime(due[c])
  /\ HistShape
\* before Close: the initial state
IndIdle ==
  pc = "idle" =>
     /\ now = 0 /\ deadline = NoT /\ waiter = "none" /\ res = "empty"
     /\ child = (IF Running THEN "run" ELSE "zombie") /\ status = PreStatus(cls.pre)
     /\ \A c \in Causes : due[c] = NoT
     /\ closeAt = NoT /\ termAt = NoT /\ killAt = NoT /\ retAt = NoT
     /\ exitAt = (IF Running THEN NoT ELSE 0)
\* the child, the cmd.Wait goroutine and the result channel
IndChild ==
  /\ pc # "idle" => closeAt = 0 /\ waiter # "none"
  /\ (child = "gone") = (waiter \in {"reaped", "done"})
  /\ (res # "empty") = (waiter = "done")
  /\ res # "empty" => res = status
  /\ (child = "run") = (exitAt = NoT)
  /\ (child = "run") = (status = "none")
  /\ child = "run" => Running
  \* once the child has exited every step is urgent: the clock stands still until Close (and its repetition) has returned
  /\ child # "run" => now = exitAt
  \* the child exits as soon as an exit is due (and then the clock stands still)
  /\ \A c \in Causes : due[c] # NoT => now <= due[c]
  /\ due["eof"] = (IF pc # "idle" /\ Running /\ EofEff(cls) # "never" THEN Delay(EofEff(cls)) ELSE NoT)
  /\ due["term"] # NoT => termAt # NoT /\ cls.term # "ignore" /\ due["term"] = termAt + Delay(cls.term)
  /\ (child = "run" /\ termAt # NoT /\ cls.term # "ignore") => due["term"] # NoT
  /\ due["kill"] # NoT => killAt # NoT /\ due["kill"] = killAt
  \* the wait status tells which exit it was, and the exit happened when it was due
  /\ (Running /\ child # "run") => \/ status = "exit0" /\ due["eof"] # NoT /\ now = due["eof"]
                                   \/ status = (IF cls.term = "default" THEN "sigterm" ELSE "exit7") /\ due["term"] # NoT /\ now = due["term"]
                                   \/ status = "sigkill" /\ due["kill"] # NoT /\ now = due["kill"]
\* the escalation timeline of the closer
IndCloser ==
  /\ now <= 2 * (TD + Slack)
  /\ pc \in Waits => now <= deadline + Slack
  /\ termAt # NoT => termAt >= TD /\ termAt <= TD + Slack /\ termAt <= now
  /\ killAt # NoT => termAt # NoT /\ killAt >= termAt + TD /\ killAt <= termAt + TD + Slack /\ killAt <= now
  /\ pc \in {"idle", "wait1", "term"} => termAt = NoT
  /\ pc \in {"idle", "wait1", "term", "wait2", "kill"} => killAt = NoT
  /\ pc = "wait1" => deadline = TD
  /\ pc = "term" => now >= TD /\ now <= TD + Slack
  /\ pc = "wait2" => termAt # NoT /\ deadline = termAt + TD
  /\ pc = "kill" => \/ termAt = NoT /\ child = "gone" /\ now >= TD /\ now <= TD + Slack
                    \/ termAt # NoT /\ now >= termAt + TD /\ now <= termAt + TD + Slack
  \* SIGKILL always terminates, at once: the third wait takes no time
  /\ pc = "wait3" => killAt # NoT /\ now = killAt /\ deadline = killAt + TD /\ (child = "run" => due["kill"] = killAt)
  /\ pc \notin {"ret", "done"} => err = "none" /\ retAt = NoT
  /\ pc # "done" => err2 = "none"
  /\ Returned => /\ retAt = now /\ child = "gone"
                 /\ err = "done" \/ err = ErrOf(status)
  /\ pc = "done" => err2 = (CASE cls.c2 = "none" -> "none" [] cls.c2 = "rwc" -> "stdin" [] OTHER -> err)
\* class by class: children that had exited before Close never see time pass; away from the boundary (the child exits at
\* the instant a timer fires) the closer signals only a running child, never reports os.ErrProcessDone (D1), and the
\* child's exit is the one of the closed form Exp
IndClass ==
  /\ ~Running => now = 0 /\ status = PreStatus(cls.pre) /\ err \in {"none", ErrOf(PreStatus(cls.pre))}
  /\ ~Boundary(cls) => /\ pc \in {"term", "kill"} => child = "run"
                       /\ err # "done"
                       /\ child # "run" => status = Exp(cls).st /\ hist = Exp(cls).hist
IndInv ==
  /\ IndTypeOK /\ IndIdle /\ IndChild /\ IndCloser /\ IndClass
  /\ TermNotEarly /\ KillAfterTerm /\ NoNeedlessTerm /\ NoNeedlessKill /\ Bounded /\ Responsive /\ ReturnsAtExit
  /\ Reaped /\ Faithful /\ SecondCloseSame /\ PreExitedUnsignalled /\ PureClean /\ Determined
=============================================================================
