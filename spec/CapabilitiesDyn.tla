--------------------------- MODULE CapabilitiesDyn ---------------------------
(* Dynamic part of X06: a Server whose features are added and removed while  *)
(* sessions exist.  One action per critical section / protocol step of       *)
(* mcp/server.go:                                                            *)
(*   AddF(k) / RemoveF(k) Server.Add<Kind> / Remove<Kind>s -> changeAndNotify *)
(*                        (feature set changed under s.mu, debounce timer    *)
(*                        armed, re-armed, or stopped when nobody is         *)
(*                        connected; gated by the OPTIONS' listChanged)      *)
(*   Tick                 the debounce timer fires -> notifySessions (every  *)
(*                        legacy session; modern sessions by subscription)   *)
(*   ConnectLegacy(s)     initialize handshake: InitializeResult.Capabilities *)
(*                        = capabilities() of that moment                    *)
(*   ConnectModern(s, W)  server/discover (same computation) followed by     *)
(*                        subscriptions/listen wanting the list-changed      *)
(*                        kinds W: allowedSubscriptions, acknowledgement     *)
(*   Close(s)             Server.disconnect: subscriptions dropped           *)
(* Explicit configuration cfg : [DKinds -> {"nil","lcF","lcT"}] is chosen in *)
(* Init, so one run covers every configuration of the kinds in play.        *)
(*                                                                           *)
(* Checked here (property P6 and the time dimension of P1, Capabilities.tla):*)
(*   InvDisabled      listChanged:false  => never a notification of kind k   *)
(*   InvModernAcked   a 2026-07-28 session only receives kinds that were     *)
(*                    acknowledged to it                                     *)
(*   InvAckExact      acknowledged = wanted kinds whose capability at that   *)
(*                    moment says listChanged                                *)
(*   InvSnapCurrent   what a session was told = explicit field, else         *)
(*                    inferred from the features registered at that moment   *)
(*   InvOwedArmed     whoever is owed a notification has an armed timer      *)
(*   LiveNotified     owed ~> delivered (or session closed), under WF(Tick)  *)
(*   NoSurprise       (witness, expected to FAIL: deviation D-D1) a legacy   *)
(*                    session never receives a kind its handshake omitted    *)
(*                                                                           *)
(* Exhaustive configurations (tools/checks/x06.py; all small, all complete): *)
(*   quick     2 kinds, L1 + M1, every want set: 141 834 states (safety);    *)
(*             liveness with L1 alone (2 356) and M1 alone (5 141)           *)
(*   thorough  the 141 834-state configuration with liveness; 3 kinds with   *)
(*             L1 alone (79 640) and M1 alone (258 473), 2 kinds with L1+L2  *)
(*             (67 732), all with liveness; -coverage 1: no dead action      *)
(* Behaviours for the replay: transition covers of the ImplView state graph  *)
(* (2 kinds: 1 508 nodes / 9 924 edges; 3 kinds: 17 336 / 147 888) and       *)
(* -simulate runs of CapabilitiesDynGen (3 kinds, L1 L2 M1 M2, 24 steps).    *)
EXTENDS CapabilitiesDefs

CONSTANTS DKinds, Legacy, Modern, Wants
ASSUME DKinds \subseteq Kinds
Sess == Legacy \cup Modern

VARIABLES cfg, reg, pend, status, snap, snapReg, want, subs, acked, owed, got
vars == <<cfg, reg, pend, status, snap, snapReg, want, subs, acked, owed, got>>

NoKinds == [k \in DKinds |-> FALSE]
Init == /\ cfg \in [DKinds -> ExLC]
        /\ reg = NoKinds /\ pend = NoKinds
        /\ status = [s \in Sess |-> "none"]
        /\ snap = [s \in Sess |-> [k \in DKinds |-> "absent"]]
        /\ snapReg = [s \in Sess |-> NoKinds]
        /\ want = [s \in Sess |-> {}] /\ subs = [s \in Sess |-> {}] /\ acked = [s \in Sess |-> {}]
        /\ owed = [s \in Sess |-> {}] /\ got = [s \in Sess |-> {}]

Open(S) == {s \in S : status[s] = "open"}
\* what the property entitles a session to: told listChanged at the handshake / acknowledged subscription
Entitled(s, k) == IF s \in Legacy THEN snap[s][k] = "lcT" ELSE k \in subs[s]

Change(k, changed) ==
  /\ pend' = DynArm(cfg, pend, k, changed, Open(Sess) # {})
  /\ owed' = [s \in Sess |-> IF changed /\ status[s] = "open" /\ Entitled(s, k) THEN owed[s] \cup {k} ELSE owed[s]]
  /\ UNCHANGED <<cfg, status, snap, snapReg, want, subs, acked, got>>

AddF(k)    == /\ reg' = [reg EXCEPT ![k] = TRUE]  /\ Change(k, TRUE)       \* add replaces: always a change
RemoveF(k) == /\ reg' = [reg EXCEPT ![k] = FALSE] /\ Change(k, reg[k])     \* removing nothing is no change

ConnectLegacy(s) ==
  /\ s \in Legacy /\ status[s] = "none"
  /\ status' = [status EXCEPT ![s] = "open"]
  /\ snap' = [snap EXCEPT ![s] = DynAdv(DKinds, cfg, reg)]
  /\ snapReg' = [snapReg EXCEPT ![s] = reg]
  /\ UNCHANGED <<cfg, reg, pend, want, subs, acked, owed, got>>

ConnectModern(s, W) ==
  /\ s \in Modern /\ status[s] = "none" /\ W \in Wants
  /\ status' = [status EXCEPT ![s] = "open"]
  /\ snap' = [snap EXCEPT ![s] = DynAdv(DKinds, cfg, reg)]
  /\ snapReg' = [snapReg EXCEPT ![s] = reg]
  /\ want' = [want EXCEPT ![s] = W]
  /\ subs' = [subs EXCEPT ![s] = DynAck(W, DynAdv(DKinds, cfg, reg))]
  /\ acked' = [acked EXCEPT ![s] = DynAck(W, DynAdv(DKinds, cfg, reg))]
  /\ UNCHANGED <<cfg, reg, pend, owed, got>>

Close(s) ==
  /\ status[s] = "open"
  /\ status' = [status EXCEPT ![s] = "closed"]
  /\ subs' = [subs EXCEPT ![s] = {}]
  /\ owed' = [owed EXCEPT ![s] = {}]
  /\ UNCHANGED <<cfg, reg, pend, snap, snapReg, want, acked, got>>

Tick ==
  /\ \E k \in DKinds : pend[k]
  /\ LET D == DynDeliveries(DKinds, pend, Open(Legacy), Open(Modern), subs) IN
       /\ got' = [s \in Sess |-> got[s] \cup {k \in DKinds : <<s, k>> \in D}]
       /\ owed' = [s \in Sess |-> owed[s] \ {k \in DKinds : <<s, k>> \in D}]
  /\ pend' = NoKinds
  /\ UNCHANGED <<cfg, reg, status, snap, snapReg, want, subs, acked>>

Next == \/ \E k \in DKinds : AddF(k) \/ RemoveF(k)
        \/ \E s \in Legacy : ConnectLegacy(s)
        \/ \E s \in Modern, W \in Wants : ConnectModern(s, W)
        \/ \E s \in Sess : Close(s)
        \/ Tick
Spec == Init /\ [][Next]_vars
FairSpec == Spec /\ WF_vars(Tick)

TypeOK == /\ cfg \in [DKinds -> ExLC] /\ reg \in [DKinds -> BOOLEAN] /\ pend \in [DKinds -> BOOLEAN]
          /\ status \in [Sess -> {"none", "open", "closed"}]
          /\ \A s \in Sess : subs[s] \subseteq DKinds /\ owed[s] \subseteq DKinds /\ got[s] \subseteq DKinds
InvDisabled == \A s \in Sess, k \in DKinds : k \in got[s] => cfg[k] # "lcF"
InvModernAcked == \A s \in Modern : got[s] \subseteq acked[s]
InvAckExact == \A s \in Modern : status[s] = "open" => subs[s] = {k \in want[s] : snap[s][k] = "lcT"}
InvSnapCurrent == \A s \in Sess, k \in DKinds : status[s] # "none" =>
                    snap[s][k] = (IF cfg[k] # "nil" THEN cfg[k] ELSE IF snapReg[s][k] THEN "lcT" ELSE "absent")
InvOwedArmed == \A s \in Sess, k \in DKinds : k \in owed[s] => (pend[k] /\ status[s] = "open")
LiveNotified == \A s \in Sess, k \in DKinds : (k \in owed[s]) ~> (k \notin owed[s])
\* witness (deviation D-D1): expected to be violated
NoSurprise == \A s \in Legacy, k \in DKinds : k \in got[s] => snap[s][k] # "absent"
\* further reachability witnesses (each expected to be violated)
NeverNotifiedModern == \A s \in Modern : got[s] = {}
NeverPartialAck == \A s \in Modern : status[s] = "open" => (subs[s] = want[s] \/ subs[s] = {})
NeverOwedTwoKinds == \A s \in Sess : Cardinality(owed[s]) < 2

\* values for the constant Wants
AllWants == SUBSET DKinds
FewWants == {{}, {CHOOSE k \in DKinds : TRUE}, DKinds}

\* the implementation's observable state (no ghosts): VIEW for the transition-cover graph
ImplView == <<cfg, reg, pend, status, subs>>
=============================================================================
