SPECIFICATION Spec
CONSTANTS
  Rounds = 1
INVARIANT WitLoopbackSecrets
CHECK_DEADLOCK FALSE
