SPECIFICATION Spec
CONSTANTS
  ASMSchemeChecked <- Wit2ASMSchemeChecked
  Challenges <- Wit2Challenges
  McpURLs <- Wit2McpURLs
  PRMOutcomes <- Wit2PRMOutcomes
  RegConfigs <- Wit2RegConfigs
  AuthStates <- Wit2AuthStates
  AuthIsses <- Wit2AuthIsses
  TokenOutcomes <- Wit2TokenOutcomes
INVARIANTS NoScriptSchemes
CHECK_DEADLOCK FALSE
