SPECIFICATION Spec
CONSTANTS
  NS = 2
  MinLen = 4
  MaxLen = 4
  CallOK <- CallAll
  MaxHeld = 1
  Mode = "sync"
  LateRelease = TRUE
  AnyOrder = FALSE
  SymReduce = FALSE
  Canon = TRUE
CHECK_DEADLOCK FALSE
INVARIANTS ObservedInOrder NotificationCompletesFirst NoStuck
CONSTRAINT EmitC
