SPECIFICATION TraceSpec
CONSTANTS
  NC = 3
  SASet = {TRUE, FALSE}
  OAuthSet = {TRUE, FALSE}
  DelSet = {"ok", "405", "404", "neterr", "timeout"}
  PostSet = {"json", "badjson", "sse", "202", "badct", "rpcerr", "rpc404", "404", "http", "401", "5xx", "neterr"}
  GetSet = {"sse", "405", "404", "4xx", "500", "200plain", "503sse", "neterr"}
  InitH = {"", "A", "B"}
  HSet = {"", "A", "B"}
  MaxNotify = 1
  MaxSaEv = 8
  MaxAuth = 8
  MaxClose = 8
  AllowCancel = TRUE
  FixCancel = FALSE
  FixStream = FALSE
CONSTRAINT TMark
POSTCONDITION TAccepted
CHECK_DEADLOCK FALSE
