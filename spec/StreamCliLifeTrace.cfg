SPECIFICATION TraceSpec
CONSTANTS
  NC = 3
  Profiles <- TraceProfiles
  FixCancel = FALSE
  FixStream = FALSE
CONSTRAINT TMark
POSTCONDITION TAccepted
CHECK_DEADLOCK FALSE
