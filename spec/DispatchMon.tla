------------------------------ MODULE DispatchMon ------------------------------
(* X15 part (a), the verdict: the properties M1 M2 M3 D2 G2 L of Dispatch.tla  *)
(* evaluated over what the REAL Client / Server pair did (event lines of the   *)
(* harness: add reg begin mw h end fin).  Nothing of the code-shaped model is  *)
(* used: the documented chains are rebuilt from the Add calls observed, the    *)
(* functional composition (LegOut, Entered, TagsAbove - pure definitions of    *)
(* Dispatch.tla) is evaluated over them and compared with what every           *)
(* middleware, handler and caller saw.                                         *)
(* A request is judged when its trace ends (fin): every gate has been opened   *)
(* by then.  The receive chain of a request is the documented chain at SOME    *)
(* instant between its begin and its first event on the receiving peer (the    *)
(* dispatch instant itself is not observable).                                 *)
EXTENDS VerifTrace, FiniteSets
D == INSTANCE DispatchFn

VARIABLES l, mera, mdoc, mbeh, cur, sreg, rq
mvars == <<l, mera, mdoc, mbeh, cur, sreg, rq>>

Keys == D!Keys
Reverse(s) == [i \in 1..Len(s) |-> s[Len(s) + 1 - i]]
MwIds(evs) == [i \in DOMAIN evs |-> evs[i].mw]
OutOf(e) == [ok |-> e.ok, src |-> e.src, tags |-> e.rt, code |-> e.code]

NewReq(e) == [k |-> e.k, par |-> e.par, tok |-> e.tok, own |-> e.own,
              S |-> mdoc[D!Key(D!Snd(e.k), "send")], cand |-> {mdoc[D!Key(D!Rcv(e.k), "recv")]},
              hset |-> IF cur > 0 THEN {cur} ELSE {}, regAtBegin |-> cur > 0, sregAtBegin |-> sreg,
              spre |-> <<>>, spost |-> <<>>, rpre |-> <<>>, rpost |-> <<>>, hs |-> <<>>,
              rseen |-> FALSE, ended |-> FALSE, out |-> D!NoOut, panic |-> FALSE]

\* ---------------------------------------------------------------- the clauses, per finished request x
Sel(x) == IF \E c \in x.cand : MwIds(x.rpre) = D!Entered(mbeh, c, 1)
          THEN [ok |-> TRUE, ch |-> CHOOSE c \in x.cand : MwIds(x.rpre) = D!Entered(mbeh, c, 1)]
          ELSE [ok |-> FALSE, ch |-> <<>>]
LocalRefusal(x) == (x.k = "cc" /\ ~x.sregAtBegin) \/ (x.k = "sc" /\ mera = "modern")
Wire(x) == ~LocalRefusal(x) /\ D!Through(mbeh, x.S)
\* the custom method was not registered at any instant of the request's life / at every instant
NeverReg(x) == x.k = "cc" /\ x.hset = {}
NotFound(x) == x.k = "cc" /\ ~x.regAtBegin /\ x.rpre = <<>> /\ x.hs = <<>> /\ ~x.rseen
SendTags(x) == D!TagsAbove(mbeh, x.S, Len(x.S) + 1, <<>>)
Bottom(x) == IF D!IsCall(x.k) THEN D!Ok(IF x.hs # <<>> THEN x.hs[1].h ELSE 0, <<>>) ELSE D!Ok(0, <<>>)
RecvOut(x, ch) == IF NotFound(x) THEN D!Err(D!CodeNotFound) ELSE D!LegOut(mbeh, ch, 1, x.k, Bottom(x))
SendBottom(x, ch) == IF D!IsCall(x.k) THEN RecvOut(x, ch) ELSE D!Ok(0, <<>>)
SeenAtPost(ch, j, k, bottom) == IF mbeh[ch[j]] = "short" THEN D!ShortOut(ch[j], k) ELSE D!LegOut(mbeh, ch, j + 1, k, bottom)

SendParams(x) == \A j \in DOMAIN x.spre : x.spre[j].pt = D!TagsAbove(mbeh, x.S, j, <<>>)
SendResults(x, bottom) == \A j \in DOMAIN x.spost : LET pos == Len(x.spost) + 1 - j IN
                            pos <= Len(x.S) => OutOf(x.spost[j]) = SeenAtPost(x.S, pos, x.k, bottom)

Clauses == {"M1.SendChain", "M2.SendNesting", "M2.BelowShort", "M1.RecvChain", "M2.RecvNesting", "M2.HandlerOnce",
            "M3.Params", "M3.Result", "M3.Caller", "D2.Unregistered", "D2.NotFound", "D2.ServedByRegistered", "G2.Token", "L.Returned"}
Clause(n, x) ==
  LET sel == Sel(x)
      ch == sel.ch
      judged == x.ended /\ ~x.panic /\ ~(x.k = "sc" /\ mera = "modern") IN
  CASE n = "L.Returned" -> x.ended
    [] ~judged -> TRUE
    [] n = "D2.Unregistered" -> (x.k = "cc" /\ ~x.sregAtBegin) => (~x.out.ok /\ x.spre = <<>> /\ x.rpre = <<>> /\ x.hs = <<>>)
    [] LocalRefusal(x) -> TRUE
    [] n = "M1.SendChain" -> MwIds(x.spre) = D!Entered(mbeh, x.S, 1)
    [] n = "M2.SendNesting" -> MwIds(x.spost) = Reverse(MwIds(x.spre))
    [] n = "M2.BelowShort" -> ~D!Through(mbeh, x.S) => (x.rpre = <<>> /\ x.hs = <<>>)
    [] ~Wire(x) -> CASE n = "M3.Caller" -> x.out = D!LegOut(mbeh, x.S, 1, x.k, D!NoOut)
                     [] n = "M3.Params" -> SendParams(x)
                     [] n = "M3.Result" -> SendResults(x, D!NoOut)
                     [] OTHER -> TRUE
    [] n = "D2.NotFound" -> /\ NeverReg(x) => (NotFound(x) /\ x.out = D!LegOut(mbeh, x.S, 1, x.k, D!Err(D!CodeNotFound)))
                            /\ (x.k = "cc" /\ x.regAtBegin) => ~NotFound(x)
    [] NotFound(x) -> CASE n = "M3.Caller" -> x.out = D!LegOut(mbeh, x.S, 1, x.k, D!Err(D!CodeNotFound))
                        [] n = "M3.Params" -> SendParams(x)
                        [] n = "M3.Result" -> SendResults(x, D!Err(D!CodeNotFound))
                        [] OTHER -> TRUE
    [] n = "M1.RecvChain" -> sel.ok
    [] n = "M2.RecvNesting" -> MwIds(x.rpost) = Reverse(MwIds(x.rpre))
    [] ~sel.ok -> TRUE
    [] n = "M2.HandlerOnce" -> Len(x.hs) = (IF D!Through(mbeh, ch) THEN 1 ELSE 0)
    [] n = "D2.ServedByRegistered" -> (x.k = "cc" /\ x.hs # <<>>) => x.hs[1].h \in x.hset
    [] n = "M3.Params" -> /\ SendParams(x)
                          /\ \A j \in DOMAIN x.rpre : x.rpre[j].pt = D!TagsAbove(mbeh, ch, j, SendTags(x))
                          /\ \A j \in DOMAIN x.hs : x.hs[j].pt = D!TagsAbove(mbeh, ch, Len(ch) + 1, SendTags(x))
    [] n = "M3.Result" -> /\ \A j \in DOMAIN x.rpost : LET pos == Len(x.rpost) + 1 - j IN
                                 pos <= Len(ch) => OutOf(x.rpost[j]) = SeenAtPost(ch, pos, x.k, Bottom(x))
                          /\ SendResults(x, SendBottom(x, ch))
    [] n = "M3.Caller" -> x.out = D!LegOut(mbeh, x.S, 1, x.k, SendBottom(x, ch))
    [] n = "G2.Token" -> /\ (D!IsCall(x.k) /\ x.hs # <<>>) => x.hs[1].tok = x.own
                         /\ (~D!IsCall(x.k) /\ x.hs # <<>>) => x.hs[1].tok = (IF x.par = 0 THEN x.tok ELSE rq[x.par].own)
    [] OTHER -> TRUE

\* ---------------------------------------------------------------- the log
MInit == /\ l = 1 /\ MarkInit /\ mera = "legacy" /\ mdoc = [x \in Keys |-> <<>>] /\ mbeh = <<>> /\ cur = 0 /\ sreg = FALSE /\ rq = <<>>
\* (a notification has returned to its caller long before it is dispatched at the receiver)
Open(x, p) == ~x.rseen /\ (D!IsCall(x.k) => ~x.ended) /\ D!Rcv(x.k) = p
MNext ==
  /\ l <= NLines /\ l' = l + 1
  /\ LET e == TraceLog[l] IN
     CASE e.ev = "reset" -> mera' = e.era /\ mdoc' = [x \in Keys |-> <<>>] /\ mbeh' = <<>> /\ cur' = 0 /\ sreg' = FALSE /\ rq' = <<>>
       [] e.ev = "add" ->
            LET nd == [mdoc EXCEPT ![D!Key(e.p, e.d)] = e.ids \o @] IN
            /\ mdoc' = nd /\ mbeh' = mbeh \o e.behs
            /\ rq' = [r \in DOMAIN rq |-> IF e.d = "recv" /\ Open(rq[r], e.p) THEN [rq[r] EXCEPT !.cand = @ \cup {nd[D!Key(e.p, "recv")]}] ELSE rq[r]]
            /\ UNCHANGED <<mera, cur, sreg>>
       [] e.ev = "reg" /\ e.p = "c" -> sreg' = (sreg \/ e.ok) /\ UNCHANGED <<mera, mdoc, mbeh, cur, rq>>
       [] e.ev = "reg" /\ e.p = "s" ->
            /\ cur' = (IF e.ok THEN e.h ELSE cur)
            /\ rq' = [r \in DOMAIN rq |-> IF e.ok /\ rq[r].k = "cc" /\ rq[r].hs = <<>> /\ ~rq[r].ended THEN [rq[r] EXCEPT !.hset = @ \cup {e.h}] ELSE rq[r]]
            /\ UNCHANGED <<mera, mdoc, mbeh, sreg>>
       [] e.ev = "begin" -> rq' = Append(rq, NewReq(e)) /\ Check(l, "harness.reqids", e.r = Len(rq) + 1) /\ UNCHANGED <<mera, mdoc, mbeh, cur, sreg>>
       [] e.ev = "mw" ->
            /\ rq' = [rq EXCEPT ![e.r] =
                        LET x == [@ EXCEPT !.panic = @ \/ e.panic, !.rseen = @ \/ e.d = "recv"] IN
                        IF e.d = "send" /\ e.ph = "pre" THEN [x EXCEPT !.spre = Append(@, e)]
                        ELSE IF e.d = "send" THEN [x EXCEPT !.spost = Append(@, e)]
                        ELSE IF e.ph = "pre" THEN [x EXCEPT !.rpre = Append(@, e)]
                        ELSE [x EXCEPT !.rpost = Append(@, e)]]
            \* M1: a peer's middleware only ever sees the messages that peer sends (send) / receives (recv)
            /\ Check(l, "M1.OwnPeer", e.p = (IF e.d = "send" THEN D!Snd(rq[e.r].k) ELSE D!Rcv(rq[e.r].k)))
            /\ Check(l, "D2.NoPanic", ~e.panic)
            /\ UNCHANGED <<mera, mdoc, mbeh, cur, sreg>>
       [] e.ev = "h" -> rq' = [rq EXCEPT ![e.r].hs = Append(@, e), ![e.r].rseen = TRUE] /\ UNCHANGED <<mera, mdoc, mbeh, cur, sreg>>
       [] e.ev = "end" -> /\ rq' = [rq EXCEPT ![e.r].ended = TRUE, ![e.r].out = OutOf(e), ![e.r].panic = @ \/ e.panic]
                          /\ Check(l, "D2.NoPanic", ~e.panic)
                          /\ UNCHANGED <<mera, mdoc, mbeh, cur, sreg>>
       [] e.ev = "fin" -> /\ \A r \in DOMAIN rq : \A n \in Clauses : Check(l, n \o "@" \o ToString(r), Clause(n, rq[r]))
                          /\ Check(l, "L.Quiescent", e.code = 0)
                          /\ UNCHANGED <<mera, mdoc, mbeh, cur, sreg, rq>>
       [] OTHER -> UNCHANGED <<mera, mdoc, mbeh, cur, sreg, rq>>
MSpec == MInit /\ [][MNext]_mvars
MMark == MarkAt(l)
MAccepted == Accepted
=============================================================================
