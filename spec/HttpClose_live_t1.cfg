SPECIFICATION MCLive
CONSTANTS
  Calls = {"k1"}
  CCl = {"c1"}
  SCl = {"s1"}
  Stateless = FALSE
  Timeout = FALSE
  Sse = TRUE
  Nested = FALSE
  Faults = {}
  DelModes = {}
  Helds = FALSE
  Notifs = FALSE
  Cancels = FALSE
  AwaitHandlers = TRUE
  StopSseOnClose = TRUE
VIEW MCView
PROPERTIES SrvCloseReturns CliCloseReturns SrvWaitReturns CliWaitReturns SrvNoLeftovers CliNoLeftovers
CHECK_DEADLOCK FALSE
