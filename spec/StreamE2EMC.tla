----------------------------- MODULE StreamE2EMC -----------------------------
(* Bounded configurations of StreamE2E: the constant sets the .cfg files name.  *)
(* Exhaustive design checks and the `-dump dot,actionlabels` state graph (for   *)
(* the transition cover, tools/graphwalk.py) use this module; -simulate uses    *)
(* StreamE2EGen, which adds a history of the environment actions.              *)
EXTENDS StreamE2E
Both == {TRUE, FALSE}
OnlyPrime == {TRUE}
NoPrimeOnly == {FALSE}
R1 == {"r1"}
R2 == {"r1", "r2"}
HowsAll == {"eof", "err", "eofL", "errL"}
HowsBasic == {"eof", "err"}
FailsAll == {"terr", "503", "500", "429", "404"}
FailsBasic == {"terr", "503"}
=============================================================================
