SPECIFICATION Spec
CONSTANTS
  MaxEv = 3
  MaxHeld = 1
  MaxWait = 1
  Variant = "asis"
  AlphaSel = "core"
INVARIANTS TypeOK InvPingAlwaysServed InvPingAlwaysServedClosing InvSettled InvWaitAgrees Export
CHECK_DEADLOCK FALSE
