\* liveness under fairness (the server answers, ends streams, lets the DELETE time out)
SPECIFICATION FairSpec
CONSTANTS
  NC = 3
  Profiles <- ProfLive
  FixCancel = FALSE
  FixStream = FALSE
PROPERTIES ConnectReturns CallsReturn NotifyReturns CloseReturns FailureEnds
CHECK_DEADLOCK FALSE
