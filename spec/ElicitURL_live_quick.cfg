SPECIFICATION FairSpec
CONSTANTS
  Unknown = "u"
  MaxLen = 2
  Calls = {1}
  HResults = {"accept", "decline", "herr"}
  Ids = {"x", "y"}
  MaxSpur = 0
  Handlers = {TRUE}
  AllowCancel = TRUE
  DeclineNoCompl = FALSE
  TrackOwed = TRUE
  ListsOf <- ListsLive
  KindsOf <- AllKinds
INVARIANTS Safety U5_CompletionReachesWaiter
PROPERTIES U6_Returns
CHECK_DEADLOCK FALSE
