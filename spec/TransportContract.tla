-------------------------- MODULE TransportContract --------------------------
(* Extension check X05: the mcp.Connection / mcp.Transport contract that      *)
(* every transport shipped by the SDK has to honour, and that the connection  *)
(* model Conn.tla takes as ENVIRONMENT ASSUMPTIONS (Conn.tla: ReadReq/ReadResp *)
(* are guarded by ~transportClosed, ReadEOF is enabled once transportClosed,  *)
(* Outcomes == {"broken"} once transportClosed; DESIGN.md 5.1                 *)
(* `TransportHonoursClose`).                                                  *)
(*                                                                            *)
(* One duplex link, two endpoints A and B (for the HTTP transports A is the   *)
(* client connection, B the server connection).  Per endpoint: Write calls    *)
(* (each its own thread - "Write may be called concurrently"), one reader     *)
(* thread issuing Read calls one after the other, Close calls (each its own   *)
(* thread - "Close may be called multiple times, potentially concurrently").  *)
(* Every API call is a Begin action and an End action; what happens in        *)
(* between (the commit of a Write, a Read taking a message or the closed      *)
(* signal, the pump goroutine, the effect of Close, the peer learning of it)  *)
(* are internal actions, so blocking is explicit: a call is blocked exactly   *)
(* when it has begun and neither its internal step nor its End is enabled.    *)
(*                                                                            *)
(* PROPERTIES (mcp/transport.go, doc comments of Connection: "Read reads the  *)
(* next message to process off the connection.  Connections must allow Read   *)
(* to be called concurrently with Close.  In particular, calling Close should *)
(* unblock a Read waiting for input."  "Write may be called concurrently".    *)
(* "Close closes the connection. ... Close may be called multiple times,      *)
(* potentially concurrently."  ioConn.Read: "case <-t.closed: return nil,     *)
(* io.EOF".  ErrConnectionClosed: "returned when sending a message to a       *)
(* connection that is closed or in the process of closing".  sse.go: "Write   *)
(* writes a new event to the responseWriter, or fails if the GET has exited;  *)
(* Close causes the hanging GET to exit".  Conn.tla assumptions E1/E2.)       *)
(*                                                                            *)
(*  T1 Fifo        The messages an endpoint's Reads return are messages the   *)
(*     peer passed to Write (none invented), each at most once, in an order   *)
(*     consistent with the peer's Write calls: if Write(m1) had returned      *)
(*     before Write(m2) began and both are delivered, m1 comes first; and     *)
(*     nothing is skipped - if Write(m1) had returned SUCCESSFULLY before     *)
(*     Write(m2) began and m2 is delivered, m1 was delivered before it.       *)
(*  T2 ClosedStopsReads   Once Close has returned at an endpoint, no Read     *)
(*     that begins there afterwards returns a message (Conn.tla E1).          *)
(*  T3 ClosedStopsWrites  A Write that begins after Close has returned at     *)
(*     the same endpoint returns an error, and its message is never           *)
(*     delivered (Conn.tla E2).                                               *)
(*  T4 CloseIdempotent    Any number of Close calls, concurrent with each     *)
(*     other and with Reads and Writes, return, never panic, and return the   *)
(*     same result; the closed state is permanent.                            *)
(*  T5 NoSpuriousError    A Read or Write returns an error only if a Close    *)
(*     has begun at one of the two endpoints (a failed call means the link is *)
(*     going away, which is why jsonrpc2 may treat it as fatal).              *)
(*  T6 NoLoss      While no Close has begun at either end, every message      *)
(*     whose Write returned nil is delivered to the peer's Reads, or is       *)
(*     still waiting for the next Read; it is not lost.                       *)
(*  T7 SessionIDStable    SessionID() never changes once it is non-empty.     *)
(*  L1 CloseReturns       Every Close call returns.                           *)
(*  L2 CloseUnblocksRead  A Read that is blocked returns once Close has       *)
(*     returned at its own endpoint, or at the peer (then with what the peer  *)
(*     had sent before, or with an io.EOF-class error).                       *)
(*  L3 CloseUnblocksWrite A blocked Write returns once Close has returned at  *)
(*     either endpoint.                                                       *)
(*  L4 NothingLeft        After both endpoints have been closed, no goroutine *)
(*     of the transport remains (judged on the real code only).               *)
(*                                                                            *)
(* CLASSES.  The constant Class selects the buffering and the way a Close     *)
(* travels, as the implementation has them:                                   *)
(*  rdv     ioConn over net.Pipe (NewInMemoryTransports), over two io.Pipe    *)
(*          pairs (IOTransport), and LoggingTransport around them: a Write is *)
(*          a rendezvous with the peer's reader goroutine, which holds ONE    *)
(*          decoded message in its hand until Read takes it.                  *)
(*  buf     ioConn over a kernel-buffered byte stream with newline framing    *)
(*          (IOTransport over os.Pipe): Write never waits for the peer.       *)
(*  stdio   StdioTransport: like buf, but Close closes stdin only (stdout is  *)
(*          a nopCloserWriter): the peer sees end-of-stream only when the     *)
(*          process exits (action ProcessExit).                               *)
(*  sse     2024-11-05 HTTP+SSE: A->B is one POST exchange per Write pushed   *)
(*          into a queue of 100, B->A events on the hanging GET, scanned by a *)
(*          goroutine into a queue of 100.                                    *)
(*  stream  streamable HTTP, session established (Mcp-Session-Id known to the *)
(*          client): A->B one POST per Write into a queue of 10; B->A events  *)
(*          on the standalone GET stream into a queue of 10; A's Close sends  *)
(*          DELETE.                                                           *)
(*  streamns streamable HTTP where the server issued no session id: A's Close *)
(*          sends nothing.                                                    *)
(*                                                                            *)
(* DEVIATIONS of the code from the contract, modelled as they are and named   *)
(* (the flag operators below); T2 / T3 are checked by TLC with the flag OFF   *)
(* (design) and must be FOUND violated with the flag ON (sensitivity):        *)
(*  D1 DrainAfterClose  sseServerConn.Read, streamableServerConn.Read and     *)
(*     streamableClientConn.Read select between the closed signal and a       *)
(*     buffered queue: after Close a Read may still return a queued message   *)
(*     (breaks T2).  ioConn and sseClientConn do not (unbuffered hand-off;    *)
(*     isDone re-check).                                                      *)
(*  D2 LateAccept  SSEServerTransport.ServeHTTP / streamable servePOST select *)
(*     between the queue and the closed signal: a POST on a closed            *)
(*     connection may still be accepted (X02's finding); together with D1 the *)
(*     message may even be read.                                              *)
(*  D3 WriteAfterCloseOK  ioConn.Write does not look at its closed flag, it   *)
(*     relies on the stream failing: StdioTransport's stdout never fails      *)
(*     (nopCloserWriter).  streamableClientConn.Write does not look at `done` *)
(*     either: without a session id nothing makes the POST fail (breaks T3).  *)
(*  D4 EofOnce  ioConn reports the end of the peer's stream to ONE Read; a    *)
(*     further Read blocks until the local Close (jsonrpc2 never reads again  *)
(*     after an error).  L2 is stated accordingly.                            *)
(*  D5 CloseNotSignalled  StdioTransport.Close does not reach the peer's Read *)
(*     before the process exits; a streamable client without a session id     *)
(*     tells the server nothing (L2 at the peer is stated accordingly).       *)
(*  D6 OrphanRejected  streamableServerConn.Write routes by request id: a     *)
(*     response whose request is unknown is rejected with an error although   *)
(*     the connection is healthy (exempt from T5; ErrRejected keeps jsonrpc2  *)
(*     from treating it as fatal).                                            *)
(*  D7 DropAtClose  messages the transport still holds when the local side    *)
(*     is closed are dropped (all classes; not a violation: T6 is conditional *)
(*     on no Close).                                                          *)
EXTENDS TransportContractDefs, Integers, Sequences, FiniteSets, TLC

CONSTANTS Class,    \* "rdv" | "buf" | "stdio" | "sse" | "stream" | "streamns"
          NW,       \* [Ends -> Nat]  Write calls per endpoint
          NR,       \* [Ends -> Nat]  Read calls per endpoint (one after the other)
          NC,       \* [Ends -> Nat]  Close calls per endpoint
          KSet,     \* message kinds written: subset of {"n", "orph"}
          Ideal,    \* TRUE: the contract as designed (D1, D2, D3 off); FALSE: the code
          WMax, CMax  \* size of the thread tables (>= the budgets)

Ws(e) == 1..NW[e]
Cs(e) == 1..NC[e]

\* ---- the class table (TransportContractDefs) for this configuration ----------
Rdv(e) == RdvC(Class, e)
ICap(e) == ICapC(Class)
EofMode(e) == EofModeC(Class, e)                                                   \* D4, D5
Notify(e) == NotifyC(Class, e)                                                     \* D5
DrainAfterClose(e) == ~Ideal /\ DrainAfterCloseC(Class, e)                         \* D1
LateAccept(e) == ~Ideal /\ LateAcceptC(Class, e)                                   \* D2
WriteAfterCloseOK(e) == ~Ideal /\ WriteAfterCloseOKC(Class, e)                     \* D3
OrphanRejected(e) == OrphanRejectedC(Class, e)                                     \* D6

VARIABLES wpc,      \* [Ends -> [1..WMax -> "idle" | "begun" | "sent" | "done"]]
          wkind,    \* kind of the message of Write (e, w)
          wres,     \* "none" | "ok" | "err"   (fixed at the commit, returned at the End)
          rpc,      \* [Ends -> "idle" | "begun" | "taken"]
          rtake,    \* what the current Read has taken and will return
          nread,    \* Reads begun so far
          got,      \* [Ends -> Seq(results)]  <<"msg", src, w>> | <<"err">>
          cpc,      \* [Ends -> [1..CMax -> "idle" | "begun" | "did" | "done"]]
          closed,   \* the connection's closed flag (Close, or the connection closed itself)
          failed,   \* streamable client: the connection has failed
          peerGone, \* the medium shows e that the peer's side has ended
          med,      \* [Ends -> Seq(msg)]  in flight from e to P(e) (buffering classes)
          inbox,    \* [Ends -> Seq(msg)]  received at e, waiting for Read
          intake,   \* e's receiving goroutine: "run" | "errhand" | "dead"
          exited,   \* stdio: the process of e has exited
          \* history (for the properties only)
          closeRet, \* a Close call has returned at e
          okBefore, \* [e][w]: Writes of e that had returned nil when w began
          endBefore,\* [e][w]: Writes of e that had returned when w began
          wLate,    \* [e][w]: w began after a Close had returned at e
          rLate,    \* the current Read of e began after a Close had returned at e
          lateDeliv,\* a late Read returned a message
          anyClose  \* some Close has begun

vars == <<wpc, wkind, wres, rpc, rtake, nread, got, cpc, closed, failed, peerGone, med, inbox, intake, exited,
          closeRet, okBefore, endBefore, wLate, rLate, lateDeliv, anyClose>>
hist == <<closeRet, okBefore, endBefore, wLate, rLate, lateDeliv, anyClose>>

Init ==
  /\ wpc = [e \in Ends |-> [w \in 1..WMax |-> "idle"]]
  /\ wkind = [e \in Ends |-> [w \in 1..WMax |-> "n"]]
  /\ wres = [e \in Ends |-> [w \in 1..WMax |-> "none"]]
  /\ rpc = [e \in Ends |-> "idle"] /\ rtake = [e \in Ends |-> <<"none">>]
  /\ nread = [e \in Ends |-> 0] /\ got = [e \in Ends |-> <<>>]
  /\ cpc = [e \in Ends |-> [c \in 1..CMax |-> "idle"]]
  /\ closed = [e \in Ends |-> FALSE] /\ failed = [e \in Ends |-> FALSE] /\ peerGone = [e \in Ends |-> FALSE]
  /\ med = [e \in Ends |-> <<>>] /\ inbox = [e \in Ends |-> <<>>] /\ intake = [e \in Ends |-> "run"]
  /\ exited = [e \in Ends |-> FALSE]
  /\ closeRet = [e \in Ends |-> FALSE]
  /\ okBefore = [e \in Ends |-> [w \in 1..WMax |-> {}]] /\ endBefore = [e \in Ends |-> [w \in 1..WMax |-> {}]]
  /\ wLate = [e \in Ends |-> [w \in 1..WMax |-> FALSE]]
  /\ rLate = [e \in Ends |-> FALSE] /\ lateDeliv = [e \in Ends |-> FALSE] /\ anyClose = FALSE

\* ---- Write ------------------------------------------------------------------
WriteBegin(e, w, k) ==
  /\ w \in Ws(e) /\ wpc[e][w] = "idle" /\ k \in KSet /\ ~exited[e]
  /\ wpc' = [wpc EXCEPT ![e][w] = "begun"]
  /\ wkind' = [wkind EXCEPT ![e][w] = k]
  /\ okBefore' = [okBefore EXCEPT ![e][w] = {x \in 1..WMax : wpc[e][x] = "done" /\ wres[e][x] = "ok"}]
  /\ endBefore' = [endBefore EXCEPT ![e][w] = {x \in 1..WMax : wpc[e][x] = "done"}]
  /\ wLate' = [wLate EXCEPT ![e][w] = closeRet[e]]
  /\ UNCHANGED <<wres, rpc, rtake, nread, got, cpc, closed, failed, peerGone, med, inbox, intake, exited,
                 closeRet, rLate, lateDeliv, anyClose>>

\* the commit of a Write: refused, or handed to the medium / the peer's intake.  Not enabled = the Write is blocked.
Commit(e, w, r) ==
  /\ wpc' = [wpc EXCEPT ![e][w] = "sent"] /\ wres' = [wres EXCEPT ![e][w] = r]
Accept(e, w) ==
  LET p == P(e) m == <<e, w>> IN
  IF Rdv(e) THEN /\ Len(inbox[p]) < ICap(p)
                 /\ inbox' = [inbox EXCEPT ![p] = Append(@, m)] /\ UNCHANGED med
            ELSE /\ med' = [med EXCEPT ![e] = Append(@, m)] /\ UNCHANGED inbox
WriteSend(e, w) ==
  LET p == P(e) IN
  /\ wpc[e][w] = "begun"
  /\ IF OrphanRejected(e) /\ wkind[e][w] = "orph"                           \* D6
     THEN Commit(e, w, "err") /\ UNCHANGED <<med, inbox>>
     ELSE IF (closed[e] /\ ~WriteAfterCloseOK(e)) \/ failed[e]
     THEN Commit(e, w, "err") /\ UNCHANGED <<med, inbox>>
     ELSE IF closed[p]
     THEN \/ Commit(e, w, "err") /\ UNCHANGED <<med, inbox>>
          \/ LateAccept(p) /\ Commit(e, w, "ok") /\ Accept(e, w)           \* D2
     ELSE /\ (Rdv(e) => intake[p] = "run")
          /\ Commit(e, w, "ok") /\ Accept(e, w)
  /\ UNCHANGED <<wkind, rpc, rtake, nread, got, cpc, closed, failed, peerGone, intake, exited, hist>>

WriteEnd(e, w) ==
  /\ wpc[e][w] = "sent"
  /\ wpc' = [wpc EXCEPT ![e][w] = "done"]
  /\ UNCHANGED <<wkind, wres, rpc, rtake, nread, got, cpc, closed, failed, peerGone, med, inbox, intake, exited, hist>>

\* ---- the receiving goroutine ------------------------------------------------
HasPump(e) == ~Rdv(P(e))
Pump(e) ==
  /\ HasPump(e) /\ intake[e] = "run" /\ ~closed[e] /\ ~failed[e]
  /\ med[P(e)] # <<>> /\ Len(inbox[e]) < ICap(e)
  /\ inbox' = [inbox EXCEPT ![e] = Append(@, Head(med[P(e)]))]
  /\ med' = [med EXCEPT ![P(e)] = Tail(@)]
  /\ UNCHANGED <<wpc, wkind, wres, rpc, rtake, nread, got, cpc, closed, failed, peerGone, intake, exited, hist>>

\* e learns that the peer's side has ended (EOF on the pipe / on the GET body, request context cancelled, 404)
PumpEof(e) ==
  /\ intake[e] = "run" /\ peerGone[e] /\ ~closed[e] /\ ~failed[e]
  /\ HasPump(e) => med[P(e)] = <<>>
  /\ Len(inbox[e]) < ICap(e)
  /\ EofMode(e) # "none"
  /\ intake' = [intake EXCEPT ![e] = IF EofMode(e) = "once" THEN "errhand" ELSE "dead"]
  /\ closed' = [closed EXCEPT ![e] = (EofMode(e) = "autoclose")]
  /\ failed' = [failed EXCEPT ![e] = (EofMode(e) = "fail")]
  /\ UNCHANGED <<wpc, wkind, wres, rpc, rtake, nread, got, cpc, peerGone, med, inbox, exited, hist>>

\* ---- Read -------------------------------------------------------------------
ReadBegin(e) ==
  /\ rpc[e] = "idle" /\ nread[e] < NR[e] /\ ~exited[e]
  /\ rpc' = [rpc EXCEPT ![e] = "begun"] /\ nread' = [nread EXCEPT ![e] = @ + 1]
  /\ rLate' = [rLate EXCEPT ![e] = closeRet[e]]
  /\ UNCHANGED <<wpc, wkind, wres, rtake, got, cpc, closed, failed, peerGone, med, inbox, intake, exited,
                 closeRet, okBefore, endBefore, wLate, lateDeliv, anyClose>>

\* the Read takes a message ...
ReadTakeMsg(e) ==
  /\ rpc[e] = "begun" /\ inbox[e] # <<>>
  /\ (closed[e] => DrainAfterClose(e))                                      \* D1
  /\ rtake' = [rtake EXCEPT ![e] = <<"msg", Head(inbox[e])[1], Head(inbox[e])[2]>>]
  /\ inbox' = [inbox EXCEPT ![e] = Tail(@)]
  /\ rpc' = [rpc EXCEPT ![e] = "taken"]
  /\ UNCHANGED <<wpc, wkind, wres, nread, got, cpc, closed, failed, peerGone, med, intake, exited, hist>>

\* ... or the closed / failed signal, or the one report of the end of the peer's stream
ReadTakeErr(e) ==
  /\ rpc[e] = "begun"
  /\ \/ closed[e] /\ UNCHANGED intake
     \/ failed[e] /\ UNCHANGED intake
     \/ ~closed[e] /\ ~failed[e] /\ intake[e] = "errhand" /\ inbox[e] = <<>>
        /\ intake' = [intake EXCEPT ![e] = "dead"]                          \* D4
  /\ rtake' = [rtake EXCEPT ![e] = <<"err">>]
  /\ rpc' = [rpc EXCEPT ![e] = "taken"]
  /\ UNCHANGED <<wpc, wkind, wres, nread, got, cpc, closed, failed, peerGone, med, inbox, exited, hist>>

ReadEnd(e) ==
  /\ rpc[e] = "taken"
  /\ got' = [got EXCEPT ![e] = Append(@, rtake[e])]
  /\ lateDeliv' = [lateDeliv EXCEPT ![e] = @ \/ (rLate[e] /\ rtake[e][1] = "msg")]
  /\ rpc' = [rpc EXCEPT ![e] = "idle"] /\ rtake' = [rtake EXCEPT ![e] = <<"none">>]
  /\ UNCHANGED <<wpc, wkind, wres, nread, cpc, closed, failed, peerGone, med, inbox, intake, exited,
                 closeRet, okBefore, endBefore, wLate, rLate, anyClose>>

\* ---- Close ------------------------------------------------------------------
CloseBegin(e, c) ==
  /\ c \in Cs(e) /\ cpc[e][c] = "idle" /\ ~exited[e]
  /\ cpc' = [cpc EXCEPT ![e][c] = "begun"] /\ anyClose' = TRUE
  /\ UNCHANGED <<wpc, wkind, wres, rpc, rtake, nread, got, closed, failed, peerGone, med, inbox, intake, exited,
                 closeRet, okBefore, endBefore, wLate, rLate, lateDeliv>>

CloseDo(e, c) ==
  /\ cpc[e][c] = "begun"
  /\ cpc' = [cpc EXCEPT ![e][c] = "did"]
  /\ IF closed[e] THEN UNCHANGED <<closed, peerGone>>
     ELSE /\ closed' = [closed EXCEPT ![e] = TRUE]
          /\ peerGone' = [peerGone EXCEPT ![P(e)] = @ \/ Notify(e)]
  /\ UNCHANGED <<wpc, wkind, wres, rpc, rtake, nread, got, failed, med, inbox, intake, exited, hist>>

CloseEnd(e, c) ==
  /\ cpc[e][c] = "did"
  /\ cpc' = [cpc EXCEPT ![e][c] = "done"] /\ closeRet' = [closeRet EXCEPT ![e] = TRUE]
  /\ UNCHANGED <<wpc, wkind, wres, rpc, rtake, nread, got, closed, failed, peerGone, med, inbox, intake, exited,
                 okBefore, endBefore, wLate, rLate, lateDeliv, anyClose>>

\* stdio: the process whose transport was closed exits; the operating system closes its stdout
ProcessExit(e) ==
  /\ Class = "stdio" /\ closeRet[e] /\ ~exited[e]
  /\ rpc[e] = "idle" /\ \A w \in 1..WMax : wpc[e][w] \in {"idle", "done"}       \* no call is in flight when it exits
  /\ \A c \in 1..CMax : cpc[e][c] \in {"idle", "done"}
  /\ exited' = [exited EXCEPT ![e] = TRUE]
  /\ peerGone' = [peerGone EXCEPT ![P(e)] = TRUE]
  /\ UNCHANGED <<wpc, wkind, wres, rpc, rtake, nread, got, cpc, closed, failed, med, inbox, intake, hist>>

\* ---- next-state relation ----------------------------------------------------
Internal ==
  \/ \E e \in Ends : \E w \in 1..WMax : WriteSend(e, w)
  \/ \E e \in Ends : Pump(e) \/ PumpEof(e) \/ ReadTakeMsg(e) \/ ReadTakeErr(e)
  \/ \E e \in Ends : \E c \in 1..CMax : CloseDo(e, c)
Ending ==
  \/ \E e \in Ends : \E w \in 1..WMax : WriteEnd(e, w)
  \/ \E e \in Ends : ReadEnd(e)
  \/ \E e \in Ends : \E c \in 1..CMax : CloseEnd(e, c)
Beginning ==
  \/ \E e \in Ends : \E w \in 1..WMax : \E k \in KSet : WriteBegin(e, w, k)
  \/ \E e \in Ends : ReadBegin(e)
  \/ \E e \in Ends : \E c \in 1..CMax : CloseBegin(e, c)
  \/ \E e \in Ends : ProcessExit(e)
Next == Internal \/ Ending \/ Beginning
Spec == Init /\ [][Next]_vars
\* the SDK's own steps and the returns are fair; when the application calls, and whether the process exits, is not.
\* The state graph has no cycle (every step advances a thread or moves a message), so weak fairness of the
\* disjunction is as strong as weak fairness of every thread's step.
Fairness == WF_vars(Internal \/ Ending)
FairSpec == Spec /\ Fairness

-----------------------------------------------------------------------------
Msg == Ends \X (1..WMax)
TypeOK ==
  /\ \A e \in Ends : \A w \in 1..WMax : wpc[e][w] \in {"idle", "begun", "sent", "done"} /\ wres[e][w] \in {"none", "ok", "err"}
  /\ \A e \in Ends : rpc[e] \in {"idle", "begun", "taken"} /\ intake[e] \in {"run", "errhand", "dead"}
  /\ \A e \in Ends : \A i \in DOMAIN inbox[e] : inbox[e][i] \in Msg
  /\ \A e \in Ends : \A i \in DOMAIN med[e] : med[e][i] \in Msg
  /\ \A e \in Ends : Len(inbox[e]) <= ICap(e)

Delivered(e) == SelectSeq(got[e], LAMBDA r : r[1] = "msg")
DSet(e) == {<<Delivered(e)[i][2], Delivered(e)[i][3]>> : i \in DOMAIN Delivered(e)}
\* T1
NoDup == \A e \in Ends : \A i, j \in DOMAIN Delivered(e) : i # j => Delivered(e)[i] # Delivered(e)[j]
NoInvention == \A e \in Ends : \A i \in DOMAIN Delivered(e) :
                 Delivered(e)[i][2] = P(e) /\ wpc[P(e)][Delivered(e)[i][3]] # "idle"
InOrder == \A e \in Ends : \A i, j \in DOMAIN Delivered(e) :
             (Delivered(e)[j][3] \in endBefore[P(e)][Delivered(e)[i][3]]) => j < i
NoGap == \A e \in Ends : \A i \in DOMAIN Delivered(e) : \A x \in okBefore[P(e)][Delivered(e)[i][3]] :
             \E j \in 1..(i - 1) : Delivered(e)[j][3] = x
Fifo == NoDup /\ NoInvention /\ InOrder /\ NoGap
\* T2
ClosedStopsReads == \A e \in Ends : ~lateDeliv[e]
\* T3
InFlight(m) == \E e \in Ends :
   \/ \E i \in DOMAIN inbox[e] : inbox[e][i] = m
   \/ \E i \in DOMAIN med[e] : med[e][i] = m
   \/ rtake[e] = <<"msg", m[1], m[2]>>
ClosedStopsWrites == \A e \in Ends : \A w \in 1..WMax :
   wLate[e][w] => (wres[e][w] # "ok" /\ <<e, w>> \notin DSet(P(e)) /\ ~InFlight(<<e, w>>))
\* T4 (safety half)
ClosedForGood == [][\A e \in Ends : closed[e] => closed'[e]]_vars
\* T5
NoSpuriousError ==
  /\ \A e \in Ends : (\E i \in DOMAIN got[e] : got[e][i][1] = "err") => anyClose
  /\ \A e \in Ends : \A w \in 1..WMax : wres[e][w] = "err" => (anyClose \/ (OrphanRejected(e) /\ wkind[e][w] = "orph"))
\* T6
NoLoss == ~anyClose => \A e \in Ends : \A w \in 1..WMax :
            wres[e][w] = "ok" => (<<e, w>> \in DSet(P(e)) \/ InFlight(<<e, w>>))
\* what "blocked although nothing is owed" would look like: the reader waits, the message is there
NoLossLive == \A e \in Ends : \A w \in 1..WMax :
   (wres[e][w] = "ok" /\ ~anyClose /\ rpc[P(e)] = "begun") ~> (<<e, w>> \in DSet(P(e)) \/ anyClose \/ rpc[P(e)] = "idle")

\* L1
CloseReturns == \A e \in Ends : \A c \in 1..CMax : (cpc[e][c] = "begun") ~> (cpc[e][c] = "done")
\* L2: the local Close always unblocks; the peer's Close does when it is signalled (D5) and the end of the stream has
\* not been reported to an earlier Read already (D4)
ErrTaken(e) == \E i \in DOMAIN got[e] : got[e][i][1] = "err"
PeerCloseSeen(e) == IF Class = "stdio" THEN exited[P(e)] ELSE closeRet[P(e)] /\ Notify(P(e)) /\ EofMode(e) # "none"
CloseUnblocksRead == \A e \in Ends :
   (rpc[e] # "idle" /\ (closeRet[e] \/ (PeerCloseSeen(e) /\ ~ErrTaken(e)))) ~> (rpc[e] = "idle")
\* L3
CloseUnblocksWrite == \A e \in Ends : \A w \in 1..WMax :
   (wpc[e][w] = "begun" /\ (closeRet[e] \/ closeRet[P(e)])) ~> (wpc[e][w] = "done")
\* a Write that is not blocked by the peer's full hand returns (no lost wake-up)
WriteReturns == \A e \in Ends : \A w \in 1..WMax : (wpc[e][w] = "sent") ~> (wpc[e][w] = "done")
\* L1-L3 and the live half of T6 as invariants of the states in which the SDK has nothing left to do
\* (cheap on large configurations; equivalent because the graph is acyclic)
AtRest == ~ENABLED (Internal \/ Ending)
RestClose == AtRest => \A e \in Ends : \A c \in 1..CMax : cpc[e][c] \in {"idle", "done"}
RestRead == AtRest => \A e \in Ends : rpc[e] # "idle" => ~(closeRet[e] \/ (PeerCloseSeen(e) /\ ~ErrTaken(e)))
RestWrite == AtRest => \A e \in Ends : \A w \in 1..WMax :
               /\ wpc[e][w] # "sent"
               /\ wpc[e][w] = "begun" => ~(closeRet[e] \/ closeRet[P(e)])
RestNoLoss == (AtRest /\ ~anyClose) => \A e \in Ends : \A w \in 1..WMax :
               (wres[e][w] = "ok" /\ rpc[P(e)] = "begun") => <<e, w>> \in DSet(P(e))
\* all four at once (ENABLED is evaluated once per state)
RestAll == ENABLED (Internal \/ Ending) \/
  /\ \A e \in Ends : \A c \in 1..CMax : cpc[e][c] \in {"idle", "done"}
  /\ \A e \in Ends : rpc[e] # "idle" => ~(closeRet[e] \/ (PeerCloseSeen(e) /\ ~ErrTaken(e)))
  /\ \A e \in Ends : \A w \in 1..WMax : wpc[e][w] # "sent" /\ (wpc[e][w] = "begun" => ~(closeRet[e] \/ closeRet[P(e)]))
  /\ ~anyClose => \A e \in Ends : \A w \in 1..WMax : (wres[e][w] = "ok" /\ rpc[P(e)] = "begun") => <<e, w>> \in DSet(P(e))
=============================================================================
