SPECIFICATION HSpec
CONSTANTS
  Eras = {"legacy", "modern"}
  D = 2
  Fams = {"f0", "fd"}
  Clones = {"base", "attrs", "group"}
  Reqs = {"r1", "r2"}
  SetLevels <- AllSet
  ReqLevels <- AllReq
  DirectLevels <- AllSet
  Slog <- SlogAll
  Ticks = {1, 2, 3}
  MaxFlight = 3
  Race = TRUE
  AsIs = TRUE
  MaxLen = 40
INVARIANTS TypeOK InvNoLeak InvComplete InvLevel InvSpacing InvEnabled InvDirect Export
CHECK_DEADLOCK FALSE
