------------------------- MODULE ConnNotifyProof -------------------------
(* TLAPS proof that the safety core of ConnNotify.tla holds for EVERY finite set of senders, every MaxCalls and    *)
(* either admission rule: the transport is closed only when the connection is idle and shutting down, it stays    *)
(* idle afterwards, and the epilogue of updateInFlight never misses the idle moment.  (TLC checks the same for 3   *)
(* senders, Apalache discharges the inductive step for 4; this proof removes the bound on the parameters.)        *)
EXTENDS ConnNotify, FiniteSetTheorems, TLAPS

ASSUME SendersFinite == IsFiniteSet(Senders)
ASSUME MaxCallsNat == MaxCalls \in Nat

PCs == {"idle", "wcheck", "inwriter", "ndone", "stopped"}
InF == {s \in Senders : spc[s] \in {"wcheck", "inwriter", "ndone"}}

PInv == /\ calls \in Nat /\ outNotif \in Nat
        /\ closing \in BOOLEAN /\ transportClosed \in BOOLEAN /\ done \in BOOLEAN /\ closeRet \in BOOLEAN
        /\ spc \in [Senders -> PCs]
        /\ outNotif = Cardinality(InF)
        /\ (transportClosed => closing /\ calls = 0 /\ outNotif = 0)
        /\ (closing /\ calls = 0 /\ outNotif = 0 => transportClosed)
        /\ (done => transportClosed)
        /\ (closeRet => done)

LEMMA InFFinite == IsFiniteSet(InF)
  BY SendersFinite, FS_Subset DEF InF

LEMMA InitInv == Init => PInv
  <1> SUFFICES ASSUME Init PROVE PInv OBVIOUS
  <1>1 InF = {} BY DEF Init, InF
  <1>2 Cardinality(InF) = 0 BY <1>1, FS_EmptySet
  <1>3 calls \in Nat BY MaxCallsNat DEF Init
  <1> QED BY <1>2, <1>3 DEF Init, PInv, PCs

LEMMA StepInv == PInv /\ [Next]_vars => PInv'
  <1> SUFFICES ASSUME PInv, [Next]_vars PROVE PInv' OBVIOUS
  <1> USE DEF PInv, PCs
  <1>f IsFiniteSet(InF) BY InFFinite
  <1>1 ASSUME NEW s \in Senders, NAdmit(s) PROVE PInv'
    <2>1 CASE Admitted /\ ~done
      <3>1 InF' = InF \cup {s} BY <1>1, <2>1 DEF NAdmit, InF
      <3>2 s \notin InF BY <1>1 DEF NAdmit, InF
      <3>3 Cardinality(InF') = Cardinality(InF) + 1 BY <3>1, <3>2, <1>f, FS_AddElement
      <3>4 ~transportClosed BY <2>1 DEF Admitted, Idle
      <3> QED BY <1>1, <2>1, <3>3, <3>4 DEF NAdmit
    <2>2 CASE ~(Admitted /\ ~done)
      <3>1 InF' = InF BY <1>1, <2>2 DEF NAdmit, InF
      <3> QED BY <1>1, <2>2, <3>1 DEF NAdmit
    <2> QED BY <2>1, <2>2
  <1>2 ASSUME NEW s \in Senders, NWCheck(s) PROVE PInv'
    <2>1 InF' = InF BY <1>2 DEF NWCheck, InF
    <2> QED BY <1>2, <2>1 DEF NWCheck
  <1>3 ASSUME NEW s \in Senders, NWriterReturn(s) PROVE PInv'
    <2>1 InF' = InF BY <1>3 DEF NWriterReturn, InF
    <2> QED BY <1>3, <2>1 DEF NWriterReturn
  <1>4 ASSUME NEW s \in Senders, NDone(s) PROVE PInv'
    <2>1 InF' = InF \ {s} BY <1>4 DEF NDone, InF
    <2>2 s \in InF BY <1>4 DEF NDone, InF
    <2>3 Cardinality(InF') = Cardinality(InF) - 1 BY <2>1, <2>2, <1>f, FS_RemoveElement
    <2>4 Cardinality(InF) \in Nat /\ Cardinality(InF) # 0 BY <2>2, <1>f, FS_CardinalityType, FS_EmptySet
    <2>5 outNotif - 1 \in Nat BY <2>4
    <2>6 ~transportClosed BY <2>4
    <2> QED BY <1>4, <2>3, <2>4, <2>5, <2>6 DEF NDone, Epi
  <1>5 CASE CallEnds
    <2>1 InF' = InF BY <1>5 DEF CallEnds, InF
    <2>2 ~transportClosed /\ calls - 1 \in Nat BY <1>5 DEF CallEnds
    <2> QED BY <1>5, <2>1, <2>2 DEF CallEnds, Epi
  <1>6 CASE SetClosing
    <2>1 InF' = InF BY <1>6 DEF SetClosing, InF
    <2> QED BY <1>6, <2>1 DEF SetClosing, Epi
  <1>7 CASE ReaderExit
    <2>1 InF' = InF BY <1>7 DEF ReaderExit, InF
    <2> QED BY <1>7, <2>1 DEF ReaderExit
  <1>8 CASE CloseReturns
    <2>1 InF' = InF BY <1>8 DEF CloseReturns, InF
    <2> QED BY <1>8, <2>1 DEF CloseReturns
  <1>9 CASE UNCHANGED vars
    <2>1 InF' = InF BY <1>9 DEF vars, InF
    <2> QED BY <1>9, <2>1 DEF vars
  <1> QED BY <1>1, <1>2, <1>3, <1>4, <1>5, <1>6, <1>7, <1>8, <1>9 DEF Next

THEOREM Safety == Spec => []PInv
  <1>1 Init /\ [][Next]_vars => []PInv BY InitInv, StepInv, PTL
  <1> QED BY <1>1 DEF Spec

\* the property-level statement: closed only when idle and shutting down - in every reachable state, for ever
COROLLARY ClosedOnlyWhenIdleAlways == Spec => [](transportClosed => closing /\ calls = 0 /\ outNotif = 0)
  <1>1 PInv => (transportClosed => closing /\ calls = 0 /\ outNotif = 0) BY DEF PInv
  <1> QED BY <1>1, Safety, PTL
=============================================================================
