SPECIFICATION TSpec
CONSTANTS
  MaxMw = 8
  MaxReq = 8
  Behs = {"pass", "short", "tagp", "tagr", "fail"}
  AddLens = {1, 2, 3}
  Eras = {"legacy", "modern"}
  Kinds = {"cc", "cn", "sc", "sn"}
  RegTypes = {"A", "B"}
  Nest = TRUE
CONSTRAINT TMark
POSTCONDITION TAccepted
CHECK_DEADLOCK FALSE
