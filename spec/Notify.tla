------------------------------- MODULE Notify -------------------------------
(* Property C18 — change notifications are never lost, reach only entitled    *)
(* sessions, beat caches (DESIGN.md 5.8 / section 6 C18).                     *)
(*                                                                            *)
(* One mcp.Server, its debounced list-changed fan-out, resource-updated       *)
(* fan-out, sessions of both protocol eras, and the client result caches.     *)
(*                                                                            *)
(* Server side, transcribed from mcp/server.go:                               *)
(*   changeAndNotify  (700-724)  Change(k): the mutation and the timer        *)
(*                               create / Reset / Stop happen under s.mu.     *)
(*   time.AfterFunc              TimerFire(n): the timer expires; its         *)
(*                               callback is started but has not yet taken    *)
(*                               s.mu ("firedPending")                        *)
(*   notifySessions   (733-762)  CallbackRun(n): under s.mu the reference is  *)
(*                               cleared and the recipients are snapshotted   *)
(*                               (legacy sessions + *ChangeSubscriptions)     *)
(*   ResourceUpdated (1125-1151) Updated(u)                                   *)
(*   subscribe/unsubscribe/subscriptionsListen (1153-1263), disconnect (1342) *)
(*   subscriptionsListen over SEVERAL URIs (1245-1263): Listen(s, q, rej) is  *)
(*       ONE request naming the URIs q in this order; the SubscribeHandler    *)
(*       (user code) accepts or rejects each URI (rej: the environment's      *)
(*       choice).  ListenStep(s) is one turn of the loop: an accepted URI is  *)
(*       entered into resourceSubscriptions at once, the first rejected one   *)
(*       fails the whole request and the deferred Server.unsubscribe of every *)
(*       URI entered so far runs; only when all were accepted is the request  *)
(*       acknowledged and the session subscribed.                             *)
(* The pending state of notification n is  <<ref[n], cbs[n]>>:                *)
(*   none = <<"nil",0>>, armed = <<"armed",_>>, firedPending = cbs[n] > 0.    *)
(* A Reset that lands in the firedPending window re-arms a timer whose        *)
(* reference the callback then drops: such a timer still fires (orph).        *)
(*                                                                            *)
(* Client side, transcribed from mcp/client.go + mcp/cache.go:                *)
(*   ListX / ReadResource (1233-1366): ListStart (cache get), ServeList,      *)
(*       Read (the reader hands the response to the caller), CachePut — the   *)
(*       FILL IS TWO STEPS (response arrives; put happens after the call      *)
(*       returned from the middleware chain)                                  *)
(*   call*ChangedHandler (1463-1502): Invalidate, then UserHandler            *)
(* Responses and notifications to one session share one FIFO (chan).          *)
(*                                                                            *)
(* Time.  `now` counts ticks, the debounce delay is D ticks.  With D = 0 and  *)
(* MaxTime = 0 a timer may fire at any moment after it was armed (untimed     *)
(* over-approximation, used for the exhaustive design check).  With Stepwise =     *)
(* TRUE the environment acts only when the SDK is quiescent (the discipline   *)
(* of the scenario harness: synctest.Wait() after every action); the only     *)
(* exception is the race step TickRace(k, d): time advances to an instant at     *)
(* which a timer is due and a change is made at that same instant.            *)
(*                                                                            *)
(* Feature sets and how the listChanged capability comes about                *)
(* (Server.capabilities 615-662, shouldSendListChangedNotification 805-832,   *)
(* allowedSubscriptions 1282-1298).  size[k] is the number of features of     *)
(* kind k that are registered; a change has a DIRECTION:                      *)
(*   "add"   one feature more (AddTool ...),                                  *)
(*   "rm"    one feature less (RemoveTools(x)); at size 1 it EMPTIES the set, *)
(*   "clear" every feature of the kind is removed by one call                 *)
(*           (RemoveTools(x, y, ...)),                                        *)
(*   "mod"   an addition, or the removal of a feature that an earlier "mod"   *)
(*           added (the harness picks): the set stays non-empty and size[k]   *)
(*           is not moved (configurations use either "mod" alone - the sets   *)
(*           never become empty - or the exact directions).                   *)
(* CapMode[n] says where the capability for notification n comes from:        *)
(*   "fixed"    advertised whatever the sets contain: an explicit             *)
(*              ServerOptions.Capabilities entry with listChanged, or the     *)
(*              HasTools / HasPrompts / HasResources options;                 *)
(*   "inferred" nothing configured: advertised (with listChanged) exactly     *)
(*              while a feature of one of its kinds is registered;            *)
(* n \in CapOff is the explicit entry with listChanged = false.               *)
(* What a session is TOLD is the value at its handshake (initialize result /  *)
(* the server's answer to its subscriptions/listen request): told[s][n].      *)
(* A session that was told listChanged is owed the notifications from then on *)
(* - also for the change that empties the set, and for those after it - and a *)
(* session that was not told is owed none (a legacy one may still be sent     *)
(* them).  The server itself decides on the CONFIGURED capability (SendGate =  *)
(* "configured": everything but an explicit listChanged = false sends);       *)
(* SendGate = "effective" is the defect class "decide on the capability as it *)
(* would be advertised now, after the change" (sensitivity witness only).     *)
EXTENDS Integers, Sequences, FiniteSets, TLC

CONSTANTS
  Sessions,     \* session names
  Legacy,       \* subset of Sessions speaking a pre-2026-07-28 protocol; the others are "modern"
  InitOn,       \* sessions already connected in the initial state
  InitSub,      \* subset of InitOn: sessions already subscribed to every URI in the initial state
  Kinds,        \* feature kinds ("tools", "prompts", "resources", "templates")
  NotifOf,      \* kind -> list-changed notification name
  Uris,         \* subscribable resources
  Want,         \* modern session -> notification names it listens for (its *ListChangedHandler options)
  CapOff,       \* notification names whose listChanged capability is disabled
  CapMode,      \* notification name -> "fixed" | "inferred": where its capability comes from (unless in CapOff)
  InitSize,     \* kind -> number of features registered when the server starts
  MaxSize,      \* bound on the size of a feature set
  Dirs,         \* directions of change the environment uses: {"mod"}, or a subset of {"add", "rm", "clear"}
  SendGate,     \* "configured" = the code; "effective" = defect class (the timer is armed only if the capability would be
                \* advertised after the change), used by the sensitivity witness only
  TTLPos,       \* results carry a positive TTL (TRUE) or ttl 0 (FALSE)
  D, MaxTime,   \* debounce delay in ticks; last instant
  MaxChanges, MaxUpdates, MaxCalls,
  GenCheck,     \* repair switch: TRUE = a fill is dropped when the cache was invalidated after the request was issued
                \* (methodCache.gen / putIfCurrent, f71bafa); FALSE = the behaviour before the repair (unconditional put)
  ColdBump,     \* TRUE = the code: an invalidation bumps the generation of the method cache whether or not anything is cached
                \* (methodCache.invalidate / invalidateKey); FALSE = defect class "nothing cached, nothing to do": the bump is
                \* skipped when the list cache of the kind holds no page / the read cache holds nothing under the URI, so a
                \* fill that is in flight from an EMPTY cache (first call ever, or first call after an invalidation) across
                \* the notification is put afterwards (sensitivity witnesses only)
  ListenOwns,   \* repair switch: TRUE = a finished subscriptions/listen request removes only the list-changed
                \* subscriptions it registered itself (5eb4542); FALSE = before the repair it removed the session's
                \* entries from all three maps, whichever listen request had made them
  ResubRace,    \* environment: a session may subscribe to a URI again while the clean-up of its cancelled listen
                \* stream for that URI is still pending on the server
  NPages,       \* pages of a feature list (a list call walks them; the cache is keyed by cursor, i.e. by page)
  ModernUnsub,  \* environment: modern sessions may unsubscribe a URI
  ForeignUnsub, \* environment: legacy sessions may unsubscribe a URI they are not subscribed to
  Listeners,    \* environment: modern sessions that may send ONE subscriptions/listen request naming several URIs
  MaxListens,   \* ... at most this many such requests in a behaviour
  FailUndo,     \* TRUE = a listen request that fails at its k-th URI unsubscribes the k-1 URIs it had entered (the code);
                \* FALSE = it leaves them in resourceSubscriptions (defect class, used by the sensitivity witness only)
  Stepwise,          \* environment acts only at SDK quiescence (scenario discipline)
  Gates,        \* environment may hold client-side gates ...
  GateNames,    \* ... these: subset of {"inv", "usr", "put", "unsub"}
  ClientFirst   \* reduction: server and environment wait until the clients have drained their channels

VARIABLES
  now,
  ver,      \* Items -> version (number of changes of a kind / content version of a URI)
  size,     \* kind -> number of features registered
  ref,      \* notif -> "nil" | "armed" | "idle": the timer referenced by pendingNotifications[n]
  refDue,   \* notif -> instant at which the referenced timer fires (0 unless armed)
  orph,     \* notif -> bag (instant -> count) of armed timers whose reference was dropped
  cbs,      \* notif -> callbacks started and waiting for s.mu
  sess,     \* session -> "new" | "on" | "closed"
  lsub,     \* notif -> modern sessions in the server's *ChangeSubscriptions map
  rsub,     \* uri -> sessions in the server's resourceSubscriptions[uri]
  usub,     \* session -> URIs it is subscribed to, as the client sees it (the truth for entitlement)
  pun,      \* <<session, uri>>: listen streams the client has cancelled whose server-side clean-up has not run yet
            \* (and URIs entered by a listen request that failed afterwards, until its deferred clean-up has run)
  lst,      \* session -> its subscriptions/listen request over several URIs: [st, uris, rej, n]
            \*   st "idle" none; "run" the server is in the loop, uris[1..n] are entered; "open" acknowledged, stream parked
  chan,     \* session -> FIFO of messages server -> client
  nq,       \* session -> notifications read, waiting for the in-order dispatcher
  hnd,      \* session -> notification being handled: [stage, msg]
  cache,    \* session -> item -> page -> cached version, -1 = empty
  cgen,     \* session -> item -> generation of the method cache holding the item (counts invalidations)
  call,     \* session -> slot -> list/read call
  handled,  \* session -> item -> newest version announced by a notification its user handler has seen
  gates,    \* held gates: <<"inv"|"usr"|"put"|"unsub", session>>
  race,     \* <<kind, direction>> of the change that is racing the timers of the current instant (<<>> = none)
  budget,   \* [chg, upd] counters
  told,     \* ghost: session -> notif -> the server told the session at its handshake that it sends n (listChanged)
  ent,      \* ghost: session -> notif -> entitled at the last change of notif and ever since
  got,      \* ghost: session -> notif -> its user handler saw a notification sent after the last change
  bad       \* ghost: names of the immediate clauses that a send violated

vars == <<now, ver, ref, refDue, orph, cbs, sess, lsub, rsub, usub, pun, chan, nq, hnd, cache, cgen, call, handled,
          gates, race, budget, ent, got, bad, lst, size, told>>

ASSUME Dirs = {"mod"} \/ Dirs \subseteq {"add", "rm", "clear"}
ASSUME SendGate \in {"configured", "effective"}

Modern == Sessions \ Legacy
Notifs == {NotifOf[k] : k \in Kinds}
KindsOf(n) == {k \in Kinds : NotifOf[k] = n}
Items == Kinds \cup Uris
ItemsOf(t) == IF t \in Uris THEN {t} ELSE KindsOf(t)
CapOn(n) == n \notin CapOff
Instants == 0..(MaxTime + D)
Slots == 1..MaxCalls
Max(a, b) == IF a >= b THEN a ELSE b

None == [stage |-> "none", msg |-> <<>>]
Pages == 1..NPages
PagesOf(i) == IF i \in Uris THEN {1} ELSE Pages
NoVal == [p \in Pages |-> -1]
Idle == [st |-> "idle", item |-> "", page |-> 0, gen |-> 0, val |-> NoVal, hs |-> -1, hit |-> FALSE]
OnSessions == {s \in Sessions : sess[s] = "on"}
Range(q) == {q[i] : i \in DOMAIN q}
NoListen == [st |-> "idle", uris |-> <<>>, rej |-> {}, n |-> 0]
\* the URI lists a listen request may carry: every non-empty sequence of distinct URIs
UriSeqs == {q \in UNION {[1..n -> Uris] : n \in 1..Cardinality(Uris)} : \A i, j \in DOMAIN q : i # j => q[i] # q[j]}
\* the server is still working on a listen request of s that names u (neither acknowledged nor failed yet)
Pending(s, u) == lst[s].st = "run" /\ u \in Range(lst[s].uris)

\* the listChanged capability for n as the server advertises it while its feature sets have the sizes sz
Adv(n, sz) == CapOn(n) /\ (CapMode[n] = "fixed" \/ \E k \in KindsOf(n) : sz[k] > 0)

\* entitlement as the protocol defines it (what the client asked for and was granted), not what the
\* server's maps happen to contain: the session was told at its handshake that the server sends n, and a
\* 2026-07-28 session asked for it
EntLC(s, n) == sess[s] = "on" /\ told[s][n] /\ (s \in Legacy \/ n \in Want[s])
\* a legacy session that was not told may still be sent n (it is not owed it)
MaySend(s, n) == sess[s] = "on" /\ (s \in Legacy \/ EntLC(s, n))
EntUp(s, u) == sess[s] = "on" /\ u \in usub[s]

Init ==
  /\ now = 0
  /\ ver = [i \in Items |-> 0]
  /\ size = InitSize
  /\ told = [s \in Sessions |-> [n \in Notifs |-> s \in InitOn /\ Adv(n, InitSize)]]
  /\ ref = [n \in Notifs |-> "nil"]
  /\ refDue = [n \in Notifs |-> 0]
  /\ orph = [n \in Notifs |-> [d \in Instants |-> 0]]
  /\ cbs = [n \in Notifs |-> 0]
  /\ sess = [s \in Sessions |-> IF s \in InitOn THEN "on" ELSE "new"]
  /\ lsub = [n \in Notifs |-> {s \in InitOn \cap Modern : n \in Want[s] /\ Adv(n, InitSize)}]
  /\ rsub = [u \in Uris |-> InitSub]
  /\ usub = [s \in Sessions |-> IF s \in InitSub THEN Uris ELSE {}]
  /\ pun = {}
  /\ chan = [s \in Sessions |-> <<>>]
  /\ nq = [s \in Sessions |-> <<>>]
  /\ hnd = [s \in Sessions |-> None]
  /\ cache = [s \in Sessions |-> [i \in Items |-> NoVal]]
  /\ cgen = [s \in Sessions |-> [i \in Items |-> 0]]
  /\ call = [s \in Sessions |-> [c \in Slots |-> Idle]]
  /\ handled = [s \in Sessions |-> [i \in Items |-> -1]]
  /\ gates = {}
  /\ race = <<>>
  /\ budget = [chg |-> 0, upd |-> 0, lst |-> 0]
  /\ lst = [s \in Sessions |-> NoListen]
  /\ ent = [s \in Sessions |-> [n \in Notifs |-> FALSE]]
  /\ got = [s \in Sessions |-> [n \in Notifs |-> FALSE]]
  /\ bad = {}

\* ---------------------------------------------------------------------------
\* what the SDK can still do on its own (nothing of this is held by a gate)

TimerDue(n) == (ref[n] = "armed" /\ refDue[n] <= now) \/ (\E d \in Instants : orph[n][d] > 0 /\ d <= now)
TimerArmed(n) == ref[n] = "armed" \/ \E d \in Instants : orph[n][d] > 0
Held(g, s) == <<g, s>> \in gates

SdkEnabled ==
  \/ \E n \in Notifs : TimerDue(n) \/ cbs[n] > 0
  \/ \E x \in pun : ~Held("unsub", x[1])
  \/ \E s \in Sessions : lst[s].st = "run"
  \/ \E s \in Sessions :
        \/ chan[s] # <<>>
        \/ (nq[s] # <<>> /\ hnd[s].stage = "none" /\ ~Held("inv", s))
        \/ (hnd[s].stage = "inval" /\ ~Held("usr", s))
        \/ \E c \in Slots : call[s][c].st = "req" \/ (call[s][c].st = "arrived" /\ ~Held("put", s))

ClientBusy == \E s \in Sessions : chan[s] # <<>> \/ nq[s] # <<>> \/ hnd[s].stage # "none"
SrvOK == ~ClientFirst \/ ~ClientBusy
EnvOK == race = <<>> /\ (~Stepwise \/ ~SdkEnabled) /\ SrvOK
InFlight(s) == chan[s] # <<>> \/ nq[s] # <<>> \/ hnd[s].stage # "none" \/ lst[s].st = "run"
               \/ \E c \in Slots : call[s][c].st \in {"req", "sent", "arrived"}

\* ---------------------------------------------------------------------------
\* server: feature changes and the debounce timer (changeAndNotify)

\* the change is a change: removing nothing is none (changeAndNotify's change() reports false)
CanChange(k, d) ==
  /\ d \in Dirs
  /\ CASE d = "mod" -> size[k] > 0
       [] d = "add" -> size[k] < MaxSize
       [] d = "rm" -> size[k] > 0
       [] d = "clear" -> size[k] > 1     \* at size 1 it is "rm"
NewSize(k, d) == CASE d = "mod" -> size[k] [] d = "add" -> size[k] + 1 [] d = "rm" -> size[k] - 1 [] d = "clear" -> 0

DoChange(k, d) ==
  LET n == NotifOf[k]
      sz == [size EXCEPT ![k] = NewSize(k, d)]
      \* shouldSendListChangedNotification, evaluated under s.mu after the mutation
      send == IF SendGate = "configured" THEN CapOn(n) ELSE Adv(n, sz) IN
  /\ ver' = [ver EXCEPT ![k] = @ + 1]
  /\ size' = sz
  /\ budget' = [budget EXCEPT !.chg = @ + 1]
  /\ IF send
       THEN IF OnSessions = {}
              THEN /\ ref' = [ref EXCEPT ![n] = "nil"]       \* Stop and forget; a callback already started still runs
                   /\ refDue' = [refDue EXCEPT ![n] = 0]
              ELSE /\ ref' = [ref EXCEPT ![n] = "armed"]     \* AfterFunc, or Reset of the referenced timer
                   /\ refDue' = [refDue EXCEPT ![n] = now + D]
       ELSE UNCHANGED <<ref, refDue>>
  /\ ent' = [s \in Sessions |-> [ent[s] EXCEPT ![n] = EntLC(s, n)]]
  /\ got' = [s \in Sessions |-> [got[s] EXCEPT ![n] = FALSE]]

Change(k, d) ==
  /\ EnvOK /\ budget.chg < MaxChanges /\ CanChange(k, d)
  /\ DoChange(k, d)
  /\ UNCHANGED <<told, now, orph, cbs, sess, lsub, rsub, usub, pun, chan, nq, hnd, cache, cgen, call, handled, gates, race, bad, lst>>

\* the change made at an instant at which a timer is due: it interleaves with TimerFire / CallbackRun
RaceChange ==
  /\ race # <<>> /\ SrvOK
  /\ DoChange(race[1], race[2])
  /\ race' = <<>>
  /\ UNCHANGED <<told, now, orph, cbs, sess, lsub, rsub, usub, pun, chan, nq, hnd, cache, cgen, call, handled, gates, bad, lst>>

TimerFire(n) ==
  /\ SrvOK /\ ref[n] = "armed" /\ refDue[n] <= now
  /\ ref' = [ref EXCEPT ![n] = "idle"]
  /\ refDue' = [refDue EXCEPT ![n] = 0]
  /\ cbs' = [cbs EXCEPT ![n] = @ + 1]
  /\ UNCHANGED <<size, told, now, ver, orph, sess, lsub, rsub, usub, pun, chan, nq, hnd, cache, cgen, call, handled, gates, race, budget, ent, got, bad, lst>>

OrphFire(n) ==
  /\ SrvOK
  /\ \E d \in Instants :
        /\ orph[n][d] > 0 /\ d <= now
        /\ orph' = [orph EXCEPT ![n][d] = @ - 1]
  /\ cbs' = [cbs EXCEPT ![n] = @ + 1]
  /\ UNCHANGED <<size, told, now, ver, ref, refDue, sess, lsub, rsub, usub, pun, chan, nq, hnd, cache, cgen, call, handled, gates, race, budget, ent, got, bad, lst>>

NMsg(t) == [t |-> "n", topic |-> t, snap |-> ver, slot |-> 0, val |-> 0]

CallbackRun(n) ==
  LET R == (OnSessions \cap Legacy) \cup lsub[n] IN
  /\ SrvOK /\ cbs[n] > 0
  /\ cbs' = [cbs EXCEPT ![n] = @ - 1]
  /\ ref' = [ref EXCEPT ![n] = "nil"]
  /\ refDue' = [refDue EXCEPT ![n] = 0]
  /\ orph' = IF ref[n] = "armed" THEN [orph EXCEPT ![n][refDue[n]] = @ + 1] ELSE orph
  /\ chan' = [s \in Sessions |-> IF s \in R THEN Append(chan[s], NMsg(n)) ELSE chan[s]]
  /\ bad' = bad \cup (IF \E s \in R : ~MaySend(s, n) THEN {"OnlyEntitled"} ELSE {})
                \cup (IF ~CapOn(n) /\ R # {} THEN {"NoneWhenDisabled"} ELSE {})
  /\ UNCHANGED <<size, told, now, ver, sess, lsub, rsub, usub, pun, nq, hnd, cache, cgen, call, handled, gates, race, budget, ent, got, lst>>

\* server: ResourceUpdated(u) — the content changed and the server author says so
Updated(u) ==
  LET R == rsub[u]
      m == [t |-> "n", topic |-> u, snap |-> [ver EXCEPT ![u] = @ + 1], slot |-> 0, val |-> 0] IN
  /\ EnvOK /\ budget.upd < MaxUpdates
  /\ ver' = [ver EXCEPT ![u] = @ + 1]
  /\ budget' = [budget EXCEPT !.upd = @ + 1]
  /\ chan' = [s \in Sessions |-> IF s \in R THEN Append(chan[s], m) ELSE chan[s]]
  \* exactly the subscribed sessions; a session whose unsubscribe the server is still processing may get it, and so
  \* may one whose listen request naming u the server has neither acknowledged nor failed yet
  /\ bad' = bad \cup (IF {s \in Sessions : EntUp(s, u)} \subseteq R
                           /\ R \subseteq {s \in Sessions : EntUp(s, u) \/ <<s, u>> \in pun \/ Pending(s, u)}
                        THEN {} ELSE {"UpdatedExactlySubscribers"})
  /\ UNCHANGED <<size, told, now, ref, refDue, orph, cbs, sess, lsub, rsub, usub, pun, nq, hnd, cache, cgen, call, handled, gates, race, ent, got, lst>>

\* ---------------------------------------------------------------------------
\* sessions

\* Server.Connect + Client.Connect; a modern client opens its subscriptions/listen stream for the
\* notifications it has handlers for, the server grants those whose capability it advertises at that moment
\* (allowedSubscriptions asks Server.capabilities); a legacy session reads the same in the initialize result
Connect(s) ==
  /\ EnvOK /\ sess[s] = "new"
  /\ sess' = [sess EXCEPT ![s] = "on"]
  /\ told' = [told EXCEPT ![s] = [n \in Notifs |-> Adv(n, size)]]
  /\ lsub' = IF s \in Modern THEN [n \in Notifs |-> IF n \in Want[s] /\ Adv(n, size) THEN lsub[n] \cup {s} ELSE lsub[n]]
             ELSE lsub
  /\ UNCHANGED <<size, now, ver, ref, refDue, orph, cbs, rsub, usub, pun, chan, nq, hnd, cache, cgen, call, handled, gates, race, budget, ent, got, bad, lst>>

\* ClientSession.Close, the server notices and runs disconnect (and the listen handlers' clean-up)
Close(s) ==
  /\ EnvOK /\ sess[s] = "on"
  /\ Stepwise => ({g \in gates : g[2] = s} = {} /\ ~InFlight(s))
  /\ sess' = [sess EXCEPT ![s] = "closed"]
  /\ lst' = [lst EXCEPT ![s] = NoListen]
  /\ lsub' = [n \in Notifs |-> lsub[n] \ {s}]
  /\ rsub' = [u \in Uris |-> rsub[u] \ {s}]
  /\ usub' = [usub EXCEPT ![s] = {}]
  /\ pun' = {x \in pun : x[1] # s}
  /\ chan' = [chan EXCEPT ![s] = <<>>]
  /\ nq' = [nq EXCEPT ![s] = <<>>]
  /\ hnd' = [hnd EXCEPT ![s] = None]
  /\ call' = [call EXCEPT ![s] = [c \in Slots |-> IF call[s][c].st \in {"req", "sent", "arrived"}
                                                     THEN [call[s][c] EXCEPT !.st = "failed"] ELSE call[s][c]]]
  /\ gates' = {g \in gates : g[2] # s}
  /\ ent' = [ent EXCEPT ![s] = [n \in Notifs |-> FALSE]]
  /\ told' = [told EXCEPT ![s] = [n \in Notifs |-> FALSE]]
  /\ UNCHANGED <<size, now, ver, ref, refDue, orph, cbs, cache, cgen, handled, race, budget, got, bad>>

\* resources/subscribe (legacy) or a subscriptions/listen stream for the URI (modern)
Subscribe(s, u) ==
  /\ EnvOK /\ sess[s] = "on" /\ u \notin usub[s] /\ ~Pending(s, u)
  /\ ResubRace \/ <<s, u>> \notin pun
  /\ usub' = [usub EXCEPT ![s] = @ \cup {u}]
  /\ rsub' = [rsub EXCEPT ![u] = @ \cup {s}]
  /\ UNCHANGED <<size, told, now, ver, ref, refDue, orph, cbs, sess, lsub, pun, chan, nq, hnd, cache, cgen, call, handled, gates, race, budget, ent, got, bad, lst>>

\* resources/unsubscribe (legacy): the server's handler removes the entry.
\* Cancellation of the URI's listen stream (modern): ClientSession.Unsubscribe returns at once; the server
\* processes the cancellation asynchronously (FinishUnsub) and its UnsubscribeHandler (user code) may be slow:
\* gate "unsub".
Unsubscribe(s, u) ==
  \* a legacy client may send resources/unsubscribe for a URI it is not subscribed to (a no-op for everybody);
  \* ClientSession.Unsubscribe of a 2026-07-28 session does nothing then
  /\ EnvOK /\ sess[s] = "on" /\ (u \in usub[s] \/ (s \in Legacy /\ ForeignUnsub))
  /\ s \in Modern => ModernUnsub
  \* the URIs of a several-URI listen stream can only be given up together (Unlisten)
  /\ u \notin Range(lst[s].uris)
  /\ usub' = [usub EXCEPT ![s] = @ \ {u}]
  /\ IF s \in Modern
       THEN pun' = pun \cup {<<s, u>>} /\ UNCHANGED rsub
       ELSE rsub' = [rsub EXCEPT ![u] = @ \ {s}] /\ UNCHANGED pun
  /\ UNCHANGED <<size, told, now, ver, ref, refDue, orph, cbs, sess, lsub, chan, nq, hnd, cache, cgen, call, handled, gates, race, budget, ent, got, bad, lst>>

\* the cancelled listen handler returns: its deferred clean-up deletes resourceSubscriptions[u][s] — whichever
\* listen stream owns that entry by now.  The list-changed entries of the session belong to its Connect-time
\* listen request: since 5eb4542 a URI listen leaves them alone (ListenOwns); before, it deleted the session from
\* ALL THREE *ChangeSubscriptions maps.
FinishUnsub(s, u) ==
  /\ <<s, u>> \in pun /\ ~Held("unsub", s)
  /\ pun' = pun \ {<<s, u>>}
  /\ rsub' = [rsub EXCEPT ![u] = @ \ {s}]
  /\ lsub' = IF ListenOwns THEN lsub ELSE [n \in Notifs |-> lsub[n] \ {s}]
  /\ UNCHANGED <<size, told, now, ver, ref, refDue, orph, cbs, sess, usub, chan, nq, hnd, cache, cgen, call, handled, gates, race, budget, ent, got, bad, lst>>

\* ONE subscriptions/listen request of a modern session naming the URIs q, in this order (ClientSession.Subscribe only
\* ever sends single-URI requests; the protocol allows any number).  The server's SubscribeHandler is user code: which of
\* the URIs it rejects is the environment's choice.
Listen(s, q, rej) ==
  /\ EnvOK /\ sess[s] = "on" /\ s \in Listeners /\ lst[s].st = "idle" /\ budget.lst < MaxListens
  /\ rej \subseteq Range(q) /\ Range(q) \cap usub[s] = {}
  /\ ResubRace \/ \A u \in Range(q) : <<s, u>> \notin pun
  /\ lst' = [lst EXCEPT ![s] = [st |-> "run", uris |-> q, rej |-> rej, n |-> 0]]
  /\ budget' = [budget EXCEPT !.lst = @ + 1]
  /\ UNCHANGED <<size, told, now, ver, ref, refDue, orph, cbs, sess, lsub, rsub, usub, pun, chan, nq, hnd, cache, cgen, call, handled, gates, race, ent, got, bad>>

\* one turn of the loop in Server.subscriptionsListen (1245-1263)
ListenStep(s) ==
  LET L == lst[s] IN
  /\ SrvOK /\ L.st = "run"
  /\ IF L.n = Len(L.uris)
       \* every URI was accepted: subscriptions/acknowledged is sent, the handler parks until the stream is cancelled
       THEN /\ lst' = [lst EXCEPT ![s].st = "open"]
            /\ usub' = [usub EXCEPT ![s] = @ \cup Range(L.uris)]
            /\ UNCHANGED <<rsub, pun>>
       ELSE LET u == L.uris[L.n + 1] IN
            IF u \in L.rej
              \* the SubscribeHandler rejects u: the request fails as a whole, nothing is acknowledged, and the deferred
              \* Server.unsubscribe of every URI entered so far runs (FinishUnsub)
              THEN /\ lst' = [lst EXCEPT ![s] = NoListen]
                   /\ pun' = IF FailUndo THEN pun \cup {<<s, L.uris[i]>> : i \in 1..L.n} ELSE pun
                   /\ UNCHANGED <<rsub, usub>>
              ELSE /\ lst' = [lst EXCEPT ![s].n = @ + 1]
                   /\ rsub' = [rsub EXCEPT ![u] = @ \cup {s}]
                   /\ UNCHANGED <<usub, pun>>
  /\ UNCHANGED <<size, told, now, ver, ref, refDue, orph, cbs, sess, lsub, chan, nq, hnd, cache, cgen, call, handled, gates, race, budget, ent, got, bad>>

\* the client cancels the several-URI stream: every URI of it is given up; the server's deferred clean-up runs per URI
Unlisten(s) ==
  /\ EnvOK /\ sess[s] = "on" /\ lst[s].st = "open"
  /\ usub' = [usub EXCEPT ![s] = @ \ Range(lst[s].uris)]
  /\ pun' = pun \cup {<<s, u>> : u \in Range(lst[s].uris)}
  /\ lst' = [lst EXCEPT ![s] = NoListen]
  /\ UNCHANGED <<size, told, now, ver, ref, refDue, orph, cbs, sess, lsub, rsub, chan, nq, hnd, cache, cgen, call, handled, gates, race, budget, ent, got, bad>>

\* ---------------------------------------------------------------------------
\* client: list / read calls and the result cache

\* a list call walks the pages in order; a page whose cursor has a live cache entry is taken from the cache
\* (2026-07-28 sessions, positive ttl), the first one that has not is requested from the server
SameCache(i, j) == i = j \/ (i \in Uris /\ j \in Uris)
CacheHit(s, i, p) == s \in Modern /\ TTLPos /\ cache[s][i][p] >= 0
RECURSIVE Walk(_, _, _, _)
Walk(s, i, p, val) ==
  IF p \notin PagesOf(i) THEN [st |-> "done", page |-> p - 1, gen |-> 0, val |-> val]
  ELSE IF CacheHit(s, i, p) THEN Walk(s, i, p + 1, [val EXCEPT ![p] = cache[s][i][p]])
  \* the page is requested: the generation of the cache is read before the lookup and travels with the request
  ELSE [st |-> "req", page |-> p, gen |-> cgen[s][i], val |-> val]

ListStart(s, c, i) ==
  /\ EnvOK /\ sess[s] = "on" /\ call[s][c].st = "idle"
  /\ c > 1 => call[s][c - 1].st # "idle"
  /\ LET w == Walk(s, i, 1, NoVal) IN
       call' = [call EXCEPT ![s][c] = [st |-> w.st, item |-> i, page |-> w.page, gen |-> w.gen, val |-> w.val, hs |-> handled[s][i],
                                       hit |-> (w.st = "done")]]
  /\ UNCHANGED <<size, told, now, ver, ref, refDue, orph, cbs, sess, lsub, rsub, usub, pun, chan, nq, hnd, cache, cgen, handled, gates, race, budget, ent, got, bad, lst>>

ServeList(s, c) ==
  /\ call[s][c].st = "req"
  /\ call' = [call EXCEPT ![s][c].st = "sent"]
  /\ chan' = [chan EXCEPT ![s] = Append(@, [t |-> "r", topic |-> "", snap |-> ver, slot |-> c, val |-> ver[call[s][c].item]])]
  /\ UNCHANGED <<size, told, now, ver, ref, refDue, orph, cbs, sess, lsub, rsub, usub, pun, nq, hnd, cache, cgen, handled, gates, race, budget, ent, got, bad, lst>>

\* the client's reader takes the next message off the wire: a notification is queued for the in-order
\* dispatcher, a response is handed to its caller (ResponseArrives)
Read(s) ==
  /\ chan[s] # <<>>
  /\ LET m == Head(chan[s]) IN
       /\ chan' = [chan EXCEPT ![s] = Tail(@)]
       /\ IF m.t = "n"
            THEN /\ nq' = [nq EXCEPT ![s] = Append(@, m)]
                 /\ UNCHANGED call
            ELSE /\ call' = [call EXCEPT ![s][m.slot] = [@ EXCEPT !.st = "arrived", !.val[@.page] = m.val]]
                 /\ UNCHANGED nq
  /\ UNCHANGED <<size, told, now, ver, ref, refDue, orph, cbs, sess, lsub, rsub, usub, pun, hnd, cache, cgen, handled, gates, race, budget, ent, got, bad, lst>>

\* the page is put into the cache under its cursor after the call returned from the middleware chain; the walk
\* then goes on with the next page (pages other than this one are as they were)
CachePut(s, c) ==
  LET k == call[s][c]
      w == Walk(s, k.item, k.page + 1, k.val) IN
  /\ k.st = "arrived" /\ ~Held("put", s)
  /\ call' = [call EXCEPT ![s][c] = [k EXCEPT !.st = w.st, !.page = w.page, !.gen = w.gen, !.val = w.val]]
  \* putIfCurrent: a result requested before an invalidation is not cached (it is still returned to the caller)
  /\ cache' = IF s \in Modern /\ (~GenCheck \/ cgen[s][k.item] = k.gen)
               THEN [cache EXCEPT ![s][k.item][k.page] = k.val[k.page]] ELSE cache
  /\ UNCHANGED cgen
  /\ UNCHANGED <<size, told, now, ver, ref, refDue, orph, cbs, sess, lsub, rsub, usub, pun, chan, nq, hnd, handled, gates, race, budget, ent, got, bad, lst>>

\* time passes beyond the ttl of everything the session has cached (no debounce timer is armed: nothing else happens
\* meanwhile): the entries are gone for the next lookup, the generations stay
Expire(s) ==
  /\ EnvOK /\ TTLPos /\ sess[s] = "on" /\ s \in Modern
  /\ \A n \in Notifs : ~TimerArmed(n) /\ cbs[n] = 0
  /\ \E i \in Items : \E p \in PagesOf(i) : cache[s][i][p] >= 0
  /\ cache' = [cache EXCEPT ![s] = [i \in Items |-> NoVal]]
  /\ UNCHANGED <<size, told, now, ver, ref, refDue, orph, cbs, sess, lsub, rsub, usub, pun, chan, nq, hnd, cgen, call, handled, gates, race, budget, ent, got, bad, lst>>

\* the in-order dispatcher takes the next notification and runs the SDK's handler: first the cache
\* entries the notification is about are dropped ...
Invalidate(s) ==
  /\ hnd[s].stage = "none" /\ nq[s] # <<>> /\ ~Held("inv", s)
  /\ hnd' = [hnd EXCEPT ![s] = [stage |-> "inval", msg |-> Head(nq[s])]]
  /\ nq' = [nq EXCEPT ![s] = Tail(@)]
  /\ cache' = [cache EXCEPT ![s] = [i \in Items |-> IF i \in ItemsOf(Head(nq[s]).topic) THEN NoVal ELSE @[i]]]
  \* invalidate / invalidateKey bump the generation of the method cache (resources/read: one cache for all URIs)
  /\ cgen' = [cgen EXCEPT ![s] = [i \in Items |->
                 IF \E j \in ItemsOf(Head(nq[s]).topic) : SameCache(i, j) /\ (ColdBump \/ \E p \in PagesOf(j) : cache[s][j][p] >= 0)
                   THEN @[i] + 1 ELSE @[i]]]
  /\ UNCHANGED <<size, told, now, ver, ref, refDue, orph, cbs, sess, lsub, rsub, usub, pun, chan, call, handled, gates, race, budget, ent, got, bad, lst>>

\* ... then the user's handler runs
UserHandler(s) ==
  LET m == hnd[s].msg
      t == m.topic IN
  /\ hnd[s].stage = "inval" /\ ~Held("usr", s)
  /\ hnd' = [hnd EXCEPT ![s] = None]
  /\ handled' = [handled EXCEPT ![s] = [i \in Items |-> IF i \in ItemsOf(t) THEN Max(@[i], m.snap[i]) ELSE @[i]]]
  /\ got' = IF t \in Notifs /\ \A k \in KindsOf(t) : m.snap[k] = ver[k]
              THEN [got EXCEPT ![s][t] = TRUE] ELSE got
  /\ UNCHANGED <<size, told, now, ver, ref, refDue, orph, cbs, sess, lsub, rsub, usub, pun, chan, nq, cache, cgen, call, gates, race, budget, ent, bad, lst>>

\* ---------------------------------------------------------------------------
\* environment: time and gates

Tick ==
  /\ EnvOK /\ now < MaxTime
  /\ \E n \in Notifs : TimerArmed(n)
  /\ now' = now + 1
  /\ UNCHANGED <<size, told, ver, ref, refDue, orph, cbs, sess, lsub, rsub, usub, pun, chan, nq, hnd, cache, cgen, call, handled, gates, race, budget, ent, got, bad, lst>>

\* advance to an instant at which a timer is due and change a feature at that very instant
TickRace(k, d) ==
  /\ Stepwise /\ EnvOK /\ now < MaxTime /\ budget.chg < MaxChanges /\ CanChange(k, d)
  /\ \E n \in Notifs : (ref[n] = "armed" /\ refDue[n] = now + 1) \/ orph[n][now + 1] > 0
  /\ now' = now + 1
  /\ race' = <<k, d>>
  /\ UNCHANGED <<size, told, ver, ref, refDue, orph, cbs, sess, lsub, rsub, usub, pun, chan, nq, hnd, cache, cgen, call, handled, gates, budget, ent, got, bad, lst>>

Hold(g, s) ==
  /\ Gates /\ EnvOK /\ sess[s] = "on" /\ <<g, s>> \notin gates
  /\ g = "unsub" => s \in Modern
  /\ gates' = gates \cup {<<g, s>>}
  /\ UNCHANGED <<size, told, now, ver, ref, refDue, orph, cbs, sess, lsub, rsub, usub, pun, chan, nq, hnd, cache, cgen, call, handled, race, budget, ent, got, bad, lst>>

Release(g, s) ==
  /\ EnvOK /\ <<g, s>> \in gates
  /\ gates' = gates \ {<<g, s>>}
  /\ UNCHANGED <<size, told, now, ver, ref, refDue, orph, cbs, sess, lsub, rsub, usub, pun, chan, nq, hnd, cache, cgen, call, handled, race, budget, ent, got, bad, lst>>

SdkNext ==
  \/ \E n \in Notifs : TimerFire(n) \/ OrphFire(n) \/ CallbackRun(n)
  \/ RaceChange
  \/ \E s \in Sessions, u \in Uris : FinishUnsub(s, u)
  \/ \E s \in Sessions : ListenStep(s)
  \/ \E s \in Sessions : Read(s) \/ Invalidate(s) \/ UserHandler(s)
  \/ \E s \in Sessions, c \in Slots : ServeList(s, c) \/ CachePut(s, c)

EnvNext ==
  \/ \E k \in Kinds, d \in Dirs : Change(k, d) \/ TickRace(k, d)
  \/ \E u \in Uris : Updated(u)
  \/ \E s \in Sessions : Connect(s) \/ Close(s)
  \/ \E s \in Sessions, u \in Uris : Subscribe(s, u) \/ Unsubscribe(s, u)
  \/ \E s \in Listeners, q \in UriSeqs, rej \in SUBSET Uris : Listen(s, q, rej)
  \/ \E s \in Listeners : Unlisten(s)
  \/ \E s \in Sessions, c \in Slots, i \in Items : ListStart(s, c, i)
  \/ \E s \in Sessions : Expire(s)
  \/ Tick
  \/ \E g \in GateNames, s \in Sessions : Hold(g, s) \/ Release(g, s)

Next == SdkNext \/ EnvNext
Spec == Init /\ [][Next]_vars

\* ---------------------------------------------------------------------------
\* the property

Quiescent ==
  /\ race = <<>> /\ gates = {} /\ pun = {}
  /\ \A s \in Sessions : lst[s].st # "run"
  /\ \A n \in Notifs : ~TimerArmed(n) /\ cbs[n] = 0
  /\ \A s \in Sessions : ~InFlight(s)

\* at quiescence after a burst every session entitled at the last change (and ever since) has had a
\* list-changed notification sent after that change delivered to its handler
NeverLost == Quiescent => \A s \in Sessions, n \in Notifs : (CapOn(n) /\ ent[s][n]) => got[s][n]
OnlyEntitled == "OnlyEntitled" \notin bad
NoneWhenDisabled == "NoneWhenDisabled" \notin bad
UpdatedExactlySubscribers == "UpdatedExactlySubscribers" \notin bad
\* ... which needs: the server remembers a session for a URI only while the session is subscribed to it or the server is
\* still working on a request of it about that URI - in particular nothing of a listen request that failed stays behind
SubsOnlyCurrent == \A s \in Sessions, u \in Uris : s \in rsub[u] => (EntUp(s, u) \/ <<s, u>> \in pun \/ Pending(s, u))
\* a list or read issued after the user handler saw a notification reflects state at least that new
Fresh == \A s \in Sessions, c \in Slots : call[s][c].st = "done" =>
            \A p \in PagesOf(call[s][c].item) : call[s][c].val[p] >= call[s][c].hs
ForgottenOnClose == \A s \in Sessions : sess[s] = "closed" =>
                       (\A n \in Notifs : s \notin lsub[n]) /\ (\A u \in Uris : s \notin rsub[u])

TypeOK ==
  /\ now \in 0..MaxTime
  /\ size \in [Kinds -> 0..MaxSize]
  /\ \A s \in Sessions, n \in Notifs : (told[s][n] => sess[s] = "on" /\ CapOn(n)) /\ (s \in lsub[n] => told[s][n])
  /\ \A n \in Notifs : ref[n] \in {"nil", "armed", "idle"} /\ cbs[n] \in 0..(MaxChanges + 1)
  /\ \A s \in Sessions : sess[s] \in {"new", "on", "closed"} /\ Len(chan[s]) <= MaxChanges + MaxUpdates + MaxCalls + 2
  /\ \A n \in Notifs : lsub[n] \subseteq Modern
  /\ budget.chg \in 0..MaxChanges /\ budget.upd \in 0..MaxUpdates /\ budget.lst \in 0..MaxListens
  /\ \A s \in Sessions : lst[s].st \in {"idle", "run", "open"} /\ lst[s].n \in 0..Len(lst[s].uris)
  /\ \A s \in Sessions \ Listeners : lst[s] = NoListen

\* the server never keeps a non-session in its maps
MapsOnlySessions == \A s \in Sessions : sess[s] # "on" =>
                       (\A n \in Notifs : s \notin lsub[n]) /\ (\A u \in Uris : s \notin rsub[u])
=============================================================================
