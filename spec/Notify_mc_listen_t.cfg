SPECIFICATION Spec
CONSTANTS
  Sessions = {"L1", "M1", "M2"}
  Legacy = {"L1"}
  InitOn = {"L1", "M1", "M2"}
  InitSub = {}
  Kinds = {}
  NotifOf <- NotifStd
  Uris = {"u1", "u2"}
  Want <- WantAll
  CapOff = {}
  CapMode <- ModeInferred
  InitSize <- Size3
  MaxSize = 3
  Dirs = {"mod"}
  SendGate = "configured"
  TTLPos = FALSE
  D = 0
  MaxTime = 0
  MaxChanges = 0
  MaxUpdates = 1
  MaxCalls = 0
  NPages = 1
  ListenOwns = TRUE
  ResubRace = FALSE
  GenCheck = TRUE
  ColdBump = TRUE
  ModernUnsub = TRUE
  ForeignUnsub = FALSE
  Listeners = {"M1"}
  MaxListens = 2
  FailUndo = TRUE
  Stepwise = FALSE
  Gates = TRUE
  GateNames = {"unsub"}
  ClientFirst = TRUE
INVARIANTS TypeOK UpdatedExactlySubscribers SubsOnlyCurrent ForgottenOnClose MapsOnlySessions
CHECK_DEADLOCK FALSE
