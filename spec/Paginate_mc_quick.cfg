SPECIFICATION MCSpec
CONSTANTS
  Ids = {1,2,3,4,5}
  PageSizes = {1,2,3}
  MaxMut = 2
  MaxTrav = 1
CONSTRAINT Bound
CONSTANT HiddenSets <- SomeHidden
CONSTANT ClassMaps <- MixedMap
VIEW MCView
INVARIANTS TypeOK HiddenNeverSeen ExactlyOnceNoMutation StableExactlyOnce StrictlyIncreasing NoDuplicates EndsWithEmptyCursor BadCursorRejected PageShape IndexFresh EndClassExplicit ProbesOK WalkOK
