------------------------------- MODULE PairMon -------------------------------
(* Monitor for pair scenarios (two real sessions talking to each other).      *)
(* All handlers are released in the drain stage and return, the transport is  *)
(* the SDK's own in-memory pipe: whatever is still blocked at "quiesce1" is   *)
(* the SDK's doing.                                                           *)
EXTENDS VerifTrace, FiniteSets
VARIABLES l, m
M0 == [closeB |-> {}, closeE |-> {}, waitB |-> {}, waitE |-> {}, cancelled |-> {}, ended |-> {}, cleanup |-> FALSE]
MInit == l = 1 /\ m = M0 /\ MarkInit

Step(e) ==
  CASE e.ev = "reset" -> m' = M0
    [] e.ev = "cleanup" -> m' = [m EXCEPT !.cleanup = TRUE]
    [] m.cleanup /\ e.ev \notin {"final", "panic"} -> m' = m
    [] e.ev = "close.begin" -> m' = [m EXCEPT !.closeB = @ \cup {e.c}]
    [] e.ev = "close.end" -> m' = [m EXCEPT !.closeE = @ \cup {e.c}]
    [] e.ev = "wait.begin" -> m' = [m EXCEPT !.waitB = @ \cup {e.w}]
    [] e.ev = "wait.end" -> m' = [m EXCEPT !.waitE = @ \cup {e.w}]
    [] e.ev = "ctx.cancel" -> m' = [m EXCEPT !.cancelled = @ \cup {e.k}]
    [] e.ev = "call.end" -> /\ Check(l, "C01.PairCompleteOnce", e.k \notin m.ended)
                            /\ Check(l, "C01.PairErrorHasCause", e.kind = "ctx" => e.k \in m.cancelled)
                            /\ Check(l, "C01.PairErrorHasCause", e.kind \in {"closed", "other", "wireerror"} => (m.closeB # {} \/ e.k \in m.cancelled))
                            /\ m' = [m EXCEPT !.ended = @ \cup {e.k}]
    [] e.ev = "h.ctxdone" -> /\ Check(l, "C04.PairOnlyMatchingCancelled", e.r \in m.cancelled)
                             /\ m' = m
    [] e.ev = "quiesce1" ->
         /\ m' = m
         /\ Check(l, "C01.PairCallsComplete", e.blockedCalls = <<>>)
         /\ Check(l, "C05.PairCloseReturns", m.closeB \subseteq m.closeE)
         /\ Check(l, "C05.PairWaitReturns", m.closeB # {} => m.waitB \subseteq m.waitE)
         /\ Check(l, "C05.PairRemoved", m.closeB # {} => (~e.clientListed /\ ~e.serverListed))
    [] e.ev = "final" -> /\ m' = m
                         /\ Check(l, "C05.PairNoLeak", e.leaks = <<>>)
                         /\ Check(l, "C05.PairFinalCloseReturns", e.closeReturned)
    [] e.ev = "panic" -> m' = m /\ Fail(l, "C05.PairNoPanic")
    [] e.ev = "setup.error" -> m' = m /\ Fail(l, "X.Setup")
    [] OTHER -> m' = m

MNext == /\ l <= NLines /\ l' = l + 1 /\ Step(TraceLog[l])
MSpec == MInit /\ [][MNext]_<<l, m>>
MMark == MarkAt(l)
MAccepted == Accepted
=============================================================================
