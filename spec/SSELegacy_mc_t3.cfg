SPECIFICATION MCSpec
CONSTANTS
  MaxSess = 1
  MaxPost = 3
  MaxSend = 1
  Cap = 2
  Direct = TRUE
  RandomSelect = TRUE
  KindSet = {"call", "notif", "badjson", "badreq"}
  WithNoId = FALSE
  WithUnknown = FALSE
INVARIANTS TypeOK EndpointFirst Routing AtMostOnce Order Refusal
PROPERTIES NoWriteAfterClose WriteFailsAfterClose Monotone
CHECK_DEADLOCK FALSE
