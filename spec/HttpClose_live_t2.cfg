SPECIFICATION MCLive
CONSTANTS
  Calls = {"k1"}
  CCl = {"c1"}
  SCl = {"s1"}
  Stateless = FALSE
  Timeout = TRUE
  Sse = TRUE
  Nested = TRUE
  Faults = {"vanish"}
  DelModes = {}
  Helds = FALSE
  Notifs = FALSE
  Cancels = TRUE
  AwaitHandlers = TRUE
  StopSseOnClose = TRUE
VIEW MCView
PROPERTIES SrvCloseReturns CliCloseReturns SrvWaitReturns CliWaitReturns SrvNoLeftovers CliNoLeftovers
CHECK_DEADLOCK FALSE
