SPECIFICATION MCLive
CONSTANTS
  Calls = {"k1"}
  CCl = {"c1"}
  SCl = {}
  Stateless = FALSE
  Timeout = TRUE
  Sse = TRUE
  Nested = FALSE
  Faults = {"cut", "net"}
  DelModes = {"hang"}
  Helds = FALSE
  Notifs = FALSE
  Cancels = FALSE
  AwaitHandlers = TRUE
  StopSseOnClose = TRUE
VIEW MCView
PROPERTIES SrvCloseReturns CliCloseReturns SrvWaitReturns CliWaitReturns SrvNoLeftovers CliNoLeftovers
CHECK_DEADLOCK FALSE
