SPECIFICATION MCLive
CONSTANTS
  Calls = {"k1", "k2"}
  CCl = {"c1"}
  SCl = {}
  Stateless = TRUE
  Timeout = FALSE
  Sse = FALSE
  Nested = FALSE
  Faults = {"cut"}
  DelModes = {}
  Helds = FALSE
  Notifs = FALSE
  Cancels = FALSE
  AwaitHandlers = TRUE
  StopSseOnClose = TRUE
VIEW MCView
PROPERTIES SrvCloseReturns CliCloseReturns SrvNoLeftovers
CHECK_DEADLOCK FALSE
