SPECIFICATION CoverSpec
CONSTANTS
  Sessions = {"s1","s2"}
  Streams = {"t1","t2"}
  Sizes = {0,2}
  Limits = {2,3}
  Iters = {}
  CoverIdxN = 0
  DefaultMax = 100
  MaxAppends = 3
CONSTRAINT CoverBound
VIEW MCView
