------------------------------ MODULE FanoutMC ------------------------------
(* Root module of the Fanout.tla configurations: the constants that are sets  *)
(* or depend on NS are given here so that every .cfg states plain values.     *)
(*   Fanout_mc_quick.cfg       2 sessions, programs of 2-3 ops, every order   *)
(*                             of the fan-out, gates released at ANY moment   *)
(*   Fanout_mc_thorough.cfg    2 sessions, programs of 2-4 ops                *)
(*   Fanout_mc_thorough3.cfg   3 sessions, programs of 2-3 ops                *)
(*   Fanout_whatif_multi.cfg   the fan-out is asynchronous when there are two *)
(*   Fanout_whatif_butlast.cfg or more sessions / for all sessions but the    *)
(*                             last: ObservedInOrder must be VIOLATED         *)
(*   Fanout_wit.cfg            base of the vacuity witnesses (Wit*, each must *)
(*                             be violated; the invariant is appended)        *)
(*   Fanout_gen_quick.cfg      scenario generation (gates released only when  *)
(*   Fanout_gen_len4.cfg       nothing else can move, canonical order of the  *)
(*   Fanout_gen_3s.cfg         SDK's own steps): every complete behaviour is  *)
(*                             printed as <<program, armed gates, releases>>  *)
(*   Fanout_sim_3s5.cfg        3 sessions, programs of 5 ops: -simulate       *)
EXTENDS Fanout
CallAll == 1..NS
CallNone == {}
CallFirst == {1}
=============================================================================
