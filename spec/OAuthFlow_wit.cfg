SPECIFICATION Spec
CONSTANTS
  PRMDocs <- PRMDocsCore
  Challenges <- ChallengesCore
  ASMFatalStops <- WitASMFatalStops
INVARIANTS NoFallbackAfterRejected
CHECK_DEADLOCK FALSE
