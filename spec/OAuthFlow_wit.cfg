SPECIFICATION Spec
CONSTANTS
  PRMDocs <- PRMDocsCore
  ASMFatalStops <- WitASMFatalStops
INVARIANTS NoFallbackAfterRejected
CHECK_DEADLOCK FALSE
