------------------------------ MODULE Negotiate ------------------------------
(* Design-level evaluation and case export for C07; definitions in           *)
(* NegotiateDefs.  TLC enumerates the whole configuration matrix, evaluates  *)
(* Holds(c, Expected(c)) on every cell and writes                            *)
(*   cases.ndjson  every cell (input of the Go harness)                      *)
(*   leads.ndjson  the cells where the code-shaped Expected breaks the       *)
(*                 property (leads: they become verdicts only if the real    *)
(*                 code reproduces them under the monitor)                   *)
EXTENDS NegotiateDefs

\* Full = TRUE: the whole matrix (thorough tier); FALSE: NegotiateDefs!CoreCaseSet (quick tier)
CONSTANT Full
ASSUME Full \in BOOLEAN
CaseSet == IF Full THEN FullCaseSet ELSE CoreCaseSet

Leads == {c \in CaseSet : ~Holds(c, Expected(c))}

\* structural sanity of the transcription
WellFormed == \A c \in CaseSet :
                LET o == Expected(c) IN
                  /\ o.kind \in {"session", "error"}
                  /\ (o.kind = "session" => o.version \in V)
                  /\ (o.kind = "error" => (c.ians \notin Legacy \cup {"honest"} \/ c.disc \in HttpDiscs))
                  /\ o.nDisc \in 0..2
                  /\ (o.nDisc = 0 => o.sentInit)
                  /\ (~ModernStr(Req(c)) <=> o.nDisc = 0)
\* vacuity witnesses: every clause of the property has cells on which its premise is true
SomeModernSession == \E c \in CaseSet : Expected(c).version \in Modern
SomeRenegotiated  == \E c \in CaseSet : Expected(c).nDisc = 2 /\ ~Expected(c).sentInit
SomeTwoThenInit   == \E c \in CaseSet : Expected(c).nDisc = 2 /\ Expected(c).sentInit
SomeExactModern   == \E c \in CaseSet : Req(c) \in Mutual(c) /\ Req(c) \in Modern
SomeExactLegacy   == \A v \in Legacy : \E c \in CaseSet : c.req = v /\ v \in Mutual(c)
SomeFallback      == \A t \in Transports : \E c \in CaseSet : c.tr = t /\ ModernRequested(c) /\ ~ModernAvailable(c)
SomeNoMutual      == \E c \in CaseSet : Mutual(c) = {}
SomeSharedServer  == /\ \E c \in CaseSet : c.tr = "stateful" /\ c.prior = "stateless" /\ ModernRequested(c)
                     /\ \E c \in CaseSet : c.tr = "stateless" /\ c.prior = "stateful" /\ Req(c) \in Modern \cap Mutual(c)
                     /\ \E c \in CaseSet : c.tr = "statefulnosid" /\ ModernRequested(c) /\ ~ModernAvailable(c)
\* the peer-answer dimensions: every shape of "discovery unavailable" meets a client that asks for a modern version on
\* every HTTP transport; every kind of initialize answer meets both a direct legacy handshake and a fall-back, and the
\* two dimensions meet each other
SomeHttpDisc      == \A t \in HttpTransports, d \in HttpDiscs, b \in Bodies :
                       \E c \in CaseSet : c.tr = t /\ c.disc = d /\ c.dbody = b /\ ModernRequested(c) /\ ~ModernAvailable(c)
SomeAnswer        == \A t \in Transports, a \in Answers \ {"honest"} :
                       /\ \E c \in CaseSet : c.tr = t /\ c.ians = a /\ Expected(c).nDisc = 0
                       /\ \E c \in CaseSet : c.tr = t /\ c.ians = a /\ Expected(c).nDisc > 0 /\ Expected(c).sentInit
SomeAnswerRefused == \E c \in CaseSet : Expected(c).kind = "error" /\ Expected(c).sentInit /\ Mutual(c) = {}
SomeAnswerOther   == \E c \in CaseSet : c.ians \in Legacy /\ Req(c) \in Legacy /\ Req(c) # c.ians /\ Expected(c).version = c.ians
SomeCrossed       == \A d \in HttpDiscs, a \in Answers : \E c \in CaseSet : c.disc = d /\ c.ians = a /\ ModernRequested(c)
\* on the SDK's own transports (no wrapper) with an SDK peer the design satisfies the property
UnwrappedDesignOK == \A c \in CaseSet : (~c.wrap /\ c.ians = "honest" /\ c.disc \in JsonDiscs) => Holds(c, Expected(c))

SetSeq(S) == SetToSeq(S)
CaseJson(c) == [req |-> c.req, tr |-> c.tr, json |-> c.json, store |-> c.store, wrap |-> c.wrap,
                adv |-> SetSeq(c.adv), disc |-> c.disc, dbody |-> c.dbody, prior |-> c.prior, early |-> c.early,
                ians |-> c.ians]
LeadJson(c) == [c |-> CaseJson(c), exp |-> Expected(c), failed |-> SetSeq(FailedClauses(c, Expected(c))),
                trclass |-> TrClass(c), via |-> Via(Expected(c))]
Export == /\ ndJsonSerialize("cases.ndjson", SetSeq({CaseJson(c) : c \in CaseSet}))
          /\ ndJsonSerialize("leads.ndjson", SetSeq({LeadJson(c) : c \in Leads}))

ASSUME WellFormed
ASSUME SomeModernSession /\ SomeRenegotiated /\ SomeTwoThenInit /\ SomeExactModern /\ SomeExactLegacy
ASSUME SomeFallback /\ SomeNoMutual /\ SomeSharedServer
ASSUME SomeHttpDisc /\ SomeAnswer /\ SomeAnswerRefused /\ SomeAnswerOther /\ SomeCrossed
ASSUME PrintT(ToJson([cases |-> Cardinality(CaseSet), fullMatrix |-> Cardinality(FullCaseSet), leads |-> Cardinality(Leads),
                      unwrappedDesignOK |-> UnwrappedDesignOK,
                      leadClasses |-> SetSeq({<<TrClass(c), Via(Expected(c))>> : c \in Leads})]))
ASSUME Export
=============================================================================
