SPECIFICATION FairSpec
CONSTANTS
  Unknown = "u"
  MaxLen = 2
  Calls = {1, 2}
  HResults = {"accept", "herr"}
  Ids = {"x", "y", "z"}
  MaxSpur = 0
  Handlers = {TRUE}
  AllowCancel = FALSE
  DeclineNoCompl = FALSE
  TrackOwed = TRUE
  ListsOf <- ListsLive
  KindsOf <- LiveKinds
INVARIANTS Safety U5_CompletionReachesWaiter
PROPERTIES U6_Returns
CHECK_DEADLOCK FALSE
