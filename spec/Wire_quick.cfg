CONSTANT MaxBatch = 3
