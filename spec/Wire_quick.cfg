CONSTANT MaxBatch = 3
CONSTANT FrameCalls = 3
