------------------------- MODULE CapabilitiesDynMon -------------------------
(* Monitor for the dynamic part of X06.  Reads the events the Go harness     *)
(* recorded while it replayed TLC behaviours of CapabilitiesDyn on a real    *)
(* mcp.Server with real legacy and 2026-07-28 clients (obs.ndjson), and      *)
(* judges them.  Clauses named D.* state property P6 / the time dimension of *)
(* P1 over the OBSERVED capability objects, acknowledgements and deliveries; *)
(* "drift" compares the observations with the code-shaped step operators of  *)
(* CapabilitiesDefs (the same operators CapabilitiesDyn is built from).      *)
(*                                                                           *)
(* Every line has the fields                                                 *)
(*   ev   "reset" | "add" | "remove" | "connect" | "close" | "tick" | "end"  *)
(*   k    kind ("" when not applicable)      s   session ("" ...)            *)
(*   era  "legacy" | "modern" | ""                                           *)
(*   adv  [tools, prompts, resources -> "absent" | "lcF" | "lcT"] (connect)  *)
(*   want, ack   sequences of kinds (modern connect)                         *)
(*   dl   sequence of <<session, kind>>: list-changed notifications the      *)
(*        sessions' handlers received since the previous line                *)
(*   kinds, cfg  (reset) the kinds in play and the explicit configuration    *)
EXTENDS VerifTrace, FiniteSets
D == INSTANCE CapabilitiesDefs

VARIABLES l, m
\* m: cfg, K, reg, pend (model), dirty, open, era, snap (real), ack (real), subs (model), owed
Blank == [cfg |-> [k \in D!Kinds |-> "nil"], K |-> {}, reg |-> [k \in D!Kinds |-> FALSE],
          pend |-> [k \in D!Kinds |-> FALSE], dirty |-> {}, open |-> {}, era |-> <<>>, snap |-> <<>>,
          ack |-> <<>>, subs |-> <<>>, owed |-> <<>>]
MInit == l = 1 /\ MarkInit /\ m = Blank

Ext(f, s, v) == [x \in DOMAIN f \cup {s} |-> IF x = s THEN v ELSE f[x]]
OpenOf(era) == {s \in m.open : m.era[s] = era}
\* what the property entitles an open session to
Entitled(s, k) == IF m.era[s] = "legacy" THEN m.snap[s][k] = "lcT" ELSE k \in m.ack[s]
DeclAdv(k) == IF k \notin m.K THEN "absent"
              ELSE IF m.cfg[k] # "nil" THEN m.cfg[k] ELSE IF m.reg[k] THEN "lcT" ELSE "absent"

OnReset(e) == m' = [Blank EXCEPT !.cfg = [k \in D!Kinds |-> e.cfg[k]], !.K = AsSet(e.kinds)]

OnChange(e, changed) ==
  m' = [m EXCEPT !.reg = [m.reg EXCEPT ![e.k] = (e.ev = "add")],
                 !.pend = D!DynArm(m.cfg, m.pend, e.k, changed, m.open # {}),
                 !.dirty = IF changed THEN m.dirty \cup {e.k} ELSE m.dirty,
                 !.owed = [s \in DOMAIN m.owed |->
                             IF changed /\ s \in m.open /\ Entitled(s, e.k) THEN m.owed[s] \cup {e.k} ELSE m.owed[s]]]

OnConnect(e, i) ==
  LET adv == [k \in D!Kinds |-> e.adv[k]]
      modelAdv == [k \in D!Kinds |-> DeclAdv(k)]
      W == AsSet(e.want) IN
  /\ \A k \in D!Kinds : Check(i, "D.AdvCurrent." \o k, adv[k] = DeclAdv(k))
  /\ Check(i, "D.AckExact", e.era = "modern" => AsSet(e.ack) = {k \in W : adv[k] = "lcT"})
  /\ Check(i, "drift", e.era = "modern" => AsSet(e.ack) = D!DynAck(W, modelAdv))
  /\ m' = [m EXCEPT !.open = m.open \cup {e.s}, !.era = Ext(m.era, e.s, e.era), !.snap = Ext(m.snap, e.s, adv),
                    !.ack = Ext(m.ack, e.s, AsSet(e.ack)), !.subs = Ext(m.subs, e.s, D!DynAck(W, modelAdv)),
                    !.owed = Ext(m.owed, e.s, {})]

OnClose(e) == m' = [m EXCEPT !.open = m.open \ {e.s}, !.subs = Ext(m.subs, e.s, {}), !.owed = Ext(m.owed, e.s, {})]

OnTick(e, i, dl) ==
  /\ Check(i, "D.Eventually", \A s \in m.open : \A k \in m.owed[s] : <<s, k>> \in dl)
  /\ m' = [m EXCEPT !.pend = [k \in D!Kinds |-> FALSE], !.dirty = {},
                    !.owed = [s \in DOMAIN m.owed |-> m.owed[s] \ {k \in D!Kinds : <<s, k>> \in dl}]]

MNext ==
  /\ l <= NLines /\ l' = l + 1
  /\ LET e == TraceLog[l]
         dl == {<<e.dl[j][1], e.dl[j][2]>> : j \in DOMAIN e.dl}
         expected == IF e.ev = "tick" THEN D!DynDeliveries(m.K, m.pend, OpenOf("legacy"), OpenOf("modern"), m.subs) ELSE {} IN
       /\ Check(l, "D.NoNotifWhenDisabled", \A p \in dl : m.cfg[p[2]] # "lcF")
       /\ Check(l, "D.ModernOnlyAcked", \A p \in dl : (p[1] \in DOMAIN m.era /\ m.era[p[1]] = "modern") => p[2] \in m.ack[p[1]])
       /\ Check(l, "D.NoSpurious", \A p \in dl : p[2] \in m.dirty /\ p[1] \in m.open)
       /\ Check(l, "drift", e.ev = "reset" \/ dl = expected)
       /\ CASE e.ev = "reset"   -> OnReset(e)
            [] e.ev = "add"     -> OnChange(e, TRUE)
            [] e.ev = "remove"  -> OnChange(e, m.reg[e.k])
            [] e.ev = "connect" -> OnConnect(e, l)
            [] e.ev = "close"   -> OnClose(e)
            [] e.ev = "tick"    -> OnTick(e, l, dl)
            [] OTHER            -> m' = m
MSpec == MInit /\ [][MNext]_<<l, m>>
MMark == MarkAt(l)
MAccepted == Accepted
=============================================================================
