---------------------------- MODULE EventStoreMon ----------------------------
(* Property monitor for C20, evaluated by TLC over observations recorded from *)
(* the real mcp.MemoryEventStore (one line per operation: the operation, its  *)
(* result, and the store's retained state read back through After).  It       *)
(* constrains only what C20 states; it does not model eviction policy.        *)
(*                                                                            *)
(* After in two phases.  After only hands out an iterator; every RANGING of   *)
(* it is one read of the stream ("calling the iterator again walks the        *)
(* sequence again", package iter), which starts when the ranging starts - not *)
(* when After was called - and may be interleaved with any other operation    *)
(* (iget / ibegin / inext / istop / idrop lines).  ReplayExact for a ranging: *)
(* what it hands out is, item by item, the exact replay (AfterOK) of ONE      *)
(* moment of the ranging, complete when it reports the end; an error comes at *)
(* the first step or never.  Hence a ranging that starts after SessionClosed  *)
(* reports the unknown stream or replays what the re-created stream holds -   *)
(* never what the closed session held - and a ranging in progress is not      *)
(* disturbed by evictions, by the end of its session or by a new stream under *)
(* the same ids.  Which moment (the code: the first step) is not prescribed.  *)
EXTENDS VerifTrace, FiniteSets

CONSTANTS MSessions, MStreams, MDefaultMax, MIters
MPairs == MSessions \X MStreams

VARIABLES l,
          app,   \* ghost: what was appended to each stream since it was (re)created
          fst,   \* last observed `first` of each stream (-1 = not open)
          cfg,   \* configured maximum
          last,  \* size of the most recently appended item
          it     \* iterator objects: live (a ranging is going on), out (what it has handed out),
                 \* cands (the exact replays of the moments of the ranging so far)
mvars == <<l, app, fst, cfg, last, it>>

NoIt == [live |-> FALSE, p |-> <<"", "">>, idx |-> 0, out |-> <<>>, cands |-> {}]

Vis(n, sz) == IF sz = 0 THEN <<-1, 0>> ELSE <<n, sz>>

RECURSIVE SumItems(_)
SumItems(q) == IF q = <<>> THEN 0 ELSE Head(q)[2] + SumItems(Tail(q))
RECURSIVE SumState(_)
SumState(ss) == IF ss = <<>> THEN 0 ELSE SumItems(Head(ss).items) + SumState(Tail(ss))

Reset == /\ app' = [p \in MPairs |-> <<>>] /\ fst' = [p \in MPairs |-> -1]
         /\ cfg' = MDefaultMax /\ last' = 0 /\ it' = [k \in MIters |-> NoIt]

MInit == /\ l = 1 /\ app = [p \in MPairs |-> <<>>] /\ fst = [p \in MPairs |-> -1]
         /\ cfg = MDefaultMax /\ last = 0 /\ it = [k \in MIters |-> NoIt] /\ MarkInit

StreamOK(st, a) ==
  IF st.open THEN /\ st.first + Len(st.items) = Len(a)
                  /\ st.items = SubSeq(a, st.first + 1, Len(a))
  ELSE a = <<>>

\* idx: the index asked for; r: the result; a: everything appended; st: the projected stream
AfterOK(idx, r, a, st) ==
  IF ~st.open THEN r.kind = "unknown"
  ELSE IF idx + 1 < st.first THEN r.kind = "purged"
  ELSE /\ r.kind = "items"
       /\ r.items = (IF idx + 1 >= Len(a) THEN <<>> ELSE SubSeq(a, idx + 2, Len(a)))

\* the exact replay after idx of a stream of which a was appended and that is open / starts at f (f < 0: not open)
Exact(idx, a, opn, f) ==
  IF ~opn THEN [kind |-> "unknown", items |-> <<>>]
  ELSE IF idx + 1 < f THEN [kind |-> "purged", items |-> <<>>]
  ELSE [kind |-> "items", items |-> (IF idx + 1 >= Len(a) THEN <<>> ELSE SubSeq(a, idx + 2, Len(a)))]

IsPrefix(q, r) == Len(q) <= Len(r) /\ q = SubSeq(r, 1, Len(q))

\* one step of a ranging: r is what the step delivered, out what had been handed out before, cs the moments
StepOK(r, out, cs) ==
  CASE r.kind = "item" -> \E c \in cs : c.kind = "items" /\ IsPrefix(Append(out, r.items[1]), c.items)
    [] r.kind = "end"  -> \E c \in cs : c.kind = "items" /\ c.items = out
    [] OTHER           -> out = <<>> /\ \E c \in cs : c.kind = r.kind

StateOf(e, p) == LET i == CHOOSE i \in DOMAIN e.state : e.state[i].s = p[1] /\ e.state[i].t = p[2]
                 IN e.state[i]

\* the moment after line e, for a ranging over stream p after idx
Now(e, p, idx, app1) == Exact(idx, app1[p], StateOf(e, p).open, StateOf(e, p).first)

IterStep(e, p, app1) ==
  LET \* every line is a moment of every ranging that is going on (the iterators remember their own stream)
      seen == [k \in MIters |-> IF it[k].live THEN [it[k] EXCEPT !.cands = @ \cup {Now(e, it[k].p, it[k].idx, app1)}]
                                ELSE it[k]]
  IN CASE e.op = "ibegin" ->
            \* the ranging starts with this step: its moments are the one before the step and the one after it
            LET cs == {Exact(e.idx, app[p], fst[p] >= 0, fst[p]), Now(e, p, e.idx, app1)}
                more == e.res.kind = "item"
            IN /\ Check(l, "ReplayExact", StepOK(e.res, <<>>, cs))
               /\ it' = [seen EXCEPT ![e.k] = IF more THEN [live |-> TRUE, p |-> p, idx |-> e.idx, out |-> <<e.res.items[1]>>, cands |-> cs]
                                                ELSE NoIt]
       [] e.op = "inext" ->
            LET more == e.res.kind = "item" IN
            /\ Check(l, "ReplayExact", it[e.k].live /\ StepOK(e.res, it[e.k].out, seen[e.k].cands))
            /\ it' = [seen EXCEPT ![e.k] = IF more /\ it[e.k].live THEN [seen[e.k] EXCEPT !.out = Append(@, e.res.items[1])] ELSE NoIt]
       [] e.op \in {"istop", "idrop"} -> it' = [seen EXCEPT ![e.k] = NoIt]
       [] OTHER -> it' = seen

Step(e) ==
  LET p == <<e.s, e.t>>
      app1 == CASE e.op = "append" -> [app EXCEPT ![p] = Append(@, Vis(e.n, e.sz))]
                [] e.op = "closed" -> [q \in MPairs |-> IF q[1] = e.s THEN <<>> ELSE app[q]]
                [] OTHER -> app
      cfg1 == IF e.op = "setmax" THEN (IF e.max = 0 THEN MDefaultMax ELSE e.max) ELSE cfg
      last1 == IF e.op = "append" THEN e.sz ELSE last
  IN /\ app' = app1 /\ cfg' = cfg1 /\ last' = last1
     /\ Check(l, "NoPanic", e.panic = "")
     /\ IF e.panic # "" THEN fst' = fst /\ it' = it
        ELSE /\ fst' = [q \in MPairs |-> IF StateOf(e, q).open THEN StateOf(e, q).first ELSE -1]
             /\ Check(l, "SuffixRetained", \A q \in MPairs : StreamOK(StateOf(e, q), app1[q]))
             /\ Check(l, "FirstMonotone",
                      \A q \in MPairs : (fst[q] >= 0 /\ StateOf(e, q).open /\ ~(e.op = "closed" /\ q[1] = e.s))
                                           => StateOf(e, q).first >= fst[q])
             /\ Check(l, "Bounded", SumState(e.state) <= cfg1 + last1)
             /\ Check(l, "ClosedReleased", e.op = "closed" => \A q \in MPairs : q[1] = e.s => ~StateOf(e, q).open)
             /\ Check(l, "AfterExact", e.op = "after" => AfterOK(e.idx, e.res, app1[p], StateOf(e, p)))
             /\ Check(l, "AfterExact", \A q \in MPairs : \A i \in DOMAIN StateOf(e, q).probe :
                          AfterOK(StateOf(e, q).probe[i].idx, StateOf(e, q).probe[i], app1[q], StateOf(e, q)))
             /\ IterStep(e, p, app1)

MNext == /\ l <= NLines
         /\ l' = l + 1
         /\ LET e == TraceLog[l] IN
              IF e.ev = "reset" THEN Reset ELSE Step(e)

MSpec == MInit /\ [][MNext]_mvars
MMark == MarkAt(l)
MAccepted == Accepted
=============================================================================
