---------------------------- MODULE EventStoreMon ----------------------------
(* Property monitor for C20, evaluated by TLC over observations recorded from *)
(* the real mcp.MemoryEventStore (one line per operation: the operation, its  *)
(* result, and the store's retained state read back through After).  It       *)
(* constrains only what C20 states; it does not model eviction policy.        *)
EXTENDS VerifTrace, FiniteSets

CONSTANTS MSessions, MStreams, MDefaultMax
MPairs == MSessions \X MStreams

VARIABLES l,
          app,   \* ghost: what was appended to each stream since it was (re)created
          fst,   \* last observed `first` of each stream (-1 = not open)
          cfg,   \* configured maximum
          last   \* size of the most recently appended item
mvars == <<l, app, fst, cfg, last>>

Vis(n, sz) == IF sz = 0 THEN <<-1, 0>> ELSE <<n, sz>>

RECURSIVE SumItems(_)
SumItems(q) == IF q = <<>> THEN 0 ELSE Head(q)[2] + SumItems(Tail(q))
RECURSIVE SumState(_)
SumState(ss) == IF ss = <<>> THEN 0 ELSE SumItems(Head(ss).items) + SumState(Tail(ss))

Reset == /\ app' = [p \in MPairs |-> <<>>] /\ fst' = [p \in MPairs |-> -1]
         /\ cfg' = MDefaultMax /\ last' = 0

MInit == /\ l = 1 /\ app = [p \in MPairs |-> <<>>] /\ fst = [p \in MPairs |-> -1]
         /\ cfg = MDefaultMax /\ last = 0 /\ MarkInit

StreamOK(st, a) ==
  IF st.open THEN /\ st.first + Len(st.items) = Len(a)
                  /\ st.items = SubSeq(a, st.first + 1, Len(a))
  ELSE a = <<>>

\* idx: the index asked for; r: the result; a: everything appended; st: the projected stream
AfterOK(idx, r, a, st) ==
  IF ~st.open THEN r.kind = "unknown"
  ELSE IF idx + 1 < st.first THEN r.kind = "purged"
  ELSE /\ r.kind = "items"
       /\ r.items = (IF idx + 1 >= Len(a) THEN <<>> ELSE SubSeq(a, idx + 2, Len(a)))

StateOf(e, p) == LET i == CHOOSE i \in DOMAIN e.state : e.state[i].s = p[1] /\ e.state[i].t = p[2]
                 IN e.state[i]

Step(e) ==
  LET p == <<e.s, e.t>>
      app1 == CASE e.op = "append" -> [app EXCEPT ![p] = Append(@, Vis(e.n, e.sz))]
                [] e.op = "closed" -> [q \in MPairs |-> IF q[1] = e.s THEN <<>> ELSE app[q]]
                [] OTHER -> app
      cfg1 == IF e.op = "setmax" THEN (IF e.max = 0 THEN MDefaultMax ELSE e.max) ELSE cfg
      last1 == IF e.op = "append" THEN e.sz ELSE last
  IN /\ app' = app1 /\ cfg' = cfg1 /\ last' = last1
     /\ Check(l, "NoPanic", e.panic = "")
     /\ IF e.panic # "" THEN fst' = fst
        ELSE /\ fst' = [q \in MPairs |-> IF StateOf(e, q).open THEN StateOf(e, q).first ELSE -1]
             /\ Check(l, "SuffixRetained", \A q \in MPairs : StreamOK(StateOf(e, q), app1[q]))
             /\ Check(l, "FirstMonotone",
                      \A q \in MPairs : (fst[q] >= 0 /\ StateOf(e, q).open /\ ~(e.op = "closed" /\ q[1] = e.s))
                                           => StateOf(e, q).first >= fst[q])
             /\ Check(l, "Bounded", SumState(e.state) <= cfg1 + last1)
             /\ Check(l, "ClosedReleased", e.op = "closed" => \A q \in MPairs : q[1] = e.s => ~StateOf(e, q).open)
             /\ Check(l, "AfterExact", e.op = "after" => AfterOK(e.idx, e.res, app1[p], StateOf(e, p)))
             /\ Check(l, "AfterExact", \A q \in MPairs : \A i \in DOMAIN StateOf(e, q).probe :
                          AfterOK(StateOf(e, q).probe[i].idx, StateOf(e, q).probe[i], app1[q], StateOf(e, q)))

MNext == /\ l <= NLines
         /\ l' = l + 1
         /\ LET e == TraceLog[l] IN
              IF e.ev = "reset" THEN Reset ELSE Step(e)

MSpec == MInit /\ [][MNext]_mvars
MMark == MarkAt(l)
MAccepted == Accepted
=============================================================================
