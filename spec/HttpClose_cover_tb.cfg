SPECIFICATION SeamSpec
CONSTANTS
  Calls = {"k1"}
  CCl = {"c1"}
  SCl = {"s1"}
  Stateless = FALSE
  Timeout = TRUE
  Sse = TRUE
  Nested = TRUE
  Faults = {"cut", "net", "vanish"}
  DelModes = {"fail", "hang", "hold"}
  Helds = TRUE
  Notifs = FALSE
  Cancels = TRUE
  AwaitHandlers = TRUE
  StopSseOnClose = TRUE
VIEW MCView
INVARIANTS TypeOK NothingDispatchedAfterClose RunningHandlersFinish SessionRemoved
CHECK_DEADLOCK FALSE
