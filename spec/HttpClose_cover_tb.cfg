SPECIFICATION SeamSpec
CONSTANTS
  Calls = {"k1"}
  CCl = {"c1"}
  SCl = {"s1"}
  Stateless = FALSE
  Timeout = TRUE
  Sse = TRUE
  Nested = TRUE
  Faults = {"net", "vanish"}
  DelModes = {"hang"}
  Helds = FALSE
  Notifs = FALSE
  Cancels = TRUE
  AwaitHandlers = TRUE
  StopSseOnClose = TRUE
VIEW MCView
INVARIANTS TypeOK NothingDispatchedAfterClose RunningHandlersFinish SessionRemoved
CHECK_DEADLOCK FALSE
