SPECIFICATION Spec
INVARIANTS OnlySafeURLs UsedOnlyIfMatching PKCERequired ExchangeOnlyIfStateAndIss PreregBoundToIssuer ResultKnown
CHECK_DEADLOCK FALSE
