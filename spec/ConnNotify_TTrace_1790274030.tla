---- MODULE ConnNotify_TTrace_1790274030 ----
EXTENDS Sequences, TLCExt, Toolbox, Naturals, TLC, ConnNotify, ConnNotify_TEConstants

_expression ==
    LET ConnNotify_TEExpression == INSTANCE ConnNotify_TEExpression
    IN ConnNotify_TEExpression!expression
----

_trace ==
    LET ConnNotify_TETrace == INSTANCE ConnNotify_TETrace
    IN ConnNotify_TETrace!trace
----

_prop ==
    ~(([]<>(
            closing = (TRUE)
            /\
            calls = (0)
            /\
            spc = ([a |-> "inwriter", b |-> "idle"])
            /\
            closeRet = (FALSE)
            /\
            done = (FALSE)
            /\
            transportClosed = (FALSE)
            /\
            outNotif = (1)
    ))/\([]<>(
            closing = (TRUE)
            /\
            calls = (0)
            /\
            spc = ([a |-> "inwriter", b |-> "wcheck"])
            /\
            closeRet = (FALSE)
            /\
            done = (FALSE)
            /\
            transportClosed = (FALSE)
            /\
            outNotif = (2)
    )))
----

_init ==
    /\ outNotif = _TETrace[1].outNotif
    /\ done = _TETrace[1].done
    /\ spc = _TETrace[1].spc
    /\ closeRet = _TETrace[1].closeRet
    /\ closing = _TETrace[1].closing
    /\ calls = _TETrace[1].calls
    /\ transportClosed = _TETrace[1].transportClosed
----

_next ==
    /\ \E i,j \in DOMAIN _TETrace:
        /\ \/ /\ j = i + 1
              /\ i = TLCGet("level")
           \/ /\ i = _TTraceLassoEnd
              /\ j = _TTraceLassoStart
        /\ outNotif  = _TETrace[i].outNotif
        /\ outNotif' = _TETrace[j].outNotif
        /\ done  = _TETrace[i].done
        /\ done' = _TETrace[j].done
        /\ spc  = _TETrace[i].spc
        /\ spc' = _TETrace[j].spc
        /\ closeRet  = _TETrace[i].closeRet
        /\ closeRet' = _TETrace[j].closeRet
        /\ closing  = _TETrace[i].closing
        /\ closing' = _TETrace[j].closing
        /\ calls  = _TETrace[i].calls
        /\ calls' = _TETrace[j].calls
        /\ transportClosed  = _TETrace[i].transportClosed
        /\ transportClosed' = _TETrace[j].transportClosed

\* Uncomment the ASSUME below to write the states of the error trace
\* to the given file in Json format. Note that you can pass any tuple
\* to `JsonSerialize`. For example, a sub-sequence of _TETrace.
    \* ASSUME
    \*     LET J == INSTANCE Json
    \*         IN J!JsonSerialize("ConnNotify_TTrace_1790274030.json", _TETrace)


_view ==
    <<outNotif, done, spc, closeRet, closing, calls, transportClosed, IF TLCGet("level") = _TTraceLassoEnd + 1 THEN _TTraceLassoStart ELSE TLCGet("level")>>
=============================================================================

 Note that you can extract this module `ConnNotify_TEExpression`
  to a dedicated file to reuse `expression` (the module in the 
  dedicated `ConnNotify_TEExpression.tla` file takes precedence 
  over the module `ConnNotify_TEExpression` below).

---- MODULE ConnNotify_TEExpression ----
EXTENDS Sequences, TLCExt, Toolbox, Naturals, TLC, ConnNotify, ConnNotify_TEConstants

expression == 
    [
        \* To hide variables of the `ConnNotify` spec from the error trace,
        \* remove the variables below.  The trace will be written in the order
        \* of the fields of this record.
        outNotif |-> outNotif
        ,done |-> done
        ,spc |-> spc
        ,closeRet |-> closeRet
        ,closing |-> closing
        ,calls |-> calls
        ,transportClosed |-> transportClosed
        
        \* Put additional constant-, state-, and action-level expressions here:
        \* ,_stateNumber |-> _TEPosition
        \* ,_outNotifUnchanged |-> outNotif = outNotif'
        
        \* Format the `outNotif` variable as Json value.
        \* ,_outNotifJson |->
        \*     LET J == INSTANCE Json
        \*     IN J!ToJson(outNotif)
        
        \* Lastly, you may build expressions over arbitrary sets of states by
        \* leveraging the _TETrace operator.  For example, this is how to
        \* count the number of times a spec variable changed up to the current
        \* state in the trace.
        \* ,_outNotifModCount |->
        \*     LET F[s \in DOMAIN _TETrace] ==
        \*         IF s = 1 THEN 0
        \*         ELSE IF _TETrace[s].outNotif # _TETrace[s-1].outNotif
        \*             THEN 1 + F[s-1] ELSE F[s-1]
        \*     IN F[_TEPosition - 1]
    ]

=============================================================================



Parsing and semantic processing can take forever if the trace below is long.
 In this case, it is advised to uncomment the module below to deserialize the
 trace from a generated binary file.

\*
\*---- MODULE ConnNotify_TETrace ----
\*EXTENDS IOUtils, TLC, ConnNotify, ConnNotify_TEConstants
\*
\*trace == IODeserialize("ConnNotify_TTrace_1790274030.bin", TRUE)
\*
\*=============================================================================
\*

---- MODULE ConnNotify_TETrace ----
EXTENDS TLC, ConnNotify, ConnNotify_TEConstants

trace == 
    <<
    ([closing |-> FALSE,calls |-> 0,spc |-> [a |-> "idle", b |-> "idle"],closeRet |-> FALSE,done |-> FALSE,transportClosed |-> FALSE,outNotif |-> 0]),
    ([closing |-> FALSE,calls |-> 0,spc |-> [a |-> "idle", b |-> "wcheck"],closeRet |-> FALSE,done |-> FALSE,transportClosed |-> FALSE,outNotif |-> 1]),
    ([closing |-> TRUE,calls |-> 0,spc |-> [a |-> "idle", b |-> "wcheck"],closeRet |-> FALSE,done |-> FALSE,transportClosed |-> FALSE,outNotif |-> 1]),
    ([closing |-> TRUE,calls |-> 0,spc |-> [a |-> "wcheck", b |-> "wcheck"],closeRet |-> FALSE,done |-> FALSE,transportClosed |-> FALSE,outNotif |-> 2]),
    ([closing |-> TRUE,calls |-> 0,spc |-> [a |-> "inwriter", b |-> "wcheck"],closeRet |-> FALSE,done |-> FALSE,transportClosed |-> FALSE,outNotif |-> 2]),
    ([closing |-> TRUE,calls |-> 0,spc |-> [a |-> "ndone", b |-> "wcheck"],closeRet |-> FALSE,done |-> FALSE,transportClosed |-> FALSE,outNotif |-> 2]),
    ([closing |-> TRUE,calls |-> 0,spc |-> [a |-> "ndone", b |-> "inwriter"],closeRet |-> FALSE,done |-> FALSE,transportClosed |-> FALSE,outNotif |-> 2]),
    ([closing |-> TRUE,calls |-> 0,spc |-> [a |-> "idle", b |-> "inwriter"],closeRet |-> FALSE,done |-> FALSE,transportClosed |-> FALSE,outNotif |-> 1]),
    ([closing |-> TRUE,calls |-> 0,spc |-> [a |-> "idle", b |-> "ndone"],closeRet |-> FALSE,done |-> FALSE,transportClosed |-> FALSE,outNotif |-> 1]),
    ([closing |-> TRUE,calls |-> 0,spc |-> [a |-> "wcheck", b |-> "ndone"],closeRet |-> FALSE,done |-> FALSE,transportClosed |-> FALSE,outNotif |-> 2]),
    ([closing |-> TRUE,calls |-> 0,spc |-> [a |-> "wcheck", b |-> "idle"],closeRet |-> FALSE,done |-> FALSE,transportClosed |-> FALSE,outNotif |-> 1]),
    ([closing |-> TRUE,calls |-> 0,spc |-> [a |-> "inwriter", b |-> "idle"],closeRet |-> FALSE,done |-> FALSE,transportClosed |-> FALSE,outNotif |-> 1])
    >>
----


=============================================================================

---- MODULE ConnNotify_TEConstants ----
EXTENDS ConnNotify

CONSTANTS _TTraceLassoStart, _TTraceLassoEnd

=============================================================================

---- CONFIG ConnNotify_TTrace_1790274030 ----
CONSTANTS
    Senders = { "a" , "b" }
    MaxCalls = 1
    AdmitRule = "notIdle"
_TTraceLassoStart = 5
_TTraceLassoEnd = 12

PROPERTY
    _prop

CHECK_DEADLOCK
    \* CHECK_DEADLOCK off because of PROPERTY or INVARIANT above.
    FALSE

INIT
    _init

NEXT
    _next

VIEW
    _view

CONSTANT
    _TETrace <- _trace

ALIAS
    _expression
=============================================================================
\* Generated on Thu Sep 24 18:20:31 UTC 2026