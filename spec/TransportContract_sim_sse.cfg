SPECIFICATION Spec
CONSTANTS
  Class = "sse"
  Ideal = FALSE
  KSet = {"n"}
  NW <- W33
  NR <- W33
  NC <- W22
  WMax = 3
  CMax = 2
INVARIANTS TypeOK Fifo NoSpuriousError NoLoss
CHECK_DEADLOCK FALSE
