---------------------------- MODULE NegotiateDefs ----------------------------
(* Decision table for protocol-version negotiation, property C07.            *)
(*  CaseSet    the configuration matrix: requested version x transport x     *)
(*             HTTP options x versions advertised by the server side x       *)
(*             availability of server/discover and the shape in which its    *)
(*             absence shows up (JSON-RPC error / plain HTTP answer of a     *)
(*             front end or older server) x how the peer answers initialize  *)
(*             x an earlier connection to the same Server through another    *)
(*             streamable endpoint                                           *)
(*  Expected   the code-shaped procedure: Client.Connect (discover loop of   *)
(*             two rounds, renegotiation from -32022 data, fall-back to      *)
(*             initialize capped at 2025-11-25, check of the version in the  *)
(*             initialize result), the streamable / SSE client's handling    *)
(*             of a failed discover POST, ServerSession.handle's             *)
(*             version gate, Server.discover + filterSupportedVersions,      *)
(*             negotiatedVersion (mcp/client.go, server.go, shared.go,       *)
(*             streamable.go, sse.go)                                        *)
(*  Holds      the property, stated declaratively over (case, outcome)       *)
(* Negotiate.tla evaluates the design (Holds(c, Expected(c)); failures are   *)
(* leads) and exports the cases; NegotiateMon.tla judges the outcomes that   *)
(* real client/server pairs produced.                                        *)
EXTENDS Integers, Sequences, FiniteSets, TLC, Json, SequencesExt

\* ---------------------------------------------------------------- versions
\* SDK-supported protocol versions, newest first (supportedProtocolVersions)
Supported == <<"2026-07-28", "2025-11-25", "2025-06-18", "2025-03-26", "2024-11-05">>
V == {Supported[i] : i \in DOMAIN Supported}
Latest == "2026-07-28"
Modern == {"2026-07-28"}          \* versions of the sessionless (discover) protocol
Legacy == V \ Modern
LatestLegacy == "2025-11-25"

\* abstract classes of version strings unknown to the SDK
UnkLegacy == {"unk_old", "unk_mid"}   \* order below 2026-07-28 (older than all / between known ones)
UnkModern == {"unk_new", "unk_far"}   \* order at or above 2026-07-28
Requests == V \cup UnkLegacy \cup UnkModern \cup {"default"}

\* ------------------------------------------------------------------ cases
\* statefulnosid: a stateful StreamableHTTPHandler whose server suppresses session ids
\* (ServerOptions.GetSessionID returns ""): Stateless = false, every POST gets an ephemeral session
Transports == {"mem", "io", "sse", "stateful", "statefulnosid", "stateless"}
HttpOpts == {"stateful", "statefulnosid", "stateless"}   \* transports with JSONResponse / EventStore options
\* transports that cannot carry the sessionless protocol: SSE and every stateful HTTP endpoint
LegacyOnly == {"sse", "stateful", "statefulnosid"}
\* prior: before the judged connection, a default client connected (and disconnected) to the SAME
\* Server through a second streamable handler of the named kind (same JSON / store options)
Priors == {"none", "stateless", "stateful"}
\* How the absence of server/discover shows up.
\*   JSON-RPC level (the request reaches an MCP server): SDK handler / method unknown (-32601) /
\*   refused with -32022 listing legacy versions only
JsonDiscs == {"native", "notfound", "unsupp"}
\*   HTTP level (a front end, router or older server that does not know the probe answers the discover POST
\*   itself, with a plain HTTP error and a body that is not a JSON-RPC message; every other request reaches
\*   the real endpoint)
HttpStatuses == {"404", "400", "405", "501"}
HttpDisc(s) == "http" \o s
HttpDiscs == {HttpDisc(s) : s \in HttpStatuses}
Bodies == {"text", "empty", "html", "json"}   \* text/plain, no body at all, text/html, application/json that is no JSON-RPC
Discs == JsonDiscs \cup HttpDiscs
DiscBodies == {<<d, "none">> : d \in JsonDiscs} \cup {<<d, b>> : d \in HttpDiscs, b \in Bodies}
HttpTransports == {"sse", "stateful", "statefulnosid", "stateless"}

\* How the peer answers the legacy initialize request (ians).
\*   honest      as the SDK server does: the client's version if it knows it, else its latest legacy one
\*   a version   the peer speaks exactly this revision through initialize and says so whatever it was asked
\*               for: one of the SDK's legacy versions, 2026-07-28 (a revision that has no initialize
\*               handshake), or a string of one of the classes unknown to the SDK (older than all, between
\*               known ones, newer, far newer / garbage)
Answers == {"honest"} \cup V \cup UnkLegacy \cup UnkModern

\* wrap: the server transport is wrapped in a ProtocolVersionSupporter that admits exactly adv
\* early: the client's first request is already on its way while Server.Connect is still asking the transport
\* which versions it supports (a client that was started before the server, e.g. over stdio); the outcome the
\* property demands does not depend on it
Wrapped ==
  { [req |-> r, tr |-> t, json |-> FALSE, store |-> FALSE, wrap |-> TRUE, adv |-> a, disc |-> "native", dbody |-> "none",
     prior |-> "none", early |-> e, ians |-> "honest"] :
      r \in Requests, t \in {"mem", "io"}, a \in SUBSET V, e \in BOOLEAN }
Unwrapped ==
  { [req |-> r, tr |-> t, json |-> j, store |-> s, wrap |-> FALSE, adv |-> V, disc |-> db[1], dbody |-> db[2],
     prior |-> p, early |-> FALSE, ians |-> a] :
      r \in Requests, t \in Transports, j \in BOOLEAN, s \in BOOLEAN, db \in DiscBodies, p \in Priors, a \in Answers }
ValidCase(c) == /\ c.tr \notin HttpOpts => (~c.json /\ ~c.store /\ c.prior = "none")
                /\ c.prior # "none" => c.disc = "native"
                /\ c.disc \in HttpDiscs => c.tr \in HttpTransports
\* the whole matrix (thorough tier)
FullCaseSet == Wrapped \cup {c \in Unwrapped : ValidCase(c)}
\* quick tier: every value of every dimension, the two peer-answer dimensions (disc/dbody, ians) crossed with each
\* other, with every request and every transport, but with the HTTP options / earlier connection only on the
\* SDK-to-SDK part, and the body kinds only with an honest peer
Plain(c) == ~c.json /\ ~c.store /\ c.prior = "none"
Core(c) == \/ c.wrap
           \/ c.ians = "honest" /\ c.disc \in JsonDiscs
           \/ Plain(c) /\ (c.ians = "honest" \/ c.disc \in JsonDiscs \/ c.dbody = "text")
CoreCaseSet == {c \in FullCaseSet : Core(c)}

\* ------------------------------------------------- the property's vocabulary
\* the version the client asks for
Req(c) == IF c.req = "default" THEN Latest ELSE c.req
\* what the transport can carry: 2026-07-28 is defined for stdio and stateless streamable HTTP only
\* (whatever was connected to the same Server before does not change what this endpoint can carry)
TransportSupported(tr) == IF tr \in LegacyOnly THEN Legacy ELSE V
\* what the server side supports, as far as a peer can tell: the sessionless versions it offers through
\* server/discover (nothing when discovery is unavailable, in whatever shape that shows up) and what it offers through
\* initialize (the wrapper's legacy versions for the SDK server; for a peer that answers initialize with one fixed
\* revision, that revision - which is nothing the SDK side shares when the string is unknown to it)
ServerViaDiscover(c) == IF c.disc = "native" THEN c.adv \cap Modern ELSE {}
ServerViaInitialize(c) == IF c.ians = "honest" THEN c.adv \cap Legacy ELSE c.adv \cap {c.ians}
ServerAdvertised(c) == ServerViaDiscover(c) \cup ServerViaInitialize(c)
ClientSupported == V
Mutual(c) == ClientSupported \cap ServerAdvertised(c) \cap TransportSupported(c.tr)
ModernRequested(c) == Req(c) \in Modern \cup UnkModern
ModernAvailable(c) == Mutual(c) \cap Modern # {}

\* Outcome: [kind ("session"|"error"), version, nDisc, sentInit, listOK, callOK]
\*   version   InitializeResult().ProtocolVersion of the session Client.Connect handed out ("" for an error)
\*   nDisc     server/discover requests the client issued while connecting
\*   sentInit  an initialize request left the client for the peer while connecting (seen on the wire: written to the
\*             pipe / POSTed to the endpoint) - a client whose connection died with the probe has not fallen back
Sound(c, o) == o.kind = "session" => o.version \in Mutual(c)
NoModernOverLegacyTransport(c, o) ==
  (o.kind = "session" /\ c.tr \in LegacyOnly) => o.version \notin Modern
Exact(c, o) == (o.kind = "session" /\ Req(c) \in Mutual(c)) => o.version = Req(c)
\* discovery unavailable or without modern overlap => the initialize handshake is attempted
Fallback(c, o) == (ModernRequested(c) /\ ~ModernAvailable(c)) => o.sentInit
Usable(c, o) == o.kind = "session" => (o.listOK /\ o.callOK)

Holds(c, o) == /\ Sound(c, o) /\ NoModernOverLegacyTransport(c, o) /\ Exact(c, o)
               /\ Fallback(c, o) /\ Usable(c, o)

\* ------------------------------------------------------ code-shaped Expected
MinOf(S) == CHOOSE x \in S : \A y \in S : x <= y
\* negotiateMutuallySupportedVersion: newest SDK version contained in S, "" if none
NegMutual(S) == LET idx == {i \in DOMAIN Supported : Supported[i] \in S}
                IN IF idx = {} THEN "" ELSE Supported[MinOf(idx)]
\* negotiatedVersion (server side of initialize): the client's version if known and legacy, else 2025-11-25
NegotiatedVersion(pv) == IF pv \in Legacy THEN pv ELSE LatestLegacy
\* string comparison `>= "2026-07-28"` on the classes
ModernStr(r) == r \in Modern \cup UnkModern

\* filterSupportedVersions(t): the wrapper's answer, SSEServerTransport / StreamableServerTransport.SupportsProtocolVersion
TransportFilter(c) == IF c.wrap THEN c.adv
                      ELSE IF c.tr = "sse" THEN {v \in V : v \notin Modern}
                      ELSE IF c.tr \in {"stateful", "statefulnosid"} THEN Legacy   \* t.Stateless = FALSE
                      ELSE V                  \* computed per session in Server.Connect: c.prior plays no role

\* reply to server/discover carrying _meta.protocolVersion = r; lst = the list of versions the discover handler reads
\* (Server.discover: the list Server.Connect computed for THIS session's transport - see NegotiateConc for what
\* happens when several connections of one Server are in progress at once)
DiscReplyWith(c, r, lst) ==
  IF c.disc \in HttpDiscs THEN [k |-> "http", data |-> {}]          \* the front answers before any MCP server sees the probe
  ELSE IF r \notin V THEN [k |-> "unsupp", data |-> V]                   \* ServerSession.handle, before middleware; unfiltered list
  ELSE IF c.disc = "notfound" THEN [k |-> "other", data |-> {}]
  ELSE IF c.disc = "unsupp" THEN [k |-> "unsupp", data |-> Legacy]
  ELSE [k |-> "ok", data |-> lst]                                   \* Server.discover
DiscReply(c, r) == DiscReplyWith(c, r, TransportFilter(c))

\* one iteration of the discover loop in Client.Connect
\* a plain HTTP error to the discover POST: streamableClientConn.Write wraps it with ErrRejected (the call fails, the
\* connection lives); sseClientConn.Write returns it bare, jsonrpc2 records a write error and the connection is dead
RoundWith(c, r, lst) ==
  LET rep == DiscReplyWith(c, r, lst) IN
  IF rep.k = "http" THEN [k |-> IF c.tr = "sse" THEN "dead" ELSE "break", v |-> ""]
  ELSE IF rep.k = "ok" THEN
    LET n == IF r \in rep.data THEN r ELSE NegMutual(rep.data) IN
    IF n = "" \/ n \notin Modern THEN [k |-> "break", v |-> ""] ELSE [k |-> "session", v |-> n]
  ELSE IF rep.k = "unsupp" /\ rep.data # {} THEN
    LET n == NegMutual(rep.data) IN
    IF n # "" /\ n \in Modern THEN [k |-> "retry", v |-> n] ELSE [k |-> "break", v |-> ""]
  ELSE [k |-> "break", v |-> ""]
Round(c, r) == RoundWith(c, r, TransportFilter(c))

Sess(v, nd, init) == [kind |-> "session", version |-> v, nDisc |-> nd, sentInit |-> init, listOK |-> TRUE, callOK |-> TRUE]
Err(nd, init) == [kind |-> "error", version |-> "", nDisc |-> nd, sentInit |-> init, listOK |-> FALSE, callOK |-> FALSE]
\* initialize(pv): the SDK server answers negotiatedVersion(pv), another peer its fixed revision; the client accepts
\* any version of the SDK's list (slices.Contains(supportedProtocolVersions, ..)), 2026-07-28 included, and fails on
\* everything else.  With 2026-07-28 accepted that way the streamable client labels notifications/initialized with
\* Mcp-Protocol-Version: 2026-07-28 but no _meta version, which every streamable endpoint refuses (400): Connect fails;
\* on the pipes and on SSE nothing objects and the session is handed out
InitAnswer(c, pv) == IF c.ians = "honest" THEN NegotiatedVersion(pv) ELSE c.ians
\* (since /repo 6db52c0 the client refuses an initialize result that selects a version without initialize handshake,
\* on every transport; before, only the streamable endpoints' 400 on notifications/initialized stopped it)
InitVia(c, pv, nd) == LET a == InitAnswer(c, pv) IN
                      IF a \notin V THEN Err(nd, TRUE)
                      ELSE IF a \in Modern THEN Err(nd, TRUE)
                      ELSE Sess(a, nd, TRUE)

\* the whole connect procedure when the discover handler serves lst
ExpectedServed(c, lst) ==
  LET r == Req(c) IN
  IF ~ModernStr(r) THEN InitVia(c, r, 0)
  ELSE LET r1 == RoundWith(c, r, lst) IN
       IF r1.k = "session" THEN Sess(r1.v, 1, FALSE)
       ELSE IF r1.k = "dead" THEN Err(1, FALSE)
       ELSE IF r1.k = "break" THEN InitVia(c, LatestLegacy, 1)
       ELSE LET r2 == RoundWith(c, r1.v, lst) IN
            IF r2.k = "session" THEN Sess(r2.v, 2, FALSE) ELSE InitVia(c, LatestLegacy, 2)
\* a connection on its own: the list is the one computed for its transport
Expected(c) == ExpectedServed(c, TransportFilter(c))

\* ------------------------------------------------------------- signatures
\* abstract class of a failing (case, outcome): which clause, how the session was made, where
TrClass(c) == (IF c.wrap THEN "wrapped" ELSE IF c.prior = "none" THEN c.tr ELSE c.tr \o "+prior=" \o c.prior)
              \o (IF c.disc \in HttpDiscs THEN "+disc=" \o c.disc ELSE "")
              \o (IF c.ians = "honest" THEN "" ELSE "+ians=" \o c.ians)
Via(o) == IF o.sentInit THEN "initialize" ELSE "discover"
FailedClauses(c, o) ==
  (IF Sound(c, o) THEN {} ELSE {"Sound"}) \cup
  (IF NoModernOverLegacyTransport(c, o) THEN {} ELSE {"NoModernOverLegacyTransport"}) \cup
  (IF Exact(c, o) THEN {} ELSE {"Exact"}) \cup
  (IF Fallback(c, o) THEN {} ELSE {"Fallback"}) \cup
  (IF Usable(c, o) THEN {} ELSE {"Usable"})
=============================================================================
