---------------------------- MODULE NegotiateDefs ----------------------------
(* Decision table for protocol-version negotiation, property C07.            *)
(*  CaseSet    the configuration matrix: requested version x transport x     *)
(*             HTTP options x versions advertised by the server side x       *)
(*             availability of server/discover x an earlier connection to    *)
(*             the same Server through another streamable endpoint           *)
(*  Expected   the code-shaped procedure: Client.Connect (discover loop of   *)
(*             two rounds, renegotiation from -32022 data, fall-back to      *)
(*             initialize capped at 2025-11-25), ServerSession.handle's      *)
(*             version gate, Server.discover + filterSupportedVersions,      *)
(*             negotiatedVersion (mcp/client.go, server.go, shared.go,       *)
(*             streamable.go, sse.go)                                        *)
(*  Holds      the property, stated declaratively over (case, outcome)       *)
(* Negotiate.tla evaluates the design (Holds(c, Expected(c)); failures are   *)
(* leads) and exports the cases; NegotiateMon.tla judges the outcomes that   *)
(* real client/server pairs produced.                                        *)
EXTENDS Integers, Sequences, FiniteSets, TLC, Json, SequencesExt

\* ---------------------------------------------------------------- versions
\* SDK-supported protocol versions, newest first (supportedProtocolVersions)
Supported == <<"2026-07-28", "2025-11-25", "2025-06-18", "2025-03-26", "2024-11-05">>
V == {Supported[i] : i \in DOMAIN Supported}
Latest == "2026-07-28"
Modern == {"2026-07-28"}          \* versions of the sessionless (discover) protocol
Legacy == V \ Modern
LatestLegacy == "2025-11-25"

\* abstract classes of version strings unknown to the SDK
UnkLegacy == {"unk_old", "unk_mid"}   \* order below 2026-07-28 (older than all / between known ones)
UnkModern == {"unk_new", "unk_far"}   \* order at or above 2026-07-28
Requests == V \cup UnkLegacy \cup UnkModern \cup {"default"}

\* ------------------------------------------------------------------ cases
\* statefulnosid: a stateful StreamableHTTPHandler whose server suppresses session ids
\* (ServerOptions.GetSessionID returns ""): Stateless = false, every POST gets an ephemeral session
Transports == {"mem", "io", "sse", "stateful", "statefulnosid", "stateless"}
HttpOpts == {"stateful", "statefulnosid", "stateless"}   \* transports with JSONResponse / EventStore options
\* transports that cannot carry the sessionless protocol: SSE and every stateful HTTP endpoint
LegacyOnly == {"sse", "stateful", "statefulnosid"}
\* prior: before the judged connection, a default client connected (and disconnected) to the SAME
\* Server through a second streamable handler of the named kind (same JSON / store options)
Priors == {"none", "stateless", "stateful"}
Discs == {"native", "notfound", "unsupp"}   \* server/discover: SDK handler / method unknown (-32601) /
                                            \* refused with -32022 listing legacy versions only

\* wrap: the server transport is wrapped in a ProtocolVersionSupporter that admits exactly adv
\* early: the client's first request is already on its way while Server.Connect is still asking the transport
\* which versions it supports (a client that was started before the server, e.g. over stdio); the outcome the
\* property demands does not depend on it
Wrapped ==
  { [req |-> r, tr |-> t, json |-> FALSE, store |-> FALSE, wrap |-> TRUE, adv |-> a, disc |-> "native", prior |-> "none", early |-> e] :
      r \in Requests, t \in {"mem", "io"}, a \in SUBSET V, e \in BOOLEAN }
Unwrapped ==
  { [req |-> r, tr |-> t, json |-> j, store |-> s, wrap |-> FALSE, adv |-> V, disc |-> d, prior |-> p, early |-> FALSE] :
      r \in Requests, t \in Transports, j \in BOOLEAN, s \in BOOLEAN, d \in Discs, p \in Priors }
ValidCase(c) == /\ c.tr \notin HttpOpts => (~c.json /\ ~c.store /\ c.prior = "none")
                /\ c.prior # "none" => c.disc = "native"
CaseSet == Wrapped \cup {c \in Unwrapped : ValidCase(c)}

\* ------------------------------------------------- the property's vocabulary
\* the version the client asks for
Req(c) == IF c.req = "default" THEN Latest ELSE c.req
\* what the transport can carry: 2026-07-28 is defined for stdio and stateless streamable HTTP only
\* (whatever was connected to the same Server before does not change what this endpoint can carry)
TransportSupported(tr) == IF tr \in LegacyOnly THEN Legacy ELSE V
\* what the server side advertises: the wrapper's set; nothing modern when it has no server/discover
ServerAdvertised(c) == IF c.disc = "native" THEN c.adv ELSE c.adv \ Modern
ClientSupported == V
Mutual(c) == ClientSupported \cap ServerAdvertised(c) \cap TransportSupported(c.tr)
ModernRequested(c) == Req(c) \in Modern \cup UnkModern
ModernAvailable(c) == Mutual(c) \cap Modern # {}

\* Outcome: [kind ("session"|"error"), version, nDisc, sentInit, listOK, callOK]
Sound(c, o) == o.kind = "session" => o.version \in Mutual(c)
NoModernOverLegacyTransport(c, o) ==
  (o.kind = "session" /\ c.tr \in LegacyOnly) => o.version \notin Modern
Exact(c, o) == (o.kind = "session" /\ Req(c) \in Mutual(c)) => o.version = Req(c)
\* discovery unavailable or without modern overlap => the initialize handshake is attempted
Fallback(c, o) == (ModernRequested(c) /\ ~ModernAvailable(c)) => o.sentInit
Usable(c, o) == o.kind = "session" => (o.listOK /\ o.callOK)

Holds(c, o) == /\ Sound(c, o) /\ NoModernOverLegacyTransport(c, o) /\ Exact(c, o)
               /\ Fallback(c, o) /\ Usable(c, o)

\* ------------------------------------------------------ code-shaped Expected
MinOf(S) == CHOOSE x \in S : \A y \in S : x <= y
\* negotiateMutuallySupportedVersion: newest SDK version contained in S, "" if none
NegMutual(S) == LET idx == {i \in DOMAIN Supported : Supported[i] \in S}
                IN IF idx = {} THEN "" ELSE Supported[MinOf(idx)]
\* negotiatedVersion (server side of initialize): the client's version if known and legacy, else 2025-11-25
NegotiatedVersion(pv) == IF pv \in Legacy THEN pv ELSE LatestLegacy
\* string comparison `>= "2026-07-28"` on the classes
ModernStr(r) == r \in Modern \cup UnkModern

\* filterSupportedVersions(t): the wrapper's answer, SSEServerTransport / StreamableServerTransport.SupportsProtocolVersion
TransportFilter(c) == IF c.wrap THEN c.adv
                      ELSE IF c.tr = "sse" THEN {v \in V : v \notin Modern}
                      ELSE IF c.tr \in {"stateful", "statefulnosid"} THEN Legacy   \* t.Stateless = FALSE
                      ELSE V                  \* computed per session in Server.Connect: c.prior plays no role

\* reply to server/discover carrying _meta.protocolVersion = r
DiscReply(c, r) ==
  IF r \notin V THEN [k |-> "unsupp", data |-> V]                   \* ServerSession.handle, before middleware; unfiltered list
  ELSE IF c.disc = "notfound" THEN [k |-> "other", data |-> {}]
  ELSE IF c.disc = "unsupp" THEN [k |-> "unsupp", data |-> Legacy]
  ELSE [k |-> "ok", data |-> TransportFilter(c)]                    \* Server.discover

\* one iteration of the discover loop in Client.Connect
Round(c, r) ==
  LET rep == DiscReply(c, r) IN
  IF rep.k = "ok" THEN
    LET n == IF r \in rep.data THEN r ELSE NegMutual(rep.data) IN
    IF n = "" \/ n \notin Modern THEN [k |-> "break", v |-> ""] ELSE [k |-> "session", v |-> n]
  ELSE IF rep.k = "unsupp" /\ rep.data # {} THEN
    LET n == NegMutual(rep.data) IN
    IF n # "" /\ n \in Modern THEN [k |-> "retry", v |-> n] ELSE [k |-> "break", v |-> ""]
  ELSE [k |-> "break", v |-> ""]

Sess(v, nd, init) == [kind |-> "session", version |-> v, nDisc |-> nd, sentInit |-> init, listOK |-> TRUE, callOK |-> TRUE]
\* initialize(pv): the server answers negotiatedVersion(pv); the client accepts any SDK version
InitVia(pv, nd) == Sess(NegotiatedVersion(pv), nd, TRUE)

Expected(c) ==
  LET r == Req(c) IN
  IF ~ModernStr(r) THEN InitVia(r, 0)
  ELSE LET r1 == Round(c, r) IN
       IF r1.k = "session" THEN Sess(r1.v, 1, FALSE)
       ELSE IF r1.k = "break" THEN InitVia(LatestLegacy, 1)
       ELSE LET r2 == Round(c, r1.v) IN
            IF r2.k = "session" THEN Sess(r2.v, 2, FALSE) ELSE InitVia(LatestLegacy, 2)

\* ------------------------------------------------------------- signatures
\* abstract class of a failing (case, outcome): which clause, how the session was made, where
TrClass(c) == IF c.wrap THEN "wrapped" ELSE IF c.prior = "none" THEN c.tr ELSE c.tr \o "+prior=" \o c.prior
Via(o) == IF o.sentInit THEN "initialize" ELSE "discover"
FailedClauses(c, o) ==
  (IF Sound(c, o) THEN {} ELSE {"Sound"}) \cup
  (IF NoModernOverLegacyTransport(c, o) THEN {} ELSE {"NoModernOverLegacyTransport"}) \cup
  (IF Exact(c, o) THEN {} ELSE {"Exact"}) \cup
  (IF Fallback(c, o) THEN {} ELSE {"Fallback"}) \cup
  (IF Usable(c, o) THEN {} ELSE {"Usable"})
=============================================================================
