------------------------------ MODULE StreamE2E ------------------------------
(* END-TO-END composition of the two halves of the streamable HTTP transport  *)
(* (properties C08 and C09 together): a real StreamableClientTransport talking *)
(* to a real StreamableHTTPHandler with an event store, protocol versions      *)
(* before 2026-07-28, through a network the environment controls.             *)
(*                                                                            *)
(* The model is ABSTRACT and COMPOSED: per logical stream (one per tools/call  *)
(* plus the standalone stream "sa")                                           *)
(*   log[s]    what the server has written, in order (ground truth; position   *)
(*             1 is the priming event when the version has one),              *)
(*   cur[s]    the client's cursor: the event index carried by the id of the   *)
(*             last event it received completely (-1: none),                  *)
(*   del[s]    what was handed to the client session, in order,               *)
(*   link[s]   idle | up (a response body is open) | cut (the body ended, the  *)
(*             client's reconnect GET is in the environment's hands) | closed, *)
(*   sidx[s]   the server's lastIdx for the attached exchange (event ids of    *)
(*             live events are sidx+1),                                       *)
(*   the client's retry accounting (prog, rwp, fails) and the outcome of the   *)
(*             call (res).                                                    *)
(* Every action is an ENVIRONMENT action followed by the SDK running to        *)
(* quiescence (seam level: that is how the harness drives the real code under  *)
(* testing/synctest):                                                         *)
(*   Call(r)                 the client calls the gated tool r                 *)
(*   ServerWrite(s, k)       a notification (k = "n"; on a request's stream or *)
(*                           outside any request, attached or not) or a nested *)
(*                           server->client request (k = "q")                  *)
(*   HandlerReturn(r)        the handler returns the call's result             *)
(*   ServerClose(r)          the handler closes its SSE stream (SEP-1699)      *)
(*   Cut(s, n, mode, how)    the current (else the next) response body of s    *)
(*                           ends after n events: at the event boundary or     *)
(*                           inside the next event; clean EOF / read error;    *)
(*                           noticed by the server at once / late              *)
(*   ReconnectFails(s, kind) the client's pending reconnect attempt fails:     *)
(*                           transport error or an HTTP status                 *)
(*   ReconnectOk(s)          the pending reconnect reaches the server          *)
(* The SDK's own steps are abstracted to: a live event is pushed on the        *)
(* attached body; "resume from cursor c" replays exactly log[c+2 ..] with ids  *)
(* c+1, c+2, ... and re-attaches; the client's retry accounting is the one of  *)
(* handleSSE / connectSSE (bodies without progress, attempts of one reconnect, *)
(* a connection lost before the response headers counts as a failed attempt).  *)
(*                                                                            *)
(* The step functions are CONSTANT-LEVEL operators over a state record         *)
(* (F<Action>(st, args) with enabling predicates En<Action>), so the monitor   *)
(* spec/StreamE2EMon.tla can run the very same functions along the steps the   *)
(* harness executed and compare (drift), and TLC can explore them here.        *)
EXTENDS Integers, Sequences, FiniteSets, TLC

CONSTANTS Reqs,          \* names of the calls (each has its own logical stream)
          HasSa,         \* is the standalone stream part of the scenario?
          PrimeSet,      \* SUBSET BOOLEAN: TRUE = 2025-11-25 (priming events), FALSE = 2025-06-18 / 2025-03-26
          MaxRetries,    \* StreamableClientTransport.MaxRetries
          MaxWrites,     \* bound: notifications + nested requests written, all streams together
          MaxCuts,       \* bound: cuts armed
          MaxFails,      \* bound: failed reconnect attempts injected
          ArmN,          \* a cut is armed for "after n events of the body", n \in 0..ArmN
          CutHows,       \* how a body ends: "eof" clean EOF | "err" read error; suffix "L": the server notices late
          FailKinds,     \* answers to a reconnect attempt: "terr" transport error | an HTTP status
          SrvRenumberBug \* lead switch (FALSE in every design check): after a replay the server numbers live events
                         \* from the client's cursor instead of from the end of the replay (seeded change C09-m1)

Streams == Reqs \cup (IF HasSa THEN {"sa"} ELSE {})
Transient == {"terr", "429", "500", "502", "503", "504"}
NoArm == [n |-> -1, mode |-> "none", how |-> "none"]
Msg(o, k, i) == [o |-> o, k |-> k, i |-> i]       \* origin stream, kind (prime | n | q | resp), ordinal
NoPrime(q) == SelectSeq(q, LAMBDA m : m.k # "prime")
IsPrefix(a, b) == Len(a) <= Len(b) /\ \A i \in 1..Len(a) : a[i] = b[i]
Count(q, k) == Cardinality({i \in 1..Len(q) : q[i].k = k})

Init0(p) ==
  [prime |-> p,
   log   |-> [s \in Streams |-> <<>>],
   h     |-> [r \in Reqs |-> "none"],             \* handler: none | run | wait (inside a nested request) | done
   link  |-> [s \in Streams |-> IF s = "sa" THEN "up" ELSE "idle"],
   sidx  |-> [s \in Streams |-> -1],
   hdr   |-> [s \in Streams |-> s = "sa"],         \* has the open exchange sent its response headers? (a request
                                                  \* stream's exchange sends them with its first event, the
                                                  \* standalone stream's at once)
   cur   |-> [s \in Streams |-> -1],
   del   |-> [s \in Streams |-> <<>>],
   prog  |-> [s \in Streams |-> FALSE],           \* did the current body bring a new id across?
   rwp   |-> [s \in Streams |-> 0],               \* bodies in a row that did not (retriesWithoutProgress)
   fails |-> [s \in Streams |-> 0],               \* failed attempts of the current reconnect
   arm   |-> [s \in Streams |-> NoArm],           \* cut armed for the current (or the next) body of the stream
   res   |-> [r \in Reqs |-> "none"],             \* call: none | pending | ok | err
   unres |-> {},                                  \* calls given up because no event id had ever come across
   broken |-> FALSE, why |-> "",                  \* the client connection failed (budget exhausted / session gone)
   nw |-> 0, nc |-> 0, nf |-> 0]

-----------------------------------------------------------------------------
\* the client connection fails: every pending call ends with an error, nothing is read any more
Break(st, why) ==
  [st EXCEPT !.broken = TRUE, !.why = why,
             !.link = [s \in Streams |-> IF st.link[s] = "idle" THEN "idle" ELSE "closed"],
             !.arm = [s \in Streams |-> NoArm],
             !.res = [r \in Reqs |-> IF st.res[r] = "pending" THEN "err" ELSE st.res[r]]]

\* the open body of stream s ends without the call's response (handleSSE after processStream)
EndBody(st, s) ==
  LET a == [st EXCEPT !.arm[s] = NoArm] IN
  IF s \in Reqs /\ st.cur[s] = -1
  THEN \* no event id has ever come across: nothing to resume from, the call fails with the synthetic error
       [a EXCEPT !.link[s] = "closed", !.res[s] = "err", !.unres = @ \cup {s}]
  ELSE IF ~st.hdr[s]
  THEN \* the connection went away before any response header: for the client a failed attempt of the reconnect in
       \* progress (connectSSE), not a body
       LET a2 == [a EXCEPT !.fails[s] = @ + 1] IN
       IF a2.fails[s] >= MaxRetries THEN Break(a2, "attempts") ELSE [a2 EXCEPT !.link[s] = "cut"]
  ELSE IF st.prog[s]
  THEN [a EXCEPT !.link[s] = "cut", !.rwp[s] = 0, !.fails[s] = 0, !.prog[s] = FALSE]
  ELSE IF st.rwp[s] + 1 > MaxRetries
  THEN Break(a, "noprogress")
  ELSE [a EXCEPT !.link[s] = "cut", !.rwp[s] = @ + 1, !.fails[s] = 0]

\* the client receives event ev = [m, id] completely
Recv(st, s, ev) ==
  LET b == [st EXCEPT !.cur[s] = ev.id, !.prog[s] = (@ \/ ev.id # st.cur[s]),
                      !.del[s] = IF ev.m.k = "prime" THEN @ ELSE Append(@, ev.m)] IN
  IF ev.m.k = "resp" THEN [b EXCEPT !.res[s] = "ok", !.link[s] = "closed", !.arm[s] = NoArm]
  ELSE IF ev.m.k = "q" /\ s \in Reqs /\ b.h[s] = "wait" THEN [b EXCEPT !.h[s] = "run"]   \* the client answers, the handler goes on
  ELSE b

\* events evs are pushed on the open body of s; an armed cut ends the body after arm.n events (mode "bnd": at
\* once; mode "in": inside the next event, which is lost in transit)
RECURSIVE Flow(_, _, _)
Flow(st, s, evs) ==
  IF st.link[s] # "up" THEN st
  ELSE LET a == st.arm[s] IN
       IF a.n = 0 /\ (a.mode = "bnd" \/ evs # <<>>) THEN EndBody(st, s)
       ELSE IF evs = <<>> THEN st
       ELSE LET st1 == IF a.n > 0 THEN [st EXCEPT !.arm[s].n = a.n - 1] ELSE st
            IN Flow(Recv(st1, s, Head(evs)), s, Tail(evs))

\* a message is written to stream s by the server
Put(st, s, m) ==
  LET a == [st EXCEPT !.log[s] = Append(@, m)] IN
  IF st.link[s] = "up"
  THEN Flow([a EXCEPT !.sidx[s] = @ + 1, !.hdr[s] = TRUE], s, <<[m |-> m, id |-> st.sidx[s] + 1]>>)
  ELSE a

-----------------------------------------------------------------------------
\* environment actions: enabling condition (semantic, no exploration bounds) and effect
EnCall(st, r) == r \in Reqs /\ st.res[r] = "none" /\ ~st.broken
FCall(st, r) ==
  LET lg == IF st.prime THEN <<Msg(r, "prime", 0)>> ELSE <<>>
      a == [st EXCEPT !.res[r] = "pending", !.h[r] = "run", !.log[r] = lg, !.link[r] = "up", !.sidx[r] = Len(lg) - 1,
                      !.hdr[r] = lg # <<>>]
  IN Flow(a, r, [i \in 1..Len(lg) |-> [m |-> lg[i], id |-> i - 1]])

\* a notification (k = "n") or a nested server->client request (k = "q", request streams only)
EnServerWrite(st, s, k) == /\ s \in Streams /\ ~st.broken /\ k \in {"n", "q"}
                     /\ (s \in Reqs => st.h[s] = "run")
                     /\ (k = "q" => s \in Reqs)
FServerWrite(st, s, k) ==
  LET m == Msg(s, k, Count(st.log[s], k) + 1)
      a == [st EXCEPT !.nw = @ + 1] IN
  Put(IF k = "q" THEN [a EXCEPT !.h[s] = "wait"] ELSE a, s, m)

EnHandlerReturn(st, r) == r \in Reqs /\ st.h[r] = "run" /\ ~st.broken
FHandlerReturn(st, r) == Put([st EXCEPT !.h[r] = "done"], r, Msg(r, "resp", 0))

\* arm a cut for the current body of s (or, when none is open, for the next one)
EnCut(st, s, n, mode, how) ==
  /\ s \in Streams /\ ~st.broken /\ st.arm[s] = NoArm /\ st.link[s] \in {"idle", "up", "cut"}
  /\ n >= 0 /\ mode \in {"bnd", "in"}
  /\ (mode = "in" => how \in {"err", "errL"})      \* a clean EOF inside an event: recorded C09 findings, not repeated here
FCut(st, s, n, mode, how) ==
  Flow([st EXCEPT !.arm[s] = [n |-> n, mode |-> mode, how |-> how], !.nc = @ + 1], s, <<>>)

\* the handler of r closes the request's SSE stream itself (RequestExtra.CloseSSEStream, SEP-1699): the server ends
\* the response - with its headers, if they were still to come - and the client is expected to come back
EnServerClose(st, r) == r \in Reqs /\ st.h[r] = "run" /\ st.link[r] = "up" /\ ~st.broken
FServerClose(st, r) == EndBody([st EXCEPT !.hdr[r] = TRUE, !.nc = @ + 1], r)

EnReconnectFails(st, s, kind) == s \in Streams /\ st.link[s] = "cut" /\ ~st.broken
FReconnectFails(st, s, kind) ==
  LET a == [st EXCEPT !.fails[s] = @ + 1, !.nf = @ + 1] IN
  IF kind \notin Transient THEN Break(a, "gone")
  ELSE IF a.fails[s] >= MaxRetries THEN Break(a, "attempts")
  ELSE a

EnReconnectOk(st, s) == s \in Streams /\ st.link[s] = "cut" /\ ~st.broken
FReconnectOk(st, s) ==
  LET from == st.cur[s]
      lg == st.log[s]
      k == Len(lg) - (from + 1)
      evs == [j \in 1..k |-> [m |-> lg[from + 1 + j], id |-> from + j]]
      \* (fails is not reset here: the attempts of one reconnect are counted until a body has ended)
      a == [st EXCEPT !.link[s] = "up", !.hdr[s] = (s = "sa" \/ k > 0),
                      !.sidx[s] = IF SrvRenumberBug THEN from ELSE from + k]
  IN Flow(a, s, evs)

-----------------------------------------------------------------------------
\* the properties, as predicates of a state (every state is a state at rest)
ExactlyOnceInOrderS(st) == \A s \in Streams : IsPrefix(st.del[s], NoPrime(st.log[s]))
Whole(st, s) == st.del[s] = NoPrime(st.log[s])
\* at rest an open body has brought everything across
WholeAtRestS(st) == \A s \in Streams : st.link[s] = "up" => Whole(st, s)
CallCompletesS(st) ==
  \A r \in Reqs :
    /\ st.res[r] = "ok" => Whole(st, r) /\ st.h[r] = "done" /\ st.del[r] # <<>> /\ st.del[r][Len(st.del[r])].k = "resp"
    /\ st.res[r] = "err" => st.broken \/ r \in st.unres                \* an error only when the budget is gone / nothing to resume from
    /\ st.res[r] = "pending" => /\ st.link[r] \in {"up", "cut"}        \* never hangs: pending only while the handler has not
                                /\ (st.link[r] = "up" => st.h[r] # "done")  \* returned or the environment holds the reconnect
    /\ st.link[r] = "closed" => st.res[r] \in {"ok", "err"}
NoCrossStreamS(st) == \A s \in Streams : \A i \in 1..Len(st.del[s]) : st.del[s][i].o = s
BrokenOnlyWhenExhaustedS(st) ==
  st.broken => \/ st.why = "attempts" /\ \E s \in Streams : st.fails[s] >= MaxRetries
               \/ st.why = "noprogress" /\ \E s \in Streams : st.rwp[s] >= MaxRetries
               \/ st.why = "gone"
\* everything the environment owes is discharged: nothing held, every handler returned
Drained(st) == (\A s \in Streams : st.link[s] # "cut") /\ (\A r \in Reqs : st.h[r] \in {"none", "done"})
DrainedWholeS(st) ==
  (Drained(st) /\ ~st.broken) =>
     /\ \A s \in Streams : (s \notin st.unres /\ st.link[s] # "idle") => Whole(st, s)
     /\ \A r \in Reqs : st.res[r] # "pending"

-----------------------------------------------------------------------------
VARIABLE st
TypeOK == /\ st.prime \in BOOLEAN /\ st.broken \in BOOLEAN
          /\ \A s \in Streams : st.link[s] \in {"idle", "up", "cut", "closed"} /\ st.cur[s] \in -1..(MaxWrites + 2)
          /\ \A r \in Reqs : st.h[r] \in {"none", "run", "wait", "done"} /\ st.res[r] \in {"none", "pending", "ok", "err"}
Init == \E p \in PrimeSet : st = Init0(p)

Call(r) == EnCall(st, r) /\ st' = FCall(st, r)
ServerWrite(s, k) == EnServerWrite(st, s, k) /\ st.nw < MaxWrites /\ st' = FServerWrite(st, s, k)
HandlerReturn(r) == EnHandlerReturn(st, r) /\ st' = FHandlerReturn(st, r)
Cut(s, n, mode, how) == EnCut(st, s, n, mode, how) /\ st.nc < MaxCuts /\ st' = FCut(st, s, n, mode, how)
ReconnectFails(s, kind) == EnReconnectFails(st, s, kind) /\ st.nf < MaxFails /\ st' = FReconnectFails(st, s, kind)
ReconnectOk(s) == EnReconnectOk(st, s) /\ st' = FReconnectOk(st, s)
ServerClose(r) == EnServerClose(st, r) /\ st.nc < MaxCuts /\ st' = FServerClose(st, r)

Next ==
  \/ \E r \in Reqs : Call(r) \/ HandlerReturn(r) \/ ServerClose(r)
  \/ \E s \in Streams, k \in {"n", "q"} : ServerWrite(s, k)
  \/ \E s \in Streams, n \in 0..ArmN, mode \in {"bnd", "in"}, how \in CutHows : Cut(s, n, mode, how)
  \/ \E s \in Streams, kind \in FailKinds : ReconnectFails(s, kind)
  \/ \E s \in Streams : ReconnectOk(s)
Spec == Init /\ [][Next]_st

ExactlyOnceInOrder == ExactlyOnceInOrderS(st)
WholeAtRest == WholeAtRestS(st)
CallCompletes == CallCompletesS(st)
NoCrossStream == NoCrossStreamS(st)
BrokenOnlyWhenExhausted == BrokenOnlyWhenExhaustedS(st)
DrainedWhole == DrainedWholeS(st)
\* the environment can always discharge what it owes: from every state a drained state is reachable
\* (checked as: no state other than a drained one is a dead end; a handler inside a nested request on a stream the
\* client has given up as unresumable waits for ever -- that is the server application's business, not the transport's)
NoDeadEnd == (~ENABLED Next) => (Drained(st) \/ st.broken \/ st.unres # {})

\* reachability witnesses: each must be VIOLATED (otherwise the configuration is vacuous)
W_NoReplay == \A s \in Streams : st.link[s] = "cut" => st.cur[s] = Len(st.log[s]) - 1       \* nothing written while detached
W_NoGiveUpAttempts == ~(st.broken /\ st.why = "attempts")
W_NoGiveUpNoProgress == ~(st.broken /\ st.why = "noprogress")
W_NoUnresumable == st.unres = {}
W_NoOkAfterCuts == ~(\E r \in Reqs : st.res[r] = "ok" /\ st.nc >= 2 /\ st.nf >= 1)
W_NoRefail == \A s \in Streams : ~(st.link[s] = "cut" /\ st.rwp[s] >= 1)                      \* a resumed body that was cut before its first event
W_NoNestedReplayed == \A r \in Reqs : ~(st.h[r] = "wait" /\ st.link[r] = "cut")               \* a nested request waiting for a resumption
=============================================================================
