\* behaviour export: a first cut on an event boundary after an id has come across, then the resumption GET refused - at attempt 1, or
\* 2 after a refused / 503 attempt - with a non-2xx, non-transient status whose body is a JSON-RPC error response (ErrBodyAnswers)
\* (tools/checks/c09.py builds its configurations from the same template - the Fix* switches of the configurations that model
\*  the real code come from its REPAIRED table; this file is for manual runs:
\*  java -cp $TLA_CP tlc2.TLC -config StreamCli_genJ.cfg StreamCliMC)
SPECIFICATION Spec
CONSTANTS
  KindSet = {"post", "sa"}
  ShapeSet <- FirstOnly
  SchemeSet = {"dec"}
  MSet = {2}
  MRSet = {1, 2}
  MaxCuts = 1
  ClassSet = {"bnd"}
  AnswerSet = {"terr", "ok", "503", "400:own", "400:other", "400:null", "409:own", "409:other", "409:null", "404:own"}
  TailSet = {"good"}
  RetrySet = {"none"}
  FixScanner = FALSE
  FixCursor = TRUE
  Fix5xx = TRUE
CONSTRAINT JsonErr
INVARIANTS ExportJsonErr
CHECK_DEADLOCK FALSE
