SPECIFICATION Spec
CONSTANTS
  Class = "rdv"
  Ideal = FALSE
  KSet = {"n"}
  NW <- W20
  NR <- W02
  NC <- W11
  WMax = 3
  CMax = 2
INVARIANTS TypeOK Fifo NoSpuriousError NoLoss RestAll ClosedStopsReads ClosedStopsWrites
PROPERTIES ClosedForGood
CHECK_DEADLOCK FALSE
