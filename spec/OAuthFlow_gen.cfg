SPECIFICATION Spec
CONSTANTS
  Challenges <- GenChallenges
  McpURLs <- GenMcpURLs
  PRMHttpFail <- GenPRMHttpFail
  PRMDocs <- GenPRMDocs
  ASM4xx <- GenASM4xx
  ASMHttpFail <- GenASMHttpFail
  ASMFlagDocs <- GenASMFlagDocs
  ASMDocs <- GenASMDocs
  ASMRest <- GenASMRest
  RegConfigs <- GenRegConfigs
  PreRels <- GenPreRels
  DCROutcomes <- GenDCROutcomes
  AuthStates <- GenAuthStates
  AuthIsses <- GenAuthIsses
  TokenOutcomes <- GenTokenOutcomes
VIEW CoverView
INVARIANT ResultKnown
CHECK_DEADLOCK FALSE
