\* liveness under fairness: standalone, OAuth, cancel, unanswered DELETE
SPECIFICATION FairSpec
CONSTANTS
  NC = 1
  SASet = {TRUE}
  OAuthSet = {TRUE}
  DelSet = {"timeout", "ok"}
  PostSet = {"json", "401", "404"}
  GetSet = {"sse", "405", "503sse"}
  InitH = {"A"}
  HSet = {""}
  MaxNotify = 0
  MaxSaEv = 1
  MaxAuth = 1
  MaxClose = 1
  AllowCancel = TRUE
  FixCancel = FALSE
  FixStream = FALSE
INVARIANTS TypeOK SessionHeader VersionHeader OnePostPerMessage Standalone PerMessage Usable GoneStops GoneNoDelete GoneFailsAll
  TerminalFailsPending DeleteOnce DeleteWhenLive CloseWaits StandaloneCancelled RetiredOnce
PROPERTIES ConnectReturns CallsReturn NotifyReturns CloseReturns FailureEnds
CHECK_DEADLOCK FALSE
