SPECIFICATION SettledSpec
CONSTANTS
  MaxSess = 2
  MaxPost = 2
  MaxSend = 0
  Cap = 1
  Direct = FALSE
  RandomSelect = TRUE
  KindSet = {"call", "badjson"}
  WithNoId = FALSE
  WithUnknown = TRUE
INVARIANTS TypeOK Routing AtMostOnce TableExact
VIEW CoverView
CHECK_DEADLOCK FALSE
