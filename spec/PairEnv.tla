------------------------------ MODULE PairEnv ------------------------------
(* Application-level environment of a client/server PAIR of real sessions     *)
(* (harness/mcp/conn_pair_test.go).  It does not model the SDK: it enumerates *)
(* every order in which the applications on both sides may act - calls (plain *)
(* or with a handler that makes a nested call back), handler releases, caller *)
(* cancellations, Close and Wait on either side - so that "at any moment, from*)
(* either side, concurrently with traffic" (C05) is explored exhaustively up  *)
(* to the bound.  TLC prints each complete script; the verdict comes from     *)
(* PairMon over what the real pair did.                                       *)
EXTENDS Integers, Sequences, FiniteSets, TLC, Json

CONSTANTS CCalls,      \* client->server calls (tool handler on the server)
          NestCalls,   \* those of CCalls whose handler makes a nested call to the client when released at stage "nest"
          SCalls,      \* server->client calls (sampling handler on the client)
          MaxLen

VARIABLES hist, started, rel, cancelled, closes, waits
evars == <<hist, started, rel, cancelled, closes, waits>>

Init == hist = <<>> /\ started = {} /\ rel = {} /\ cancelled = {} /\ closes = {} /\ waits = {}

Step(s) == hist' = Append(hist, s)

Next ==
  /\ Len(hist) < MaxLen
  /\ \/ \E k \in CCalls \ started : Step(<<"ccall", k, IF k \in NestCalls THEN "nest" ELSE "plain">>) /\ started' = started \cup {k}
                                    /\ UNCHANGED <<rel, cancelled, closes, waits>>
     \/ \E k \in SCalls \ started : Step(<<"scall", k>>) /\ started' = started \cup {k} /\ UNCHANGED <<rel, cancelled, closes, waits>>
     \/ \E k \in started, st \in {"nest", "ret"} :
            /\ <<k, st>> \notin rel /\ (st = "nest" => k \in NestCalls)
            /\ Step(<<"rel", k, st>>) /\ rel' = rel \cup {<<k, st>>} /\ UNCHANGED <<started, cancelled, closes, waits>>
     \/ \E k \in started \ cancelled : Step(<<"cancel", k>>) /\ cancelled' = cancelled \cup {k} /\ UNCHANGED <<started, rel, closes, waits>>
     \/ \E side \in {"c", "s"} : side \notin closes /\ Step(<<side \o "close", side \o "1">>) /\ closes' = closes \cup {side}
                                 /\ UNCHANGED <<started, rel, cancelled, waits>>
     \/ \E side \in {"c", "s"} : side \notin waits /\ Step(<<side \o "wait", side \o "w">>) /\ waits' = waits \cup {side}
                                 /\ UNCHANGED <<started, rel, cancelled, closes>>
Spec == Init /\ [][Next]_evars

\* every script of exactly MaxLen steps that contains a Close is printed (shorter ones are prefixes of those)
Emit == (Len(hist) = MaxLen /\ closes # {}) => PrintT(ToJson([steps |-> hist]))
EmitC == Emit
=============================================================================
