SPECIFICATION Spec
CONSTANTS
  Interval = 4
  MaxLen = 3
  Thresholds = {0, 2}
  AnswerDelays = {0}
  DrainLens = {1, 2}
CHECK_DEADLOCK FALSE
