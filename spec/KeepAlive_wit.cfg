SPECIFICATION Spec
CONSTANTS
  Interval = 8
  MaxLen = 3
  Thresholds = {0, 2}
  AnswerDelays = {0}
  DrainLens = {1, 2}
  HsSlots <- WitHsSlots
  CtxSlots <- WitCtxSlots
  EnvMaxLen = 3
  EnvProduct = FALSE
CHECK_DEADLOCK FALSE
