SPECIFICATION WitSpec
CONSTANTS
  Interval = 16
  MaxLen = 3
  Thresholds = {0, 2}
  AnswerDelays = {0}
  DrainLens = {1, 2}
  HsSlots <- WitHsSlots
  CtxSlots <- WitCtxSlots
  EnvMaxLen = 3
  EnvProduct = FALSE
  StallKinds <- AllStalls
  MaxStalls = 1
  StallMaxLen = 3
  EstModes <- AllEst
  EstMaxLen = 2
CHECK_DEADLOCK FALSE
INVARIANT WitMark
