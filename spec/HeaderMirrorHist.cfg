CONSTANT MaxLen = 6
CONSTANT RaceLen = 5
CONSTANT NoticeLen = 6
CONSTANT DriftLen = 3
SPECIFICATION HSpec
CONSTRAINT Export
INVARIANT TypeOK
INVARIANT FactListedStaysKnown
INVARIANT FactNeverListedKnowsNothing
INVARIANT FactInformedHoldsCurrent
INVARIANT FactOutdatedOnlyFromOrphans
INVARIANT FactNotifiedNeverOutdated
INVARIANT FactNoticeSuffices
INVARIANT FactStaleNeverStoredAfterNotice
CHECK_DEADLOCK FALSE
