----------------------------- MODULE HttpSessMC -----------------------------
(* Bounded configurations of HttpSess: exhaustive checking, the reduced graph *)
(* for the transition cover, and behaviour generation by simulation.          *)
EXTENDS HttpSess

\* `res`, `ranNow` are outputs of the last step and `bad` is a ghost: hidden in the cover graph so
\* that its nodes are the states of the session table proper
CoverView == <<tab, nmint, slot, parked>>

\* reachability witnesses (each must be VIOLATED, otherwise the model is vacuous)
NeverTimedOut   == ~(\E i \in Ids : tab[i].st = "dead" /\ res = <<>> /\ ranNow = 0 /\ parked = <<>>)
NeverClosing    == \A i \in Ids : tab[i].st # "closing"
NeverTieAdmit   == \A p \in Slots : ~slot[p].tie
NeverParked     == parked = <<>>
NeverForeign    == \A c \in Range(res) : c.cls # "foreign"
NeverStale      == \A c \in Range(res) : c.cls # "stale"
NeverCbClosing  == ~(\E i \in Ids : tab[i].st = "closing" /\ \E p \in Slots : slot[p].id = i /\ slot[p].tie)

\* behaviour generation: the history of harness steps in the harness' vocabulary
VARIABLE hist
gvars == <<vars, hist>>
H(s) == hist' = Append(hist, s)
TgtStr(t) == ToString(t)
GenInit == Init /\ hist = <<>>
GenNext ==
  \/ \E b \in Bodies, t \in Targets, u \in Users :
        (t \in {NoId, Unknown} \/ t \in Minted) /\ Post(b, t, u) /\ H(<<"Post", b, t, u>>)
  \/ \E t \in Targets, u \in Users : (t \in {NoId, Unknown} \/ t \in Minted) /\ Get(t, u) /\ H(<<"Get", "", t, u>>)
  \/ \E t \in Targets, u \in Users : (t \in {NoId, Unknown} \/ t \in Minted) /\ Delete(t, u) /\ H(<<"Delete", "", t, u>>)
  \/ \E p \in Slots : EndPost(p) /\ H(<<"EndPost", "", p, "">>)
  \/ \E i \in Ids : Close(i) /\ H(<<"Close", "", i, "">>)
  \/ \E d \in AdvSet : Advance(d) /\ H(<<"Advance", "", d, "">>)
  \/ \E d \in AdvSet : AdvanceTie(d) /\ H(<<"AdvanceTie", "", d, "">>)
  \/ \E i \in Ids : TimerFire(i) /\ UNCHANGED hist
  \/ \E i \in Ids : TimeoutCallback(i) /\ UNCHANGED hist
GenSpec == GenInit /\ [][GenNext]_gvars

\* the same module serves exhaustive checking and the cover graph: hist stays empty there
MCSpec == GenInit /\ [][Next /\ UNCHANGED hist]_gvars
MCCoverSpec == GenInit /\ [][HarnessNext /\ UNCHANGED hist]_gvars
=============================================================================
