----------------------------- MODULE HttpSessMC -----------------------------
(* Bounded configurations of HttpSess: exhaustive checking, the reduced graph *)
(* for the transition cover, and behaviour generation by simulation.          *)
EXTENDS HttpSess

\* `res`, `ranNow` are outputs of the last step and `bad` is a ghost: hidden in the cover graph so
\* that its nodes are the states of the session table proper
CoverView == <<tab, nmint, slot, store>>
MCView == <<tab, nmint, slot, tiewin, store, bad>>

\* reachability witnesses (each must be VIOLATED, otherwise the model is vacuous)
NeverTimedOut   == ~(\E i \in Ids : tab[i].st = "dead" /\ res = <<>> /\ ranNow = 0)
NeverClosing    == \A i \in Ids : tab[i].st # "closing"
NeverTieAdmit   == \A p \in Slots : ~slot[p].tie
NeverParked     == \A i \in Ids : tab[i].pdel = 0
NeverForeign    == \A c \in Range(res) : c.cls # "foreign"
NeverStale      == \A c \in Range(res) : c.cls # "stale"
\* a session is terminated while the store is in a fault mode / a POST is refused because Open fails
NeverFaultDelete == ~(store # "up" /\ \E c \in Range(res) : c.m = "DELETE" /\ c.status = 204)
NeverNoStream   == \A c \in Range(res) : c.status # 500
NeverCbClosing  == ~(\E i \in Ids : tab[i].st = "closing" /\ \E p \in Slots : slot[p].id = i /\ slot[p].tie)

\* behaviour generation: the history of harness steps in the harness' vocabulary
VARIABLE hist
gvars == <<vars, hist>>
H(s) == hist' = Append(hist, s)
TgtStr(t) == ToString(t)
GenInit == Init /\ hist = <<>>
\* (simulation picks uniformly among the enabled steps: requests with an id the server never issued
\* are thinned out so that random walks spend their steps on sessions that exist)
GenNext ==
  \/ \E b \in Bodies, t \in Targets, u \in Users :
        /\ (t = NoId \/ (t = Unknown /\ b = "call" /\ u = "A") \/ t \in Minted)
        /\ Post(b, t, u) /\ H(<<"Post", b, t, u>>)
  \/ \E t \in Targets, u \in Users :
        (t = NoId \/ (t = Unknown /\ u = "B") \/ t \in Minted) /\ Get(t, u) /\ H(<<"Get", "", t, u>>)
  \/ \E t \in Targets, u \in Users :
        (t = NoId \/ (t = Unknown /\ u = "none") \/ t \in Minted) /\ Delete(t, u) /\ H(<<"Delete", "", t, u>>)
  \/ \E p \in Slots : EndPost(p) /\ H(<<"EndPost", "", p, "">>)
  \/ \E i \in Ids : Close(i) /\ H(<<"Close", "", i, "">>)
  \/ \E d \in AdvSet : Advance(d) /\ H(<<"Advance", "", d, "">>)
  \/ \E d \in AdvSet : AdvanceTie(d) /\ H(<<"AdvanceTie", "", d, "">>)
  \/ \E m \in StoreModes \cup {"up"} : SetStore(m) /\ H(<<"SetStore", m, 0, "">>)
  \/ \E i \in Ids : TimerFire(i) /\ UNCHANGED hist
  \/ \E i \in Ids : TimeoutCallback(i) /\ UNCHANGED hist
GenSpec == GenInit /\ [][GenNext]_gvars

\* the same module serves exhaustive checking and the cover graph: hist stays empty there.  The
\* wrappers give TLC one named action per step, which is what `-dump dot,actionlabels` prints.
Addressable(t) == t \in {NoId, Unknown} \/ t \in Minted
PostH(b, t, u) == Addressable(t) /\ Post(b, t, u) /\ UNCHANGED hist
GetH(t, u) == Addressable(t) /\ Get(t, u) /\ UNCHANGED hist
DeleteH(t, u) == Addressable(t) /\ Delete(t, u) /\ UNCHANGED hist
EndPostH(p) == EndPost(p) /\ UNCHANGED hist
CloseH(i) == Close(i) /\ UNCHANGED hist
AdvanceH(d) == Advance(d) /\ UNCHANGED hist
SetStoreH(m) == SetStore(m) /\ UNCHANGED hist
AdvanceTieH(d) == AdvanceTie(d) /\ UNCHANGED hist
TimerFireH(i) == TimerFire(i) /\ UNCHANGED hist
TimeoutCallbackH(i) == TimeoutCallback(i) /\ UNCHANGED hist
\* reductions of the cover graph only (the exhaustive configurations keep everything): users A and B
\* are interchangeable until A owns a session; a repeated initialize is sent well-formed only
CanonUser(u) == u # "B" \/ \E i \in Ids : tab[i].owner = "A"
PostC(b, t, u) == CanonUser(u) /\ (b = "badinit" => t = NoId) /\ PostH(b, t, u)
GetC(t, u) == CanonUser(u) /\ GetH(t, u)
DeleteC(t, u) == CanonUser(u) /\ DeleteH(t, u)
MCCoverNext ==
  \/ \E b \in Bodies, t \in Targets, u \in Users : PostC(b, t, u)
  \/ \E t \in Targets, u \in Users : GetC(t, u)
  \/ \E t \in Targets, u \in Users : DeleteC(t, u)
  \/ \E p \in Slots : EndPostH(p)
  \/ \E i \in Ids : CloseH(i)
  \/ \E d \in AdvSet : AdvanceH(d)
  \/ \E m \in StoreModes \cup {"up"} : SetStoreH(m)
MCNext ==
  \/ \E b \in Bodies, t \in Targets, u \in Users : PostH(b, t, u)
  \/ \E t \in Targets, u \in Users : GetH(t, u)
  \/ \E t \in Targets, u \in Users : DeleteH(t, u)
  \/ \E p \in Slots : EndPostH(p)
  \/ \E i \in Ids : CloseH(i)
  \/ \E d \in AdvSet : AdvanceH(d)
  \/ \E m \in StoreModes \cup {"up"} : SetStoreH(m)
  \/ \E d \in AdvSet : AdvanceTieH(d)
  \/ \E i \in Ids : TimerFireH(i)
  \/ \E i \in Ids : TimeoutCallbackH(i)
MCSpec == GenInit /\ [][MCNext]_gvars
MCCoverSpec == GenInit /\ [][MCCoverNext]_gvars
=============================================================================
