SPECIFICATION Spec
CONSTANTS
  NSess = 1
  CC <- C1
  Nest <- NoNest
  NCN = 0
  NSN = 0
  MaxFaults = 1
  FaultKinds <- FCore
  HoldKinds <- HBoth
  Combos = FALSE
  HandsAll = TRUE
  Bug = "none"
INVARIANTS TypeOK C01_OwnResponse C01_NotBlockedAfterTermination C01_ErrorHasCause C02_AnsweredOnce C02_AnsweredOnOwnSession C02_AnsweredWhenUsable C02_RejectedNotDropped C03_NotificationCompletesFirst C03_DispatchInSendOrder C03_SenderOrder C05_HandlersFinishBeforeTransportClosed C05_NoDispatchAfterClose C05_SessionRemoved
PROPERTIES C01_CompletesOnce C01_FailFast
CHECK_DEADLOCK FALSE
