SPECIFICATION MCSpec
CONSTANTS
  MaxSess = 1
  MaxPost = 2
  MaxSend = 0
  Cap = 1
  Direct = TRUE
  RandomSelect = TRUE
  KindSet = {"call", "badjson"}
  WithNoId = FALSE
  WithUnknown = FALSE
INVARIANTS ClosedRefuses
CHECK_DEADLOCK FALSE
