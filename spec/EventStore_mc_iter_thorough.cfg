SPECIFICATION Spec
CONSTANTS
  Sessions = {"s1","s2"}
  Streams = {"t1"}
  Sizes = {0,1,3}
  Limits = {1,4}
  Iters = {"k1"}
  CoverIdxN = 0
  DefaultMax = 100
  MaxAppends = 3
CONSTRAINT Bound
VIEW MCView
INVARIANTS Accounting SuffixRetained Bounded AfterExact ClosedReleased NoPanic NeverNegative ReplayExact IdleHoldsNothing
PROPERTIES FirstMonotone SnapshotStable
