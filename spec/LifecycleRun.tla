----------------------------- MODULE LifecycleRun -----------------------------
(* Property C06 when handlers take time.                                      *)
(*                                                                            *)
(* Lifecycle.tla treats every handler as instantaneous: a message is sent,    *)
(* everything it causes has happened, the next message is sent.  Here a       *)
(* user-visible handler has a DURATION: it may still be running (parked on a  *)
(* gate until it is released) when the next messages arrive.  A script is a   *)
(* sequence of EVENTS                                                         *)
(*     send(l, held)   deliver letter l; held: if processing it reaches a     *)
(*                     gateable handler, that handler parks until released    *)
(*     release(n)      the parked handler of the n-th message returns         *)
(* and everything is observed at the quiescence after each event.             *)
(*                                                                            *)
(*  Run*      the code-shaped machine: jsonrpc2 hands the messages of one     *)
(*            peer to ServerSession.handle one at a time, in order; handle    *)
(*            releases every call except initialize from that queue           *)
(*            (jsonrpc2.Async) before the method handler runs, so a running   *)
(*            feature call does not hold the queue, whereas a notification    *)
(*            (and initialize) is handled in the queue: what is delivered     *)
(*            while its handler runs waits (property C03 demands exactly      *)
(*            this).  The session part of every dispatch is Lifecycle!Step.   *)
(*  J*        the property's side: bookkeeping over observed FACTS only       *)
(*            (which gates were entered / released, which answers have        *)
(*            arrived), the clause PingAlwaysServed, and the clauses of       *)
(*            Lifecycle on the settled observation of every message.          *)
(* The same J* operators judge the model (LifecycleRunMC) and the real code   *)
(* (LifecycleRunMon).                                                         *)
EXTENDS Lifecycle

\* ----------------------------------------------------------------- gates
\* handlers the harness can park: of feature calls, and of notifications
GateCall  == {"tool", "prompt", "completion"}
GateNotif == {"progress", "roots", "inited"}
Gates == GateCall \cup GateNotif
\* (initialize has no user handler of its own - only the receiving middleware sees it - so its handler is never
\* parked here; the clause below nevertheless names it, like C03 does)
HoldsQueue(m) == IsNotif(m) \/ m = MInit

\* one observation line = the cumulative state of the exchange at the quiescence after an event:
\*   k, n, l, held   the event (release: n = the message whose gate is opened; l, held = that message's)
\*   ms              per message so far: reply / code / nlist (the answer that has arrived, if any) and h (the
\*                   handlers that have been entered for it)
\*   ent             messages whose gate has been entered so far
\*   ipv, tag        ServerSession.InitializeParams() now
NoAnswer == [reply |-> "none", code |-> 0, nlist |-> 0, h |-> {}]
Answered(ms) == {i \in DOMAIN ms : ms[i].reply = "result"}

\* ------------------------------------------------ the code-shaped machine
\* st: session state; sync: the message whose handler holds the queue (0: none); q: delivered, not yet dispatched;
\* calls: feature calls whose parked handler runs beside the queue; ms: as above; fin: the settled answer of every
\* dispatched message (what ms shows once its handler has returned)
Run0 == [st |-> St0, sync |-> 0, q |-> <<>>, calls |-> {}, ms |-> <<>>, fin |-> <<>>, ent |-> {}]

\* How a parked FEATURE CALL relates to the queue.  "asis": released before its handler runs (jsonrpc2.Async for every
\* call but initialize).  What-ifs, which must break PingAlwaysServed: "sync_until_init": released only when the session
\* had InitializeParams when the call was dispatched; "sync_calls": never released.
CallHoldsQueue(variant, st) ==
  CASE variant = "asis" -> FALSE
    [] variant = "sync_until_init" -> st.ip = "nil"
    [] OTHER -> TRUE

RunDispatch(rs, e, variant) ==
  LET r == Step(rs.st, e.l, e.n)
      gated == e.held /\ (r.o.h \cap Gates) # {}
      inq == HoldsQueue(e.l.m) \/ CallHoldsQueue(variant, rs.st)
      settled == [reply |-> r.o.reply, code |-> r.o.code, nlist |-> r.o.nlist, h |-> r.o.h]
      prompt == IF gated THEN [NoAnswer EXCEPT !.h = r.o.h] ELSE settled
  IN [rs EXCEPT !.st = r.st, !.ms[e.n] = prompt, !.fin[e.n] = settled,
                !.ent = IF gated THEN @ \cup {e.n} ELSE @,
                !.sync = IF gated /\ inq THEN e.n ELSE @,
                !.calls = IF gated /\ ~inq THEN @ \cup {e.n} ELSE @]

RECURSIVE RunDrain(_, _)
RunDrain(rs, variant) ==
  IF rs.sync # 0 \/ rs.q = <<>> THEN rs
  ELSE RunDrain(RunDispatch([rs EXCEPT !.q = Tail(@)], Head(rs.q), variant), variant)

RunSend(rs, l, held, variant) ==
  LET n == Len(rs.ms) + 1
      e == [n |-> n, l |-> l, held |-> held]
      rs1 == [rs EXCEPT !.ms = Append(@, NoAnswer), !.fin = Append(@, NoAnswer)]
  IN IF rs.sync # 0 THEN [rs1 EXCEPT !.q = Append(@, e)] ELSE RunDispatch(rs1, e, variant)

CanRelease(rs, k) == k = rs.sync \/ k \in rs.calls
RunRelease(rs, k, variant) ==
  IF k \in rs.calls THEN [rs EXCEPT !.calls = @ \ {k}, !.ms[k] = rs.fin[k]]
  ELSE RunDrain([rs EXCEPT !.sync = 0, !.ms[k] = rs.fin[k]], variant)

\* the observation line the machine predicts after an event
RunLine(rs, k, n, l, held) ==
  [k |-> k, n |-> n, l |-> l, held |-> held, ms |-> rs.ms, ent |-> rs.ent, ipv |-> rs.st.ip, tag |-> rs.st.at]

\* ------------------------------------------------------------ the property
\* Bookkeeping over facts.
\*   gate   the message whose NOTIFICATION (or initialize) handler has been entered and not released (0: none)
\*   wq     messages delivered since then, in order: they wait for that handler - legitimately (C03: the handler of a
\*          notification finishes before the handler of any later message starts)
\*   cg     feature calls whose handler has been entered and not released
\*   pings  legacy pings delivered so far
\*   lt     the letters delivered so far;  snap: InitializeParams() at the quiescence at which each message stopped
\*          waiting (its own delivery, or the release it waited for)
J0 == [gate |-> 0, wq |-> <<>>, cg |-> {}, pings |-> {}, lt |-> <<>>, snap |-> <<>>]
Waiting(j) == {j.wq[i] : i \in DOMAIN j.wq}
Snap(o) == [ipv |-> o.ipv, tag |-> o.tag]
NoSnap == [ipv |-> "nil", tag |-> 0]

\* o: the observation line after the event
JSend(j, o) ==
  LET n == o.n
      waits == j.gate # 0
      entered == n \in o.ent
  IN [j EXCEPT !.wq = IF waits THEN Append(@, n) ELSE @,
               !.gate = IF ~waits /\ entered /\ HoldsQueue(o.l.m) THEN n ELSE @,
               !.cg = IF entered /\ ~HoldsQueue(o.l.m) THEN @ \cup {n} ELSE @,
               !.pings = IF o.l.m = MPing /\ LegacyMsg(o.l) THEN @ \cup {n} ELSE @,
               !.lt = Append(@, o.l),
               !.snap = Append(@, IF waits THEN NoSnap ELSE Snap(o))]
JRelease(j, o) ==
  IF o.n # j.gate THEN [j EXCEPT !.cg = @ \ {o.n}]
  ELSE \* the waiting messages are dispatched in order, up to (and including) the first one that parks the queue again
       LET parks == {i \in DOMAIN j.wq : j.wq[i] \in o.ent /\ HoldsQueue(j.lt[j.wq[i]].m)}
           upto == IF parks = {} THEN Len(j.wq) ELSE CHOOSE i \in parks : \A i2 \in parks : i <= i2
           gone == {j.wq[i] : i \in 1..upto}
       IN [j EXCEPT !.gate = IF parks = {} THEN 0 ELSE j.wq[upto],
                    !.wq = SubSeq(@, upto + 1, Len(@)),
                    !.cg = @ \cup {i \in gone : i \in o.ent /\ ~HoldsQueue(j.lt[i].m)},
                    !.snap = [i \in DOMAIN @ |-> IF i \in gone THEN Snap(o) ELSE @[i]]]
JStep(j, o) == IF o.k = "send" THEN JSend(j, o) ELSE JRelease(j, o)

\* "ping is always served": at every quiescence every legacy ping that has been delivered on the (healthy) connection
\* has been answered with a result - it does not wait for any running feature-call handler.  The only thing that may
\* stand between a delivered ping and its answer is a notification (or initialize) handler that was entered before the
\* ping was delivered and has not returned yet: C03 demands that such a handler finishes first.  Exactly those pings
\* are excused (Waiting), for exactly as long as that handler runs.
\* (j: the bookkeeping AFTER the event)
PingAlwaysServed(j, o) == \A p \in j.pings : p \notin Waiting(j) => p \in Answered(o.ms)
\* the clause says something at this quiescence / a ping was delivered while a feature call was running / was excused
PingPremise(j) == j.pings \ Waiting(j) # {}
PingBesideCall(j, o) == o.k = "send" /\ o.n \in j.pings /\ o.n \notin Waiting(j) /\ (j.cg \ {o.n}) # {}
PingExcused(j, o) == o.k = "send" /\ o.n \in j.pings /\ o.n \in Waiting(j)

\* The clauses of Lifecycle on the settled observations, at the end of a script: message i with the answer and the
\* handlers it has got by then and the InitializeParams snapshot of the quiescence at which it stopped waiting; the
\* phase tracker runs over the messages in the order they were sent (= dispatched: C03).
SettledObs(j, o, i) ==
  [reply |-> o.ms[i].reply, code |-> o.ms[i].code, nlist |-> o.ms[i].nlist, h |-> o.ms[i].h,
   ipv |-> j.snap[i].ipv, tag |-> j.snap[i].tag]
RECURSIVE SettledFailures(_, _, _, _, _)
\* -> set of <<message index, clause, phase name>>
SettledFailures(j, o, i, mu, ms) ==
  IF i > Len(j.lt) THEN {}
  ELSE LET so == SettledObs(j, o, i) IN
       {<<i, c, PhaseName(mu)>> : c \in Failed(mu, j.lt[i], so, ms)}
         \cup SettledFailures(j, o, i + 1, PStep(mu, j.lt[i], so, ms), ms)
=============================================================================
