------------------------------ MODULE TypedTool ------------------------------
(* Design-level check and case export for C16; definitions in TypedToolDefs.  *)
(*  - every input case:  HoldsIn(c, ExpectedIn(c))                            *)
(*  - every output case: HoldsOut(c, ExpectedOut(c)) except exactly the       *)
(*    declared lead (TypedToolDefs!Lead), which is replayed on the real code  *)
(*  - export: tool schemas as JSON-Schema objects, cases with tagged JSON     *)
EXTENDS TypedToolDefs, Json

(* the case sets *)
\* the large product is kept as a sequence (a set of 10^5 deep records costs TLC a sort with deep comparisons)
InSeq ==
  LET q == SetToSeq(Variants \X ArgIx)
      n == SetToSeq(Variants \X (DOMAIN NonObjArgs))
  IN [i \in DOMAIN q |-> InCase("in", q[i][1], "map", "none", ClassAt(q[i][2]), ArgsAt(q[i][2]))]
     \o [i \in DOMAIN n |-> InCase("in", n[i][1], "map", "none", <<NonObjLab[n[i][2]]>>, NonObjArgs[n[i][2]])]
SomeIn(P(_)) == \E i \in DOMAIN InSeq : P(InSeq[i])
XInCases ==
  UNION {{InCase("xin", NoVariant, id, "none", <<"value">>, x) : x \in XVals(id)} : id \in XIds}
GoCaches(ty) == IF ty = "InC" THEN Caches ELSE {"none", "warm"}
RInCases ==
  UNION {{InCase("rin", NoVariant, ty, ch, GoClassAt(ty, ix), GoArgsAt(ty, ix)) : ix \in GoArgIx(ty), ch \in GoCaches(ty)}
         : ty \in GoInTypes}
  \cup UNION {{InCase("rin", NoVariant, ty, ch, <<NonObjLab[i]>>, NonObjArgs[i]) : ch \in GoCaches(ty), i \in DOMAIN NonObjArgs}
              : ty \in GoInTypes}
SInCases ==
  {InCase("sin", NoVariant, "InC", ch, CClassAt(ix), CArgsAt(ix)) : ix \in CArgIx, ch \in Caches}

WarmNone == {"none", "warm"}
OutCases ==
  \* explicit schema, Out = any
  {OutCase(sid, "any", "none", x, x[1] = "null", ct) : sid \in OutSchemaIds \ {"outsx"}, x \in AnyVals, ct \in BOOLEAN}
  \cup {OutCase("objNest", "any", "none", x, FALSE, ct) : x \in NestVals, ct \in BOOLEAN}
  \* explicit schema, typed Out
  \cup UNION {{OutCase(sid, "map", "none", x, FALSE, ct) : x \in XVals(sid), ct \in BOOLEAN} : sid \in ObjIds}
  \cup {OutCase(sid, "map", "none", EmptyObj, TRUE, ct) : sid \in ObjIds, ct \in BOOLEAN}
  \cup {OutCase("arr", "ints", "none", x, FALSE, ct) : x \in IntArrVals, ct \in BOOLEAN}
  \cup {OutCase("arr", "ints", "none", JNull, TRUE, ct) : ct \in BOOLEAN}
  \cup {OutCase("int", "int", "none", x, FALSE, ct) : x \in IntVals, ct \in BOOLEAN}
  \cup {OutCase("enum", "str", "none", x, FALSE, ct) : x \in StrVals, ct \in BOOLEAN}
  \* explicit, stricter schema on the Go type OutS whose inferred schema may sit in the same SchemaCache
  \cup {OutCase("outsx", "structx", ch, x, FALSE, ct) : x \in OutSVals \cup {BigOutS}, ch \in OutCaches, ct \in BOOLEAN}
  \* reflected schema
  \cup {OutCase("reflect", k, ch, x, FALSE, ct) : k \in {"struct", "ptr"}, x \in OutSVals \cup {BigOutS}, ch \in OutCaches, ct \in BOOLEAN}
  \* Out is a pointer type and the handler returns nil, in every arrangement of how the tool came by its schema
  \* (reflected / cache hit after an earlier registration / hit through the element-type sibling / filling the cache)
  \cup {OutCase("reflect", "ptr", ch, ZeroOutS, TRUE, ct) : ch \in OutCaches, ct \in BOOLEAN}
  \cup {OutCase("reflect", "pint", ch, JInt(0), TRUE, ct) : ch \in OutCaches, ct \in BOOLEAN}
  \cup {OutCase("reflect", "pint", ch, x, FALSE, ct) : x \in {JInt(0), JInt(7)}, ch \in OutCaches, ct \in BOOLEAN}
  \cup {OutCase("reflect", "strs", ch, x, x[1] = "null", ct) :
          x \in {JNull, JArr(<<>>), JArr(<<JStr("x"), JStr("y")>>)}, ch \in WarmNone, ct \in BOOLEAN}
  \cup {OutCase("reflect", "rint", ch, x, FALSE, ct) : x \in {JInt(0), JInt(7)}, ch \in OutCaches, ct \in BOOLEAN}
  \cup {OutCase("reflect", "rstr", ch, x, FALSE, ct) : x \in {JStr(""), JStr("a")}, ch \in WarmNone, ct \in BOOLEAN}
  \cup {OutCase("reflect", "rbool", ch, JBool(b), FALSE, ct) : b \in BOOLEAN, ch \in WarmNone, ct \in BOOLEAN}

SmallIn == XInCases \cup RInCases \cup SInCases
InAllSeq == InSeq \o SetToSeq(SmallIn)

FailIn(c)  == IF HoldsIn(c, ExpectedIn(c)) THEN FALSE
              ELSE PrintT(<<"design-fail-in", c, ExpectedIn(c)>>)
FailOut(c) == IF HoldsOut(c, ExpectedOut(c)) <=> ~Lead(c) THEN FALSE
              ELSE PrintT(<<"design-fail-out", c, ExpectedOut(c)>>)
DesignIn  == \A i \in DOMAIN InAllSeq : ~FailIn(InAllSeq[i])
DesignOut == \A c \in OutCases : ~FailOut(c)

(* vacuity witnesses *)
Witnesses ==
  /\ \A vr \in Variants : SomeIn(LAMBDA c : c.vr = vr /\ ValidIn(c))
  /\ \A vr \in Variants : SomeIn(LAMBDA c : c.vr = vr /\ ~ValidIn(c) /\ IsObj(c.args))
  \* a default changes what a valid call's handler must see
  /\ SomeIn(LAMBDA c : ValidIn(c) /\ ~SameJ(WithDefaults(CaseInSchema(c), c.args), c.args))
  \* a default is ignored on a required property
  /\ SomeIn(LAMBDA c : c.vr.nDef /\ c.vr.nReq /\ IsObj(c.args) /\ "n" \notin DOMAIN c.args[2] /\ ~ValidIn(c))
  \* an absent optional object is materialised
  /\ SomeIn(LAMBDA c : ValidIn(c) /\ "opt" \notin DOMAIN c.args[2]
                          /\ "opt" \in DOMAIN WithDefaults(CaseInSchema(c), c.args)[2])
  /\ \A ty \in GoInTypes : /\ \E c \in RInCases : c.ty = ty /\ ValidIn(c)
                           /\ \E c \in RInCases : c.ty = ty /\ ~ValidIn(c)
  /\ \A sid \in OutSchemaIds : /\ \E c \in OutCases : c.sid = sid /\ OutOk(c)
                               /\ \E c \in OutCases : c.sid = sid /\ ~OutOk(c) /\ ~Lead(c)
  /\ \E c \in OutCases : OutOk(c) /\ ~SameJ(OutJson(c), c.out)      \* output defaults matter
  /\ \E c \in OutCases : Lead(c)
  \* applying defaults turns a valid value into an invalid one (input and output side)
  /\ \A id \in XIds :
        (\E c1 \in XInCases : c1.ty = id /\ Valid(CaseInSchema(c1), c1.args) /\ ~ValidIn(c1))
        /\ (\E c2 \in XInCases : c2.ty = id /\ ValidIn(c2))
        /\ (\E c3 \in OutCases : c3.sid = id /\ Valid(CaseOutSchema(c3), c3.out) /\ ~OutOk(c3))
  \* a case-variant member is valid as an additional member and must not reach the field
  /\ \E c \in SInCases : ValidIn(c) /\ "Limit" \in DOMAIN c.args[2] /\ "limit" \notin DOMAIN c.args[2]
  \* valid under the inferred schema of the Go type, invalid under the explicit one
  /\ \E c \in SInCases : ~ValidIn(c) /\ Valid(InCInferred, c.args)
  /\ \E c \in OutCases : c.sid = "outsx" /\ ~OutOk(c) /\ Valid(GoOutSchema("struct"), c.out)
  \* a nil pointer output that must be returned (as the zero value of the element type), for every pointer
  \* Out type and every arrangement of the SchemaCache; and its raw JSON form (null) would not be valid
  /\ \A k \in PtrKinds, ch \in OutCaches :
        \E c \in OutCases : c.sid = "reflect" /\ c.okind = k /\ c.cache = ch /\ c.nilform /\ OutOk(c)
                              /\ ~Valid(CaseOutSchema(c), JNull)
  \* ValidOutputReturned and BadOutputIsError both bind in every arrangement
  /\ \A ch \in OutCaches : (\E c1 \in OutCases : c1.cache = ch /\ OutOk(c1))
                            /\ (\E c2 \in OutCases : c2.cache = ch /\ ~OutOk(c2))

-----------------------------------------------------------------------------
(* export *)
B(b) == IF b THEN "1" ELSE "0"
VarId(vr) == "d" \o B(vr.nDef) \o "r" \o B(vr.nReq) \o "a" \o B(vr.addl) \o "_" \o vr.nest

RECURSIVE SJ(_)
SJ(s) ==
     (IF s.types = {} THEN <<>>
      ELSE "type" :> (IF Cardinality(s.types) = 1 THEN (CHOOSE t \in s.types : TRUE) ELSE SetToSeq(s.types)))
  @@ (IF s.enum = <<>> THEN <<>> ELSE "enum" :> SetToSeq({e[2] : e \in s.enum[1]}))
  @@ (IF s.min = <<>> THEN <<>> ELSE "minimum" :> s.min[1])
  @@ (IF s.max = <<>> THEN <<>> ELSE "maximum" :> s.max[1])
  @@ (IF s.def = <<>> THEN <<>> ELSE "default" :> s.def[1][2])
  @@ (IF DOMAIN s.props = {} THEN <<>> ELSE "properties" :> [p \in DOMAIN s.props |-> SJ(s.props[p])])
  @@ (IF s.req = {} THEN <<>> ELSE "required" :> SetToSeq(s.req))
  @@ (IF s.addl THEN <<>> ELSE "additionalProperties" :> FALSE)
  @@ (IF s.items = <<>> THEN <<>> ELSE "items" :> SJ(s.items[1]))
  @@ (IF s.maxItems = <<>> THEN <<>> ELSE "maxItems" :> s.maxItems[1])
  @@ (IF s.maxProps = <<>> THEN <<>> ELSE "maxProperties" :> s.maxProps[1])
  @@ (IF DOMAIN s.depReq = {} THEN <<>> ELSE "dependentRequired" :> [p \in DOMAIN s.depReq |-> SetToSeq(s.depReq[p])])

MapSeq(S, F(_)) == LET q == SetToSeq(S) IN [i \in DOMAIN q |-> F(q[i])]
L1(vr)  == [kind |-> "schema", dir |-> "in", id |-> VarId(vr), schema |-> SJ(InSchemaF[vr])]
L2(sid) == [kind |-> "schema", dir |-> "out", id |-> sid, schema |-> SJ(OutSchema(sid))]
L3(ty)  == [kind |-> "goschema", dir |-> "in", id |-> ty, schema |-> SJ(GoInSchema(ty))]
L4(k)   == [kind |-> "goschema", dir |-> "out", id |-> k, schema |-> SJ(GoOutSchema(k))]
L5(id)  == [kind |-> "schema", dir |-> "xin", id |-> id, schema |-> SJ(XSchema(id))]
L6(x)   == [kind |-> "schema", dir |-> "sin", id |-> "InC", schema |-> SJ(InCExplicit)]
SchemaLines == MapSeq(Variants, L1) \o MapSeq(OutSchemaIds, L2) \o MapSeq(XIds, L5) \o MapSeq({"InC"}, L6) \o MapSeq(GoInTypes, L3) \o MapSeq(GoOutKinds, L4)

InLine(c) == [kind |-> c.kind, vid |-> IF c.kind = "in" THEN VarId(c.vr) ELSE c.ty, vr |-> c.vr, ty |-> c.ty,
              cache |-> c.cache, cls |-> c.cls, args |-> c.args, valid |-> ValidIn(c)]
OutLine(c) == [kind |-> "out", sid |-> c.sid, okind |-> c.okind, cache |-> c.cache, out |-> c.out,
               nilform |-> c.nilform, content |-> c.content, valid |-> OutOk(c), lead |-> Lead(c)]

Export == ndJsonSerialize("cases.ndjson", SchemaLines \o [i \in DOMAIN InAllSeq |-> InLine(InAllSeq[i])] \o MapSeq(OutCases, OutLine))

ASSUME DesignIn
ASSUME DesignOut
ASSUME Witnesses
ASSUME PrintT(ToJson([incases |-> Len(InSeq), rincases |-> Cardinality(RInCases),
                      xincases |-> Cardinality(XInCases), sincases |-> Cardinality(SInCases),
                      outcases |-> Cardinality(OutCases), leads |-> Cardinality({c \in OutCases : Lead(c)}),
                      validin |-> Cardinality({i \in DOMAIN InAllSeq : ValidIn(InAllSeq[i])}),
                      outok |-> Cardinality({c \in OutCases : OutOk(c)})]))
ASSUME Export
=============================================================================
