------------------------------ MODULE TypedTool ------------------------------
(* Design-level check and case export for C16; definitions in TypedToolDefs.  *)
(*  - every input case:  HoldsIn(c, ExpectedIn(c))                            *)
(*  - every output case: HoldsOut(c, ExpectedOut(c)) except exactly the       *)
(*    declared lead (TypedToolDefs!Lead), which is replayed on the real code  *)
(*  - export: tool schemas as JSON-Schema objects, cases with tagged JSON     *)
EXTENDS TypedToolDefs, Json

(* the case sets *)
\* the large product is kept as a sequence (a set of 10^5 deep records costs TLC a sort with deep comparisons)
InSeq ==
  LET q == SetToSeq(Variants \X ArgIx)
      n == SetToSeq(Variants \X (DOMAIN NonObjArgs))
  IN [i \in DOMAIN q |-> InCase("in", q[i][1], "map", "none", ClassAt(q[i][2]), ArgsAt(q[i][2]))]
     \o [i \in DOMAIN n |-> InCase("in", n[i][1], "map", "none", <<NonObjLab[n[i][2]]>>, NonObjArgs[n[i][2]])]
SomeIn(P(_)) == \E i \in DOMAIN InSeq : P(InSeq[i])
XInCases ==
  UNION {{InCase("xin", NoVariant, id, "none", <<"value">>, x) : x \in XVals(id)} : id \in XIds}
GoCaches(ty) == IF ty = "InC" THEN Caches ELSE {"none", "warm"}
RInCases ==
  UNION {{InCase("rin", NoVariant, ty, ch, GoClassAt(ty, ix), GoArgsAt(ty, ix)) : ix \in GoArgIx(ty), ch \in GoCaches(ty)}
         : ty \in GoInTypes}
  \cup UNION {{InCase("rin", NoVariant, ty, ch, <<NonObjLab[i]>>, NonObjArgs[i]) : ch \in GoCaches(ty), i \in DOMAIN NonObjArgs}
              : ty \in GoInTypes}
SInCases ==
  {InCase("sin", NoVariant, "InC", ch, CClassAt(ix), CArgsAt(ix)) : ix \in CArgIx, ch \in Caches}

WarmNone == {"none", "warm"}
OutCases ==
  \* explicit schema, Out = any
  {OutCase(sid, "any", "none", x, x[1] = "null", ct) : sid \in OutSchemaIds \ {"outsx"}, x \in AnyVals, ct \in BOOLEAN}
  \cup {OutCase("objNest", "any", "none", x, FALSE, ct) : x \in NestVals, ct \in BOOLEAN}
  \* explicit schema, typed Out
  \cup UNION {{OutCase(sid, "map", "none", x, FALSE, ct) : x \in XVals(sid), ct \in BOOLEAN} : sid \in ObjIds}
  \cup {OutCase(sid, "map", "none", EmptyObj, TRUE, ct) : sid \in ObjIds, ct \in BOOLEAN}
  \cup {OutCase("arr", "ints", "none", x, FALSE, ct) : x \in IntArrVals, ct \in BOOLEAN}
  \cup {OutCase("arr", "ints", "none", JNull, TRUE, ct) : ct \in BOOLEAN}
  \cup {OutCase("int", "int", "none", x, FALSE, ct) : x \in IntVals, ct \in BOOLEAN}
  \cup {OutCase("enum", "str", "none", x, FALSE, ct) : x \in StrVals, ct \in BOOLEAN}
  \* explicit, stricter schema on the Go type OutS whose inferred schema may sit in the same SchemaCache
  \cup {OutCase("outsx", "structx", ch, x, FALSE, ct) : x \in OutSVals \cup {BigOutS}, ch \in OutCaches, ct \in BOOLEAN}
  \* reflected schema
  \cup {OutCase("reflect", k, ch, x, FALSE, ct) : k \in {"struct", "ptr"}, x \in OutSVals \cup {BigOutS}, ch \in OutCaches, ct \in BOOLEAN}
  \* Out is a pointer type and the handler returns nil, in every arrangement of how the tool came by its schema
  \* (reflected / cache hit after an earlier registration / hit through the element-type sibling / filling the cache)
  \cup {OutCase("reflect", "ptr", ch, ZeroOutS, TRUE, ct) : ch \in OutCaches, ct \in BOOLEAN}
  \cup {OutCase("reflect", "pint", ch, JInt(0), TRUE, ct) : ch \in OutCaches, ct \in BOOLEAN}
  \cup {OutCase("reflect", "pint", ch, x, FALSE, ct) : x \in {JInt(0), JInt(7)}, ch \in OutCaches, ct \in BOOLEAN}
  \cup {OutCase("reflect", "strs", ch, x, x[1] = "null", ct) :
          x \in {JNull, JArr(<<>>), JArr(<<JStr("x"), JStr("y")>>)}, ch \in WarmNone, ct \in BOOLEAN}
  \cup {OutCase("reflect", "rint", ch, x, FALSE, ct) : x \in {JInt(0), JInt(7)}, ch \in OutCaches, ct \in BOOLEAN}
  \cup {OutCase("reflect", "rstr", ch, x, FALSE, ct) : x \in {JStr(""), JStr("a")}, ch \in WarmNone, ct \in BOOLEAN}
  \cup {OutCase("reflect", "rbool", ch, JBool(b), FALSE, ct) : b \in BOOLEAN, ch \in WarmNone, ct \in BOOLEAN}

SmallIn == XInCases \cup RInCases \cup SInCases
InAllSeq == InSeq \o SetToSeq(SmallIn)

-----------------------------------------------------------------------------
(* The pool of cases for the interleaving dimension (TypedToolConc.tla): the  *)
(* calls of a concurrent scenario are assigned cases from this pool, all on   *)
(* the one server without a SchemaCache.  It contains every JSON type of      *)
(* output - arrays, strings, numbers, booleans, null, and objects for         *)
(* comparison - valid and invalid, from typed, `any` and pointer Out types,   *)
(* with and without content of the handler's own, several DIFFERENT valid     *)
(* outputs of one and the same tool (so that a call that is handed another    *)
(* call's output is told apart), and a few input cases (defaults materialised,*)
(* struct inputs, an invalid request that is answered without a handler).     *)
IsOneOf(x, S) == \E y \in S : SameJ(x, y)
ConcOut ==
  {c \in OutCases : c.cache = "none" /\ ~Lead(c) /\
     \/ (~c.content /\ <<c.sid, c.okind>> \in {<<"arr", "ints">>, <<"int", "int">>, <<"enum", "str">>})
     \/ (c.content /\ <<c.sid, c.okind>> = <<"arr", "ints">> /\ SameJ(c.out, JArr(<<JInt(1), JInt(2)>>)))
     \/ (c.content /\ <<c.sid, c.okind>> = <<"int", "int">> /\ SameJ(c.out, JInt(1)))
     \/ (~c.content /\ c.okind = "any" /\
           \/ (c.sid = "arr" /\ IsOneOf(c.out, {JArr(<<JInt(1), JInt(2)>>), JArr(<<JStr("x")>>)}))
           \/ (c.sid = "int" /\ IsOneOf(c.out, {JInt(3), JHalf(3)}))
           \/ (c.sid = "enum" /\ IsOneOf(c.out, {JStr("a"), JStr("c")})))
     \/ (~c.content /\ c.sid = "reflect" /\ c.okind \in {"strs", "rint", "rstr", "rbool", "pint"})
     \/ (~c.content /\ c.sid = "reflect" /\ c.okind = "struct" /\ IsOneOf(c.out, OutSVals))
     \/ (~c.content /\ c.sid = "reflect" /\ c.okind = "ptr" /\ c.nilform)
     \/ (~c.content /\ c.sid = "objOO" /\ c.okind = "map" /\ ~c.nilform
           /\ IsOneOf(c.out, {EmptyObj, JObj([k |-> JInt(1), r |-> JStr("s")])}))}
ConcVr == [nDef |-> TRUE, nReq |-> FALSE, addl |-> TRUE, nest |-> "dflt"]
ConcInIx == {<<1, 2, 1, 1, 1>>,      \* {mode:"a"}: n and opt.lvl are supplied by defaults
             <<4, 2, 6, 3, 2>>,      \* {n:3, mode:"a", opt:{lvl:7}, tags:["x","y"], extra:1}: nothing to default
             <<1, 3, 1, 1, 1>>}      \* {mode:"c"}: invalid, answered without a handler
ConcIn ==
  {InCase("in", ConcVr, "map", "none", ClassAt(ix), ArgsAt(ix)) : ix \in ConcInIx}
  \cup {InCase("rin", NoVariant, "InA", "none", GoClassAt("InA", ix), GoArgsAt("InA", ix)) : ix \in {<<3, 2, 3, 3, 1>>, <<2, 2, 1, 1, 1>>}}
  \cup {InCase("rin", NoVariant, "InB", "none", GoClassAt("InB", ix), GoArgsAt("InB", ix)) : ix \in {<<2, 2, 4, 3, 1>>}}
ConcOutSeq == SetToSeq(ConcOut)
ConcInSeq == SetToSeq(ConcIn)
(* the pool for scenarios of three calls: different valid non-object outputs, two of them of one tool *)
Conc3 == {c \in ConcOut : ~c.content /\
            \/ (<<c.sid, c.okind>> = <<"int", "int">> /\ IsOneOf(c.out, {JInt(1), JInt(3)}))
            \/ (<<c.sid, c.okind>> = <<"arr", "ints">> /\ SameJ(c.out, JArr(<<JInt(1), JInt(2)>>)))
            \/ (<<c.sid, c.okind>> = <<"reflect", "rstr">> /\ SameJ(c.out, JStr("a")))}

JTypes == {"object", "array", "string", "integer", "number", "boolean", "null"}
ConcWitnesses ==
  /\ \A c \in ConcIn : IF c.kind = "in" THEN SomeIn(LAMBDA d : d = c) ELSE c \in RInCases
  \* every JSON type occurs as a handler output, and each non-object type as a VALID output
  /\ \A t \in JTypes : \E c \in ConcOut : JType(c.out) = t
  /\ \A t \in JTypes \ {"object", "number"} : \E c \in ConcOut : JType(c.out) = t /\ OutOk(c)
  /\ \E c \in ConcOut : IsObj(c.out) /\ OutOk(c)
  /\ \E c \in ConcOut : ~OutOk(c)
  \* two different valid outputs of one tool, for every non-object type that has two values
  /\ \A t \in {"array", "string", "integer", "boolean"} :
        \E c1, c2 \in ConcOut : /\ c1.sid = c2.sid /\ c1.okind = c2.okind /\ OutOk(c1) /\ OutOk(c2)
                                  /\ JType(c1.out) = t /\ JType(c2.out) = t /\ ~SameJ(OutJson(c1), OutJson(c2))
  /\ \E c \in ConcOut : c.content /\ OutOk(c) /\ ~IsObj(c.out)
  /\ \E c \in ConcOut : c.nilform /\ OutOk(c)
  /\ \E c \in ConcIn : ValidIn(c) /\ ~SameJ(WithDefaults(CaseInSchema(c), c.args), c.args)
  /\ \E c \in ConcIn : ValidIn(c) /\ c.kind = "rin"
  /\ \E c \in ConcIn : ~ValidIn(c)
  /\ Conc3 # {} /\ \A c \in Conc3 : OutOk(c) /\ ~IsObj(c.out)
  /\ \E c1, c2 \in Conc3 : c1.sid = c2.sid /\ c1.okind = c2.okind /\ ~SameJ(c1.out, c2.out)

FailIn(c)  == IF HoldsIn(c, ExpectedIn(c)) THEN FALSE
              ELSE PrintT(<<"design-fail-in", c, ExpectedIn(c)>>)
FailOut(c) == IF HoldsOut(c, ExpectedOut(c)) <=> ~Lead(c) THEN FALSE
              ELSE PrintT(<<"design-fail-out", c, ExpectedOut(c)>>)
DesignIn  == \A i \in DOMAIN InAllSeq : ~FailIn(InAllSeq[i])
DesignOut == \A c \in OutCases : ~FailOut(c)

(* vacuity witnesses *)
Witnesses ==
  /\ \A vr \in Variants : SomeIn(LAMBDA c : c.vr = vr /\ ValidIn(c))
  /\ \A vr \in Variants : SomeIn(LAMBDA c : c.vr = vr /\ ~ValidIn(c) /\ IsObj(c.args))
  \* a default changes what a valid call's handler must see
  /\ SomeIn(LAMBDA c : ValidIn(c) /\ ~SameJ(WithDefaults(CaseInSchema(c), c.args), c.args))
  \* a default is ignored on a required property
  /\ SomeIn(LAMBDA c : c.vr.nDef /\ c.vr.nReq /\ IsObj(c.args) /\ "n" \notin DOMAIN c.args[2] /\ ~ValidIn(c))
  \* an absent optional object is materialised
  /\ SomeIn(LAMBDA c : ValidIn(c) /\ "opt" \notin DOMAIN c.args[2]
                          /\ "opt" \in DOMAIN WithDefaults(CaseInSchema(c), c.args)[2])
  /\ \A ty \in GoInTypes : /\ \E c \in RInCases : c.ty = ty /\ ValidIn(c)
                           /\ \E c \in RInCases : c.ty = ty /\ ~ValidIn(c)
  /\ \A sid \in OutSchemaIds : /\ \E c \in OutCases : c.sid = sid /\ OutOk(c)
                               /\ \E c \in OutCases : c.sid = sid /\ ~OutOk(c) /\ ~Lead(c)
  /\ \E c \in OutCases : OutOk(c) /\ ~SameJ(OutJson(c), c.out)      \* output defaults matter
  /\ \E c \in OutCases : Lead(c)
  \* applying defaults turns a valid value into an invalid one (input and output side)
  /\ \A id \in XIds :
        (\E c1 \in XInCases : c1.ty = id /\ Valid(CaseInSchema(c1), c1.args) /\ ~ValidIn(c1))
        /\ (\E c2 \in XInCases : c2.ty = id /\ ValidIn(c2))
        /\ (\E c3 \in OutCases : c3.sid = id /\ Valid(CaseOutSchema(c3), c3.out) /\ ~OutOk(c3))
  \* a case-variant member is valid as an additional member and must not reach the field
  /\ \E c \in SInCases : ValidIn(c) /\ "Limit" \in DOMAIN c.args[2] /\ "limit" \notin DOMAIN c.args[2]
  \* valid under the inferred schema of the Go type, invalid under the explicit one
  /\ \E c \in SInCases : ~ValidIn(c) /\ Valid(InCInferred, c.args)
  /\ \E c \in OutCases : c.sid = "outsx" /\ ~OutOk(c) /\ Valid(GoOutSchema("struct"), c.out)
  \* a nil pointer output that must be returned (as the zero value of the element type), for every pointer
  \* Out type and every arrangement of the SchemaCache; and its raw JSON form (null) would not be valid
  /\ \A k \in PtrKinds, ch \in OutCaches :
        \E c \in OutCases : c.sid = "reflect" /\ c.okind = k /\ c.cache = ch /\ c.nilform /\ OutOk(c)
                              /\ ~Valid(CaseOutSchema(c), JNull)
  \* ValidOutputReturned and BadOutputIsError both bind in every arrangement
  /\ \A ch \in OutCaches : (\E c1 \in OutCases : c1.cache = ch /\ OutOk(c1))
                            /\ (\E c2 \in OutCases : c2.cache = ch /\ ~OutOk(c2))

-----------------------------------------------------------------------------
(* export *)
B(b) == IF b THEN "1" ELSE "0"
VarId(vr) == "d" \o B(vr.nDef) \o "r" \o B(vr.nReq) \o "a" \o B(vr.addl) \o "_" \o vr.nest

RECURSIVE SJ(_)
SJ(s) ==
     (IF s.types = {} THEN <<>>
      ELSE "type" :> (IF Cardinality(s.types) = 1 THEN (CHOOSE t \in s.types : TRUE) ELSE SetToSeq(s.types)))
  @@ (IF s.enum = <<>> THEN <<>> ELSE "enum" :> SetToSeq({e[2] : e \in s.enum[1]}))
  @@ (IF s.min = <<>> THEN <<>> ELSE "minimum" :> s.min[1])
  @@ (IF s.max = <<>> THEN <<>> ELSE "maximum" :> s.max[1])
  @@ (IF s.def = <<>> THEN <<>> ELSE "default" :> s.def[1][2])
  @@ (IF DOMAIN s.props = {} THEN <<>> ELSE "properties" :> [p \in DOMAIN s.props |-> SJ(s.props[p])])
  @@ (IF s.req = {} THEN <<>> ELSE "required" :> SetToSeq(s.req))
  @@ (IF s.addl THEN <<>> ELSE "additionalProperties" :> FALSE)
  @@ (IF s.items = <<>> THEN <<>> ELSE "items" :> SJ(s.items[1]))
  @@ (IF s.maxItems = <<>> THEN <<>> ELSE "maxItems" :> s.maxItems[1])
  @@ (IF s.maxProps = <<>> THEN <<>> ELSE "maxProperties" :> s.maxProps[1])
  @@ (IF DOMAIN s.depReq = {} THEN <<>> ELSE "dependentRequired" :> [p \in DOMAIN s.depReq |-> SetToSeq(s.depReq[p])])

MapSeq(S, F(_)) == LET q == SetToSeq(S) IN [i \in DOMAIN q |-> F(q[i])]
L1(vr)  == [kind |-> "schema", dir |-> "in", id |-> VarId(vr), schema |-> SJ(InSchemaF[vr])]
L2(sid) == [kind |-> "schema", dir |-> "out", id |-> sid, schema |-> SJ(OutSchema(sid))]
L3(ty)  == [kind |-> "goschema", dir |-> "in", id |-> ty, schema |-> SJ(GoInSchema(ty))]
L4(k)   == [kind |-> "goschema", dir |-> "out", id |-> k, schema |-> SJ(GoOutSchema(k))]
L5(id)  == [kind |-> "schema", dir |-> "xin", id |-> id, schema |-> SJ(XSchema(id))]
L6(x)   == [kind |-> "schema", dir |-> "sin", id |-> "InC", schema |-> SJ(InCExplicit)]
SchemaLines == MapSeq(Variants, L1) \o MapSeq(OutSchemaIds, L2) \o MapSeq(XIds, L5) \o MapSeq({"InC"}, L6) \o MapSeq(GoInTypes, L3) \o MapSeq(GoOutKinds, L4)

InLine(c) == [kind |-> c.kind, vid |-> IF c.kind = "in" THEN VarId(c.vr) ELSE c.ty, vr |-> c.vr, ty |-> c.ty,
              cache |-> c.cache, cls |-> c.cls, args |-> c.args, valid |-> ValidIn(c)]
OutLine(c) == [kind |-> "out", sid |-> c.sid, okind |-> c.okind, cache |-> c.cache, out |-> c.out,
               nilform |-> c.nilform, content |-> c.content, valid |-> OutOk(c), lead |-> Lead(c)]

PoolLine(c) == [kind |-> "concpool", three |-> (c.kind = "out" /\ c \in Conc3),
                case |-> IF c.kind = "out" THEN OutLine(c) ELSE InLine(c)]
Export == ndJsonSerialize("cases.ndjson", SchemaLines \o [i \in DOMAIN InAllSeq |-> InLine(InAllSeq[i])] \o MapSeq(OutCases, OutLine)
                                          \o [i \in DOMAIN ConcOutSeq |-> PoolLine(ConcOutSeq[i])]
                                          \o [i \in DOMAIN ConcInSeq |-> PoolLine(ConcInSeq[i])])

ASSUME DesignIn
ASSUME DesignOut
ASSUME Witnesses
ASSUME ConcWitnesses
ASSUME PrintT(ToJson([incases |-> Len(InSeq), rincases |-> Cardinality(RInCases),
                      xincases |-> Cardinality(XInCases), sincases |-> Cardinality(SInCases),
                      outcases |-> Cardinality(OutCases), concpool |-> Cardinality(ConcOut) + Cardinality(ConcIn),
                      concpool3 |-> Cardinality(Conc3), leads |-> Cardinality({c \in OutCases : Lead(c)}),
                      validin |-> Cardinality({i \in DOMAIN InAllSeq : ValidIn(InAllSeq[i])}),
                      outok |-> Cardinality({c \in OutCases : OutOk(c)})]))
ASSUME Export
=============================================================================
