----------------------------- MODULE ElicitURLGen -----------------------------
(* Behaviour generation for X10 part (b) by TLC simulation: ElicitURL with a  *)
(* history variable that records the ENVIRONMENT's steps - which client,      *)
(* application calls, the server's answers and completions, when the client's *)
(* notification handler is let run, what the ElicitationHandler returns, when *)
(* a caller's context ends.  Finished behaviours are printed as JSON from the *)
(* state constraint; tools/checks/x10.py turns them into scripts.             *)
EXTENDS ElicitURLMC, Json

VARIABLE hist
gvars == <<vars, hist>>
GenInit == Init /\ hist = <<[a |-> "setup", h |-> cfgH]>>
Quiet(A) == A /\ UNCHANGED hist
Rec(A, x) == A /\ hist' = Append(hist, x)
E(a, c, k, ids, i, h) == [a |-> a, c |-> c, k |-> k, ids |-> ids, i |-> i, h |-> h]
GenNext ==
  \/ \E c \in Calls : Rec(Start(c), E("start", c, "", <<>>, "", ""))
  \/ \E c \in Calls : Rec(CtxCancel(c), E("cancel", c, "", <<>>, "", ""))
  \/ \E c \in Calls : \E r \in Resps(c) : Rec(SrvRespond(c, r), E("resp", c, r.kind, r.ids, "", ""))
  \/ \E c \in Calls : \E h \in HResults : Rec(AskEnd(c, h), E("hend", c, "", <<>>, "", h))
  \/ \E i \in IdsAll : Rec(SrvNotify(i), E("notify", 0, "", <<>>, i, ""))
  \/ Rec(CliNotify, E("cnotif", 0, "", <<>>, "", ""))
  \/ \E c \in Calls : Quiet(ClientStep(c))
GenSpec == GenInit /\ [][GenNext]_gvars
Finished == (\A c \in Calls : pc[c] \in {"idle", "done"}) /\ (\E c \in Calls : pc[c] = "done") /\ nq = <<>>
Export == IF Finished /\ Len(hist) > 2 THEN PrintT(ToJson(hist)) ELSE TRUE
\* lead configuration: the first state that breaks U5 prints the environment's steps so far (the harness's drain
\* phase supplies the rest: answers, handler returns, delivery of what was sent)
LeadShared == IF U5_CompletionReachesWaiter THEN TRUE ELSE PrintT(ToJson(hist)) /\ FALSE
=============================================================================
