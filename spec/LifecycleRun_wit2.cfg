SPECIFICATION Spec
CONSTANTS
  MaxEv = 3
  MaxHeld = 1
  MaxWait = 1
  Variant = "asis"
  AlphaSel = "core"
INVARIANTS NoPingExcused
CHECK_DEADLOCK FALSE
