SPECIFICATION Spec
CONSTANTS
  NS = 3
  MinLen = 5
  MaxLen = 5
  CallOK <- CallAll
  MaxHeld = 3
  Mode = "sync"
  LateRelease = TRUE
  AnyOrder = FALSE
  SymReduce = FALSE
  Canon = TRUE
CHECK_DEADLOCK FALSE
INVARIANTS ObservedInOrder NotificationCompletesFirst NoStuck
CONSTRAINT EmitC
