SPECIFICATION HSpec
CONSTANTS
  Eras = {"legacy"}
  D = 2
  Fams = {"fd"}
  Clones = {"base"}
  Reqs = {}
  SetLevels = {"debug", "warning"}
  ReqLevels = {"absent"}
  DirectLevels = {"error"}
  Slog <- SlogFew
  Ticks = {1, 2}
  MaxFlight = 2
  Race = TRUE
  AsIs = TRUE
  MaxLen = 5
INVARIANTS LeadExcess
CHECK_DEADLOCK FALSE
