SPECIFICATION Spec
CONSTANTS
  Senders = {"a", "b"}
  MaxCalls = 1
  AdmitRule = "notIdle"
INVARIANTS TypeOK CountsMatch
PROPERTIES CloseTerminates
CHECK_DEADLOCK FALSE
