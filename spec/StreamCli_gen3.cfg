SPECIFICATION Spec
CONSTANTS
  KindSet = {"post", "sa"}
  ShapeSet <- PrimedShapes
  SchemeSet = {"dec"}
  MSet = {2}
  MRSet = {1, 2}
  MaxCuts = 3
  ClassSet = {"bnd", "name", "idfull", "data", "datafull"}
  AnswerSet = {"terr", "ok"}
  FixScanner = FALSE
  FixCursor = FALSE
  Fix5xx = FALSE
INVARIANTS Export
CHECK_DEADLOCK FALSE
