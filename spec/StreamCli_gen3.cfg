\* behaviour export: three-cut behaviours of a reduced configuration
\* (tools/checks/c09.py builds its configurations from the same template - the Fix* switches of the configurations that model
\*  the real code come from its REPAIRED table; this file is the thorough-tier one, for manual runs:
\*  java -cp $TLA_CP tlc2.TLC -config StreamCli_gen3.cfg StreamCliMC)
SPECIFICATION Spec
CONSTANTS
  KindSet = {"post", "sa"}
  ShapeSet <- PrimedShapes
  SchemeSet = {"dec"}
  MSet = {2}
  MRSet = {1, 2}
  MaxCuts = 3
  ClassSet = {"bnd", "name", "idfull", "data", "datafull"}
  AnswerSet = {"terr", "ok"}
  TailSet = {"good"}
  RetrySet = {"none"}
  FixScanner = FALSE
  FixCursor = TRUE
  Fix5xx = TRUE
INVARIANTS Export
CHECK_DEADLOCK FALSE
