SPECIFICATION Spec
CONSTANTS
  PRMDocs <- PRMDocsCore
INVARIANTS OnlySafeURLs UsedOnlyIfMatching PKCERequired NoScriptSchemes ExchangeOnlyIfStateAndIss PreregBoundToIssuer NoFallbackAfterRejected TokenOnlyIfChecksPassed ResultKnown
PROPERTY NoTokenAfterFailure
CHECK_DEADLOCK FALSE
