SPECIFICATION Spec
CONSTANTS
  PRMDocs <- PRMDocsCore
  Challenges <- ChallengesCore
INVARIANTS OnlySafeURLs UsedOnlyIfMatching PKCERequired NoScriptSchemes ExchangeOnlyIfStateAndIss PreregBoundToIssuer NoFallbackAfterRejected TokenOnlyIfChecksPassed ResultKnown
PROPERTY NoTokenAfterFailure
CHECK_DEADLOCK FALSE
