SPECIFICATION FairSpec
CONSTANTS
  Eras = {"legacy", "modern"}
  D = 2
  Fams = {"f0", "fd"}
  Clones = {"base"}
  Reqs = {"r1", "r2"}
  SetLevels = {"debug", "warning", "error", "bogus"}
  ReqLevels = {"absent", "info", "error", "bogus"}
  DirectLevels = {"debug", "notice", "error", "bogus"}
  Slog <- SlogMid
  Ticks = {1, 2, 3}
  MaxFlight = 2
  Race = TRUE
  AsIs = FALSE
INVARIANTS TypeOK InvNoLeak InvComplete InvLevel InvSpacing InvEnabled InvDirect InvExcess InvAny NeverStarved
PROPERTIES LiveSettle LiveHandle
