\* thorough (-coverage 1): one call, every network fault, every DELETE fate, held POST
SPECIFICATION Spec
CONSTANTS
  Calls = {"k1"}
  CCl = {"c1"}
  SCl = {"s1"}
  Stateless = FALSE
  Timeout = TRUE
  Sse = TRUE
  Nested = FALSE
  Faults = {"cut", "net", "vanish"}
  DelModes = {"fail", "hang", "hold"}
  Helds = TRUE
  Notifs = FALSE
  Cancels = FALSE
  AwaitHandlers = TRUE
  StopSseOnClose = TRUE
INVARIANTS TypeOK NothingDispatchedAfterClose RunningHandlersFinish SessionRemoved
CHECK_DEADLOCK FALSE
