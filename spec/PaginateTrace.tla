---------------------------- MODULE PaginateTrace ----------------------------
(* Strict trace specification for C17: every recorded operation must be the   *)
(* Paginate action of the same name, and the recorded page (items, whether a  *)
(* next cursor was issued, which id the cursor encodes) must equal the        *)
(* specification's.  Rejection of a real trace that the monitor accepts is    *)
(* DRIFT (the code no longer behaves like the model), not a violation.        *)
EXTENDS Paginate, VerifTrace

VARIABLE l
\* ClassMaps of the initial state only: every reset line brings its own kind and classes
TraceMaps == [k \in Kinds |-> {[i \in Ids |-> ShortClass]}]
tvars == <<svars, l>>

\* the reset line names the feature kind, the class of every id (e.clsmap, a sequence = a function on 1..N) and the
\* byte length of every concrete unique id (e.lens): the realisation must lie in the size range of its class
SizeOfClass(c) == CHOOSE s \in SizesOf(kind') : \E f \in FlavoursOf(kind') : c = s \o "/" \o f
TReset(e) ==
  /\ registered' = AsSet(e.init) /\ pageSize' = e.ps
  /\ kind' = e.kind /\ cls' = [i \in Ids |-> e.clsmap[i]]
  /\ kind' \in Kinds /\ \A i \in Ids : cls'[i] \in Classes(kind')
  /\ \A i \in Ids : LET rg == SizeRange(SizeOfClass(cls'[i])) IN rg[1] <= e.lens[i] /\ e.lens[i] <= rg[2]
  /\ idxValid' = FALSE /\ idx' = <<>>
  /\ tActive' = FALSE /\ tDone' = FALSE /\ tCursor' = 0 /\ tEndCls' = NoClass /\ tHidden' = {} /\ tSeen' = <<>>
  /\ tStable' = {} /\ tInit' = {} /\ tMut' = FALSE /\ nMut' = 0 /\ nTrav' = 0
  /\ res' = [kind |-> "none"]

PageMatches(e) ==
  /\ e.err = "" /\ ~e.capped
  /\ res'.items = e.ids
  /\ (res'.next # 0) = e.more
  /\ res'.next = e.nextid

\* iterator started from cursor c, run to completion without mutation, under the filter H
IterFrom(c, H) ==
  /\ res' = [kind |-> "iter", items |-> Walk(SortKeys, pageSize, c, Cardinality(Ids) + 1, H),
             set |-> {i \in registered : i > c} \ H]
  /\ idxValid' = TRUE /\ idx' = SortKeys
  /\ UNCHANGED <<registered, pageSize, kind, cls, nMut>>
  /\ TravUnchanged

Stutter == UNCHANGED svars

TStep(e) ==
  CASE e.ev = "reset" -> TReset(e)
    [] e.ev = "mut" ->
         /\ e.err = ""
         /\ (CASE e.op = "add" -> Add(e.id)
               [] e.op = "replace" -> Replace(e.id)
               [] e.op = "remove" -> Remove(e.id))
    [] e.ev = "start" -> StartTraversal(AsSet(e.hid))
    [] e.ev = "page" -> FetchPage /\ PageMatches(e) /\ tEndCls' = e.endcls
    [] e.ev = "iter" -> /\ e.err = ""
                        /\ IterFrom(e.pos, AsSet(e.hid))
                        /\ res'.items = e.seq /\ e.man = e.seq
    [] e.ev = "iterrun" -> Stutter
    [] e.ev = "cursor" ->
         (IF e.cls = "malformed" THEN BadCursor /\ e.err = "invalid-params"
          ELSE Probe(e.pos) /\ PageMatches(e))

TInit == Init /\ l = 1 /\ MarkInit
TNext == /\ l <= NLines /\ l' = l + 1 /\ TStep(TraceLog[l])
TSpec == TInit /\ [][TNext]_tvars
TMark == MarkAt(l)
TAccepted == Accepted
=============================================================================
