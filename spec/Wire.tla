-------------------------------- MODULE Wire --------------------------------
(* Design-level check and case export for the wire part of C02.               *)
EXTENDS WireDefs, Json, SequencesExt
CONSTANT MaxBatch

ShapeOut(c) == [count |-> ExpectedShape(c).count, otherResp |-> ExpectedShape(c).otherResp, lines |-> ExpectedShape(c).lines,
                code |-> ExpectedShape(c).code, alive |-> ExpectedShape(c).alive, panic |-> ""]
BatchOut(c) == [alive |-> ExpectedBatch(c).alive, flushes |-> ExpectedBatch(c).flushes, flushAfter |-> ExpectedBatch(c).flushAfter,
                flushSize |-> ExpectedBatch(c).flushSize, singles |-> ExpectedBatch(c).singles,
                premature |-> ExpectedBatch(c).premature, panic |-> "", reuseOk |-> TRUE,
                handled |-> SelectSeq(IdPerm(Len(c.members)), LAMBDA i : c.members[i] \in {"call", "notif"})]
\* cases on which the code-shaped design itself breaks the property: leads, confirmed (or not) on the real code
ShapeLeads == {c \in ShapeSet : ~HoldsShape(c, ShapeOut(c))}
AllBatches == BatchSet(MaxBatch) \cup LongBatchSet
BatchLeads == {c \in AllBatches : ~HoldsBatch(c, BatchOut(c))}

ShapeJson(c) == [t |-> "shape", era |-> c.era, method |-> c.method, hasId |-> c.hasId, idc |-> c.idc, params |-> c.params,
                 members |-> <<>>, order |-> <<>>]
BatchJson(c) == [t |-> "batch", era |-> c.era, method |-> "", hasId |-> FALSE, idc |-> "", params |-> "",
                 members |-> c.members, order |-> c.order]
ASSUME PrintT(ToJson([shapes |-> Cardinality(ShapeSet), batches |-> Cardinality(AllBatches),
                      shapeLeads |-> Cardinality(ShapeLeads), batchLeads |-> Cardinality(BatchLeads)]))
HttpShapeJson(c) == [t |-> "httpshape", era |-> c.era, method |-> c.method, hasId |-> c.hasId, idc |-> c.idc, params |-> c.params,
                     members |-> <<>>, order |-> <<>>, json |-> c.json]
HttpBatchJson(c) == [t |-> "httpbatch", era |-> c.era, method |-> "", hasId |-> FALSE, idc |-> "", params |-> "",
                     members |-> c.members, order |-> <<>>, json |-> c.json]
ASSUME ndJsonSerialize("cases.ndjson", SetToSeq({ShapeJson(c) : c \in ShapeSet}) \o SetToSeq({BatchJson(c) : c \in AllBatches}))
ASSUME ndJsonSerialize("httpcases.ndjson", SetToSeq({HttpShapeJson(c) : c \in HttpShapes}) \o SetToSeq({HttpBatchJson(c) : c \in HttpBatchSet(MaxBatch)}))
ASSUME PrintT(ToJson([httpShapes |-> Cardinality(HttpShapes), httpBatches |-> Cardinality(HttpBatchSet(MaxBatch))]))
\* vacuity: every mandated code class occurs
ASSUME \A code \in {0, -32600, -32601, -32602} : \E c \in ShapeSet : c.hasId /\ Mandated(c) = {code}
=============================================================================
