-------------------------------- MODULE Wire --------------------------------
(* Design-level check and case export for the wire part of C01/C02/C03.       *)
EXTENDS WireDefs, Json, SequencesExt
CONSTANTS MaxBatch,     \* batch compositions up to this many members
          FrameCalls    \* reply framings for 1..FrameCalls outstanding calls

ShapeOut(c) == [count |-> ExpectedShape(c).count, otherResp |-> ExpectedShape(c).otherResp, lines |-> ExpectedShape(c).lines,
                code |-> ExpectedShape(c).code, alive |-> ExpectedShape(c).alive, panic |-> ""]
BatchOut(c) == [alive |-> ExpectedBatch(c).alive, flushes |-> ExpectedBatch(c).flushes, flushAfter |-> ExpectedBatch(c).flushAfter,
                flushSize |-> ExpectedBatch(c).flushSize, singles |-> ExpectedBatch(c).singles,
                premature |-> ExpectedBatch(c).premature, panic |-> "", reuseOk |-> ExpectedBatch(c).reuseOk,
                handled |-> SelectSeq(IdPerm(Len(c.members)), LAMBDA i : c.members[i] \in {"call", "notif"})]
\* cases on which the code-shaped design itself breaks the property: leads, confirmed (or not) on the real code
ShapeLeads == {c \in ShapeSet : ~HoldsShape(c, ShapeOut(c))}
AllBatches == BatchSet(MaxBatch) \cup LongBatchSet
BatchLeads == {c \in AllBatches : ~HoldsBatch(c, BatchOut(c))}

ShapeJson(c) == [t |-> "shape", era |-> c.era, method |-> c.method, hasId |-> c.hasId, idc |-> c.idc, params |-> c.params,
                 members |-> <<>>, order |-> <<>>]
BatchJson(c) == [t |-> "batch", era |-> c.era, method |-> "", hasId |-> FALSE, idc |-> "", params |-> "",
                 members |-> c.members, order |-> c.order, reuse |-> c.reuse]
\* reply framings (WireDefs!FramingSet(FrameCalls), built as a sequence: TLC normalises a set of 27k nested records slowly);
\* the code-shaped design must satisfy the C01 (and C02) clauses on every framing
FrameKeys == SetToSeq({<<sd, k, ex>> : sd \in {"client", "server"}, k \in 1..FrameCalls, ex \in SUBSET FrameExtras})
RowsOf(key) == LET sq == SetToSeq(Framings(Resps(key[2]) \cup key[3])) IN
               [i \in 1..Len(sq) |-> [t |-> "framing", side |-> key[1], ncalls |-> key[2], frames |-> sq[i]]]
FramingRows == FlattenSeq([i \in 1..Len(FrameKeys) |-> RowsOf(FrameKeys[i])])
FramingOut(c) == [outcome |-> ExpectedFraming(c).outcome, doneAfter |-> ExpectedFraming(c).doneAfter, notifs |-> ExpectedFraming(c).notifs,
                  qAnswers |-> ExpectedFraming(c).qAnswers, qOther |-> ExpectedFraming(c).qOther, alive |-> ExpectedFraming(c).alive, panic |-> ""]
FramingLeads == {i \in DOMAIN FramingRows : ~HoldsFraming(FramingRows[i], FramingOut(FramingRows[i]))}
\* ReadAll (the queueing of ioConn.Read) delivers exactly the members sent, in order
ASSUME \A i \in DOMAIN FramingRows : ReadAll(<<>>, FramingRows[i].frames) = Flat(FramingRows[i].frames)
ASSUME ndJsonSerialize("framecases.ndjson", FramingRows)
ASSUME PrintT(ToJson([shapes |-> Cardinality(ShapeSet), batches |-> Cardinality(AllBatches),
                      shapeLeads |-> Cardinality(ShapeLeads), batchLeads |-> Cardinality(BatchLeads),
                      framings |-> Len(FramingRows), framingLeads |-> Cardinality(FramingLeads),
                      reuseLeads |-> Cardinality({c \in AllBatches : ~BatchOut(c).reuseOk})]))
HttpShapeJson(c) == [t |-> "httpshape", era |-> c.era, method |-> c.method, hasId |-> c.hasId, idc |-> c.idc, params |-> c.params,
                     members |-> <<>>, order |-> <<>>, json |-> c.json]
HttpBatchJson(c) == [t |-> "httpbatch", era |-> c.era, method |-> "", hasId |-> FALSE, idc |-> "", params |-> "",
                     members |-> c.members, order |-> <<>>, json |-> c.json]
ASSUME ndJsonSerialize("cases.ndjson", SetToSeq({ShapeJson(c) : c \in ShapeSet}) \o SetToSeq({BatchJson(c) : c \in AllBatches}))
ASSUME ndJsonSerialize("httpcases.ndjson", SetToSeq({HttpShapeJson(c) : c \in HttpShapes}) \o SetToSeq({HttpBatchJson(c) : c \in HttpBatchSet(MaxBatch)}))
ASSUME PrintT(ToJson([httpShapes |-> Cardinality(HttpShapes), httpBatches |-> Cardinality(HttpBatchSet(MaxBatch))]))
\* vacuity: response-only arrays, arrays mixing responses with a notification / a call, and both re-use timings occur
ASSUME FrameCalls >= 2 => \E i \in DOMAIN FramingRows : LET c == FramingRows[i] IN Len(c.frames) = 1 /\ c.frames[1].arr /\ c.frames[1].items = <<"r1", "r2">>
ASSUME FrameCalls >= 1 => \E i \in DOMAIN FramingRows : LET c == FramingRows[i] IN
                            \E j \in DOMAIN c.frames : CountOf(c.frames[j].items, "q") = 1 /\ CountOf(c.frames[j].items, "r1") = 1
ASSUME MaxBatch >= 1 => \A ru \in ReuseTimings : \E c \in AllBatches : c.reuse = ru
\* vacuity: every mandated code class occurs
ASSUME \A code \in {0, -32600, -32601, -32602} : \E c \in ShapeSet : c.hasId /\ Mandated(c) = {code}
=============================================================================
