-------------------------- MODULE SSELegacyCliTrace --------------------------
(* Strict conformance of recorded client-side harness steps against           *)
(* SSELegacyCli: every step line is one environment action; between lines TLC *)
(* may take Scan steps and must arrive in a settled state whose projection    *)
(* equals the recorded snapshot.  A mismatch is DRIFT, never a verdict.       *)
EXTENDS SSELegacyCli, VerifTrace

VARIABLE l
tvars == <<vars, l>>

Match(e) ==
  /\ Settled
  /\ CASE e.conn = "none"       -> ph = "init"
       [] e.conn = "connecting" -> ph = "connecting"
       [] e.conn = "failed"     -> ph = "failed"
       [] e.conn = "up"         -> ph \in {"up", "closed"} /\ ep = e.ep /\ (ph = "closed") = e.bodyclosed
       [] OTHER -> FALSE
  /\ hasBody = e.hasbody /\ (hasBody => bodyClosed = e.bodyclosed)
  /\ SubSeq(stream, 1, Len(e.stream)) = e.stream /\ ended = e.ended
  /\ Len(rds) = Len(e.rds)
  /\ \A j \in DOMAIN e.rds : rds[j][1] = e.rds[j].r /\ (e.rds[j].r = "msg" => rds[j][2] = e.rds[j].i)
  /\ Len(wrs) = Len(e.wrs)
  /\ \A j \in DOMAIN e.wrs : wrs[j].r = e.wrs[j].r /\ wrs[j].posted = e.wrs[j].posted /\ wrs[j].cls = e.wrs[j].cls
  /\ nposts = Len(e.posts)

EnvStep(e) ==
  IF ~e.applied THEN UNCHANGED vars
  ELSE CASE e.op = "Connect" -> Connect(e.a1)
         [] e.op = "First"   -> First(e.a1, e.a2)
         [] e.op = "Abort"   -> Abort
         [] e.op = "Ev"      -> Ev(e.a1)
         [] e.op = "End"     -> End(e.a1)
         [] e.op = "Read"    -> Read
         [] e.op = "Write"   -> Write(e.a1)
         [] e.op = "Close"   -> Close
         [] e.op = "Drain"   -> UNCHANGED vars
         [] OTHER -> FALSE

PrevOK == IF l = 1 THEN TRUE ELSE IF TraceLog[l - 1].ev = "reset" THEN TRUE ELSE Match(TraceLog[l - 1])
TraceInit == Init /\ l = 1 /\ MarkInit
TraceNext ==
  \/ Internal /\ l' = l
  \/ /\ l <= NLines /\ PrevOK
     /\ l' = l + 1
     /\ LET e == TraceLog[l] IN
          IF e.ev = "reset"
          THEN /\ ph' = "init" /\ ep' = "" /\ hasBody' = FALSE /\ bodyClosed' = FALSE
               /\ stream' = <<>> /\ ended' = "" /\ nscan' = 0 /\ rdone' = FALSE /\ inbox' = <<>>
               /\ rds' = <<>> /\ wrs' = <<>> /\ nposts' = 0
          ELSE EnvStep(e)
TraceSpec == TraceInit /\ [][TraceNext]_tvars
TMark == MarkAt(l)
TAccepted == Accepted
=============================================================================
