---------------------------- MODULE DispatchTabMon ----------------------------
(* X15 tables, the verdict: the clauses of DispatchDefs (R1..R8, S1..S8, G1,    *)
(* A1, Z1) evaluated on the outcomes the REAL Server / Client produced, and     *)
(* equality with DispatchDefs!Expected (binding; a difference is drift).        *)
(* One line per case: {"c": case, "o": outcome}.                                *)
EXTENDS VerifTrace, FiniteSets
D == INSTANCE DispatchDefs

VARIABLE l
MInit == l = 1 /\ MarkInit
MNext == /\ l <= NLines /\ l' = l + 1
         /\ LET e == TraceLog[l] IN
              /\ \A n \in D!ClausesOf(e.c) : Check(l, n, D!Clause(n, e.c, e.o))
              /\ Check(l, "drift", D!HasExpected(e.c) => D!SameOutcome(e.c, e.o))
MSpec == MInit /\ [][MNext]_l
MMark == MarkAt(l)
MAccepted == Accepted
=============================================================================
