SPECIFICATION Spec
CONSTANTS
  Readers = {"anyeof"}
  Size = "one"
INVARIANTS TypeOK CodeLeads
