\* liveness under fairness
SPECIFICATION FairSpec
CONSTANTS
  NC = 1
  SASet = {FALSE}
  OAuthSet = {FALSE}
  DelSet = {"ok"}
  PostSet = {"json", "sse", "rpcerr", "404", "http", "badct"}
  GetSet = {"405"}
  InitH = {"A"}
  HSet = {""}
  MaxNotify = 1
  MaxSaEv = 0
  MaxAuth = 0
  MaxClose = 1
  AllowCancel = FALSE
  FixCancel = FALSE
  FixStream = FALSE
INVARIANTS TypeOK SessionHeader VersionHeader OnePostPerMessage Standalone PerMessage Usable GoneStops GoneNoDelete GoneFailsAll
  TerminalFailsPending DeleteOnce DeleteWhenLive CloseWaits StandaloneCancelled RetiredOnce
PROPERTIES ConnectReturns CallsReturn NotifyReturns CloseReturns FailureEnds
CHECK_DEADLOCK FALSE
