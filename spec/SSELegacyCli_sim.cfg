SPECIFICATION SettledSpec
CONSTANTS
  MaxEv = 6
  MaxRead = 8
  MaxWrite = 4
  EpSet = {"rel", "query", "abspath", "abssame", "absother", "bad"}
  WrSet = {"202", "200", "204", "3xx", "4xx", "5xx", "neterr"}
  EvSet = {"msg", "named", "junk", "comment"}
  EndSet = {"eof", "err", "cutdata", "cutblank"}
INVARIANTS TypeOK EndpointFirst PostTarget WriteResult ReadOrder
CHECK_DEADLOCK FALSE
