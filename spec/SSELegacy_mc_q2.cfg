SPECIFICATION MCSpec
CONSTANTS
  MaxSess = 1
  MaxPost = 2
  MaxSend = 1
  Cap = 2
  Direct = FALSE
  RandomSelect = TRUE
  KindSet = {"call", "notif", "slow", "badjson", "badreq", "ctype"}
  WithNoId = TRUE
  WithUnknown = TRUE
INVARIANTS TypeOK EndpointFirst Routing AtMostOnce Order Refusal TableExact
PROPERTIES NoWriteAfterClose WriteFailsAfterClose Monotone
CHECK_DEADLOCK FALSE
