SPECIFICATION Spec
CONSTANTS
  N = 2
  SharedFields = {"token"}
  RegModes = {"dcr", "pre"}
  AdvChoices <- AdvUniform
  LaterServers = {"S1", "S2"}
  CbKinds = {"own", "other", "stale", "badiss"}
  TokenOutcomes = {"good"}
INVARIANT TokenFromOwnExchange
CHECK_DEADLOCK FALSE
