SPECIFICATION Spec
CONSTANTS
  NConn = 2
  ServerWide = TRUE
  Fine = TRUE
  Family = "pair"
INVARIANT TypeOK
INVARIANT ConcExact
CHECK_DEADLOCK FALSE
