\* behaviour export: single cuts on event boundaries, every sequence of reconnect answers over the whole status class
\* (tools/checks/c09.py builds its configurations from the same template - the Fix* switches of the configurations that model
\*  the real code come from its REPAIRED table; this file is the thorough-tier one, for manual runs:
\*  java -cp $TLA_CP tlc2.TLC -config StreamCli_genS.cfg StreamCliMC)
SPECIFICATION Spec
CONSTANTS
  KindSet = {"post", "sa"}
  ShapeSet <- TwoShapes
  SchemeSet = {"dec"}
  MSet = {2}
  MRSet = {1, 2, 3}
  MaxCuts = 1
  ClassSet = {"bnd"}
  AnswerSet = {"terr", "ok", "429", "500", "502", "503", "504", "404", "403", "501"}
  TailSet = {"good"}
  RetrySet = {"none"}
  FixScanner = FALSE
  FixCursor = TRUE
  Fix5xx = TRUE
INVARIANTS Export
CHECK_DEADLOCK FALSE
