------------------------------ MODULE WireDefs ------------------------------
(* Request shapes, replies and batches on the newline-delimited transport     *)
(* (rest of property C02; DESIGN.md 5.2).                                     *)
(*  (a) shape table: method class x id class x params class x protocol era;   *)
(*      Expected = what the code does (DecodeMessage -> MakeID, checkRequest, *)
(*      unmarshalParams, processResult's code mapping); Holds = what C02 says.*)
(*  (b) batches (pre-2025-06-18): every composition of calls, notifications   *)
(*      and calls to unknown methods x every completion order of the calls;   *)
(*      Expected transcribes ioConn's bookkeeping (Read tracks the requests   *)
(*      of a batch, Write flushes when none is unresolved).                   *)
EXTENDS Integers, Sequences, FiniteSets, TLC

Eras == {"2025-03-26", "2025-06-18", "2025-11-25"}
Methods == {"ping", "tools/list", "tools/call", "unknown", "notifonly"}
\* id classes: integers up to the int64 range, strings
IdClasses == {"small", "zero", "neg", "safemax", "pow53", "pow53p1", "negpow53m1", "big", "maxint64", "minint64",
              "strempty", "strnum", "strascii", "strunicode", "strescape"}
ParamClasses == {"absent", "null", "empty", "valid", "wrongtype"}

ShapeCases == { [t |-> "shape", era |-> e, method |-> m, hasId |-> h, idc |-> i, params |-> p] :
                  e \in Eras, m \in Methods, h \in BOOLEAN, i \in IdClasses, p \in ParamClasses }
ShapeSet == {c \in ShapeCases : ~c.hasId => c.idc = "small"}

\* ids are decoded exactly (integer literals are parsed as int64)
IdSurvives(i) == TRUE

\* the error code the code answers with (0 = a result), "any" where the property does not care
CodeOf(c) ==
  CASE c.method = "unknown" -> -32601
    [] c.method = "notifonly" -> -32600                                   \* an id on a notification-only method
    [] c.params = "wrongtype" -> -32602
    [] c.method = "tools/call" /\ c.params \in {"absent", "null"} -> -32600  \* required params missing
    [] c.method = "tools/call" /\ c.params = "empty" -> -32602              \* no tool name
    [] OTHER -> 0

ExpectedShape(c) ==
  IF ~c.hasId THEN [count |-> 0, otherResp |-> 0, lines |-> 0, code |-> 0, alive |-> TRUE]
  ELSE IF IdSurvives(c.idc) THEN [count |-> 1, otherResp |-> 0, lines |-> 1, code |-> CodeOf(c), alive |-> TRUE]
  ELSE [count |-> 0, otherResp |-> 1, lines |-> 1, code |-> 0, alive |-> TRUE]

\* ---- the property on shapes
Mandated(c) ==   \* codes C02 mandates; other cases: any single response
  CASE c.method = "unknown" -> {-32601}
    [] c.method = "notifonly" -> {-32600}
    [] c.params = "wrongtype" -> {-32602}
    [] c.method = "tools/call" /\ c.params = "absent" -> {-32600}
    [] c.method = "tools/call" /\ c.params = "null" -> {-32600, -32602}   \* missing or undecodable: either reading is standard
    [] c.method \in {"ping", "tools/list"} /\ c.params # "wrongtype" -> {0}
    [] c.method = "tools/call" /\ c.params = "valid" -> {0}
    [] OTHER -> {}

ShapeClauses(c, o) ==
  [NoCrash |-> o.panic = "",
   SessionSurvives |-> o.alive,
   NoReplyToNotification |-> ~c.hasId => o.lines = 0,
   ExactlyOneSameId |-> c.hasId => (o.count = 1 /\ o.otherResp = 0),
   Code |-> (c.hasId /\ o.count = 1 /\ Mandated(c) # {}) => o.code \in Mandated(c)]
HoldsShape(c, o) == \A k \in DOMAIN ShapeClauses(c, o) : ShapeClauses(c, o)[k]

\* ---- batches
Kinds == {"call", "notif", "unk"}
SeqsUpTo(n) == UNION {[1..k -> Kinds] : k \in 1..n}
NCallsGated(ms) == Cardinality({i \in DOMAIN ms : ms[i] = "call"})
NCalls(ms) == Cardinality({i \in DOMAIN ms : ms[i] \in {"call", "unk"}})
NNotifs(ms) == Cardinality({i \in DOMAIN ms : ms[i] = "notif"})
Perms(n) == {f \in [1..n -> 1..n] : \A i, j \in 1..n : i # j => f[i] # f[j]}
BatchCases(n) == { [t |-> "batch", era |-> "2025-03-26", members |-> ms, order |-> ord] :
                     ms \in SeqsUpTo(n), ord \in UNION {Perms(k) : k \in 0..n} }
BatchSet(n) == {c \in BatchCases(n) : Len(c.order) = NCallsGated(c.members)}
\* longer batches of notifications and calls (calls released in member order): in-order handling (C03) and the
\* bookkeeping of ids beyond the first few members
LongMembers == UNION {[1..k -> {"call", "notif"}] : k \in 4..6}
IdPerm(n) == [i \in 1..n |-> i]
LongBatchSet == { [t |-> "batch", era |-> "2025-03-26", members |-> ms, order |-> IdPerm(NCallsGated(ms))] : ms \in LongMembers }

\* ioConn tracks only the CALLS of a batch as unresolved; the reply array is written when the last one is answered
ExpectedBatch(c) ==
  LET nc == NCalls(c.members) IN
  [alive |-> TRUE, flushes |-> IF nc > 0 THEN 1 ELSE 0, flushAfter |-> nc, flushSize |-> nc, singles |-> 0, premature |-> FALSE]

BatchClauses(c, o) ==
  LET nc == NCalls(c.members) IN
  [NoCrash |-> o.panic = "",
   BatchNeverFailsConnection |-> o.alive,
   BatchReplyWhenAllAnswered |-> IF nc = 0 THEN o.flushes = 0
                                 ELSE o.flushes = 1 /\ o.flushAfter = nc /\ ~o.premature,
   BatchReplyComplete |-> (nc > 0 /\ o.flushes = 1) => o.flushSize = nc,
   BatchNoStrayResponses |-> o.singles = 0,
   \* once a batch is complete its ids are free again (C02)
   BatchIdsReusable |-> o.reuseOk,
   \* members are handled in batch order: nothing later in the batch starts before an earlier NOTIFICATION's handler
   \* (calls release the dispatcher before their user handler runs, so two calls' starts are not ordered) (C03)
   BatchInOrder |-> \A p, q \in DOMAIN o.handled : (p < q /\ o.handled[p] > o.handled[q]) => c.members[o.handled[q]] # "notif"]
HoldsBatch(c, o) == \A k \in DOMAIN BatchClauses(c, o) : BatchClauses(c, o)[k]

\* ---- streamable HTTP (stateful endpoint): the transport pre-validates, so a request that C02 requires to be
\* REJECTED may be answered with an HTTP 4xx instead of a JSON-RPC error; a valid request must get its response.
HttpIdClasses == {"small", "neg", "maxint64", "strempty", "strunicode"}
HttpShapeSet == { [t |-> "httpshape", era |-> e, method |-> m, hasId |-> h, idc |-> i, params |-> p, json |-> j] :
                    e \in {"2025-03-26", "2025-06-18"}, m \in Methods, h \in BOOLEAN, i \in HttpIdClasses, p \in ParamClasses, j \in BOOLEAN }
HttpShapes == {c \in HttpShapeSet : ~c.hasId => c.idc = "small"}
MustReject(c) == Mandated(c) # {} /\ 0 \notin Mandated(c)
HttpShapeClauses(c, o) ==
  [NoCrash |-> o.panic = "",
   SessionSurvives |-> o.alive,
   NoReplyToNotification |-> ~c.hasId => (o.lines = 0 /\ (o.status = 202 \/ (o.status >= 400 /\ o.status < 500))),
   ExactlyOneSameIdOr4xx |-> c.hasId =>
        \/ (o.status = 200 /\ o.count = 1 /\ o.otherResp = 0)
        \/ (MustReject(c) /\ o.status >= 400 /\ o.status < 500 /\ o.lines = 0),
   Code |-> (c.hasId /\ o.status = 200 /\ o.count = 1 /\ Mandated(c) # {}) => o.code \in Mandated(c)]

HttpBatchSet(n) == { [t |-> "httpbatch", era |-> "2025-03-26", members |-> ms, json |-> j] : ms \in SeqsUpTo(n), j \in BOOLEAN }
HasUnk(ms) == \E i \in DOMAIN ms : ms[i] = "unk"
HttpBatchClauses(c, o) ==
  LET nc == NCalls(c.members) IN
  [NoCrash |-> o.panic = "",
   BatchNeverFailsConnection |-> o.alive,
   \* every call of the batch is answered exactly once - or the whole POST is refused with a 4xx because a member
   \* has to be rejected anyway
   BatchAllAnswered |-> \/ (o.answered = nc /\ o.status = (IF nc = 0 THEN 202 ELSE 200))
                        \/ (HasUnk(c.members) /\ o.status >= 400 /\ o.status < 500 /\ o.answered = 0),
   \* once a batch is complete its ids are free again
   BatchIdsReusable |-> o.reuseOk]
=============================================================================
