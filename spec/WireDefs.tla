------------------------------ MODULE WireDefs ------------------------------
(* Request shapes, replies and batches on the newline-delimited transport     *)
(* (rest of property C02; DESIGN.md 5.2).                                     *)
(*  (a) shape table: method class x id class x params class x protocol era;   *)
(*      Expected = what the code does (DecodeMessage -> MakeID, checkRequest, *)
(*      unmarshalParams, processResult's code mapping); Holds = what C02 says.*)
(*  (b) batches (pre-2025-06-18): every composition of calls, notifications   *)
(*      and calls to unknown methods x every completion order of the calls;   *)
(*      Expected transcribes ioConn's bookkeeping (Read tracks the requests   *)
(*      of a batch, Write flushes when none is unresolved); the ids of a      *)
(*      batch are re-usable once the peer holds the reply, before or after    *)
(*      the SDK's Write of it has returned.                                   *)
(*  (c) reply framing (C01): the SDK side has 1..3 calls outstanding and the   *)
(*      peer frames its responses (+ a notification, + a call) in every way    *)
(*      JSON-RPC 2.0 allows; Expected transcribes ioConn.Read's queueing.     *)
EXTENDS Integers, Sequences, FiniteSets, TLC

Eras == {"2025-03-26", "2025-06-18", "2025-11-25"}
Methods == {"ping", "tools/list", "tools/call", "unknown", "notifonly"}
\* id classes: integers up to the int64 range, strings
IdClasses == {"small", "zero", "neg", "safemax", "pow53", "pow53p1", "negpow53m1", "big", "maxint64", "minint64",
              "strempty", "strnum", "strascii", "strunicode", "strescape"}
ParamClasses == {"absent", "null", "empty", "valid", "wrongtype"}

ShapeCases == { [t |-> "shape", era |-> e, method |-> m, hasId |-> h, idc |-> i, params |-> p] :
                  e \in Eras, m \in Methods, h \in BOOLEAN, i \in IdClasses, p \in ParamClasses }
ShapeSet == {c \in ShapeCases : ~c.hasId => c.idc = "small"}

\* ids are decoded exactly (integer literals are parsed as int64)
IdSurvives(i) == TRUE

\* the error code the code answers with (0 = a result), "any" where the property does not care
CodeOf(c) ==
  CASE c.method = "unknown" -> -32601
    [] c.method = "notifonly" -> -32600                                   \* an id on a notification-only method
    [] c.params = "wrongtype" -> -32602
    [] c.method = "tools/call" /\ c.params \in {"absent", "null"} -> -32600  \* required params missing
    [] c.method = "tools/call" /\ c.params = "empty" -> -32602              \* no tool name
    [] OTHER -> 0

ExpectedShape(c) ==
  IF ~c.hasId THEN [count |-> 0, otherResp |-> 0, lines |-> 0, code |-> 0, alive |-> TRUE]
  ELSE IF IdSurvives(c.idc) THEN [count |-> 1, otherResp |-> 0, lines |-> 1, code |-> CodeOf(c), alive |-> TRUE]
  ELSE [count |-> 0, otherResp |-> 1, lines |-> 1, code |-> 0, alive |-> TRUE]

\* ---- the property on shapes
Mandated(c) ==   \* codes C02 mandates; other cases: any single response
  CASE c.method = "unknown" -> {-32601}
    [] c.method = "notifonly" -> {-32600}
    [] c.params = "wrongtype" -> {-32602}
    [] c.method = "tools/call" /\ c.params = "absent" -> {-32600}
    [] c.method = "tools/call" /\ c.params = "null" -> {-32600, -32602}   \* missing or undecodable: either reading is standard
    [] c.method \in {"ping", "tools/list"} /\ c.params # "wrongtype" -> {0}
    [] c.method = "tools/call" /\ c.params = "valid" -> {0}
    [] OTHER -> {}

ShapeClauses(c, o) ==
  [NoCrash |-> o.panic = "",
   SessionSurvives |-> o.alive,
   NoReplyToNotification |-> ~c.hasId => o.lines = 0,
   ExactlyOneSameId |-> c.hasId => (o.count = 1 /\ o.otherResp = 0),
   Code |-> (c.hasId /\ o.count = 1 /\ Mandated(c) # {}) => o.code \in Mandated(c)]
HoldsShape(c, o) == \A k \in DOMAIN ShapeClauses(c, o) : ShapeClauses(c, o)[k]

\* ---- batches
Kinds == {"call", "notif", "unk"}
SeqsUpTo(n) == UNION {[1..k -> Kinds] : k \in 1..n}
NCallsGated(ms) == Cardinality({i \in DOMAIN ms : ms[i] = "call"})
NCalls(ms) == Cardinality({i \in DOMAIN ms : ms[i] \in {"call", "unk"}})
NNotifs(ms) == Cardinality({i \in DOMAIN ms : ms[i] = "notif"})
Perms(n) == {f \in [1..n -> 1..n] : \A i, j \in 1..n : i # j => f[i] # f[j]}
\* When the peer re-uses the ids of a batch.  It may do so as soon as it HOLDS the batch reply: "received" = the reply has
\* been delivered to the peer but the SDK's Write of it has not returned yet (the peer's next batch is read by the SDK's
\* read loop inside that window); "returned" = after that Write has returned.
ReuseTimings == {"returned", "received"}
\* the instants of a batch's life, in order; an id is busy from "read" until the instant the bookkeeping frees it
Instant == [read |-> 0, recorded |-> 1, received |-> 2, returned |-> 3]
\* ioConn.updateBatch forgets an id when its response is RECORDED (under the write lock, before the reply is marshalled)
CodeFreesIdsAt == "recorded"
BatchCases(n) == { [t |-> "batch", era |-> "2025-03-26", members |-> ms, order |-> ord, reuse |-> ru] :
                     ms \in SeqsUpTo(n), ord \in UNION {Perms(k) : k \in 0..n}, ru \in ReuseTimings }
\* (a batch without calls has no reply, hence no window)
BatchSet(n) == {c \in BatchCases(n) : Len(c.order) = NCallsGated(c.members) /\ (NCalls(c.members) = 0 => c.reuse = "returned")}
\* longer batches of notifications and calls (calls released in member order): in-order handling (C03) and the
\* bookkeeping of ids beyond the first few members
LongMembers == UNION {[1..k -> {"call", "notif"}] : k \in 4..6}
IdPerm(n) == [i \in 1..n |-> i]
LongBatchSet == { c \in { [t |-> "batch", era |-> "2025-03-26", members |-> ms, order |-> IdPerm(NCallsGated(ms)), reuse |-> ru] :
                              ms \in LongMembers, ru \in ReuseTimings } : NCalls(c.members) = 0 => c.reuse = "returned" }

\* ioConn tracks only the CALLS of a batch as unresolved; the reply array is written when the last one is answered
ExpectedBatch(c) ==
  LET nc == NCalls(c.members) IN
  [alive |-> TRUE, flushes |-> IF nc > 0 THEN 1 ELSE 0, flushAfter |-> nc, flushSize |-> nc, singles |-> 0, premature |-> FALSE,
   \* a later batch re-using the ids is accepted iff the bookkeeping has freed them by the time the peer re-uses them
   reuseOk |-> Instant[CodeFreesIdsAt] <= Instant[c.reuse]]

BatchClauses(c, o) ==
  LET nc == NCalls(c.members) IN
  [NoCrash |-> o.panic = "",
   BatchNeverFailsConnection |-> o.alive,
   BatchReplyWhenAllAnswered |-> IF nc = 0 THEN o.flushes = 0
                                 ELSE o.flushes = 1 /\ o.flushAfter = nc /\ ~o.premature,
   BatchReplyComplete |-> (nc > 0 /\ o.flushes = 1) => o.flushSize = nc,
   BatchNoStrayResponses |-> o.singles = 0,
   \* once a batch is complete its ids are free again - from the moment the peer holds the reply (c.reuse), whether or
   \* not the SDK's Write of the reply has returned (C02)
   BatchIdsReusable |-> o.reuseOk,
   \* members are handled in batch order: nothing later in the batch starts before an earlier NOTIFICATION's handler
   \* (calls release the dispatcher before their user handler runs, so two calls' starts are not ordered) (C03)
   BatchInOrder |-> \A p, q \in DOMAIN o.handled : (p < q /\ o.handled[p] > o.handled[q]) => c.members[o.handled[q]] # "notif"]
HoldsBatch(c, o) == \A k \in DOMAIN BatchClauses(c, o) : BatchClauses(c, o)[k]

\* ---- reply framing: the SDK's OUTGOING calls on the newline-delimited transports (C01)
\* A client session (peer = a raw scripted server) or a server session (peer = a raw scripted client, 2025-03-26) has
\* 1..3 calls outstanding.  The peer answers every one of them; JSON-RPC 2.0 lets it frame the answers as it likes:
\* single messages, one array holding all responses, arrays mixing responses with a notification ("n") and with a
\* call to the SDK side ("q"), several arrays, arrays of one, in every order.
\* A framing = a sequence of frames; a frame = [arr |-> written as a JSON array?, items |-> its members in order].
RespItems == <<"r1", "r2", "r3">>
Resps(k) == {RespItems[i] : i \in 1..k}
FrameExtras == {"n", "q"}
Arrangements(S) == {s \in [1..Cardinality(S) -> S] : \A i, j \in 1..Cardinality(S) : i # j => s[i] # s[j]}
\* f[i] = number of the frame that holds position i
Labelings(m) == {f \in [1..m -> 1..m] : f[1] = 1 /\ \A i \in 1..(m - 1) : f[i + 1] \in {f[i], f[i] + 1}}
MinOf(S) == CHOOSE x \in S : \A y \in S : x <= y
MaxOf(S) == CHOOSE x \in S : \A y \in S : x >= y
FrameItems(s, f, j) == LET idx == {i \in DOMAIN s : f[i] = j} IN SubSeq(s, MinOf(idx), MaxOf(idx))
\* the ways to cut m positions into frames: <<labeling, the set of frames written as arrays>>; a frame of one member is
\* sent bare or as an array of one, a longer frame is an array
Cuts(m) == UNION { { <<f, {j \in 1..f[m] : Cardinality({i \in 1..m : f[i] = j}) > 1} \cup X>> :
                       X \in SUBSET {j \in 1..f[m] : Cardinality({i \in 1..m : f[i] = j}) = 1} } : f \in Labelings(m) }
\* every ordered partition of S into frames
Framings(S) ==
  { [j \in 1..t[2][1][Cardinality(S)] |-> [arr |-> j \in t[2][2], items |-> FrameItems(t[1], t[2][1], j)]] :
      t \in Arrangements(S) \X Cuts(Cardinality(S)) }
\* (without the side: the space of framings for k calls and the extras ex)
FramingShapes(maxCalls) ==
  UNION { UNION { { [ncalls |-> k, frames |-> fr] : fr \in Framings(Resps(k) \cup ex) } : ex \in SUBSET FrameExtras } : k \in 1..maxCalls }
FramingSet(maxCalls) == { [t |-> "framing", side |-> sd, ncalls |-> c.ncalls, frames |-> c.frames] :
                            sd \in {"client", "server"}, c \in FramingShapes(maxCalls) }

\* what the code does: ioConn.Read decodes a frame as a whole, returns its first member and QUEUES the rest; the
\* following Reads drain the queue before the next frame is taken, so every member is delivered, in the order sent
RECURSIVE ReadAll(_, _)
ReadAll(queue, frames) ==
  IF queue # <<>> THEN <<Head(queue)>> \o ReadAll(Tail(queue), frames)
  ELSE IF frames = <<>> THEN <<>>
  ELSE <<Head(frames).items[1]>> \o ReadAll(Tail(Head(frames).items), Tail(frames))
RECURSIVE Flat(_)
Flat(frames) == IF frames = <<>> THEN <<>> ELSE Head(frames).items \o Flat(Tail(frames))
CountOf(sq, x) == Cardinality({i \in DOMAIN sq : sq[i] = x})
\* the calls whose response has been delivered once the first i frames have been read
DoneAfter(c, i) == {k \in 1..c.ncalls : CountOf(ReadAll(<<>>, SubSeq(c.frames, 1, i)), RespItems[k]) > 0}
ExpectedFraming(c) ==
  [outcome |-> [k \in 1..c.ncalls |-> "own"],
   doneAfter |-> [i \in 1..Len(c.frames) |-> DoneAfter(c, i)],
   notifs |-> CountOf(ReadAll(<<>>, c.frames), "n"),
   qAnswers |-> CountOf(ReadAll(<<>>, c.frames), "q"), qOther |-> 0, alive |-> TRUE]

\* the property.  o.outcome[k], observed at quiescence after the last frame (nothing was cancelled or closed):
\*   "own"     call k returned the response the peer sent for call k (result or error payload intact)
\*   "other"   call k returned something else the peer sent (another call's response, an altered payload)
\*   "failed"  call k returned an error the peer did not send
\*   "blocked" call k has not returned
FramingClauses(c, o) ==
  [NoCrash |-> o.panic = "",
   \* C01: whatever the framing, no outstanding call stays blocked once its response has been sent ...
   CompletesAnyFraming |-> \A k \in 1..c.ncalls : o.outcome[k] # "blocked",
   \* ... and a call that completes does so with ITS OWN response
   OwnResponseAnyFraming |-> \A k \in 1..c.ncalls : o.outcome[k] \in {"own", "blocked"},
   \* C02: a call to the SDK side that shares a frame with responses / a notification is answered exactly once, nothing
   \* else is answered, and the session survives
   FramedCallAnswered |-> o.qAnswers = CountOf(Flat(c.frames), "q") /\ o.qOther = 0,
   FramedCallKeepsSession |-> CountOf(Flat(c.frames), "q") > 0 => o.alive]
HoldsFraming(c, o) == \A k \in DOMAIN FramingClauses(c, o) : FramingClauses(c, o)[k]

\* ---- streamable HTTP (stateful endpoint): the transport pre-validates, so a request that C02 requires to be
\* REJECTED may be answered with an HTTP 4xx instead of a JSON-RPC error; a valid request must get its response.
HttpIdClasses == {"small", "neg", "maxint64", "strempty", "strunicode"}
HttpShapeSet == { [t |-> "httpshape", era |-> e, method |-> m, hasId |-> h, idc |-> i, params |-> p, json |-> j] :
                    e \in {"2025-03-26", "2025-06-18"}, m \in Methods, h \in BOOLEAN, i \in HttpIdClasses, p \in ParamClasses, j \in BOOLEAN }
HttpShapes == {c \in HttpShapeSet : ~c.hasId => c.idc = "small"}
MustReject(c) == Mandated(c) # {} /\ 0 \notin Mandated(c)
HttpShapeClauses(c, o) ==
  [NoCrash |-> o.panic = "",
   SessionSurvives |-> o.alive,
   NoReplyToNotification |-> ~c.hasId => (o.lines = 0 /\ (o.status = 202 \/ (o.status >= 400 /\ o.status < 500))),
   ExactlyOneSameIdOr4xx |-> c.hasId =>
        \/ (o.status = 200 /\ o.count = 1 /\ o.otherResp = 0)
        \/ (MustReject(c) /\ o.status >= 400 /\ o.status < 500 /\ o.lines = 0),
   Code |-> (c.hasId /\ o.status = 200 /\ o.count = 1 /\ Mandated(c) # {}) => o.code \in Mandated(c),
   \* the answer (or the refusal) arrives: the POST does not stay open with nothing more to come
   HttpExchangeCompletes |-> ~o.hung]

HttpBatchSet(n) == { [t |-> "httpbatch", era |-> "2025-03-26", members |-> ms, json |-> j] : ms \in SeqsUpTo(n), j \in BOOLEAN }
HasUnk(ms) == \E i \in DOMAIN ms : ms[i] = "unk"
HttpBatchClauses(c, o) ==
  LET nc == NCalls(c.members) IN
  [NoCrash |-> o.panic = "",
   BatchNeverFailsConnection |-> o.alive,
   \* every call of the batch is answered exactly once - or the whole POST is refused with a 4xx because a member
   \* has to be rejected anyway
   BatchAllAnswered |-> \/ (o.answered = nc /\ o.status = (IF nc = 0 THEN 202 ELSE 200))
                        \/ (HasUnk(c.members) /\ o.status >= 400 /\ o.status < 500 /\ o.answered = 0),
   \* ... on that very POST, which then completes (o.hung: the POST was still open at quiescence after a bounded wait;
   \* o.answered counts what had arrived by then)
   BatchPostCompletes |-> ~o.hung,
   \* once a batch is complete its ids are free again
   BatchIdsReusable |-> o.reuseOk]
=============================================================================
