SPECIFICATION Spec
CONSTANTS
  Eras = {"legacy"}
  D = 2
  Fams = {"f0"}
  Clones = {"base"}
  Reqs = {}
  SetLevels <- AllSet
  ReqLevels = {"absent"}
  DirectLevels <- AllSet
  Slog <- SlogAll
  Ticks = {}
  MaxFlight = 1
  Race = FALSE
  AsIs = TRUE
CHECK_DEADLOCK FALSE
