--------------------------- MODULE SSELegacyCliMC ---------------------------
(* Bounded configurations of SSELegacyCli: every interleaving (MCSpec), and   *)
(* the seam-level graph for the transition cover (SettledSpec: the scripted   *)
(* server and the application act only when the reader goroutine has settled, *)
(* and a Read is issued only when it cannot block).                           *)
EXTENDS SSELegacyCli

CONSTANTS EpSet, WrSet, EvSet, EndSet     \* kinds generated in this configuration (subsets of the full sets)

ConnectS(s) == Settled /\ Connect(s)
FirstS(f, e) == Settled /\ e \in EpSet /\ (f # "endpoint" => e = "rel") /\ First(f, e)
AbortS == Settled /\ Abort
EvS(k) == Settled /\ k \in EvSet /\ Ev(k)
EndS(h) == Settled /\ h \in EndSet /\ End(h)
ReadS == Settled /\ Read
WriteS(w) == Settled /\ w \in WrSet /\ Write(w)
CloseS == Settled /\ Close
SettledNext ==
  \/ Scan
  \/ \E s \in Statuses : ConnectS(s)
  \/ \E f \in Firsts, e \in EpKinds : FirstS(f, e)
  \/ AbortS
  \/ \E k \in EvKinds : EvS(k)
  \/ \E h \in Ends : EndS(h)
  \/ ReadS
  \/ \E w \in WrKinds : WriteS(w)
  \/ CloseS
SettledSpec == Init /\ [][SettledNext]_vars

FirstE(f, e) == e \in EpSet /\ (f # "endpoint" => e = "rel") /\ First(f, e)
EvE(k) == k \in EvSet /\ Ev(k)
EndE(h) == h \in EndSet /\ End(h)
WriteE(w) == w \in WrSet /\ Write(w)
MCNext ==
  \/ Scan
  \/ \E s \in Statuses : Connect(s)
  \/ \E f \in Firsts, e \in EpKinds : FirstE(f, e)
  \/ Abort
  \/ \E k \in EvKinds : EvE(k)
  \/ \E h \in Ends : EndE(h)
  \/ Read
  \/ \E w \in WrKinds : WriteE(w)
  \/ Close
MCSpec == Init /\ [][MCNext]_vars
MCFairSpec == MCSpec /\ WF_vars(Scan)

\* the cover graph forgets results (outputs) beyond their number
EvClass(k) == IF k = "named" THEN "msg" ELSE IF k = "trunc" THEN "junk" ELSE k
CoverView == <<ph, ep # "", hasBody, bodyClosed, [i \in DOMAIN stream |-> EvClass(stream[i])], ended # "", nscan,
               rdone, inbox, Len(rds), Len(wrs)>>

NeverDropped == ~(ph = "closed" /\ inbox # <<>> /\ \E i \in DOMAIN rds : rds[i][1] = "eof")
NeverDecode == \A i \in DOMAIN rds : rds[i][1] # "decode"
=============================================================================
