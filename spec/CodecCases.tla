------------------------------ MODULE CodecCases ------------------------------
(* The abstract case spaces of property C19: the complete products of the     *)
(* classes defined in CodecDefs, filtered by the Valid* predicates there.     *)
(* In a module of its own: TLC builds every constant set when it loads a      *)
(* module, and the monitor CodecMon needs the predicates of CodecDefs only.   *)
EXTENDS CodecDefs

MsgCases ==
  { [dir |-> d, kind |-> k, id |-> i, method |-> m, payload |-> p, flavor |-> f, framing |-> fr] :
      d \in Dirs, k \in Kinds, i \in IdClasses, m \in Methods, p \in Payloads, f \in Flavors, fr \in Framings }
MsgCaseSet == {c \in MsgCases : ValidMsg(c)}
WireCases ==
  { [ver |-> v, id |-> i, method |-> m, params |-> p, result |-> r, error |-> e, casing |-> cs] :
      v \in WVers, i \in WIds, m \in WMethods, p \in WParams, r \in WResults, e \in WErrors, cs \in WCasings }
WireCaseSet == {c \in WireCases : HasMember(c, c.casing)}
ValCases ==
  { [cont |-> ct, ckind |-> k, fill |-> fl, meta |-> mt, nested |-> n, arity |-> a, flavor |-> f] :
      ct \in Containers, k \in CKinds, fl \in Fills, mt \in Metas, n \in Nesteds, a \in Aritys, f \in Flavors }
ValCaseSet == {c \in ValCases : ValidVal(c)}
ReqCases == { [type |-> t, fill |-> f, proto |-> p] : t \in ReqTypes, f \in ReqFills, p \in Protos }
ReqCaseSet == {c \in ReqCases : ValidReq(c)}
VcCaseSet == { [target |-> p[1], member |-> p[2]] : p \in VcTable }
FrCases == { [shape |-> s, pad |-> p, term |-> t, path |-> pa, pos |-> po, proto |-> pr] :
               s \in FrShapes, p \in FrPads, t \in FrTerms, pa \in FrPaths, po \in FrPoss, pr \in FrProtos }
FrCaseSet == {c \in FrCases : ValidFr(c)}
ArCases == { [type |-> r[1], member |-> r[2], arity |-> a, rt |-> rt, fill |-> f] :
               r \in ArTable, a \in ArArities, rt \in ArRts, f \in ArFills }
ArCaseSet == {c \in ArCases : ValidAr(c)}
LtCases == { [kind |-> k, id |-> i, payload |-> p, path |-> pa, reuse |-> ru] :
               k \in LtKinds, i \in LtIds, p \in LtPayloads, pa \in LtPaths, ru \in LtReuses }
LtCaseSet == {c \in LtCases : ValidLt(c)}
LbCaseSet == { [size |-> s, id |-> i, flavor |-> f, hold |-> h] :
                 s \in LbSizes, i \in LbIds, f \in LbFlavors, h \in LbHolds }
=============================================================================
