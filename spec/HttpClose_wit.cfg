\* reachability witnesses are added one by one to this base
SPECIFICATION MCSpec
CONSTANTS
  Calls = {"k1"}
  CCl = {"c1"}
  SCl = {"s1"}
  Stateless = FALSE
  Timeout = TRUE
  Sse = TRUE
  Nested = TRUE
  Faults = {"cut", "net", "vanish"}
  DelModes = {"fail", "hang", "hold"}
  Helds = TRUE
  Notifs = FALSE
  Cancels = TRUE
  AwaitHandlers = TRUE
  StopSseOnClose = TRUE
VIEW MCView
CHECK_DEADLOCK FALSE
