--------------------------- MODULE SSELegacyTrace ---------------------------
(* Strict conformance of recorded harness steps against SSELegacy (server     *)
(* side of X02).  Every step line is one ENVIRONMENT action of the model;     *)
(* between two lines TLC may take any number of the model's internal actions  *)
(* (PostBody, Deliver, Respond, ConnClose, GetExit) and must arrive in a      *)
(* SETTLED state whose projection equals the snapshot the real code produced: *)
(* status and phase of every POST, what every session received (in order),    *)
(* the events on every stream (in order), the results of the server's Writes, *)
(* which sessions the handler still routes to, which GETs have returned, how  *)
(* many Reads ended in EOF.  A mismatch is DRIFT (the code no longer behaves  *)
(* like the model), never a verdict.  A sentinel reset line ends the log.     *)
EXTENDS SSELegacy, VerifTrace

VARIABLE l
tvars == <<vars, l>>

EvOf(s, o) == IF o.name = "endpoint" THEN <<"endpoint", o.x>>
              ELSE IF o.cls = "n" THEN <<"message", "n", o.x - 100 * s>>
              ELSE <<"message", o.cls, o.x>>
CountEof(rds) == Cardinality({i \in DOMAIN rds : rds[i] = "eof"})

Match(e) ==
  /\ Settled
  /\ nopen = Len(e.sess)
  /\ \A p \in Posts :
       IF p \in DOMAIN e.posts
       THEN /\ post[p].ph = e.posts[p].ph /\ post[p].tgt = e.posts[p].tgt /\ post[p].kind = e.posts[p].kind
            /\ (post[p].ph = "done" => post[p].status = e.posts[p].status)
       ELSE post[p].ph = "new"
  /\ \A i \in DOMAIN e.sess :
       LET x == e.sess[i] IN
       /\ got[x.s] = x.got
       /\ Len(out[x.s]) = Len(x.out) /\ \A k \in DOMAIN x.out : out[x.s][k] = EvOf(x.s, x.out[k])
       /\ sres[x.s] = x.sres
       /\ (x.s \in tab) = x.intab
       /\ (Direct \/ ((get[x.s] = "exited") = x.ended))
       /\ eofs[x.s] = CountEof(x.rds)
       /\ \A k \in DOMAIN x.rds : x.rds[k] \in {"m", "eof"}

EnvStep(e) ==
  IF ~e.applied THEN UNCHANGED vars
  ELSE CASE e.op = "Get"        -> Get
         [] e.op = "GetRefused" -> GetRefused
         [] e.op = "Post"       -> PostLookup(e.a1, e.a2, e.a3)
         [] e.op = "Release"    -> e.a1 \in Posts /\ Release(e.a1)
         [] e.op = "EndSlow"    -> e.a1 \in Posts /\ EndSlow(e.a1)
         [] e.op = "Read"       -> e.a1 \in Sess /\ Read(e.a1)
         [] e.op = "Send"       -> e.a1 \in Sess /\ Send(e.a1)
         [] e.op = "Disconnect" -> e.a1 \in Sess /\ Disconnect(e.a1)
         [] e.op = "Close"      -> e.a1 \in Sess /\ Close(e.a1)
         [] e.op = "Drain"      -> UNCHANGED vars
         [] OTHER -> FALSE

PrevOK == IF l = 1 THEN TRUE ELSE IF TraceLog[l - 1].ev = "reset" THEN TRUE ELSE Match(TraceLog[l - 1])

TraceInit == Init /\ l = 1 /\ MarkInit
TraceNext ==
  \/ Internal /\ l' = l
  \/ /\ l <= NLines /\ PrevOK
     /\ l' = l + 1
     /\ LET e == TraceLog[l] IN
          IF e.ev = "reset"
          THEN /\ nopen' = 0 /\ tab' = {}
               /\ st' = [s \in Sess |-> "free"] /\ get' = [s \in Sess |-> "none"] /\ reading' = [s \in Sess |-> FALSE]
               /\ closing' = [s \in Sess |-> FALSE] /\ lost' = [s \in Sess |-> {}]
               /\ q' = [s \in Sess |-> <<>>] /\ got' = [s \in Sess |-> <<>>] /\ eofs' = [s \in Sess |-> 0]
               /\ hand' = [s \in Sess |-> {}] /\ ended' = {}
               /\ out' = [s \in Sess |-> <<>>] /\ sres' = [s \in Sess |-> <<>>]
               /\ post' = [p \in Posts |-> NewPost] /\ prec' = {} /\ late' = [p \in Posts |-> ""]
          ELSE EnvStep(e)
TraceSpec == TraceInit /\ [][TraceNext]_tvars
TMark == MarkAt(l)
TAccepted == Accepted
=============================================================================
