\* behaviour export: every single-cut behaviour
\* (tools/checks/c09.py builds its configurations from the same template - the Fix* switches of the configurations that model
\*  the real code come from its REPAIRED table; this file is the thorough-tier one, for manual runs:
\*  java -cp $TLA_CP tlc2.TLC -config StreamCli_gen1.cfg StreamCliMC)
SPECIFICATION Spec
CONSTANTS
  KindSet = {"post", "sa"}
  ShapeSet <- AllShapes
  SchemeSet = {"dec", "nested"}
  MSet = {2, 3}
  MRSet = {0, 1, 2}
  MaxCuts = 1
  ClassSet = {"bnd", "field", "name", "id", "idfull", "data", "datafull"}
  AnswerSet = {"terr", "ok", "500", "404"}
  TailSet = {"good"}
  RetrySet = {"none"}
  FixScanner = FALSE
  FixCursor = TRUE
  Fix5xx = TRUE
INVARIANTS Export
CHECK_DEADLOCK FALSE
