\* cover: OAuth handler
SPECIFICATION SettledSpec
CONSTANTS
  NC = 1
  SASet = {FALSE}
  OAuthSet = {TRUE}
  DelSet = {"405"}
  PostSet = {"json", "401", "404", "5xx"}
  GetSet = {"405"}
  InitH = {"A"}
  HSet = {""}
  MaxNotify = 0
  MaxSaEv = 0
  MaxAuth = 2
  MaxClose = 1
  AllowCancel = FALSE
  FixCancel = FALSE
  FixStream = FALSE
INVARIANTS TypeOK SessionHeader VersionHeader OnePostPerMessage Standalone PerMessage Usable GoneStops GoneNoDelete GoneFailsAll
  TerminalFailsPending DeleteOnce DeleteWhenLive CloseWaits StandaloneCancelled RetiredOnce
VIEW CoverView
CHECK_DEADLOCK FALSE
