---------------------------- MODULE NegotiateConc ----------------------------
(* Property C07, the interleaving dimension: ONE Server published over        *)
(* several transports at once, with several connections IN PROGRESS at the    *)
(* same time.  The property is stated per connection - "connecting ...        *)
(* produces a session whose negotiated version is supported by both SDK sides *)
(* and by the transport" - and the transport meant is THAT session's, so it   *)
(* must hold for every connection WHATEVER other connections of the same      *)
(* Server do in between.  NegotiateDefs is the decision table of one          *)
(* connection on its own; here the connect procedure is cut into the steps at *)
(* which it touches the Server (mcp/server.go Server.Connect, Server.discover,*)
(* ServerSession.handle; mcp/streamable.go serveStateless / serveStatefulPOST;*)
(* mcp/sse.go SSEHandler.ServeHTTP) and the steps of N connections are        *)
(* interleaved in every order:                                                *)
(*   connect(i)   Server.Connect binds a new ServerSession to the transport   *)
(*                of connection i and computes the list of versions that      *)
(*                transport can serve (filterSupportedVersions).  Only the    *)
(*                "eager" transports have this step on its own: the pipes     *)
(*                (the owner of the Server calls Server.Connect) and SSE (the *)
(*                GET that opens the event stream)                            *)
(*   dispatch(i)  the first request of client i - server/discover for a       *)
(*                requested version >= 2026-07-28, else initialize - has left *)
(*                the client and reached the server's method handlers.  On    *)
(*                the streamable HTTP endpoints ("lazy") the POST that        *)
(*                carries it also creates the session: Server.Connect happens *)
(*                in this step (stateless / no session id: for every POST)    *)
(*   answer(i)    the handler runs: Server.discover reads the list of         *)
(*                versions and answers (initialize: negotiatedVersion); the   *)
(*                client receives the answer                                  *)
(*   finish(i)    the client completes Connect (session at the discovered     *)
(*                version, or fall-back to initialize + initialized) and uses *)
(*                the session at once (tools/list, tools/call: every request  *)
(*                of a 2026-07-28 session carries the version and is          *)
(*                validated again - a stateful endpoint refuses it); on a     *)
(*                lazy transport every one of these POSTs runs Server.Connect *)
(*                again                                                       *)
(* Fine = FALSE merges finish into answer (three connections).                *)
(*                                                                            *)
(* Per connection, the clauses of NegotiateDefs!Holds on (its own case, its   *)
(* outcome): ConcSound, ConcNoModernOverLegacyTransport, ConcExact,           *)
(* ConcFallback, ConcUsable.  NonInterference: the outcome of a connection is *)
(* the one NegotiateDefs!Expected gives for that connection alone;            *)
(* NonInterferenceList is the design's reason - the list a discover handler   *)
(* serves is the one computed for the transport of the session it answers.    *)
(*                                                                            *)
(* ServerWide = FALSE is the design: the list belongs to the ServerSession.   *)
(* ServerWide = TRUE is a WHAT-IF used as a sensitivity witness only: the     *)
(* list is kept once per Server and overwritten by every Server.Connect; TLC  *)
(* must find ConcNoModernOverLegacyTransport (an SSE / stateful session at    *)
(* 2026-07-28) and ConcExact (a stateless client downgraded) violated there   *)
(* (NegotiateConc_wshared*.cfg, expected to fail), which shows that the       *)
(* schedule family exported here tells such an implementation from a correct  *)
(* one.                                                                       *)
(*                                                                            *)
(* Export: every complete scenario (the cases of the connections + a terminal *)
(* state's history).  The harness replays each scenario on ONE real Server    *)
(* with real transports and gates; NegotiateMon judges every connection by    *)
(* the clauses of Holds on ITS OWN case.  Connections are interchangeable, so *)
(* the tuple of cases is taken in non-decreasing order and connections with   *)
(* the same case start in index order: nothing is lost by this symmetry cut.  *)
EXTENDS NegotiateDefs

CONSTANTS NConn,       \* connections in progress: 1..NConn
          ServerWide,  \* FALSE: the design; TRUE: the what-if described above
          Fine,        \* TRUE: finish is a step of its own; FALSE: merged into answer
          Family       \* "pair": ConcCases2; "triple": ConcCases3

Conns == 1..NConn
Name(i) == <<"A", "B", "C">>[i]

\* ---------------------------------------------------------------- the cases
\* transport classes: the existing ones of NegotiateDefs (no HTTP options, SDK peer, discover available)
ConcCase(tr, wrap, adv, req) ==
  [req |-> req, tr |-> tr, json |-> FALSE, store |-> FALSE, wrap |-> wrap, adv |-> adv, disc |-> "native",
   dbody |-> "none", prior |-> "none", early |-> FALSE, ians |-> "honest"]
\* pipes whose server end is wrapped in a ProtocolVersionSupporter (admits the legacy versions only / everything),
\* an io pipe without one, and the four HTTP endpoints
ClassesAll == { <<"mem", TRUE, Legacy>>, <<"mem", TRUE, V>>, <<"io", FALSE, V>>, <<"sse", FALSE, V>>,
                <<"stateful", FALSE, V>>, <<"statefulnosid", FALSE, V>>, <<"stateless", FALSE, V>> }
\* three connections: one legacy-only eager, one legacy-only wrapper, one lazy endpoint that can carry 2026-07-28
ClassesFew == { <<"mem", TRUE, Legacy>>, <<"sse", FALSE, V>>, <<"stateless", FALSE, V>> }
\* requested versions: the latest one (discover first) and a legacy one (initialize first); unknown strings add a
\* round that is refused before any handler runs and are left to the one-connection matrix
ConcCases2 == {ConcCase(k[1], k[2], k[3], r) : k \in ClassesAll, r \in {"default", "2025-06-18"}}
ConcCases3 == {ConcCase(k[1], k[2], k[3], "default") : k \in ClassesFew}
ConcCases == IF Family = "pair" THEN ConcCases2 ELSE ConcCases3
CaseSeq == SetToSeq(ConcCases)
Rank(c) == CHOOSE k \in DOMAIN CaseSeq : CaseSeq[k] = c

ASSUME NConn \in 1..3 /\ ServerWide \in BOOLEAN /\ Fine \in BOOLEAN /\ Family \in {"pair", "triple"}
\* every case is a cell of the one-connection matrix (NegotiateDefs!FullCaseSet, by its defining conditions)
InMatrix(c) == /\ c.req \in Requests /\ c.tr \in Transports /\ c.disc = "native" /\ c.dbody = "none" /\ c.ians = "honest"
               /\ ~c.json /\ ~c.store /\ c.prior = "none" /\ ~c.early
               /\ IF c.wrap THEN c.tr \in {"mem", "io"} /\ c.adv \subseteq V ELSE c.adv = V /\ ValidCase(c)
ASSUME \A c \in ConcCases2 \cup ConcCases3 : InMatrix(c)

VARIABLES cfg,     \* the case of every connection
          pc,      \* idle -> connected (eager only) -> dispatched -> answered -> done
          lst,     \* the list Server.Connect computed for the (latest) session of connection i
          shared,  \* what-if only: the one list of the Server
          seen,    \* the list the handler of connection i's first request read
          out,     \* outcome of connection i (NegotiateDefs: kind, version, nDisc, sentInit, listOK, callOK)
          hist
vars == <<cfg, pc, lst, shared, seen, out, hist>>

Filter(i) == TransportFilter(cfg[i])
Eager(i) == cfg[i].tr \in {"mem", "io", "sse"}
NoOut == [kind |-> "none", version |-> "", nDisc |-> 0, sentInit |-> FALSE, listOK |-> FALSE, callOK |-> FALSE]

\* session ids are suppressed by an option of the Server (ServerOptions.GetSessionID), not of the endpoint: one Server
\* cannot be behind a stateful endpoint with and one without session ids
OneServer(f) == ~\E i, j \in Conns : f[i].tr = "stateful" /\ f[j].tr = "statefulnosid"
Init == /\ cfg \in {f \in [Conns -> ConcCases] : /\ \A i, j \in Conns : i < j => Rank(f[i]) <= Rank(f[j])
                                                 /\ OneServer(f)}
        /\ pc = [i \in Conns |-> "idle"]
        /\ lst = [i \in Conns |-> V]       \* nil: "every SDK version"
        /\ shared = V
        /\ seen = [i \in Conns |-> {}]
        /\ out = [i \in Conns |-> NoOut]
        /\ hist = <<>>

\* connections with the same case start in index order
SymOK(i) == (i > 1 /\ cfg[i - 1] = cfg[i]) => pc[i - 1] # "idle"

\* Server.Connect for (a session of) connection i
ServerConnect(i) == /\ lst' = [lst EXCEPT ![i] = Filter(i)]
                    /\ shared' = Filter(i)

\* later per-request validation: a stateful streamable endpoint refuses every request that carries 2026-07-28
UseOK(c, v) == ~(v \in Modern /\ c.tr \in {"stateful", "statefulnosid"})
\* what client i ends up with when the handler of its discover request served the list s
Outcome(i, s) == LET o == ExpectedServed(cfg[i], s) IN
                 IF o.kind = "session" /\ ~UseOK(cfg[i], o.version)
                 THEN [o EXCEPT !.listOK = FALSE, !.callOK = FALSE] ELSE o

Connect(i) == /\ pc[i] = "idle" /\ Eager(i) /\ SymOK(i)
              /\ ServerConnect(i)
              /\ pc' = [pc EXCEPT ![i] = "connected"]
              /\ hist' = Append(hist, <<"connect", Name(i)>>)
              /\ UNCHANGED <<cfg, seen, out>>

Dispatch(i) == /\ \/ Eager(i) /\ pc[i] = "connected" /\ UNCHANGED <<lst, shared>>
                  \/ ~Eager(i) /\ pc[i] = "idle" /\ SymOK(i) /\ ServerConnect(i)
               /\ pc' = [pc EXCEPT ![i] = "dispatched"]
               /\ hist' = Append(hist, <<"dispatch", Name(i)>>)
               /\ UNCHANGED <<cfg, seen, out>>

\* the rest of Client.Connect and the first use: on a lazy transport every POST runs Server.Connect again
Rest(i, s) == /\ out' = [out EXCEPT ![i] = Outcome(i, s)]
              /\ IF Eager(i) THEN UNCHANGED <<lst, shared>> ELSE ServerConnect(i)

Answer(i) == /\ pc[i] = "dispatched"
             /\ LET s == IF ServerWide THEN shared ELSE lst[i] IN
                  /\ seen' = [seen EXCEPT ![i] = s]
                  /\ IF Fine THEN /\ pc' = [pc EXCEPT ![i] = "answered"]
                                  /\ UNCHANGED <<lst, shared, out>>
                             ELSE /\ pc' = [pc EXCEPT ![i] = "done"]
                                  /\ Rest(i, s)
             /\ hist' = Append(hist, <<"answer", Name(i)>>)
             /\ UNCHANGED cfg

Finish(i) == /\ Fine /\ pc[i] = "answered"
             /\ Rest(i, seen[i])
             /\ pc' = [pc EXCEPT ![i] = "done"]
             /\ hist' = Append(hist, <<"finish", Name(i)>>)
             /\ UNCHANGED <<cfg, seen>>

Next == \E i \in Conns : Connect(i) \/ Dispatch(i) \/ Answer(i) \/ Finish(i)
Spec == Init /\ [][Next]_vars

Done == \A i \in Conns : pc[i] = "done"

TypeOK == /\ pc \in [Conns -> {"idle", "connected", "dispatched", "answered", "done"}]
          /\ \A i \in Conns : /\ cfg[i] \in ConcCases
                              /\ lst[i] \subseteq V /\ seen[i] \subseteq V
                              /\ (pc[i] = "done" <=> out[i].kind \in {"session", "error"})
          /\ shared \subseteq V
          /\ Len(hist) <= 4 * NConn

(* the property, per connection: the clauses of NegotiateDefs!Holds on the connection's own case *)
PerConn(P(_, _)) == \A i \in Conns : pc[i] = "done" => P(cfg[i], out[i])
ConcSound == PerConn(Sound)
ConcNoModernOverLegacyTransport == PerConn(NoModernOverLegacyTransport)
ConcExact == PerConn(Exact)
ConcFallback == PerConn(Fallback)
ConcUsable == PerConn(Usable)
(* a connection gets what it gets on its own, whatever the others do *)
NonInterference == \A i \in Conns : pc[i] = "done" => out[i] = Expected(cfg[i])
(* the design's reason: the list served to connection i is the one of ITS transport *)
NonInterferenceList == \A i \in Conns : pc[i] \in {"answered", "done"} => seen[i] = Filter(i)

-----------------------------------------------------------------------------
(* export of complete scenarios *)
Pos(step, i) == CHOOSE k \in DOMAIN hist : hist[k] = <<step, Name(i)>>
\* the step in which Server.Connect computed the list for the session that answers connection i's first request
Bound(i) == IF Eager(i) THEN Pos("connect", i) ELSE Pos("dispatch", i)
\* the other connections with a Server.Connect between that step and the answer: their first step, and for a lazy
\* transport also the steps that issue further POSTs
Writes(j) == {IF Eager(j) THEN Pos("connect", j) ELSE Pos("dispatch", j)} \cup
             (IF Eager(j) THEN {} ELSE {IF Fine THEN Pos("finish", j) ELSE Pos("answer", j)})
Overlapping(i) == {j \in Conns \ {i} : \E k \in Writes(j) : Bound(i) < k /\ k < Pos("answer", i)}
\* ... of which those whose transport answers the version question differently
Differing(i) == {j \in Overlapping(i) : Filter(j) # Filter(i)}
FirstPos(i) == IF Eager(i) THEN Pos("connect", i) ELSE Pos("dispatch", i)
LastPos(i) == IF Fine THEN Pos("finish", i) ELSE Pos("answer", i)
Sequential == \A i, j \in Conns : i # j => (LastPos(i) < FirstPos(j) \/ LastPos(j) < FirstPos(i))

SetSeq(S) == SetToSeq(S)
CaseJson(c) == [req |-> c.req, tr |-> c.tr, json |-> c.json, store |-> c.store, wrap |-> c.wrap,
                adv |-> SetSeq(c.adv), disc |-> c.disc, dbody |-> c.dbody, prior |-> c.prior, early |-> c.early,
                ians |-> c.ians]
ExportDone == Done => PrintT(ToJson([n |-> NConn, fine |-> Fine, sched |-> hist,
                                     conns |-> [i \in Conns |-> CaseJson(cfg[i])],
                                     exp |-> [i \in Conns |-> out[i]],
                                     overlapping |-> [i \in Conns |-> Cardinality(Overlapping(i))],
                                     differing |-> [i \in Conns |-> Cardinality(Differing(i))],
                                     sequential |-> Sequential]))
=============================================================================
