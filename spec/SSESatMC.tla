----------------------------- MODULE SSESatMC -----------------------------
(* Bounded configurations of SSESat (HTTP+SSE satellite of C01/C02/C03/C05). *)
(*   Spec / FairSpec   every interleaving of environment and SDK steps       *)
(*   SettledSpec       environment steps only in settled states: the seam-   *)
(*                     level graph the harness can realise (transition cover)*)
(*                                                                         *)
(* Configurations (NSess, CC, Nest, NCN/NSN, MaxFaults, FaultKinds, Holds,   *)
(* Combos) and measured sizes (distinct states):                             *)
(*   mc_q1  1, {1},   {1}, 0/0, 1, FCore, none, F      7 821   safety        *)
(*   mc_q2  1, {1,2}, {},  0/0, 1, FAll,  none, F     34 015   safety        *)
(*   mc_q3  2, {1},   {},  0/0, 1, FCore, none, F     39 962   safety        *)
(*   mc_q4  1, {1},   {},  1/1, 1, FCore, none, T    114 466   safety        *)
(*   mc_t1  1, {1},   {1}, 1/1, 1, FCore, none, F    820 560   safety        *)
(*   mc_t2  2, {1},   {},  0/0, 1, FAll,  none, F     56 237   safety        *)
(*   mc_t3  1, {1},   {},  0/0, 1, FCore, both, F      4 439   safety        *)
(*   live1  = mc_q1, live2 = mc_q3 under FairSpec: C05_Terminates,           *)
(*          C01_CallsEndOnBreak (weak fairness of the SDK's steps and of the *)
(*          environment's debts)                                             *)
(*   lead_route / lead_async / lead_noclose / lead_inject: a sensitivity     *)
(*          switch (Bug, or HandsAll with Inject) is on: TLC must find the   *)
(*          violation; ideal_inject: HandsAll = FALSE, Inject enabled: holds *)
(*   cover_a..g: SettledSpec with VIEW CoverView (544 - 21 927 states): the  *)
(*          seam-level graphs whose environment edges are covered by paths   *)
(*   gen    2, {1,2}, {1,2}, 2/2, 3, FAll, both, T: -simulate (SSESatGen)    *)
EXTENDS SSESat

C1 == {1}
C2 == {1, 2}
NoNest == {}
FAll == {"cutB", "cutQ", "cclose", "sclose", "pfB", "pfA"}
FCore == {"cutB", "cclose", "sclose"}
FCut == {"cutB", "cutQ"}
FClose == {"cclose", "sclose"}
FPost == {"pfB", "pfA", "cutB"}
FInject == {"inject"}
FNone == {}
HNone == {}
HStream == {"stream"}
HPost == {"post"}
HBoth == {"stream", "post"}

\* seam level: the harness issues an environment step only when the SDK has settled
ConnectS(s) == Settled /\ Connect(s)
CCallS(s, k) == Settled /\ CCall(s, k)
CNoteS(s, n, fu) == Settled /\ CNote(s, n, fu)
HRetS(s, k, wn) == Settled /\ HRet(s, k, wn)
HNestS(s, k, wn) == Settled /\ HNest(s, k, wn)
HAbandonS(s, k) == Settled /\ HAbandon(s, k)
CHRetS(s, k) == Settled /\ CHRet(s, k)
SNRetS(s, n) == Settled /\ SNRet(s, n)
SNoteS(s, n) == Settled /\ SNote(s, n)
CNRetS(s, n) == Settled /\ CNRet(s, n)
CutS(s, how) == Settled /\ Cut(s, how)
ArmPFS(s, how) == Settled /\ ArmPF(s, how)
CCloseS(s) == Settled /\ CClose(s)
SCloseS(s) == Settled /\ SClose(s)
InjectS(s) == Settled /\ Inject(s)
HoldStreamS(s) == Settled /\ HoldStream(s)
RelStreamS(s) == Settled /\ RelStream(s)
HoldPostS(s) == Settled /\ HoldPost(s)
RelPostS(s) == Settled /\ RelPost(s)
EnvS ==
  \/ \E s \in Sess : ConnectS(s)
  \/ \E s \in Sess, k \in CC : CCallS(s, k)
  \/ \E s \in Sess, k \in CC, wn \in BOOLEAN : HNestS(s, k, wn)
  \/ \E s \in Sess, k \in CC : HAbandonS(s, k)
  \/ \E s \in Sess, k \in CC : CHRetS(s, k)
  \/ \E s \in Sess, k \in CC, wn \in BOOLEAN : HRetS(s, k, wn)
  \/ \E s \in Sess, n \in CN : SNRetS(s, n)
  \/ \E s \in Sess, n \in CN, fu \in CC \cup {0} : CNoteS(s, n, fu)
  \/ \E s \in Sess, n \in SN : SNoteS(s, n)
  \/ \E s \in Sess, n \in SN : CNRetS(s, n)
  \/ \E s \in Sess, how \in {"B", "Q"} : CutS(s, how)
  \/ \E s \in Sess, how \in {"B", "A"} : ArmPFS(s, how)
  \/ \E s \in Sess : CCloseS(s)
  \/ \E s \in Sess : SCloseS(s)
  \/ \E s \in Sess : InjectS(s)
  \/ \E s \in Sess : HoldStreamS(s)
  \/ \E s \in Sess : RelStreamS(s)
  \/ \E s \in Sess : HoldPostS(s)
  \/ \E s \in Sess : RelPostS(s)
SettledNext == Internal \/ EnvS
SettledSpec == Init /\ [][SettledNext]_vars

\* view of the cover graph: ghosts hidden
CoverView == <<up, tab, listed, tr, net, cli, posts, cj, sj, cc, sh, nc, ch, cn, cns, sn, cfu, cl, faults, hurt>>

\* reachability witnesses: each must be VIOLATED (vacuity)
W_NoOverlappingIds == ~(NSess >= 2 /\ cc[1][1].st = "wait" /\ cc[2][1].st = "wait")
W_NoLostResponse == ~(\E s \in Sess : \E k \in CC : cc[s][k].out = <<"err">> /\ \E i \in DOMAIN wrote[s] : wrote[s][i].k = k /\ wrote[s][i].o # <<"err">>)
W_NoRefusedCall == ~(\E s \in Sess : late[s] # {})
W_NoPost404 == ~(\E p \in posts : p.status = 404)
W_NoPost400 == ~(\E p \in posts : p.status = 400)
W_NoNestedAnswered == ~(\E s \in Sess : \E k \in CC : nc[s][k].st = "done" /\ nc[s][k].out = <<s, k>>)
W_NoLateAccept == ~(\E p \in posts : p.ph = "back" /\ p.status = 202 /\ tr[p.tgt].st = "closed")
W_NoDrainWhileBusy == ~(\E s \in Sess : tr[s].get = "woken" /\ ~sj[s].done /\ \E k \in CC : sh[s][k].st = "run" /\ Settled)
W_NoQueuedBehindNote == ~(\E s \in Sess : sj[s].sync # 0 /\ sj[s].hq # <<>>)
W_NoFailFast == ~(\E s \in Sess : \E k \in CC : cc[s][k].out = <<"closed">>)
=============================================================================
