---------------------------- MODULE HttpCloseMon ----------------------------
(* Monitor for the streamable-HTTP shutdown scenarios of HttpClose.tla: a real mcp.Client over a real          *)
(* StreamableClientTransport against a real StreamableHTTPHandler (harness/mcp/c05_httpclose_test.go).         *)
(* It states property C05 on what the harness observed, clause by clause, and nothing else.                    *)
(*                                                                                                              *)
(* Premises (the provisos of C05, discharged by drain stage 1 before "quiesce1"): every exchange the scripted  *)
(* network held has been let through (or has failed if the network is down), every handler that was not        *)
(* waiting inside the SDK has been told to return, more than an hour has passed (the 5 s DELETE timeout and     *)
(* every back-off have expired; the 12 h idle timeout has not).  A vanished client owes nothing any more.      *)
(* Between two "step"/"mark" lines the SDK has run to quiescence and no time has passed, so "a Close had begun *)
(* before this request arrived" is decided at those lines: a request that reaches an end in a later step than  *)
(* the one in which that end's Close began is NEW with respect to that Close.                                   *)
EXTENDS VerifTrace, FiniteSets
VARIABLES l, m

M0 == [closeB |-> {}, closeE |-> {},
       sPend |-> FALSE, sClosing |-> FALSE,    \* a server-side Close has begun (application, DELETE, idle timer): pending / settled
       cPend |-> FALSE, cClosing |-> FALSE,    \* the same for the client
       running |-> {}, crunning |-> {},         \* handlers that have started and not returned: tool handlers / the client's handlers of nested calls
       cancelled |-> {},                        \* calls whose caller gave up
       lateS |-> {}, lateN |-> {},              \* calls / nested calls that arrived after the receiving end's Close had begun
       crdfail |-> FALSE,                       \* the client connection's Read has failed (not with EOF): peer or network gone
       trclosed |-> {},                         \* server connections that have been closed
       cOver |-> FALSE,                         \* the client's connection has been closed (streamableClientConn.Close has returned)
       delSrv |-> FALSE,                        \* the DELETE of the client's Close reached the handler
       gone |-> FALSE, stateless |-> FALSE, cleanup |-> FALSE]

MInit == l = 1 /\ m = M0 /\ MarkInit

Settle(mm, sclosing) == [mm EXCEPT !.sClosing = @ \/ mm.sPend \/ sclosing, !.cClosing = @ \/ mm.cPend]
ClientClosers == {c \in m.closeB : c[1] = "client"}
Seq2Set(s) == {s[i] : i \in DOMAIN s}
SrvRunning(s) == IF m.stateless THEN s \in m.running ELSE m.running # {}

\* the session-level facts of a snapshot that must hold at every quiescent point
SnapOK(ln, sn) ==
  \* removed from its Server and from the handler's table by the time the server-side Close has returned / the
  \* connection has been closed and things have settled; removed from its Client
  /\ Check(ln, "C05.HttpSessionRemoved", (\E c \in m.closeE : c[1] = "server") => (sn.listed = 0 /\ sn.intab = 0))
  /\ Check(ln, "C05.HttpSessionRemoved", sn.strclosed => (sn.listed = 0 /\ sn.intab = 0))
  /\ Check(ln, "C05.HttpSessionRemoved", (\E c \in m.closeE : c[1] = "client") => sn.clisted = 0)
  \* no timer behind: the idle timer of a session that has left the table is stopped
  /\ Check(ln, "C05.HttpNoLeak", (~m.stateless /\ sn.intab = 0) => ~sn.timerOn)

Step(e) ==
  CASE e.ev = "reset" -> m' = [M0 EXCEPT !.stateless = e.stateless]
    [] e.ev = "panic" -> m' = m /\ Fail(l, "C05.HttpNoPanic")
    [] e.ev = "bubble.leak" -> m' = m /\ Fail(l, "C05.HttpNoLeak")
    [] e.ev = "setup.error" -> m' = m /\ Fail(l, "X.Setup")
    [] e.ev = "cleanup" -> m' = [m EXCEPT !.cleanup = TRUE]
    [] e.ev = "final" -> /\ m' = m
                         \* leaves no goroutine behind (P4: census of the bubble after clean-up and 25 virtual hours)
                         /\ Check(l, "C05.HttpNoLeak", e.leaks = <<>> /\ e.open = <<>> /\ e.exchs = <<>>)
    \* ---- Close / Wait
    [] e.ev = "close.begin" -> m' = IF e.side = "server" THEN [m EXCEPT !.closeB = @ \cup {<<e.side, e.c>>}, !.sPend = TRUE]
                                     ELSE [m EXCEPT !.closeB = @ \cup {<<e.side, e.c>>}, !.cPend = TRUE]
    [] e.ev = "close.end" ->
         /\ m' = [m EXCEPT !.closeE = @ \cup {<<e.side, e.c>>}]
         \* ... closes the transport only after they have returned: a Close that returns has awaited every running handler
         /\ Check(l, "C05.HttpHandlersFinishFirst", m.cleanup \/ (IF e.side = "server" THEN m.running = {} ELSE m.crunning = {}))
    \* the DELETE that Close sent was still pending twice the time after which Close must have abandoned it
    [] e.ev = "del.stuck" -> m' = m /\ (m.cleanup \/ Fail(l, "C05.HttpCloseReturns"))
    [] e.ev = "net.down" -> m' = [m EXCEPT !.gone = e.gone]
    [] e.ev = "ctx.cancel" -> m' = [m EXCEPT !.cancelled = @ \cup {e.k}]
    \* ---- exchanges
    [] e.ev = "x.srv" ->
         IF e.kind = "del" THEN m' = [m EXCEPT !.sPend = TRUE, !.delSrv = TRUE]
         ELSE IF e.kind = "call" /\ m.sClosing /\ ~m.stateless THEN m' = [m EXCEPT !.lateS = @ \cup {e.k}]
         ELSE m' = m
    [] e.ev = "x.ret" ->
         /\ m' = m
         \* a DELETE answered 204 says the session has been closed: its handlers have returned
         /\ Check(l, "C05.HttpHandlersFinishFirst", (e.kind = "del" /\ e.status = 204 /\ ~m.cleanup) => m.running = {})
    [] e.ev = "x.begin" ->
         /\ m' = m
         \* no timer behind: a client whose Close has returned sends nothing any more
         /\ Check(l, "C05.HttpNoLeak", ~((\E c \in m.closeE : c[1] = "client") /\ ~m.cleanup))
    \* ---- handlers
    [] e.ev = "h.start" ->
         /\ m' = [m EXCEPT !.running = @ \cup {e.k}]
         \* stops new requests from being dispatched
         /\ Check(l, "C05.HttpNoDispatchAfterClose", e.k \notin m.lateS)
    [] e.ev = "h.end" -> m' = [m EXCEPT !.running = @ \ {e.k}]
    [] e.ev = "h.ctxdone" ->
         /\ m' = m
         \* lets handlers that are already running run to completion: only the caller's own cancellation ends a handler's context
         /\ Check(l, "C05.HttpHandlersFinishFirst", m.cleanup \/ e.k \in m.cancelled)
    [] e.ev = "h.sreq" -> m' = IF m.cClosing THEN [m EXCEPT !.lateN = @ \cup {e.k}] ELSE m
    [] e.ev = "ch.start" ->
         /\ m' = [m EXCEPT !.crunning = @ \cup {e.k}]
         /\ Check(l, "C05.HttpNoDispatchAfterClose", e.k \notin m.lateN)
    [] e.ev = "ch.end" -> m' = [m EXCEPT !.crunning = @ \ {e.k}]
    [] e.ev = "ch.ctxdone" ->
         /\ m' = m
         \* the client's handler: ended by the server giving up the nested call (its caller), or by the connection having failed
         /\ Check(l, "C05.HttpHandlersFinishFirst", m.cleanup \/ e.k \in m.cancelled \/ m.crdfail)
    [] e.ev = "n.srv" -> m' = m /\ Check(l, "C05.HttpNoDispatchAfterClose", ~m.sClosing \/ m.stateless \/ e.phase = "setup")
    [] e.ev = "n.cli" -> m' = m /\ Check(l, "C05.HttpNoDispatchAfterClose", ~m.cClosing)
    \* ---- connections
    [] e.ev = "c.rderr" -> m' = IF e.eof THEN m ELSE [m EXCEPT !.crdfail = TRUE]
    [] e.ev = "tr.close" ->
         /\ m' = [m EXCEPT !.trclosed = @ \cup {e.s}, !.sPend = IF m.stateless THEN @ ELSE TRUE]
         \* ... and closes the transport only after they have returned
         /\ Check(l, "C05.HttpHandlersFinishFirst", ~SrvRunning(e.s))
    [] e.ev = "tab.del" -> m' = m /\ Check(l, "C05.HttpHandlersFinishFirst", m.running = {})
    [] e.ev = "ctr.close.begin" -> m' = m /\ Check(l, "C05.HttpHandlersFinishFirst", m.crunning = {})
    [] e.ev = "ctr.close.end" -> m' = [m EXCEPT !.cOver = TRUE]
    \* ---- quiescent points
    [] e.ev \in {"step", "mark"} -> m' = Settle(m, e.snap.sclosing) /\ (m.cleanup \/ SnapOK(l, e.snap))
    [] e.ev = "quiesce1" ->
         LET sn == e.snap
             open == Seq2Set(sn.open)
             srvOver == IF m.stateless THEN sn.exchs = <<>> ELSE sn.strclosed
             cliOver == m.cOver
             cliCloseRet == \E c \in m.closeE : c[1] = "client"
         IN
         /\ m' = Settle(m, sn.sclosing)
         /\ SnapOK(l, sn)
         \* Close returns: every caller of Close has got its answer (a vanished client's callers are excused), and a
         \* server-side Close that has begun on behalf of a DELETE or of the idle timer has closed the connection
         /\ Check(l, "C05.HttpCloseReturns", \A c \in m.closeB : (c \in m.closeE \/ (c[1] = "client" /\ e.gone)))
         /\ Check(l, "C05.HttpCloseReturns", (sn.sclosing \/ m.sPend \/ m.sClosing) => sn.strclosed)
         \* the peer's Wait returns: the server's when the client has closed and its DELETE was delivered; the client's when
         \* the server's session is over and the client keeps a standalone stream; and an end's own Wait when it is over
         /\ Check(l, "C05.HttpWaitReturns", (~m.stateless /\ cliOver /\ m.delSrv) => "wait.server" \notin open)
         /\ Check(l, "C05.HttpWaitReturns", (~m.stateless /\ sn.strclosed /\ e.sse /\ ~e.gone) => "wait.client" \notin open)
         /\ Check(l, "C05.HttpWaitReturns", (~m.stateless /\ sn.strclosed) => "wait.server" \notin open)
         /\ Check(l, "C05.HttpWaitReturns", cliOver => "wait.client" \notin open)
         \* leaves no goroutine behind: nothing of an end that is over is left (goroutines, hanging exchanges)
         /\ Check(l, "C05.HttpNoLeak", (cliOver /\ cliCloseRet) => e.cleft = <<>>)
         /\ Check(l, "C05.HttpNoLeak", (srvOver /\ e.running = <<>>) => (e.sleft = <<>> /\ sn.exchs = <<>>))
         /\ Check(l, "C05.HttpNoLeak", (srvOver /\ e.running = <<>> /\ cliOver /\ cliCloseRet) => (e.oleft = <<>> /\ e.hleft = <<>>))
         \* stateless: every request's session has been closed and removed once the request is over
         /\ Check(l, "C05.HttpSessionRemoved", (m.stateless /\ sn.exchs = <<>>) => sn.listed = 0)
    [] OTHER -> m' = m

MNext == /\ l <= NLines /\ l' = l + 1 /\ Step(TraceLog[l])
MSpec == MInit /\ [][MNext]_<<l, m>>
MMark == MarkAt(l)
MAccepted == Accepted
=============================================================================
