SPECIFICATION SettledSpec
CONSTANTS
  NSess = 1
  CC <- C2
  Nest <- NoNest
  NCN = 0
  NSN = 0
  MaxFaults = 1
  FaultKinds <- FCore
  HoldKinds <- HNone
  Combos = FALSE
  HandsAll = TRUE
  Bug = "none"
VIEW CoverView
CHECK_DEADLOCK FALSE
