SPECIFICATION MCSpec
CONSTANTS
  MaxSess = 1
  MaxPost = 2
  MaxSend = 1
  Cap = 2
  Direct = FALSE
  RandomSelect = FALSE
  KindSet = {"call", "notif", "slow", "badjson", "badreq", "ctype"}
  WithNoId = TRUE
  WithUnknown = TRUE
INVARIANTS TypeOK ClosedRefuses Refusal AtMostOnce
PROPERTIES NoPushAfterClose NoWriteAfterClose
CHECK_DEADLOCK FALSE
