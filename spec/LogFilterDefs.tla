---------------------------- MODULE LogFilterDefs ----------------------------
(* Definitions shared by LogFilter (state machine), LogFilterHttp (decision   *)
(* table) and LogFilterMon (monitor): the level tables, the code's level      *)
(* conversions, and the properties of X03 as predicates over one log call.    *)
(* The property statements are at the top of LogFilter.tla.                   *)
EXTENDS Integers, Sequences, FiniteSets, TLC

CONSTANT AsIs          \* TRUE: the code; FALSE: the idealised design (deviations D1..D3 of LogFilter.tla)

\* levels

Names   == <<"debug", "info", "notice", "warning", "error", "critical", "alert", "emergency">>
SlogNum == <<-4, 0, 2, 4, 8, 12, 16, 20>>
NameSet == {Names[i] : i \in 1..8}
SlogOf(nm)  == SlogNum[CHOOSE i \in 1..8 : Names[i] = nm]
Named(sl)   == \E i \in 1..8 : SlogNum[i] = sl
NameAt(sl)  == Names[CHOOSE i \in 1..8 : SlogNum[i] = sl]
\* the greatest named level not above sl (debug for anything below debug)
Floor(sl)   == IF sl < -4 THEN "debug"
               ELSE Names[CHOOSE i \in 1..8 : SlogNum[i] <= sl /\ \A j \in 1..8 : SlogNum[j] <= sl => j <= i]

NoLevel(L) == L \in {"unset", "absent"}

\* the code's conversions (logging.go)
McpToSlog(L)  == IF L \in NameSet THEN SlogOf(L) ELSE -4                 \* D4: unknown (and "") -> debug
SlogToMcp(sl) == IF Named(sl) THEN NameAt(sl) ELSE IF AsIs THEN "debug" ELSE Floor(sl)   \* D3


\* ServerSession.Log
LogDecision(L, nm) == ~NoLevel(L) /\ McpToSlog(nm) >= McpToSlog(L)

-----------------------------------------------------------------------------
\* The properties as predicates over ONE log call (shared by the invariants below and by the monitor
\* LogFilterMon, which evaluates them on what the real code did).
\*   ws    the set of levels in effect while the call ran (one element unless a setLevel raced with it)
\*   sl    the severity logged, as a slog number        send  a notification was sent
\*   nm    the level the notification carried           lim   the handler is rate limited (d > 0)
\*   since time since the handler family last sent (>= d when it never did)

AdmissibleAll(ws, sl)  == \A L \in ws : L \in NameSet /\ sl >= SlogOf(L)
AdmissibleSome(ws, sl) == \E L \in ws : ~NoLevel(L) /\ (L \in NameSet => sl >= SlogOf(L))

NoLeakOK(ws, sl, send)          == send => AdmissibleSome(ws, sl)                          \* P1 "only if"
CompleteNamedOK(ws, sl, lim, send) == (Named(sl) /\ AdmissibleAll(ws, sl) /\ ~lim) => send   \* P1 "if", P3 d = 0
CompleteAnyOK(ws, sl, lim, send)   == (AdmissibleAll(ws, sl) /\ ~lim) => send               \* P2b
LevelOK(ws, sl, send, nm)       == send => /\ Named(sl) => nm = NameAt(sl)                 \* P2
                                           /\ nm \in NameSet
                                           /\ \E L \in ws : L \in NameSet => SlogOf(nm) >= SlogOf(L)
SpacingOK(lim, send, since, d)  == (lim /\ send) => since >= d                             \* P3
ExcessOK(ws, sl, lim, send, since, d) ==                                                  \* P3 "only excess"
  (lim /\ ~send /\ Named(sl) /\ AdmissibleAll(ws, sl)) => since < d
EnabledOK(L, sl, en)            == (L \in NameSet /\ sl >= SlogOf(L)) => en                 \* P2b

-----------------------------------------------------------------------------
\* P1 for STATELESS HTTP (decision table, pattern P1): a tools/call POSTed to a stateless
\* StreamableHTTPHandler whose tool logs one message at level l with the request's context.
HttpLevels == {"absent", "bogus"} \cup NameSet
HttpCases == [era : {"legacy", "modern"}, rl : HttpLevels, l : NameSet]
HttpThr(c) == IF c.era = "modern" THEN c.rl ELSE "info"       \* old protocol: the synthesised default; _meta level ignored
HttpExpected(c) == LogDecision(HttpThr(c), c.l)
HttpHolds(c, sent) == /\ NoLeakOK({HttpThr(c)}, SlogOf(c.l), sent)
                      /\ CompleteNamedOK({HttpThr(c)}, SlogOf(c.l), FALSE, sent)
HttpDesignOK == \A c \in HttpCases : HttpHolds(c, HttpExpected(c))
=============================================================================
