SPECIFICATION Spec
CONSTANTS
  Interval = 4
  MaxLen = 6
  Thresholds = {0, 1, 2, 3}
  AnswerDelays = {0}
INVARIANTS TypeOK InvAccuracy InvTiming InvSilentStop InvCounter InvCompleteness InvFinal InvGoneAtClose InvNoTickAfterUser
PROPERTIES NoPingAfterStop Terminates
CHECK_DEADLOCK FALSE
