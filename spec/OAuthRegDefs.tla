---------------------------- MODULE OAuthRegDefs ----------------------------
(* Decision tables of extension check X13 (see OAuthReg.tla for the PROPERTIES *)
(* block).  One section per table; each has                                    *)
(*   <T>CaseSet      the abstract case space (complete product, stated there)  *)
(*   <T>Expected(c)  the code-shaped procedure, check by check in the code's   *)
(*                   order (oauthex/dcr.go, token_exchange.go, audience.go,    *)
(*                   resource_meta.go, auth_meta.go, auth/shared.go,           *)
(*                   auth/extauth/oidc_login.go)                               *)
(*   <T>Holds(c, o)  the property, stated declaratively from the RFC text and  *)
(*                   the doc comments the code quotes                          *)
(*   <T>Dev(c)       the NAMED deviations: the cells where Expected leaves     *)
(*                   Holds (leads; a lead becomes a finding only when the real *)
(*                   code reproduces it under the monitor)                     *)
(* Tables: D dynamic client registration (RFC 7591), R marshalling round trip *)
(* of ClientRegistrationResponse, X token exchange (RFC 8693 / SEP-990),       *)
(* A audience / resource matching, W WWW-Authenticate parsing (RFC 9110        *)
(* 11.6.1), K well-known URL construction (RFC 8414 3.1, OIDC Discovery 4),    *)
(* M authorization-server metadata responses (status, content type, PKCE),     *)
(* L OIDC login (authorization code + PKCE for the ID token).                  *)
EXTENDS Integers, Sequences, FiniteSets, TLC

-----------------------------------------------------------------------------
\* URL classes of a URL-bearing member / parameter
\*   none    absent or empty          https   https://host/...
\*   lo      http://localhost, 127.0.0.1, [::1]       http    http://remote host
\*   custom  a private-use scheme (com.example.app:/cb)   rel   a relative reference (/cb)
\*   js, JS  javascript:...  in lower / mixed case    data, vbs   data:..., vbscript:...
\*   jslo    javascript://localhost/%0A...  (script-capable scheme, hierarchical form, loopback authority)
\*   badjs   a script-capable scheme hidden behind characters that browsers strip (leading blank, embedded
\*           TAB / LF): not a valid URL for net/url, script-capable for a browser
\*   bad     any other string that is not a valid URL (bad percent escape)
UCls == {"none", "https", "lo", "http", "custom", "rel", "js", "JS", "data", "vbs", "jslo", "badjs", "bad"}
Script(u) == u \in {"js", "JS", "data", "vbs", "jslo", "badjs"}
\* oauthex.checkURLScheme: url.Parse must succeed and the lower-cased scheme is not javascript / data / vbscript
CodeSchemeOK(u) == u \notin {"js", "JS", "data", "vbs", "jslo", "badjs", "bad"}
\* "an https or loopback URL"
Safe(u) == u \in {"https", "lo"}

-----------------------------------------------------------------------------
\* D  oauthex.RegisterClient (RFC 7591 3.1, 3.2.1, 3.2.2)
\*   ep      class of the registration endpoint argument
\*   net     the transport: answers / fails / answers and then fails while the body is read
\*   status  HTTP status;  body: shape of the body
\*     good      client_id + the registered metadata echoed     min     client_id only
\*     noid      metadata, no client_id     emptyid  client_id ""     nullid  client_id null
\*     numid     client_id 123 (a number)   caseid   "Client_ID" only (member names are case-sensitive)
\*     err       {"error": code, "error_description": text}     errmin  {"error": code}
\*     errid     error, error_description AND client_id
\*     notjson, empty, null, array ([]), trailing (a valid object followed by more text)
\*   sec     client_secret / expiry members added to good and min:
\*     none    no secret                    noexp   secret, no client_secret_expires_at
\*     exp0    secret, expires_at 0         exp     secret, expires_at in the future     exppast  ... in the past
\*     expstr  expires_at "0" (a string)    expfloat  expires_at 1.7e9     issuedstr  client_id_issued_at an RFC 3339 string
\*   fld / ucls   the one URL-bearing member of the good body that carries a URL of class ucls ("-": none does)
DStatuses == {200, 201, 202, 204, 301, 400, 401, 403, 404, 500, 503}
DBodies == {"good", "min", "noid", "emptyid", "nullid", "numid", "caseid", "err", "errmin", "errid",
            "notjson", "empty", "null", "array", "trailing"}
DSecs == {"none", "noexp", "exp0", "exp", "exppast", "expstr", "expfloat", "issuedstr"}
DFields == {"redirect0", "redirect1", "client_uri", "logo_uri", "tos_uri", "policy_uri", "jwks_uri"}
DEps == {"none", "https", "lo", "http"}
DNets == {"ok", "neterr", "bodyerr"}
DC(ep, net, st, b, s, f, u) == [ep |-> ep, net |-> net, status |-> st, body |-> b, sec |-> s, fld |-> f, ucls |-> u]
\* complete product of: status x body;  success status x {good, min} x sec;  success status x secret x URL member x URL class;
\* endpoint class x transport x {201, 400} x {good, err}
DCaseSet ==
       {DC("https", "ok", st, b, "none", "-", "none") : st \in DStatuses, b \in DBodies}
  \cup {DC("https", "ok", st, b, s, "-", "none") : st \in {200, 201}, b \in {"good", "min"}, s \in DSecs}
  \cup {DC("https", "ok", st, "good", s, f, u) : st \in {200, 201}, s \in {"none", "exp"}, f \in DFields, u \in UCls \ {"none"}}
  \cup {DC(ep, net, st, b, "exp", "-", "none") : ep \in DEps, net \in DNets, st \in {201, 400}, b \in {"good", "err"}}

DHasId(b) == b \in {"good", "min", "errid"}
\* the body decodes into ClientRegistrationResponse (internal/json: one JSON value, case-sensitive member names, typed members)
DDecodes(b, s) == /\ b \in {"good", "min", "noid", "emptyid", "nullid", "caseid", "err", "errmin", "errid", "null"}
                  /\ (b \in {"good", "min"} => s \notin {"expstr", "expfloat", "issuedstr"})
\* ... into ClientRegistrationError (only error / error_description are typed)
DErrDecodes(b) == b \in {"good", "min", "noid", "emptyid", "nullid", "numid", "caseid", "err", "errmin", "errid", "null"}
DSecretOf(s) == IF s = "none" THEN "empty" ELSE "match"
\* client_secret_expires_at: "0 if it never expires" -> the zero time.Time; a time -> that second
DExpOf(s) == IF s \in {"exp", "exppast"} THEN "match" ELSE "zero"

\* Outcome: sent (a request reached the transport), reqok (it was the RFC 7591 3.1 request), ok (a response was
\* returned, no error), regerr (the error is a *ClientRegistrationError), code (its ErrorCode vs the served one),
\* id / secret / exp / echo (returned values vs the served ones), nilnil (neither a response nor an error)
DErr(sent) == [sent |-> sent, reqok |-> TRUE, ok |-> FALSE, regerr |-> FALSE, code |-> "-", id |-> "-", secret |-> "-",
               exp |-> "-", echo |-> FALSE, nilnil |-> FALSE]
DExpected(c) ==
  IF c.ep = "none" THEN DErr(FALSE)                                        \* "registration_endpoint is required"
  ELSE IF c.net # "ok" THEN DErr(TRUE)                                     \* c.Do / io.ReadAll fail
  ELSE IF c.status \in {200, 201}
  THEN IF \/ ~DDecodes(c.body, c.sec)                                      \* "failed to decode successful registration response"
          \/ ~DHasId(c.body)                                               \* "missing required 'client_id' field"
          \/ (c.fld # "-" /\ ~CodeSchemeOK(c.ucls))                        \* validateClientRegistrationURLs
       THEN DErr(TRUE)
       ELSE [sent |-> TRUE, reqok |-> TRUE, ok |-> TRUE, regerr |-> FALSE, code |-> "-", id |-> "match",
             secret |-> DSecretOf(c.sec), exp |-> DExpOf(c.sec), echo |-> TRUE, nilnil |-> FALSE]
  ELSE IF c.status = 400
  THEN IF DErrDecodes(c.body)
       THEN [DErr(TRUE) EXCEPT !.regerr = TRUE, !.code = IF c.body \in {"err", "errmin", "errid"} THEN "match" ELSE "empty"]
       ELSE DErr(TRUE)
  ELSE DErr(TRUE)                                                          \* "registration failed with status ..."

\* NAMED DEVIATION: (*ClientRegistrationResponse).UnmarshalJSON decodes into a pointer `aux` through &aux; the JSON text
\* `null` sets that pointer to nil and the next line dereferences it: a success status with the body `null` PANICS
DPanics(c) == c.ep # "none" /\ c.net = "ok" /\ c.status \in {200, 201} /\ c.body = "null"
DDev(c) == IF DPanics(c) THEN "null-body-panic" ELSE "-"

\* a response the client has no reason to refuse: RFC 7591 3.2.1 (201 Created, client_id, client_secret_expires_at
\* whenever a secret is issued) with URL members that are not script-capable
DMustAccept(c) == /\ c.ep # "none" /\ c.net = "ok" /\ c.status = 201 /\ c.body \in {"good", "min"}
                  /\ c.sec \in {"none", "exp0", "exp"}
                  /\ (c.fld # "-" => c.ucls \in {"https", "lo", "http", "custom"})
DHolds(c, o) ==
  /\ o.sent <=> c.ep # "none"
  /\ o.sent => o.reqok                                                     \* D.Request
  /\ o.ok => /\ c.net = "ok" /\ c.status \in {200, 201}                   \* D.NoErrorAsSuccess (200 is tolerated besides 201)
             /\ DHasId(c.body)                                             \* D.ClientIDRequired
             /\ (c.fld # "-" => ~Script(c.ucls))                           \* D.NoScriptSchemes
  /\ o.ok => o.id = "match" /\ o.secret = DSecretOf(c.sec) /\ o.exp = DExpOf(c.sec) /\ o.echo      \* D.Echo
  /\ ~(o.ok /\ o.regerr) /\ ~o.nilnil                                    \* never (nil, nil)
  /\ o.regerr => c.net = "ok" /\ c.status >= 400
  /\ DMustAccept(c) => o.ok                                                \* D.Accepts
  /\ (c.ep # "none" /\ c.net = "ok" /\ c.status = 400 /\ c.body \in {"err", "errmin"})
        => o.regerr /\ o.code = "match"                                    \* D.ErrorObject
\* named deviation (no clause of DHolds): the endpoint argument itself is not checked, an http non-loopback endpoint is used
DHardened(c, o) == o.sent => Safe(c.ep)

-----------------------------------------------------------------------------
\* R  json.Marshal / json.Unmarshal of oauthex.ClientRegistrationResponse
\*   issued, expires   the two time.Time members:  zero (time.Time{}), epoch (time.Unix(0,0)), pos, neg (before 1970),
\*                     subsec (nanoseconds set), zone (a non-UTC location)
\*   secret            client_secret empty / set
\*   how               how the value reaches json.Marshal:  ptr &r,  value r,  field_ptr &struct{R Resp},  field_value
\*                     struct{R Resp},  slice []Resp,  map map[string]Resp,  ptrfield struct{R *Resp},  ptrmap map[string]*Resp
\*   meta              the embedded ClientRegistrationMetadata: minimal / every member set
RTimes == {"zero", "epoch", "pos", "neg", "subsec", "zone"}
RHows == {"ptr", "value", "field_ptr", "field_value", "slice", "map", "ptrfield", "ptrmap"}
RCaseSet == [issued : RTimes, expires : RTimes, secret : {"none", "set"}, how : RHows, meta : {"min", "full"}]
\* MarshalJSON has a pointer receiver: encoding/json calls it only for addressable values
RAddr(h) == h \in {"ptr", "field_ptr", "slice", "ptrfield", "ptrmap"}
RUnset(t) == t \in {"zero", "epoch"}
\* Outcome: merr / uerr (Marshal / Unmarshal failed), numeric (every time member present in the JSON text is a number),
\* hasIssued / hasExpires (member present), same (Unmarshal(Marshal(r)) = r to the second; zero and epoch both mean "unset")
RExpected(c) ==
  IF RAddr(c.how)
  THEN [merr |-> FALSE, numeric |-> TRUE, hasIssued |-> ~RUnset(c.issued), hasExpires |-> ~RUnset(c.expires), uerr |-> FALSE, same |-> TRUE]
  ELSE [merr |-> FALSE, numeric |-> FALSE, hasIssued |-> TRUE, hasExpires |-> TRUE, uerr |-> TRUE, same |-> FALSE]
\* RFC 7591 3.2.1: the times are "the number of seconds from 1970-01-01T00:00:00Z"
RRoundTrip(c, o) == ~o.merr /\ o.numeric /\ ~o.uerr /\ o.same
\* RFC 7591 3.2.1 / the member's doc comment: client_secret_expires_at is "REQUIRED if client_secret is issued ... 0 if it never expires"
RSecretExpiry(c, o) == (c.secret = "set" /\ ~o.merr) => o.hasExpires
RHolds(c, o) == RRoundTrip(c, o) /\ RSecretExpiry(c, o)
RDev(c) == IF ~RAddr(c.how) THEN "by-value" ELSE IF c.secret = "set" /\ RUnset(c.expires) THEN "never-expires-omitted" ELSE "-"

-----------------------------------------------------------------------------
\* X  oauthex.ExchangeToken (RFC 8693 2.1, 2.2.1, 2.2.2; SEP-990)
\*   ep      class of the tokenEndpoint argument
\*   miss    what is missing from the arguments: nilreq, nilcreds, noid (ClientID ""), emptysecret (ClientSecretAuth{""}),
\*           rtt / aud / res / st / stt (RequestedTokenType, Audience, Resource, SubjectToken, SubjectTokenType "")
\*   aud, res   class of the Audience / Resource value (urn: a logical name that is not a URL)
\*   scope   number of scopes;   conf: a client secret is configured
\*   net, status, ct (content type of the response: JSON or form-encoded), body:
\*     NA / na / bearer / nott   issued_token_type id-jag, token_type "N_A" / "n_a" / "Bearer" / absent
\*     noissued / emptyissued / numissued   issued_token_type absent / "" / 5
\*     othertype   issued_token_type ...:access_token      noat / emptyat   access_token absent / ""
\*     err   {"error": "invalid_grant", ...}       notjson, empty
XEps == {"none", "https", "lo", "http", "js", "jslo", "badjs"}
XMiss == {"-", "nilreq", "nilcreds", "noid", "emptysecret", "rtt", "aud", "res", "st", "stt"}
XUrlish == {"https", "urn", "js", "JS", "jslo"}
XBodies == {"NA", "na", "bearer", "nott", "noissued", "emptyissued", "numissued", "othertype", "noat", "emptyat", "err", "notjson", "empty"}
XStatuses == {200, 201, 400, 401, 500}
XC(ep, m, a, r, sc, cf, net, st, b, ct) ==
  [ep |-> ep, miss |-> m, aud |-> a, res |-> r, scope |-> sc, conf |-> cf, net |-> net, status |-> st, body |-> b, ct |-> ct]
\* complete product of: endpoint class x missing argument x confidential;  audience class x resource class x scopes x
\* confidential;  status x body x content type;  transport failure
XCaseSet ==
       {XC(ep, m, "https", "https", 1, cf, "ok", 200, "NA", "json") : ep \in XEps, m \in XMiss, cf \in BOOLEAN}
  \cup {XC("https", "-", a, r, sc, cf, "ok", 200, "NA", "json") : a \in XUrlish, r \in XUrlish, sc \in 0..2, cf \in BOOLEAN}
  \cup {XC("https", "-", "https", "https", 2, TRUE, "ok", st, b, ct) : st \in XStatuses, b \in XBodies, ct \in {"json", "form"}}
  \cup {XC(ep, "-", "https", "urn", 0, cf, "neterr", 200, "NA", "json") : ep \in {"https", "lo"}, cf \in BOOLEAN}
XValidInputs(c) == c.miss = "-" /\ c.ep \notin {"none", "js", "jslo", "badjs"} /\ ~Script(c.aud) /\ ~Script(c.res)
\* the body carries a non-empty access_token and a non-empty string issued_token_type (oauth2.Token.Extra turns a
\* form-encoded member that reads as a number into a number, so "5" is not a string there either)
XGoodBody(c) == c.body \in {"NA", "na", "bearer", "nott", "othertype"}
XIssuedOf(c) == IF c.body = "othertype" THEN "other" ELSE "idjag"
\* Outcome: nreq (requests that reached the transport), sent, bad (the parameters of the request that differ from the
\* arguments / RFC 8693 2.1), ok, rerr (errors.As *oauth2.RetrieveError: "-" no, else its ErrorCode vs the served one),
\* at (AccessToken vs served), issued (Extra("issued_token_type"))
XNo(sent, rerr) == [nreq |-> IF sent THEN 1 ELSE 0, sent |-> sent, bad |-> <<>>, ok |-> FALSE, rerr |-> rerr, at |-> "-", issued |-> "-"]
XExpected(c) ==
  IF ~XValidInputs(c) THEN XNo(FALSE, "-")                                \* every argument check precedes the request
  ELSE IF c.net # "ok" THEN XNo(TRUE, "-")
  ELSE IF c.status \notin 200..299 THEN XNo(TRUE, IF c.body = "err" THEN "match" ELSE "empty")   \* x/oauth2: RetrieveError
  ELSE IF c.body = "err" THEN XNo(TRUE, "match")                           \* "unorthodox servers respond 200 in error case"
  ELSE IF ~XGoodBody(c) THEN XNo(TRUE, "-")                                \* cannot parse / missing access_token / issued_token_type
  ELSE [nreq |-> 1, sent |-> TRUE, bad |-> <<>>, ok |-> TRUE, rerr |-> "-", at |-> "match", issued |-> XIssuedOf(c)]
\* RFC 8693 2.2.1: token_type is case-insensitive; RFC 6749 5.1: the response is JSON (a form-encoded one is tolerated)
XMustAccept(c) == XValidInputs(c) /\ c.net = "ok" /\ c.status = 200 /\ c.body \in {"NA", "na"} /\ c.ct = "json"
XHolds(c, o) ==
  /\ o.sent <=> o.nreq >= 1
  /\ o.sent => XValidInputs(c)                                             \* X.ValidateBeforeSend
  /\ o.sent => o.bad = <<>> /\ o.nreq = 1                                  \* X.Request
  /\ o.ok => o.sent /\ c.net = "ok" /\ c.status \in 200..299 /\ XGoodBody(c)      \* X.NoErrorAsSuccess, X.IssuedTokenType
  /\ o.ok => o.at = "match" /\ o.issued = XIssuedOf(c)                     \* X.Echo
  /\ XMustAccept(c) => o.ok                                                \* X.Accepts
  /\ (o.sent /\ c.net = "ok" /\ c.body = "err" /\ c.status \in {200, 400, 401}) => ~o.ok /\ o.rerr = "match"   \* X.ErrorPropagated
\* named deviation (no clause of XHolds): the endpoint argument is only checked for script-capable schemes; subject token
\* and client secret go to an http non-loopback endpoint the caller passes in (EnterpriseHandler passes validated metadata)
XHardened(c, o) == o.sent => Safe(c.ep)

-----------------------------------------------------------------------------
\* A  oauthex.MatchesResource(claims, resource)
\*   base   shape of the resource identifier: root https://h, rootslash https://h/, path https://h/mcp,
\*          pathslash https://h/mcp/, query https://h/mcp?x=1
\*   rel    relation of the candidate claim to the resource: same; toggle (one trailing "/" added or removed);
\*          dslash (two added), case (host in upper case), port (:443 added), scheme (http), query (a query added),
\*          frag, ws (surrounding blanks), sub (a path segment added), hostsfx (h.evil.example), other
\*   pos    where the candidate stands among the claims: only, first, last (the others are unrelated);
\*          others (only unrelated claims), none (no claim at all)
ABases == {"root", "rootslash", "path", "pathslash", "query"}
ARels == {"same", "toggle", "dslash", "case", "port", "scheme", "query", "frag", "ws", "sub", "hostsfx", "other"}
ACaseSet == [base : ABases, rel : ARels, pos : {"only", "first", "last"}]
       \cup [base : ABases, rel : {"-"}, pos : {"others", "none"}]
APresent(c) == c.pos \in {"only", "first", "last"}
AExpected(c) == [match |-> APresent(c) /\ c.rel \in {"same", "toggle"}]     \* strings.TrimSuffix(_, "/") on both sides
\* doc comment: "narrowed to the empty-path case: a URI with an empty path is treated as equivalent to one with a path of
\* "/".  All other URI components (scheme, host case, port, query, fragment) must match exactly ... keeping
\* path/scheme/host strict"
AHolds(c, o) == o.match <=> (APresent(c) /\ (c.rel = "same" \/ (c.rel = "toggle" /\ c.base \in {"root", "rootslash"})))
ADev(c) == IF APresent(c) /\ c.rel = "toggle" /\ c.base \notin {"root", "rootslash"} THEN "slash-beyond-empty-path" ELSE "-"

-----------------------------------------------------------------------------
\* W  oauthex.ParseWWWAuthenticate (RFC 9110 11.6.1: challenge = auth-scheme [ 1*SP ( token68 / #auth-param ) ],
\*    auth-param = token BWS "=" BWS ( token / quoted-string ); 5.6.1.2: empty list elements are ignored)
\* A header is one or two challenges.  The "rich" challenge a:
\*   sch    spelling of the scheme Bearer (bearer / BEARER / Mixed)
\*   form   bare (scheme only), t68 / t68p1 / t68p2 (a token68 with no / one / two "=" of padding), p1 / p2 (one / two
\*          auth-params: resource_metadata, scope)
\*   v1, v2 form of the parameter values: tok (token), q (quoted), qcomma / qeq / qspace (a quoted string containing
\*          "," / "=" / " "), qescq (containing \"), qbsend (ending in \\, an escaped backslash), qempty ("")
\*   kc     spelling of the parameter name (lower / mixed);  bws: blanks before / after the "=" of the LAST parameter
\*   pc     an empty list element (",,") between the two parameters
\* The "small" challenge b: bare (Basic), t68 (Negotiate <token68>), ptok / pq (Basic realm=token / "quoted").
\*   order  ab / ba;  sep: the separator on one line ("cs" ", ", "c" ",", "scs" " , ");  lines: one header line or two;
\*   extra  n = 1: a leading / trailing empty list element;  n = 2: the separator doubled (an empty element between)
WVForms == {"tok", "q", "qcomma", "qeq", "qescq", "qbsend", "qempty", "qspace"}
WSmall == {"bare", "t68", "ptok", "pq"}
WR(s, f, v1, v2, kc, bws, pc) == [sch |-> s, form |-> f, v1 |-> v1, v2 |-> v2, kc |-> kc, bws |-> bws, pc |-> pc]
WRich ==
       {WR("bearer", f, "-", "-", "lower", "none", FALSE) : f \in {"bare", "t68", "t68p1", "t68p2"}}
  \cup {WR(s, "p1", v, "-", kc, b, FALSE) : s \in {"bearer", "BEARER", "Mixed"}, v \in WVForms, kc \in {"lower", "mixed"}, b \in {"none", "pre", "post"}}
  \cup {WR("bearer", "p2", v1, v2, "lower", b, FALSE) : v1 \in WVForms, v2 \in WVForms, b \in {"none", "pre", "post"}}
  \cup {WR("bearer", "p2", v1, v2, "lower", "none", TRUE) : v1 \in WVForms \ {"qbsend"}, v2 \in WVForms \ {"qbsend"}}
WC(n, a, b, o, s, l, x) == [n |-> n, a |-> a, b |-> b, order |-> o, sep |-> s, lines |-> l, extra |-> x]
WCaseSet ==
       {WC(1, a, "-", "a", "-", "one", x) : a \in WRich, x \in {"none", "lead", "trail"}}
  \cup {WC(2, a, b, o, s, "one", x) : a \in WRich, b \in WSmall, o \in {"ab", "ba"}, s \in {"cs", "c", "scs"}, x \in {"none", "dbl"}}
  \cup {WC(2, a, b, o, "-", "two", "none") : a \in WRich, b \in WSmall, o \in {"ab", "ba"}}

\* the parse RFC 9110 defines: schemes in order (lower-cased), parameters as a set of <<name, "ok">> (name lower-cased,
\* value unquoted and unescaped; "ok" = the value the header carries); a token68 challenge has no parameters to report
WRichParse(a) == [sch |-> "bearer", t68 |-> a.form \in {"t68", "t68p1", "t68p2"},
                  ps |-> IF a.form = "p1" THEN {<<"resource_metadata", "ok">>}
                         ELSE IF a.form = "p2" THEN {<<"resource_metadata", "ok">>, <<"scope", "ok">>} ELSE {}]
WSmallParse(b) == [sch |-> IF b = "t68" THEN "negotiate" ELSE "basic", t68 |-> b = "t68",
                   ps |-> IF b \in {"ptok", "pq"} THEN {<<"realm", "ok">>} ELSE {}]
WRFC(c) == IF c.n = 1 THEN <<WRichParse(c.a)>>
           ELSE IF c.order = "ab" THEN <<WRichParse(c.a), WSmallParse(c.b)>> ELSE <<WSmallParse(c.b), WRichParse(c.a)>>
\* Outcome: err, ch: the challenges returned, each [sch, ps] with ps a set of <<name or "?", "ok" | "bad">>
WMatches(c, o) ==
  /\ ~o.err /\ Len(o.ch) = Len(WRFC(c))
  /\ \A i \in 1..Len(o.ch) : /\ o.ch[i].sch = WRFC(c)[i].sch
                            /\ (WRFC(c)[i].t68 \/ o.ch[i].ps = WRFC(c)[i].ps)
WHolds(c, o) == WMatches(c, o)
WRealClass(c, o) == IF o.err THEN "err" ELSE IF WMatches(c, o) THEN "ok" ELSE "wrong"

\* the code (splitChallenges, parseSingleChallenge), as a classification of the outcome: ok / err / wrong
\* splitChallenges tracks quotes with `header[i-1] != '\\'`: the closing quote of a value that ends in an escaped
\* backslash is not seen, and from there to the end of the line "inside quotes" is inverted (until the next such value)
WInverted(a) == a.form \in {"p1", "p2"} /\ ((a.v1 = "qbsend") # (a.v2 = "qbsend"))
WRichErr(a) ==
  \/ a.form \in {"t68", "t68p1"}                                  \* no "=": "expected key=value"; one "=": "no value for auth param"
  \/ (a.form \in {"p1", "p2"} /\ (a.v1 = "qempty" \/ a.v2 = "qempty"))    \* "no value for auth param"
  \/ (a.form = "p2" /\ a.bws = "pre" /\ a.v1 # "qbsend")          \* "k =v" after a comma does not look like a parameter: split off, "=v" fails
  \/ (a.form = "p2" /\ a.v1 = "qbsend" /\ a.v2 = "qcomma")        \* the comma inside the second value is taken for a separator
WClass(c) ==
  LET errA == WRichErr(c.a)
      errB == c.n = 2 /\ c.b = "t68"
      \* the small challenge after an inverted rich one on the same line is swallowed into its parameter list
      inv == c.n = 2 /\ c.order = "ab" /\ c.lines = "one" /\ WInverted(c.a)
  IN IF errA \/ errB \/ (inv /\ c.b = "bare") THEN "err"
     ELSE IF inv \/ (c.a.form = "p2" /\ c.a.pc) THEN "wrong"
     ELSE "ok"
\* the named deviations: which well-formed construct the header contains that the code does not parse as RFC 9110 says
WDev(c) ==
  IF (c.a.form \in {"p1", "p2"} /\ (c.a.v1 = "qempty" \/ c.a.v2 = "qempty")) THEN "empty-quoted-string"
  ELSE IF c.a.form \in {"t68", "t68p1"} \/ (c.n = 2 /\ c.b = "t68") THEN "token68"
  ELSE IF c.a.form = "p2" /\ c.a.bws = "pre" /\ c.a.v1 # "qbsend" THEN "bws-before-eq"
  ELSE IF \/ (c.a.form = "p2" /\ c.a.v1 = "qbsend" /\ c.a.v2 = "qcomma")
          \/ (c.n = 2 /\ c.order = "ab" /\ c.lines = "one" /\ WInverted(c.a)) THEN "escaped-backslash-before-closing-quote"
  ELSE IF c.a.form = "p2" /\ c.a.pc THEN "empty-list-element"
  ELSE "-"

-----------------------------------------------------------------------------
\* K  auth.GetAuthServerMetadata: the well-known locations tried for an issuer (RFC 8414 3.1: "any terminating "/" MUST be
\*    removed before inserting "/.well-known/" and the well-known URI suffix between the host component and the path
\*    component"; OIDC Discovery 4: "any terminating / MUST be removed before appending /.well-known/openid-configuration";
\*    MCP 2025-11-25: the order oauth-insert, oidc-insert, oidc-append for issuers with a path, oauth, oidc without)
\*   host   plain / with a port;  path: none, slash ("/"), seg ("/t"), segslash ("/t/"), seg2 ("/a/b"), seg2slash
\*   found  0: every location answers 404;  k: the k-th request is answered with a valid document
\* A requested URL is decomposed by the harness relative to the issuer: which well-known suffix (oauth / oidc), where
\* (root: nothing before or after it; insert: the path follows it; append: the path precedes it) and which path (trim: the
\* issuer path without its terminating slash; raw: the issuer path as written, when that differs; other)
KPaths == {"none", "slash", "seg", "segslash", "seg2", "seg2slash"}
KCaseSet == [host : {"plain", "port"}, path : KPaths, found : 0..3]
KU(w, m, p) == [wk |-> w, mode |-> m, p |-> p]
KNoPath(p) == p \in {"none", "slash"}
KSlashed(p) == p \in {"slash", "segslash", "seg2slash"}
KRFC(p) == IF KNoPath(p) THEN <<KU("oauth", "root", "-"), KU("oidc", "root", "-")>>
           ELSE <<KU("oauth", "insert", "trim"), KU("oidc", "insert", "trim"), KU("oidc", "append", "trim")>>
\* authorizationServerMetadataURLs: Path == "" decides "no path"; insertion keeps the path as written
\* (strings.TrimLeft(path, "/")), appending trims both ends
KCode(p) == IF p = "none" THEN KRFC(p)
            ELSE IF p = "slash" THEN <<KU("oauth", "insert", "raw"), KU("oidc", "insert", "raw"), KU("oidc", "append", "raw")>>
            ELSE IF KSlashed(p) THEN <<KU("oauth", "insert", "raw"), KU("oidc", "insert", "raw"), KU("oidc", "append", "trim")>>
            ELSE KRFC(p)
KPrefix(s, k) == IF k = 0 \/ k > Len(s) THEN s ELSE SubSeq(s, 1, k)
KExpected(c) == [urls |-> KPrefix(KCode(c.path), c.found), got |-> c.found \in 1..Len(KCode(c.path)), err |-> FALSE]
KHolds(c, o) == /\ o.urls = KPrefix(KRFC(c.path), c.found)
                /\ o.got <=> c.found \in 1..Len(KRFC(c.path))
                /\ ~o.err
KDev(c) == IF c.path = "slash" THEN "terminating-slash-kept:root" ELSE IF KSlashed(c.path) THEN "terminating-slash-kept:path" ELSE "-"

-----------------------------------------------------------------------------
\* M  oauthex.GetAuthServerMeta: status, content type and PKCE advertisement of the response (issuer and URL members are
\*    C15's).  Doc comment: "returns an error if the request fails with a non-4xx status code or the fetched metadata
\*    doesn't pass security validations.  It returns nil if the request fails with a 4xx status code."; RFC 8414 3.2: "200
\*    OK ... using the application/json content type"; "verifies that the authorization server supports PKCE"
\*   ct     json, charset (application/json; charset=utf-8), upper (Application/JSON), text (text/plain), none,
\*          jsonx (application/jsonx), problem (application/problem+json), junk (not a media type)
\*   pkce   code_challenge_methods_supported: absent, empty ([]), S256, plain, both, lower (["s256"])
MStatuses == {200, 201, 204, 301, 400, 404, 410, 429, 500, 503}
MCts == {"json", "charset", "upper", "text", "none", "jsonx", "problem", "junk"}
MPkces == {"absent", "empty", "S256", "plain", "both", "lower"}
MCaseSet == [status : MStatuses, ct : MCts, pkce : MPkces]
MJsonCt(ct) == ct \in {"json", "charset", "upper"}
\* Outcome: res = meta (a document was returned), nil (nil, nil), err
MExpected(c) == [res |-> IF c.status # 200 THEN (IF c.status \in 400..499 THEN "nil" ELSE "err")
                         ELSE IF ~MJsonCt(c.ct) THEN "err"
                         ELSE IF c.pkce \in {"absent", "empty"} THEN "err" ELSE "meta"]
MHolds(c, o) ==
  /\ c.status \in 400..499 => o.res = "nil"
  /\ (c.status \notin 400..499 /\ c.status # 200) => o.res = "err"
  /\ c.status = 200 => o.res # "nil"                                      \* a document that fails a check is not "no metadata"
  /\ o.res = "meta" => c.status = 200 /\ MJsonCt(c.ct) /\ c.pkce \notin {"absent", "empty"}      \* M.ContentType, M.PKCE
  /\ (c.status = 200 /\ MJsonCt(c.ct) /\ c.pkce \in {"S256", "both"}) => o.res = "meta"          \* M.Accepts
\* named deviation (no clause): any non-empty list counts as PKCE support (["plain"], ["s256"]); S256 is not required although
\* the client always sends an S256 challenge

-----------------------------------------------------------------------------
\* L  extauth.PerformOIDCLogin (authorization code flow with PKCE at the enterprise IdP, yields the ID token)
\*   iss    class of OIDCLoginConfig.IssuerURL;  redir: class of RedirectURL;  scopes: openid, openid2 (openid + profile),
\*          noopenid (profile only), none;  conf: confidential client;  hint: LoginHint set
\*   meta   discovery: good, noauth (no authorization_endpoint), none404, fail500
\*   fetch  the AuthorizationCodeFetcher: ok / err;  state: the state it returns (equal, different, empty, prefix)
\*   tok    the token response: good (id_token), noid, emptyid, numid (id_token 5), err400
LIss == {"https", "lo", "http", "js"}
LRedir == {"https", "lo", "custom", "js"}
LScopes == {"openid", "openid2", "noopenid", "none"}
LMeta == {"good", "noauth", "none404", "fail500"}
LStates == {"equal", "different", "empty", "prefix"}
LToks == {"good", "noid", "emptyid", "numid", "err400"}
LC(i, r, s, cf, h, m, f, st, t) == [iss |-> i, redir |-> r, scopes |-> s, conf |-> cf, hint |-> h, meta |-> m, fetch |-> f, state |-> st, tok |-> t]
LCaseSet ==
       {LC(i, r, s, cf, FALSE, "good", "ok", "equal", "good") : i \in LIss, r \in LRedir, s \in LScopes, cf \in BOOLEAN}
  \cup {LC("https", "lo", "openid2", TRUE, h, m, f, st, t) : h \in BOOLEAN, m \in LMeta, f \in {"ok", "err"}, st \in LStates, t \in LToks}
LConfigOK(c) == c.scopes \in {"openid", "openid2"} /\ c.iss # "js" /\ c.redir # "js"
\* Outcome: discovered (a metadata request was made), authCalled, urlbad (what is wrong with the authorization URL),
\* exchanged (a token request was made), exbad (what is wrong with it), ok, hasid (the returned token carries id_token)
LNo(d, a, x) == [discovered |-> d, authCalled |-> a, urlbad |-> <<>>, exchanged |-> x, exbad |-> <<>>, ok |-> FALSE, hasid |-> FALSE]
LExpected(c) ==
  IF ~LConfigOK(c) THEN LNo(FALSE, FALSE, FALSE)
  ELSE IF ~Safe(c.iss) THEN LNo(FALSE, FALSE, FALSE)                       \* GetAuthServerMeta: checkHTTPSOrLoopback(metadataURL)
  ELSE IF c.meta # "good" THEN LNo(TRUE, FALSE, FALSE)
  ELSE IF c.fetch = "err" THEN LNo(TRUE, TRUE, FALSE)
  ELSE IF c.state # "equal" THEN LNo(TRUE, TRUE, FALSE)                    \* "state mismatch"
  ELSE IF c.tok # "good" THEN LNo(TRUE, TRUE, TRUE)
  ELSE [discovered |-> TRUE, authCalled |-> TRUE, urlbad |-> <<>>, exchanged |-> TRUE, exbad |-> <<>>, ok |-> TRUE, hasid |-> TRUE]
LHolds(c, o) ==
  /\ o.discovered => Safe(c.iss) /\ LConfigOK(c)                           \* L.SafeDiscovery
  /\ o.authCalled => o.discovered /\ c.meta = "good" /\ o.urlbad = <<>>    \* L.AuthURL (S256 challenge, state, client, redirect, scopes, hint)
  /\ o.exchanged => o.authCalled /\ c.fetch = "ok" /\ c.state = "equal"    \* L.StateChecked
  /\ o.exchanged => o.exbad = <<>>                                         \* L.Verifier (code, code_verifier matching the challenge, redirect)
  /\ o.ok => o.exchanged /\ c.tok = "good" /\ o.hasid                      \* L.IDTokenPresent
  /\ (LConfigOK(c) /\ Safe(c.iss) /\ c.meta = "good" /\ c.fetch = "ok" /\ c.state = "equal" /\ c.tok = "good") => o.ok

=============================================================================
