----------------------------- MODULE DispatchGen -----------------------------
(* X15: behaviour generation by simulation.  Dispatch.tla with a history of   *)
(* the actions taken; the behaviour is printed (JSON) when it has GenLen      *)
(* steps.  Nop pads a behaviour in which nothing else is possible.            *)
EXTENDS Dispatch, Json
CONSTANT GenLen
VARIABLE hist
gvars == <<vars, hist>>

Lbl(op, a) == [op |-> op, a |-> a]
GNext ==
  \/ \E p \in {"c", "s"}, d \in {"send", "recv"}, bs \in BehSeqs : Add(p, d, bs) /\ hist' = Append(hist, Lbl("Add", <<p, d, bs>>))
  \/ RegSend /\ hist' = Append(hist, Lbl("RegSend", <<>>))
  \/ \E h \in {1, 2}, ty \in {"A", "B"} : RegRecv(h, ty) /\ hist' = Append(hist, Lbl("RegRecv", <<ToString(h), ty>>))
  \/ \E k \in Kinds, par \in 0..MaxReq : Start(k, par) /\ hist' = Append(hist, Lbl("Start", <<k, ToString(par)>>))
  \/ \E r \in 1..MaxReq, sd \in {"s", "r"} : Step(r, sd) /\ hist' = Append(hist, Lbl("Step", <<ToString(r), sd>>))
  \/ (~ENABLED Next) /\ UNCHANGED vars /\ hist' = Append(hist, Lbl("Nop", <<>>))
GInit == Init /\ hist = <<>>
GSpec == GInit /\ [][GNext]_gvars
\* CONSTRAINT: export the behaviour once, when it is complete
GExport == IF Len(hist) = GenLen THEN PrintT(ToJson([why |-> "sim", era |-> era, steps |-> hist])) ELSE TRUE
GBound == Len(hist) <= GenLen
=============================================================================
