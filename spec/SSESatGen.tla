----------------------------- MODULE SSESatGen -----------------------------
(* Scenario generator by simulation: the seam-level behaviours of SSESat (the *)
(* environment acts only when the SDK has settled) with a history of the      *)
(* environment actions in the step vocabulary of harness/mcp/sse_sat_test.go. *)
EXTENDS SSESatMC, Json
VARIABLE hist
hvars == <<vars, hist>>

Sn(s) == "s" \o ToString(s)
Tf(b) == IF b THEN "true" ELSE "false"
H(step) == hist' = Append(hist, step)
HEnv ==
  \/ \E s \in Sess : ConnectS(s) /\ H(<<"connect", Sn(s)>>)
  \/ \E s \in Sess, k \in CC : CCallS(s, k) /\ H(<<"ccall", Sn(s), ToString(k)>>)
  \/ \E s \in Sess, k \in CC, wn \in BOOLEAN : HNestS(s, k, wn) /\ H(<<"hnest", Sn(s), ToString(k), Tf(wn)>>)
  \/ \E s \in Sess, k \in CC : HAbandonS(s, k) /\ H(<<"habandon", Sn(s), ToString(k)>>)
  \/ \E s \in Sess, k \in CC : CHRetS(s, k) /\ H(<<"chret", Sn(s), ToString(k)>>)
  \/ \E s \in Sess, k \in CC, wn \in BOOLEAN : HRetS(s, k, wn) /\ H(<<"hret", Sn(s), ToString(k), Tf(wn)>>)
  \/ \E s \in Sess, n \in CN : SNRetS(s, n) /\ H(<<"snret", Sn(s), ToString(n)>>)
  \/ \E s \in Sess, n \in CN, fu \in CC \cup {0} : CNoteS(s, n, fu) /\ H(<<"cnote", Sn(s), ToString(n), ToString(fu)>>)
  \/ \E s \in Sess, n \in SN : SNoteS(s, n) /\ H(<<"snote", Sn(s), ToString(n)>>)
  \/ \E s \in Sess, n \in SN : CNRetS(s, n) /\ H(<<"cnret", Sn(s), ToString(n)>>)
  \/ \E s \in Sess, how \in {"B", "Q"} : CutS(s, how) /\ H(<<"cut", Sn(s), how>>)
  \/ \E s \in Sess, how \in {"B", "A"} : ArmPFS(s, how) /\ H(<<"armpf", Sn(s), how>>)
  \/ \E s \in Sess : CCloseS(s) /\ H(<<"cclose", Sn(s)>>)
  \/ \E s \in Sess : SCloseS(s) /\ H(<<"sclose", Sn(s)>>)
  \/ \E s \in Sess : InjectS(s) /\ H(<<"inject", Sn(s)>>)
  \/ \E s \in Sess : HoldStreamS(s) /\ H(<<"holdstream", Sn(s)>>)
  \/ \E s \in Sess : RelStreamS(s) /\ H(<<"relstream", Sn(s)>>)
  \/ \E s \in Sess : HoldPostS(s) /\ H(<<"holdpost", Sn(s)>>)
  \/ \E s \in Sess : RelPostS(s) /\ H(<<"relpost", Sn(s)>>)
HNext == (Internal /\ UNCHANGED hist) \/ HEnv
HSpec == Init /\ hist = <<>> /\ [][HNext]_hvars

\* export for -simulate: every settled state prints its history (prefix-closed; the runner keeps the longest of a behaviour)
Export == IF Len(hist) >= 3 /\ Settled THEN PrintT(ToJson([steps |-> hist])) ELSE TRUE
=============================================================================
