---------------------------- MODULE LifecycleRunMC ----------------------------
(* Bounded configurations of LifecycleRun (property C06, handlers with a      *)
(* duration).  A script = a PREFIX that puts the session into a phase         *)
(* (instantaneous messages), then exactly MaxEv events of which the first     *)
(* parks a handler, then the release of every gate that is still closed.      *)
(*  LifecycleRun_gen*.cfg   every such script: PingAlwaysServed at every      *)
(*                          quiescence, the clauses of Lifecycle on the       *)
(*                          settled observations of every completed script;   *)
(*                          every completed script is exported for replay.    *)
(*  LifecycleRun_whatif*.cfg the same with a feature call that holds the      *)
(*                          queue (Variant): PingAlwaysServed must be         *)
(*                          VIOLATED.                                         *)
EXTENDS LifecycleRun, Json, SequencesExt

CONSTANTS MaxEv,       \* events after the prefix
          MaxHeld,     \* how many of them may park a handler
          MaxWait,     \* how many messages are delivered while a notification handler holds the queue
          Variant,     \* "asis" | "sync_until_init" | "sync_calls"
          AlphaSel     \* "core" | "wide": the letters sent while something runs

VARIABLES rs,          \* the code-shaped machine
          j,           \* the property's bookkeeping
          phase,       \* name of the prefix
          hist,        \* events so far (prefix included), as observation lines
          nev,         \* events after the prefix
          nheld,       \* of which parked
          okPing       \* PingAlwaysServed held at the last quiescence
vars == <<rs, j, phase, hist, nev, nheld, okPing>>

P(m, mt) == L(m, mt, IF m = MInit THEN "legacy" ELSE "na", "plain", "exact")
\* the phases: fresh; initialize accepted; initialized; a session that has served server/discover (2026-07-28).
\* ("fresh + a 2026-07-28 first call that is still running" is the fresh prefix followed by a parked call with
\* complete metadata.)
PhasePrefix == [fresh |-> <<>>, initAccepted |-> <<P(MInit, "none")>>,
             initialized |-> <<P(MInit, "none"), P(MInited, "none")>>, discovered |-> <<P(MDiscover, "ok")>>]
\* messages whose handler may be parked: feature calls with and without complete metadata, the three notifications
\* with a user handler, and a call that is refused (its handler is never entered)
HeldLetters == {P("tools/call", "none"), P("tools/call", "ok"), P("prompts/get", "ok"), P("completion/complete", "none"),
                P(MProgress, "none"), P(MInited, "none"), P(MRoots, "none"), P("tools/call", "newer")}
CoreInst == {P(MPing, "none"), P(MPing, "ok"), P("tools/list", "none"), P("tools/list", "ok"), P("tools/call", "ok"),
             P(MInit, "none"), P(MInited, "none"), P(MProgress, "none")}
WideInst == CoreInst \cup {P("tools/call", "none"), P(MDiscover, "ok"), P(MCancel, "none"), P("tools/list", "nocaps"),
                           P(MSetLevel, "none"), P("prompts/get", "none")}
InstLetters == IF AlphaSel = "core" THEN CoreInst ELSE WideInst

RECURSIVE Feed(_, _, _)
\* <<rs, j, lines>> after sending the letters of s, instantaneous
Feed(x, s, i) ==
  IF i > Len(s) THEN x
  ELSE LET r2 == RunSend(x[1], s[i], FALSE, Variant)
           o == RunLine(r2, "send", Len(r2.ms), s[i], FALSE)
       IN Feed(<<r2, JStep(x[2], o), Append(x[3], o)>>, s, i + 1)

Init == \E ph \in DOMAIN PhasePrefix :
          LET x == Feed(<<Run0, J0, <<>> >>, PhasePrefix[ph], 1) IN
          /\ phase = ph /\ rs = x[1] /\ j = x[2] /\ hist = x[3]
          /\ nev = 0 /\ nheld = 0 /\ okPing = TRUE

Send(l, held) ==
  LET r2 == RunSend(rs, l, held, Variant)
      o == RunLine(r2, "send", Len(r2.ms), l, held)
      j2 == JStep(j, o)
  IN /\ nev < MaxEv
     /\ (nev = 0 => held)                                   \* nothing new happens before a handler is parked
     /\ (held => nheld < MaxHeld /\ l \in HeldLetters)
     /\ (~held => l \in InstLetters)
     /\ Len(rs.q) < MaxWait \/ rs.sync = 0
     /\ rs' = r2 /\ j' = j2 /\ hist' = Append(hist, o)
     /\ nev' = nev + 1 /\ nheld' = nheld + (IF held THEN 1 ELSE 0)
     /\ okPing' = PingAlwaysServed(j2, o)
     /\ UNCHANGED phase

Release(k) ==
  LET r2 == RunRelease(rs, k, Variant)
      o == RunLine(r2, "release", k, j.lt[k], TRUE)
      j2 == JStep(j, o)
  IN /\ nev < MaxEv /\ nev > 0
     /\ CanRelease(rs, k)
     /\ rs' = r2 /\ j' = j2 /\ hist' = Append(hist, o)
     /\ nev' = nev + 1 /\ okPing' = PingAlwaysServed(j2, o)
     /\ UNCHANGED <<phase, nheld>>

Next == \/ \E l \in HeldLetters \cup InstLetters, held \in BOOLEAN : Send(l, held)
        \/ \E k \in 1..Len(rs.ms) : Release(k)
Spec == Init /\ [][Next]_vars

\* ---- closing a script: every gate that is still closed is released, the one that holds the queue first
RECURSIVE Closing(_)
\* <<rs, j, lines, ok>> -> the same after all releases
Closing(x) ==
  LET r == x[1] IN
  IF r.sync = 0 /\ r.calls = {} THEN x
  ELSE LET k == IF r.sync # 0 THEN r.sync ELSE CHOOSE c \in r.calls : \A c2 \in r.calls : c <= c2
           r2 == RunRelease(r, k, Variant)
           o == RunLine(r2, "release", k, x[2].lt[k], TRUE)
           j2 == JStep(x[2], o)
       IN Closing(<<r2, j2, Append(x[3], o), x[4] /\ PingAlwaysServed(j2, o)>>)
Complete == nev = MaxEv
Closed == Closing(<<rs, j, hist, TRUE>>)

\* ---- design check
InvPingAlwaysServed == okPing
InvPingAlwaysServedClosing == Complete => Closed[4]
\* the clauses of Lifecycle on the settled observations of the completed script
InvSettled == Complete => LET c == Closed IN SettledFailures(c[2], c[3][Len(c[3])], 1, Mu0, TRUE) = {}
\* the two sides agree on who waits (as-is machine)
InvWaitAgrees == Variant = "asis" => /\ j.gate = rs.sync /\ Waiting(j) = {rs.q[i].n : i \in DOMAIN rs.q} /\ j.cg = rs.calls
TypeOK == /\ Len(rs.ms) = Len(rs.fin) /\ Len(j.lt) = Len(rs.ms) /\ Len(j.snap) = Len(rs.ms)
          /\ rs.ent \subseteq DOMAIN rs.ms /\ rs.calls \subseteq rs.ent /\ (rs.sync # 0 => rs.sync \in rs.ent)
          /\ (rs.q # <<>> => rs.sync # 0)

\* ---- export of completed scripts (an invariant: evaluated once per distinct state)
LetterJson(l) == [m |-> l.m, mt |-> l.mt, ip |-> l.ip, sp |-> l.sp, mk |-> l.mk]
EvJson(o) == [k |-> o.k, n |-> o.n, l |-> LetterJson(o.l), held |-> o.held]
Export == IF Complete
          THEN LET c == Closed[3] IN
               PrintT(ToJson([run |-> [i \in 1..Len(c) |-> EvJson(c[i])], phase |-> phase, npre |-> Len(PhasePrefix[phase])]))
          ELSE TRUE

\* ---- witnesses (each must be VIOLATED): a ping is answered while a feature call runs; a ping is excused
NoPingBesideCall == ~(hist # <<>> /\ PingBesideCall(j, hist[Len(hist)]))
NoPingExcused == ~(hist # <<>> /\ PingExcused(j, hist[Len(hist)]))
=============================================================================
