SPECIFICATION Spec
CONSTANTS
  N = 2
  SharedFields = {}
  RegModes = {"dcr", "pre"}
  AdvChoices <- AdvUniform
  LaterServers = {"S1", "S2"}
  CbKinds = {"own", "other", "stale", "badiss"}
  TokenOutcomes = {"good"}
INVARIANTS TypeOK ExchangeOnlyOwnState MetaBoundToAttempt PreregBoundToIssuer NoTokenAfterFailure VerifierBoundToAttempt ClientBoundToAttempt ResourceBoundToAttempt TokenFromOwnExchange CodeAsDelivered OwnCallbackAccepted
CHECK_DEADLOCK FALSE
