SPECIFICATION Spec
CONSTANTS
  Interval = 4
  MaxLen = 6
  Thresholds <- ThoroughThresholds
  AnswerDelays = {0, 1}
  DrainLens = {1, 2}
INVARIANTS TypeOK InvAccuracy InvTiming InvSilentStop InvCounter InvCompleteness InvFinal InvGoneAtClose InvNoTickAfterUser InvGoneWhenClosing
PROPERTIES NoPingAfterStop Terminates
CHECK_DEADLOCK FALSE
