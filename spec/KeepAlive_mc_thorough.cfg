SPECIFICATION Spec
CONSTANTS
  Interval = 16
  MaxLen = 6
  Thresholds <- ThoroughThresholds
  AnswerDelays = {0, 4}
  DrainLens = {1, 2}
  HsSlots <- GenHsSlots
  CtxSlots <- GenCtxSlots
  EnvMaxLen = 4
  EnvProduct = TRUE
  StallKinds <- AllStalls
  MaxStalls = 2
  StallMaxLen = 4
  EstModes <- AllEst
  EstMaxLen = 3
INVARIANTS TypeOK InvAccuracy InvTiming InvSilentStop InvCounter InvCompleteness InvFinal InvGoneAtClose InvNoTickAfterUser InvGoneWhenClosing InvGrid
PROPERTIES NoPingAfterStop Terminates
CHECK_DEADLOCK FALSE
