SPECIFICATION Spec
CONSTANTS
  Interval = 8
  MaxLen = 6
  Thresholds <- ThoroughThresholds
  AnswerDelays = {0, 2}
  DrainLens = {1, 2}
  HsSlots <- GenHsSlots
  CtxSlots <- GenCtxSlots
  EnvMaxLen = 4
  EnvProduct = TRUE
INVARIANTS TypeOK InvAccuracy InvTiming InvSilentStop InvCounter InvCompleteness InvFinal InvGoneAtClose InvNoTickAfterUser InvGoneWhenClosing
PROPERTIES NoPingAfterStop Terminates
CHECK_DEADLOCK FALSE
