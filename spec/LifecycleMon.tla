---------------------------- MODULE LifecycleMon ----------------------------
(* Monitor for C06, evaluated by TLC over observations recorded from a real  *)
(* mcp.Server by harness/mcp/c06_lifecycle_test.go (one line per message:    *)
(* the abstract letter that was concretised and sent, and what was observed  *)
(* afterwards at quiescence).                                                *)
(*  verdict  the clauses of Lifecycle!ClauseNames, evaluated on the real     *)
(*           observation with the property's own phase tracker (PStep), which *)
(*           follows the session from the messages and replies alone;         *)
(*  strict   equality of the observation with the code-shaped Lifecycle!Step  *)
(*           ("drift"; raw transports only: the HTTP transport adds its own   *)
(*           gate in front of the session, which Step does not model).        *)
EXTENDS VerifTrace, FiniteSets
LC == INSTANCE Lifecycle

VARIABLES l,     \* next line
          mu,    \* property phase tracker
          st,    \* code-shaped session state (strict comparison)
          prem   \* how often each clause's premise was true (vacuity of the real run)
mvars == <<l, mu, st, prem>>

MInit == /\ l = 1 /\ mu = LC!Mu0 /\ st = LC!St0 /\ prem = [c \in LC!ClauseNames |-> 0] /\ MarkInit

Letter(e) == [m |-> e.l.m, mt |-> e.l.mt, ip |-> e.l.ip, sp |-> e.l.sp, mk |-> e.l.mk]
Observed(e) == [reply |-> e.o.reply, code |-> e.o.code, nlist |-> e.o.nlist, h |-> AsSet(e.o.h),
                ipv |-> e.o.ipv, tag |-> e.o.tag]
\* does the endpoint serve protocol 2026-07-28 at all?
ModernEndpoint(e) == e.tr # "http"

FailAt(ln, inv, m) == PrintT(ToJson([monfail |-> inv, line |-> ln, phase |-> LC!PhaseName(m)]))
CheckAt(ln, inv, m, ok) == IF ok THEN TRUE ELSE FailAt(ln, inv, m)

MNext ==
  /\ l <= NLines
  /\ l' = l + 1
  /\ LET e   == TraceLog[l]
         mu0 == IF e.new THEN LC!Mu0 ELSE mu
         st0 == IF e.new THEN LC!St0 ELSE st
         lt  == Letter(e)
         o   == Observed(e)
         ms  == ModernEndpoint(e)
         exp == LC!Step(st0, lt, e.n)
     IN /\ \A c \in LC!ClauseNames : CheckAt(l, c, mu0, LC!ClauseHolds(c, mu0, lt, o, ms))
        /\ CheckAt(l, "OneReply", mu0, e.nrep <= 1)
        /\ (IF e.tr = "http" THEN TRUE ELSE CheckAt(l, "drift", mu0, o = exp.o))
        /\ (IF LC!OutsideLegacyScope(mu0, lt, o) THEN PrintT(ToJson([note |-> "outside-legacy-scope", line |-> l])) ELSE TRUE)
        /\ mu' = LC!PStep(mu0, lt, o, ms)
        /\ st' = exp.st
        /\ prem' = [c \in LC!ClauseNames |-> prem[c] + (IF LC!Premise(c, mu0, lt, ms) THEN 1 ELSE 0)]
        /\ (IF l = NLines THEN PrintT(ToJson([premises |-> prem'])) ELSE TRUE)

MSpec == MInit /\ [][MNext]_mvars
MMark == MarkAt(l)
MAccepted == Accepted
=============================================================================
