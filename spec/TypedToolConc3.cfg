SPECIFICATION Spec
CONSTANTS
  N = 3
  Shared = FALSE
INVARIANT TypeOK
INVARIANT PerCallOutput
INVARIANT NonInterference
INVARIANT ExportDone
CHECK_DEADLOCK FALSE
