---------------------------- MODULE KeepAliveMC ----------------------------
(* Bounded configurations of KeepAlive (property C13).                       *)
(*  KeepAlive_mc_*.cfg   exhaustive check of the design: every outcome script *)
(*                       up to MaxLen x every threshold x both closing modes  *)
(*                       x every answer delay.                                *)
(*  KeepAlive_gen.cfg    same check with a single answer delay (one behaviour *)
(*                       per case); every terminal state is exported as the   *)
(*                       case the Go harness runs, with the code-shaped       *)
(*                       expectation (pings sent, closing instant).           *)
EXTENDS KeepAlive, Json

CaseJson == [pattern |-> script, T |-> thr0, end |-> endMode,
             drain |-> drain, drainAt |-> drainedAt,
             nping |-> k, closeAt |-> closedAt, userAt |-> userAt, unit |-> Interval,
             final |-> pc, ticks |-> [i \in 1..Len(hist) |-> hist[i].at]]
\* used as an invariant: evaluated once per distinct state, TRUE always
Export == IF Terminal THEN PrintT(ToJson(CaseJson)) ELSE TRUE

\* thresholds of the thorough configuration (the cfg syntax has no negative literals)
ThoroughThresholds == {-1, 0, 1, 2, 3, 4}

\* reachability witnesses (each must be VIOLATED, otherwise the model is vacuous)
NeverClosed == closedAt < 0
NeverStopped == pc # "stopped"
NeverTolerated == ~(pc = "select" /\ cf > 0)
NeverReset == ~(pc = "select" /\ cf = 0 /\ \E i \in 1..Len(hist) : hist[i].o \in Failures)
NeverDrained == drainedAt < 0
NeverLateClose == ~(pc = "closed" /\ userAt >= 0)
=============================================================================
