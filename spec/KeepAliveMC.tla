---------------------------- MODULE KeepAliveMC ----------------------------
(* Bounded configurations of KeepAlive (property C13).                       *)
(*  KeepAlive_mc_*.cfg   exhaustive check of the design: every outcome script *)
(*                       up to MaxLen x every threshold x the closing modes   *)
(*                       x every answer delay x (scripts up to EnvMaxLen) the *)
(*                       handshake slots and the Connect-context slots.       *)
(*  KeepAlive_gen.cfg    same check with a single answer delay (one behaviour *)
(*                       per case); every terminal state is exported as the   *)
(*                       case the Go harness runs, with the code-shaped       *)
(*                       expectation (pings sent, closing instant).           *)
EXTENDS KeepAlive, Json

CaseJson == [pattern |-> script, T |-> thr0, end |-> endMode,
             drain |-> drain, drainAt |-> drainedAt,
             hs |-> hs, cc |-> cc, hsAt |-> HsTime, ccAt |-> CcTime,
             nping |-> k, closeAt |-> closedAt, userAt |-> userAt, unit |-> Interval,
             final |-> pc, ticks |-> [i \in 1..Len(hist) |-> hist[i].at]]
\* used as an invariant: evaluated once per distinct state, TRUE always
Export == IF Terminal THEN PrintT(ToJson(CaseJson)) ELSE TRUE

\* thresholds of the thorough configuration (the cfg syntax has no negative literals)
ThoroughThresholds == {-1, 0, 1, 2, 3, 4}
\* handshake and Connect-context slots
NoHs == {0}
NoCtx == {-1}
GenHsSlots == {-1, 0, 1, 2, 3, 4}
GenCtxSlots == {-1, 0, 1, 2, 3, 4}
WitHsSlots == {-1, 0, 1, 2}
WitCtxSlots == {-1, 0, 1}

\* reachability witnesses (each must be VIOLATED, otherwise the model is vacuous)
NeverClosed == closedAt < 0
NeverStopped == pc # "stopped"
NeverTolerated == ~(pc = "select" /\ cf > 0)
NeverReset == ~(pc = "select" /\ cf = 0 /\ \E i \in 1..Len(hist) : hist[i].o \in Failures)
NeverDrained == drainedAt < 0
NeverLateClose == ~(pc = "closed" /\ userAt >= 0)
\* the loop pings a peer that has not (yet) completed the handshake, and closes it when it fails those pings
NeverPingBeforeHandshake == ~(\E i \in 1..Len(hist) : hs < 0 \/ hist[i].at < HsTime)
NeverClosedBeforeHandshake == ~(closedAt >= 0 /\ (hs < 0 \/ closedAt < HsTime))
NeverAnsweredBeforeHandshake == ~(\E i \in 1..Len(hist) : hist[i].o = "a" /\ hs > 0 /\ hist[i].at < HsTime /\ Inited)
\* the loop keeps pinging, and closes a silent peer, after the Connect context has ended
NeverPingAfterCtxCancel == ~(\E i \in 1..Len(hist) : cc >= 0 /\ hist[i].at > CcTime)
NeverClosedAfterCtxCancel == ~(cc >= 0 /\ closedAt > CcTime /\ ConnCtxDone)
=============================================================================
