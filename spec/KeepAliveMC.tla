---------------------------- MODULE KeepAliveMC ----------------------------
(* Bounded configurations of KeepAlive (property C13).                       *)
(*  KeepAlive_mc_*.cfg   exhaustive check of the design: every outcome script *)
(*                       up to MaxLen x every threshold x the closing modes   *)
(*                       x every answer delay x (scripts up to EnvMaxLen) the *)
(*                       handshake slots and the Connect-context slots.       *)
(*  KeepAlive_gen.cfg    same check with a single answer delay (one behaviour *)
(*                       per case); every terminal state is exported as the   *)
(*                       case the Go harness runs, with the code-shaped       *)
(*                       expectation (pings sent, closing instant).           *)
(*  Both also cover (bounded by MaxStalls / StallMaxLen / EstMaxLen) pings    *)
(*  that the session's transport holds past their deadline or past one or two *)
(*  ticks, and the ways a session is established on the side that pings.      *)
EXTENDS KeepAlive, Json

CaseJson == [pattern |-> script, T |-> thr0, end |-> endMode,
             drain |-> drain, drainAt |-> drainedAt,
             hs |-> hs, cc |-> cc, hsAt |-> HsTime, ccAt |-> CcTime,
             est |-> est, sides |-> SidesOf, userPlan |-> UserTime,
             holds |-> [i \in 1..Len(hist) |-> hist[i].h],
             durs |-> [i \in 1..Len(script) |-> HoldOf(script[i])],
             nping |-> k, closeAt |-> closedAt, userAt |-> userAt, unit |-> Interval,
             final |-> pc, ticks |-> [i \in 1..Len(hist) |-> hist[i].at]]
\* used as an invariant: evaluated once per distinct state, TRUE always
Export == IF Terminal THEN PrintT(ToJson(CaseJson)) ELSE TRUE

\* thresholds of the thorough configuration (the cfg syntax has no negative literals)
ThoroughThresholds == {-1, 0, 1, 2, 3, 4}
\* handshake and Connect-context slots
NoHs == {0}
NoCtx == {-1}
GenHsSlots == {-1, 0, 1, 2, 3, 4}
GenCtxSlots == {-1, 0, 1, 2, 3, 4}
WitHsSlots == {-1, 0, 1, 2}
WitCtxSlots == {-1, 0, 1}
AllStalls == {"l0", "l1", "l2"}
AllEst == {"init", "fallback", "modern"}

\* reachability witnesses (each must be VIOLATED, otherwise the model is vacuous)
NeverClosed == closedAt < 0
NeverStopped == pc # "stopped"
NeverTolerated == ~(pc = "select" /\ cf > 0)
NeverReset == ~(pc = "select" /\ cf = 0 /\ \E i \in 1..Len(hist) : hist[i].o \in Failures)
NeverDrained == drainedAt < 0
NeverLateClose == ~(pc = "closed" /\ userAt >= 0)
\* the loop pings a peer that has not (yet) completed the handshake, and closes it when it fails those pings
NeverPingBeforeHandshake == ~(\E i \in 1..Len(hist) : hs < 0 \/ hist[i].at < HsTime)
NeverClosedBeforeHandshake == ~(closedAt >= 0 /\ (hs < 0 \/ closedAt < HsTime))
NeverAnsweredBeforeHandshake == ~(\E i \in 1..Len(hist) : hist[i].o = "a" /\ hs > 0 /\ hist[i].at < HsTime /\ Inited)
\* the loop keeps pinging, and closes a silent peer, after the Connect context has ended
NeverPingAfterCtxCancel == ~(\E i \in 1..Len(hist) : cc >= 0 /\ hist[i].at > CcTime)
NeverClosedAfterCtxCancel == ~(cc >= 0 /\ closedAt > CcTime /\ ConnCtxDone)
\* a ping is held past a tick and the loop pings again at once (off the ticker's phase), a
\* tick is dropped, a held ping below the threshold is followed by an answered one (the
\* session stays), a held ping completes the threshold (the session is closed late)
NeverCatchUp == ~(\E i \in 1..Len(hist) : hist[i].at % Interval # 0)
NeverDroppedTick == ~(\E i \in 1..(Len(hist) - 1) : hist[i + 1].at - hist[i].at > 2 * Interval)
NeverRecoveredAfterHold == ~(pc = "select" /\ cf = 0 /\ \E i \in 1..(Len(hist) - 1) :
                               hist[i].o = "l" /\ hist[i].h > Interval /\ hist[i + 1].o = "a")
NeverToleratedHold == ~(pc = "select" /\ cf > 0 /\ hist[Len(hist)].o = "l")
NeverClosedByHold == ~(closedAt >= 0 /\ hist[Len(hist)].o = "l" /\ closedAt > hist[Len(hist)].at + Interval)
\* a session that fell back to initialize is pinged and closed; one without ping is left alone
NeverClosedAfterFallback == ~(est = "fallback" /\ closedAt >= 0)
NeverModern == ~(est = "modern" /\ userAt >= 0)
\* the owner closes while a ping is held and a tick is waiting; the loop leaves without serving it
NeverLeftWithTickWaiting == ~(pc = "done" /\ pendTick /\ endMode = "held")
\* All witnesses in one run (KeepAlive_wit.cfg, one worker): the first state that refutes a
\* witness is reported, registers 101.. remember which have been.
WitNames == <<"NeverClosed", "NeverStopped", "NeverTolerated", "NeverReset", "NeverDrained", "NeverLateClose",
              "NeverPingBeforeHandshake", "NeverClosedBeforeHandshake", "NeverAnsweredBeforeHandshake",
              "NeverPingAfterCtxCancel", "NeverClosedAfterCtxCancel",
              "NeverCatchUp", "NeverDroppedTick", "NeverRecoveredAfterHold", "NeverToleratedHold", "NeverClosedByHold",
              "NeverClosedAfterFallback", "NeverModern", "NeverLeftWithTickWaiting">>
WitHolds == <<NeverClosed, NeverStopped, NeverTolerated, NeverReset, NeverDrained, NeverLateClose,
              NeverPingBeforeHandshake, NeverClosedBeforeHandshake, NeverAnsweredBeforeHandshake,
              NeverPingAfterCtxCancel, NeverClosedAfterCtxCancel,
              NeverCatchUp, NeverDroppedTick, NeverRecoveredAfterHold, NeverToleratedHold, NeverClosedByHold,
              NeverClosedAfterFallback, NeverModern, NeverLeftWithTickWaiting>>
WitInit == \A i \in 1..Len(WitNames) : TLCSet(100 + i, FALSE)
WitSpec == (WitInit /\ Init) /\ [][Next]_vars
WitMark == \A i \in 1..Len(WitNames) :
              IF ~WitHolds[i] /\ ~TLCGet(100 + i)
              THEN TLCSet(100 + i, TRUE) /\ PrintT(ToJson([wit |-> WitNames[i]])) ELSE TRUE
=============================================================================
