SPECIFICATION Spec
CONSTANTS
  Cap = 1
  RespDuringShutdown = TRUE
  RefuseOffLoop = TRUE
  CallsAB = {"a1","a2"}
  CallsBA = {"b1","b2"}
  Nest = {"a1"}
INVARIANTS TypeOK NoStuck
PROPERTIES CloseTerminates CallsComplete PeerNotices
CHECK_DEADLOCK FALSE
