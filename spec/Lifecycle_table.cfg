SPECIFICATION Spec
CONSTANTS
  MaxLen = 0
  AlphaSel = "full"
VIEW TableView
INVARIANTS TypeOK RowOK RowGateBeforeInit RowDuplicateInitRejected RowPrematureInitializedRejected
  RowRepeatedInitializedRejected RowFirstInitializedTakesEffect RowPingAlways RowModernServedIffMetaComplete RowRemovedMethodsNotFound
  RowLeadBreaksGate ExportLeads ExportRow ExportAlphabet
CHECK_DEADLOCK FALSE
