SPECIFICATION Spec
CONSTANTS
  Interval = 16
  MaxLen = 6
  Thresholds = {0, 1, 2, 3}
  AnswerDelays = {0}
  DrainLens = {1, 2}
  HsSlots <- GenHsSlots
  CtxSlots <- GenCtxSlots
  EnvMaxLen = 4
  EnvProduct = FALSE
  StallKinds <- AllStalls
  MaxStalls = 1
  StallMaxLen = 4
  EstModes <- AllEst
  EstMaxLen = 3
INVARIANTS TypeOK InvAccuracy InvTiming InvSilentStop InvCounter InvCompleteness InvFinal InvGoneAtClose InvNoTickAfterUser InvGoneWhenClosing InvGrid Export
PROPERTIES NoPingAfterStop Terminates
CHECK_DEADLOCK FALSE
