SPECIFICATION Spec
CONSTANTS
  Interval = 8
  MaxLen = 6
  Thresholds = {0, 1, 2, 3}
  AnswerDelays = {0}
  DrainLens = {1, 2}
  HsSlots <- GenHsSlots
  CtxSlots <- GenCtxSlots
  EnvMaxLen = 4
  EnvProduct = FALSE
INVARIANTS TypeOK InvAccuracy InvTiming InvSilentStop InvCounter InvCompleteness InvFinal InvGoneAtClose InvNoTickAfterUser InvGoneWhenClosing Export
PROPERTIES NoPingAfterStop Terminates
CHECK_DEADLOCK FALSE
