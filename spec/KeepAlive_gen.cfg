SPECIFICATION Spec
CONSTANTS
  Interval = 4
  MaxLen = 6
  Thresholds = {0, 1, 2, 3}
  AnswerDelays = {0}
  DrainLens = {1, 2}
INVARIANTS InvFinal Export
CHECK_DEADLOCK FALSE
