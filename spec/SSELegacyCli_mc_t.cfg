SPECIFICATION MCFairSpec
CONSTANTS
  MaxEv = 3
  MaxRead = 4
  MaxWrite = 2
  EpSet = {"rel", "absother", "bad"}
  WrSet = {"202", "4xx", "neterr"}
  EvSet = {"msg", "named", "junk", "comment"}
  EndSet = {"eof", "err", "cutdata", "cutblank"}
INVARIANTS TypeOK EndpointFirst PostTarget WriteResult ReadOrder EndSurfaces CloseEnds EndCloses
PROPERTIES AfterClose EofAfterClose Quiesce
CHECK_DEADLOCK FALSE
