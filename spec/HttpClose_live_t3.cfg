SPECIFICATION MCLive
CONSTANTS
  Calls = {"k1"}
  CCl = {}
  SCl = {"s1"}
  Stateless = FALSE
  Timeout = TRUE
  Sse = TRUE
  Nested = TRUE
  Faults = {"vanish"}
  DelModes = {}
  Helds = FALSE
  Notifs = FALSE
  Cancels = TRUE
  AwaitHandlers = TRUE
  StopSseOnClose = TRUE
VIEW MCView
PROPERTIES SrvCloseReturns SrvWaitReturns CliWaitReturns SrvNoLeftovers CliNoLeftovers
CHECK_DEADLOCK FALSE
