SPECIFICATION Spec
CONSTANTS
  N = 2
  SharedFields = {"verifier"}
  RegModes = {"dcr", "pre"}
  AdvChoices <- AdvUniform
  LaterServers = {"S1", "S2"}
  CbKinds = {"own", "other", "stale", "badiss"}
  TokenOutcomes = {"good"}
INVARIANT VerifierBoundToAttempt
CHECK_DEADLOCK FALSE
