SPECIFICATION Spec
CONSTANTS
  Guarded = TRUE
  Max2 = 2
  Max3 = 1
  Attrs3 = TRUE
INVARIANTS TypeOK Contiguous Export
PROPERTIES Finishes
