SPECIFICATION Spec
CONSTANTS
  Sessions = {"s1","s2"}
  Streams = {"t1","t2"}
  Sizes = {0,1,3}
  Limits = {1,2,4}
  Iters = {}
  CoverIdxN = 0
  DefaultMax = 100
  MaxAppends = 4
CONSTRAINT Bound
VIEW MCView
INVARIANTS Accounting SuffixRetained Bounded AfterExact ClosedReleased NoPanic NeverNegative
PROPERTY FirstMonotone
