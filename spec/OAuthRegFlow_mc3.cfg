SPECIFICATION FairSpec
CONSTANTS
  Rounds = 3
  ExOutcomes <- ExCore
INVARIANTS TypeOK SecretsOnlyToSafe SecretsToRightParty OnlyIDJAGForwarded TokenOnlyIfAllPassed ResultKnown OkIffInstalled
PROPERTIES NoTokenAfterFailure Termination
CHECK_DEADLOCK FALSE
