SPECIFICATION Spec
CONSTANTS
  Keys = {"a", "b", "c"}
  MaxRetries = 10
  MaxShed = 3
  MaxCalls = 1
  MaxManual = 2
  Modes = {"new", "newoff", "old", "oldoff"}
  Others = {FALSE, TRUE}
INVARIANTS TypeOK Bounded EchoExact CliJustified OnlyWhileFulfilling FinalOutcome EndsForAReason WireOK Channel NoOrphanOnNew PassThrough
PROPERTIES NoRetryAfterFailure
VIEW MCView
CHECK_DEADLOCK FALSE
