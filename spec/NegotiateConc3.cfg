SPECIFICATION Spec
CONSTANTS
  NConn = 3
  ServerWide = FALSE
  Fine = FALSE
  Family = "triple"
INVARIANT TypeOK
INVARIANT ConcSound
INVARIANT ConcNoModernOverLegacyTransport
INVARIANT ConcExact
INVARIANT ConcFallback
INVARIANT ConcUsable
INVARIANT NonInterference
INVARIANT NonInterferenceList
INVARIANT ExportDone
CHECK_DEADLOCK FALSE
