SPECIFICATION MCCoverSpec
CONSTANTS
  MaxSess = 2
  T = 3
  Stateless = FALSE
  MaxSlots = 1
  MaxParked = 2
  StoreModes = {"nopurge", "down"}
VIEW CoverView
INVARIANTS NoTimeoutDuringPost ClosedAndForgotten TimerDiscipline
CHECK_DEADLOCK FALSE
