----------------------------- MODULE PaginateMon -----------------------------
(* Property monitor for C17, evaluated by TLC over observations recorded from *)
(* a real mcp.Server and a real mcp.Client connected by in-memory transports. *)
(* It tracks the registered set itself from the recorded mutations and judges *)
(* the recorded pages, iterator outputs and cursor probes.  It states only    *)
(* what C17 states: it knows nothing about sort order, page sizes, or the     *)
(* cursor encoding.                                                           *)
(*                                                                            *)
(* Lines (every field is present on every line):                              *)
(*   reset   trace kind ps init      new server; `init` registered before use *)
(*           (clsmap lens salt scheme: which identifier class every id has    *)
(*           and how its concrete unique id is reproduced - short names, long *)
(*           URIs, unusual characters.  The monitor does not read them: the   *)
(*           property is the same for every identifier.)                      *)
(*   mut     op(add|remove|replace) id                                        *)
(*   start   hid                    a manual traversal starts (empty cursor)  *)
(*                                  while a visibility filter between server  *)
(*                                  and client hides the ids `hid` (<<>>: no  *)
(*                                  filter): what is registered as far as the *)
(*                                  client can tell is reg \ hid              *)
(*   page    ids more err capped    one ListX call of the traversal (ids: the *)
(*                                  items that arrived; more: it carries a    *)
(*                                  cursor - also when ids is empty;          *)
(*                                  endcls curlen: class of the identifier    *)
(*                                  inside that cursor, not read here)        *)
(*   iter    cls hid seq man err    iterator run to completion from a cursor  *)
(*                                  and manual paging from the same cursor,   *)
(*                                  both under the filter hid, no mutation in *)
(*                                  between (cls "start": from the empty      *)
(*                                  cursor)                                   *)
(*   iterrun trav seq err           the same history replayed on a fresh      *)
(*                                  server through the iterator: output for   *)
(*                                  the trav-th traversal                     *)
(*   cursor  cls ids more err alive a ListX call with an arbitrary cursor     *)
(*                                  followed by a ping                        *)
EXTENDS VerifTrace, FiniteSets

VARIABLES l,
          reg,     \* registered ids, from the recorded mutations
          act,     \* a traversal is in progress
          stable,  \* ids registered at every moment since the traversal started
          hid,     \* ids hidden by the visibility filter during the traversal
          seen,    \* concatenation of the pages of the traversal
          mutd,    \* the registered set changed since the traversal started
          hist,    \* completed traversals without mutation: <<visible set, sequence>>
          travs    \* sequences of all completed traversals, in order (for iterrun)
mvars == <<l, reg, act, stable, hid, seen, mutd, hist, travs>>

Range(q) == {q[i] : i \in DOMAIN q}
Count(q, x) == Cardinality({i \in DOMAIN q : q[i] = x})
ExactlyTheSet(q, S) == Range(q) = S /\ Len(q) = Cardinality(S)

MInit == /\ l = 1 /\ reg = {} /\ act = FALSE /\ stable = {} /\ hid = {} /\ seen = <<>> /\ mutd = FALSE
         /\ hist = <<>> /\ travs = <<>> /\ MarkInit

Reset(e) == /\ reg' = AsSet(e.init) /\ act' = FALSE /\ stable' = {} /\ hid' = {} /\ seen' = <<>> /\ mutd' = FALSE
            /\ hist' = <<>> /\ travs' = <<>>

Mut(e) ==
  LET reg1 == IF e.op = "remove" THEN reg \ {e.id} ELSE reg \cup {e.id} IN
  /\ reg' = reg1
  /\ stable' = IF e.op = "remove" THEN stable \ {e.id} ELSE stable
  /\ mutd' = (mutd \/ (act /\ reg1 # reg))
  /\ Check(l, "NoCrash", e.err = "")
  /\ UNCHANGED <<act, hid, seen, hist, travs>>

Start(e) == /\ act' = TRUE /\ stable' = reg /\ hid' = AsSet(e.hid) /\ seen' = <<>> /\ mutd' = FALSE
            /\ UNCHANGED <<reg, hist, travs>>

\* a response that is a crash, a hang, or leaves the server unable to answer a ping
Dead(e) == e.err \in {"crash", "hang"} \/ ~e.alive

Page(e) ==
  LET seen1 == seen \o e.ids
      ended == e.err = "" /\ ~e.more IN
  /\ Check(l, "NoCrash", ~Dead(e))
  \* a cursor issued by the server is accepted, and the traversal ends with an empty cursor
  /\ Check(l, "EndsWithEmptyCursor", e.err = "" /\ ~e.capped)
  /\ seen' = seen1
  /\ IF ended
     THEN /\ Check(l, "ExactlyOnceNoMutation", ~mutd => ExactlyTheSet(seen1, reg \ hid))
          /\ Check(l, "StableExactlyOnce", \A i \in stable \ hid : Count(seen1, i) = 1)
          \* one stable order: an unmutated traversal of the same set always lists the same sequence
          /\ Check(l, "StableOrder", ~mutd => \A k \in DOMAIN hist : hist[k][1] = reg \ hid => hist[k][2] = seen1)
          /\ hist' = IF mutd THEN hist ELSE Append(hist, <<reg \ hid, seen1>>)
          /\ travs' = Append(travs, seen1)
          /\ act' = FALSE
     ELSE /\ act' = (e.err = "" /\ ~e.capped)
          /\ UNCHANGED <<hist, travs>>
  /\ UNCHANGED <<reg, stable, hid, mutd>>

\* the iterator yields the same sequence as manual paging - whatever the pages looked like on arrival
\* (full, shortened or empty with a cursor: e.hid says what the filter removed)
Iter(e) ==
  LET vis == reg \ AsSet(e.hid) IN
  /\ Check(l, "NoCrash", ~Dead(e))
  /\ Check(l, "IteratorEqualsManual", e.err = "" /\ e.seq = e.man)
  /\ Check(l, "ExactlyOnceNoMutation", (e.cls = "start" /\ e.err = "") => ExactlyTheSet(e.man, vis))
  /\ Check(l, "StableOrder", (e.cls = "start" /\ e.err = "") => \A k \in DOMAIN hist : hist[k][1] = vis => hist[k][2] = e.man)
  /\ UNCHANGED <<reg, act, stable, hid, seen, mutd, hist, travs>>

IterRun(e) ==
  /\ Check(l, "NoCrash", ~Dead(e))
  /\ Check(l, "IteratorEqualsManual", e.trav \in DOMAIN travs => (e.err = "" /\ e.seq = travs[e.trav]))
  /\ UNCHANGED <<reg, act, stable, hid, seen, mutd, hist, travs>>

Cursor(e) ==
  /\ Check(l, "NoCrash", ~Dead(e))
  /\ Check(l, "BadCursorRejected", e.cls = "malformed" => e.err = "invalid-params")
  /\ UNCHANGED <<reg, act, stable, hid, seen, mutd, hist, travs>>

MNext == /\ l <= NLines
         /\ l' = l + 1
         /\ LET e == TraceLog[l] IN
              CASE e.ev = "reset"   -> Reset(e)
                [] e.ev = "mut"     -> Mut(e)
                [] e.ev = "start"   -> Start(e)
                [] e.ev = "page"    -> Page(e)
                [] e.ev = "iter"    -> Iter(e)
                [] e.ev = "iterrun" -> IterRun(e)
                [] e.ev = "cursor"  -> Cursor(e)

MSpec == MInit /\ [][MNext]_mvars
MMark == MarkAt(l)
MAccepted == Accepted
=============================================================================
