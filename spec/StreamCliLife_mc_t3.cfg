\* thorough: OAuth with cancel and two closes
SPECIFICATION Spec
CONSTANTS
  NC = 2
  SASet = {TRUE, FALSE}
  OAuthSet = {TRUE}
  DelSet = {"405", "neterr"}
  PostSet = {"json", "sse", "401", "404", "5xx", "202"}
  GetSet = {"sse", "405"}
  InitH = {"A"}
  HSet = {"", "A"}
  MaxNotify = 0
  MaxSaEv = 0
  MaxAuth = 2
  MaxClose = 2
  AllowCancel = TRUE
  FixCancel = FALSE
  FixStream = FALSE
INVARIANTS TypeOK SessionHeader VersionHeader OnePostPerMessage Standalone PerMessage Usable GoneStops GoneNoDelete GoneFailsAll
  TerminalFailsPending DeleteOnce DeleteWhenLive CloseWaits StandaloneCancelled RetiredOnce
CHECK_DEADLOCK FALSE
