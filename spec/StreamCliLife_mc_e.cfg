\* exhaustive: cancelled Connect, failing DELETE, second Close
SPECIFICATION Spec
CONSTANTS
  NC = 1
  SASet = {TRUE, FALSE}
  OAuthSet = {FALSE}
  DelSet = {"neterr", "ok"}
  PostSet = {"json", "http", "neterr"}
  GetSet = {"sse", "405"}
  InitH = {"A"}
  HSet = {""}
  MaxNotify = 0
  MaxSaEv = 0
  MaxAuth = 0
  MaxClose = 2
  AllowCancel = TRUE
  FixCancel = FALSE
  FixStream = FALSE
INVARIANTS TypeOK SessionHeader VersionHeader OnePostPerMessage Standalone PerMessage Usable GoneStops GoneNoDelete GoneFailsAll
  TerminalFailsPending DeleteOnce DeleteWhenLive CloseWaits StandaloneCancelled RetiredOnce
CHECK_DEADLOCK FALSE
