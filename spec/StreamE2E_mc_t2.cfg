SPECIFICATION Spec
CONSTANTS
  Reqs <- R2
  HasSa = FALSE
  PrimeSet <- Both
  MaxRetries = 2
  MaxWrites = 4
  MaxCuts = 3
  MaxFails = 3
  ArmN = 1
  CutHows <- HowsBasic
  FailKinds <- FailsBasic
  SrvRenumberBug = FALSE
INVARIANTS TypeOK ExactlyOnceInOrder WholeAtRest CallCompletes NoCrossStream BrokenOnlyWhenExhausted DrainedWhole NoDeadEnd
CHECK_DEADLOCK FALSE
