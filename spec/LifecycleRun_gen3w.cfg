SPECIFICATION Spec
CONSTANTS
  MaxEv = 3
  MaxHeld = 2
  MaxWait = 1
  Variant = "asis"
  AlphaSel = "wide"
INVARIANTS TypeOK InvPingAlwaysServed InvPingAlwaysServedClosing InvSettled InvWaitAgrees Export
CHECK_DEADLOCK FALSE
