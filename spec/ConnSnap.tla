------------------------------ MODULE ConnSnap ------------------------------
(* Snapshot-level monitor for jsonrpc2.Connection: the projection of Conn.tla *)
(* onto what the verif hook logs.  It needs nothing but the `cs` lines, so it *)
(* can be evaluated over the critical-section traces of ANY execution - in    *)
(* particular over the repository's own test-suite run with the hooks on     *)
(* (VERIF_TRACE_DIR), which turns those tests into a corpus of several        *)
(* thousand real connection histories (streamable, SSE, stdio, in-memory).    *)
(* For every connection, every pair of consecutive snapshots must be a step   *)
(* that some critical section of the named function can make in Conn.tla      *)
(* (StepOK), and the shutdown invariants of C05 / C01 must hold.              *)
EXTENDS VerifTrace, FiniteSets

VARIABLES l, prev     \* prev: connection -> last snapshot
Idle(s) == s.out = 0 /\ s.outNotif = 0 /\ s.incoming = 0 /\ ~s.handlerRunning
Shutting(s) == s.closing \/ s.readErr \/ s.writeErr

\* effect of the tail of updateInFlight, allowed on top of any step
EpiOK(p, q) ==
  /\ (q.closerNil /\ ~p.closerNil) => (Idle(q) /\ Shutting(q))            \* the transport is closed only when idle and shutting down
  /\ (q.done /\ ~p.done) => (Idle(q) /\ Shutting(q) /\ ~q.reading /\ q.closerNil)
  /\ (Idle(q) /\ Shutting(q) /\ ~p.done) => q.closerNil                    \* ... and it IS closed then
Same(p, q, fields) == \A f \in fields : p[f] = q[f]
Counters == {"out", "outNotif", "incoming", "inById", "queue"}
Flags == {"closing", "reading", "readErr", "writeErr", "handlerRunning"}

\* what one critical section of the named function may change (besides the tail's closerNil / done)
StepOK(fn, p, q) ==
  CASE fn = "(*Connection).start" -> q.reading /\ Same(p, q, Counters \cup (Flags \ {"reading"}))
    [] fn = "(*Connection).Call" -> /\ q.out \in {p.out, p.out + 1} /\ (q.out = p.out + 1 => ~Shutting(p))
                                    /\ Same(p, q, (Counters \ {"out"}) \cup Flags)
    [] fn = "(*Connection).write" -> /\ Same(p, q, Counters \cup (Flags \ {"writeErr"})) /\ (p.writeErr => q.writeErr)
    [] fn = "(*Connection).Retire" -> q.out \in {p.out, p.out - 1} /\ Same(p, q, (Counters \ {"out"}) \cup Flags)
    [] fn = "(*Connection).Notify" -> /\ q.outNotif \in {p.outNotif, p.outNotif + 1}
                                      /\ (q.outNotif = p.outNotif + 1 => (~Shutting(p) \/ p.out > 0 \/ p.inById > 0))
                                      /\ Same(p, q, (Counters \ {"outNotif"}) \cup Flags)
    [] fn = "(*Connection).Notify.func1" -> q.outNotif = p.outNotif - 1 /\ Same(p, q, (Counters \ {"outNotif"}) \cup Flags)
    [] fn = "(*Connection).acceptRequest" ->
         \/ /\ q.incoming = p.incoming + 1 /\ q.inById \in {p.inById, p.inById + 1}            \* accept
            /\ Same(p, q, {"out", "outNotif", "queue"} \cup Flags)
         \/ /\ q.queue \in {p.queue, p.queue + 1} /\ (q.queue = p.queue + 1 => (~Shutting(p) /\ q.handlerRunning))   \* enqueue
            /\ (q.queue = p.queue => q.handlerRunning = p.handlerRunning)
            /\ Same(p, q, {"out", "outNotif", "incoming", "inById"} \cup (Flags \ {"handlerRunning"}))
    [] fn = "(*Connection).readIncoming" ->
         \/ q.out \in {p.out, p.out - 1} /\ Same(p, q, (Counters \ {"out"}) \cup Flags)      \* a response
         \/ /\ ~q.reading /\ q.readErr /\ q.out = 0                                            \* the read loop exits
            /\ Same(p, q, (Counters \ {"out"}) \cup {"closing", "writeErr", "handlerRunning"})
    [] fn = "(*Connection).handleAsync" ->
         \/ q.queue = p.queue - 1 /\ Same(p, q, (Counters \ {"queue"}) \cup Flags)
         \/ p.queue = 0 /\ ~q.handlerRunning /\ Same(p, q, Counters \cup (Flags \ {"handlerRunning"}))
    [] fn = "(*Connection).processResult" ->
         \/ q.inById \in {p.inById, p.inById - 1} /\ Same(p, q, (Counters \ {"inById"}) \cup Flags)
         \/ q.incoming = p.incoming - 1 /\ p.incoming > 0 /\ Same(p, q, (Counters \ {"incoming"}) \cup Flags)
    [] fn = "(*Connection).Cancel" -> Same(p, q, Counters \cup Flags)
    [] fn = "(*Connection).Close" -> q.closing /\ Same(p, q, Counters \cup (Flags \ {"closing"}))
    [] fn = "(*Connection).wait" -> Same(p, q, Counters \cup Flags)
    [] OTHER -> FALSE

MInit == l = 1 /\ prev = <<>> /\ MarkInit
Snap(e) == [closing |-> e.s.closing, reading |-> e.s.reading, readErr |-> e.s.readErr, writeErr |-> e.s.writeErr,
            closerNil |-> e.s.closerNil, done |-> e.s.done, out |-> e.s.out, outNotif |-> e.s.outNotif,
            incoming |-> e.s.incoming, inById |-> e.s.inById, queue |-> e.s.queue, handlerRunning |-> e.s.handlerRunning]
MNext ==
  /\ l <= NLines /\ l' = l + 1
  /\ LET e == TraceLog[l]  q == Snap(e) IN
       /\ prev' = [x \in DOMAIN prev \cup {e.c} |-> IF x = e.c THEN q ELSE prev[x]]
       /\ Check(l, "C05.CountsSane", q.out >= 0 /\ q.outNotif >= 0 /\ q.incoming >= 0 /\ q.inById <= q.incoming /\ q.queue <= q.incoming)
       /\ Check(l, "C05.IdleWhenDone", q.done => (Idle(q) /\ ~q.reading /\ q.closerNil))
       /\ IF e.c \in DOMAIN prev
          THEN LET p == prev[e.c] IN
               /\ Check(l, "C05.DoneIsFinal", p.done => (q.done /\ Idle(q)))
               /\ Check(l, "C05.FlagsMonotone", /\ (p.closing => q.closing) /\ (p.readErr => q.readErr) /\ (p.writeErr => q.writeErr)
                                               /\ (p.closerNil => q.closerNil) /\ (~p.reading /\ p.readErr => ~q.reading))
               /\ Check(l, "C05.TransportClosedOnlyWhenIdle", EpiOK(p, q))
               /\ Check(l, "C05.NothingEnqueuedAfterClose", p.closing => q.queue <= p.queue)
               /\ Check(l, "C01.NoCallAdmittedWhileShuttingDown", Shutting(p) => q.out <= p.out)
               /\ Check(l, "drift", p.done \/ StepOK(e.fn, p, q))
          ELSE TRUE
MSpec == MInit /\ [][MNext]_<<l, prev>>
MMark == MarkAt(l)
MAccepted == Accepted
=============================================================================
