----------------------------- MODULE PaginateMC -----------------------------
(* Bounded exhaustive configurations of Paginate (C17).                      *)
(* Histories are bounded by the number of mutations and of traversals; page   *)
(* fetches are bounded by the termination of each traversal.  `res` is output *)
(* only and hidden from the fingerprint.                                      *)
EXTENDS Paginate

Bound == nMut <= MaxMut /\ nTrav <= MaxTrav
\* hidden-set families for the configurations (HiddenSets <- ...)
AllHidden == SUBSET Ids
NoHidden == {{}}
\* quick exhaustive run under mutation: no filter, a whole first page (size 1 or 2), an inner id, all but the first
\* (every filter x every registered set x every page size without mutation is WalkOK, in every configuration)
SomeHidden == {{}, {1, 2}, {3}, Ids \ {1}}

\* class-map families for the configurations (ClassMaps <- ...)
\* every id of the same class: every page boundary, whatever the page size, is an identifier of that class
UniformMaps == [k \in Kinds |-> {[i \in Ids |-> c] : c \in Classes(k)}]
\* one identifier of a class among short ones, at every position
OneAmongShort == [k \in Kinds |-> {[i \in Ids |-> IF i = b THEN c ELSE ShortClass] : b \in Ids, c \in Classes(k) \ {ShortClass}}]
QuickMaps == UniformMaps
ThoroughMaps == [k \in Kinds |-> UniformMaps[k] \cup OneAmongShort[k]]
\* the exhaustive runs under mutation: the behaviour of the model does not depend on kind and classes (they are
\* outside MCView), one mixed assignment stands for all; the boundary configuration below enumerates them
MixedMap == [k \in Kinds |-> {[i \in Ids |-> IF i % 2 = 1 THEN ShortClass ELSE CHOOSE c \in Classes(k) : c # ShortClass]}]

MCView == <<registered, idxValid, idx, pageSize, tActive, tDone, tCursor, tHidden, tSeen, tStable, tInit, tMut, nMut, nTrav>>

\* the exhaustive runs do not need the read-only probes in the state graph: their results are
\* checked in every state by ProbesOK instead
MCNext ==
  \/ \E i \in Ids : Add(i) \/ Remove(i) \/ Replace(i)
  \/ \E H \in HiddenSets : StartTraversal(H)
  \/ FetchPage
MCSpec == Init /\ [][MCNext]_svars

ProbesOK ==
  /\ \A c \in Cursors :
       LET r == ListResult(c) IN
         /\ r.kind = "page"
         /\ Len(r.items) <= pageSize
         /\ Range(r.items) \subseteq {i \in registered : i > c}
         /\ IsStrictlyIncreasing(r.items)
         /\ r.next = 0 <=> Cardinality({i \in registered : i > c}) <= pageSize
         /\ r.next # 0 => r.next = r.items[Len(r.items)]
  /\ ListResult(BadCur).kind = "invalid-params"
  /\ Walk(SortKeys, pageSize, 0, Cardinality(Ids) + 1, {}) = SortedSeq(registered)

\* the iterator (follow the cursor, whatever arrived) yields the visible registered items under EVERY filter;
\* the walk depends on (registered, pageSize) only, all of which occur before the first traversal
WalkOK == ~tActive => \A H \in SUBSET Ids : Walk(SortKeys, pageSize, 0, Cardinality(Ids) + 1, H) = SortedSeq(registered \ H)

\* Cover configuration: the graph handed to tools/graphwalk.py.  One initial state; the first step
\* (Setup) chooses the initially registered set and the page size, so that a path through the
\* graph is a complete, self-contained history.  The ghost variables are hidden so that the graph
\* stays small; enabledness of every action depends on view variables only.
CoverView == <<registered, idxValid, pageSize, tActive, tDone, tCursor>>
\* (the behaviour of the model does not depend on kind and classes, so this graph carries a placeholder: they are
\* chosen when a history is replayed - feature kinds in turn, class maps of the boundary graph's family in turn or
\* classes drawn from the seed)
CoverInit == /\ registered = {} /\ idxValid = FALSE /\ idx = <<>> /\ pageSize = 0
             /\ kind = "tools" /\ cls = [i \in Ids |-> ShortClass]
             /\ tActive = FALSE /\ tDone = FALSE /\ tCursor = 0 /\ tEndCls = NoClass /\ tHidden = {} /\ tSeen = <<>>
             /\ tStable = {} /\ tInit = {} /\ tMut = FALSE /\ nMut = 0 /\ nTrav = 0
             /\ res = [kind |-> "none"]
Setup(S, ps) ==
  /\ pageSize = 0
  /\ registered' = S /\ pageSize' = ps
  /\ res' = [kind |-> "ok"]
  /\ UNCHANGED <<idxValid, idx, kind, cls, tActive, tDone, tCursor, tEndCls, tHidden, tSeen, tStable, tInit, tMut, nMut, nTrav>>
Ready == pageSize # 0
CAdd(i) == Ready /\ Add(i)
CRemove(i) == Ready /\ Remove(i)
CReplace(i) == Ready /\ Replace(i)
CStartTraversal(H) == Ready /\ StartTraversal(H)
CFetchPage == Ready /\ FetchPage
CIterate(H) == Ready /\ Iterate(H)
CoverNext ==
  \/ \E S \in SUBSET Ids, ps \in PageSizes : Setup(S, ps)
  \/ \E i \in Ids : CAdd(i) \/ CRemove(i) \/ CReplace(i)
  \/ \E H \in HiddenSets : CStartTraversal(H)
  \/ CFetchPage
  \/ \E H \in HiddenSets : CIterate(H)
CoverSpec == CoverInit /\ [][CoverNext]_svars
CoverInv == pageSize # 0 => (ExactlyOnceNoMutation /\ StableExactlyOnce /\ StrictlyIncreasing /\ IteratorEqualsManual /\ IndexFresh /\ HiddenNeverSeen /\ EndClassExplicit)

\* Boundary configuration: the second graph handed to tools/graphwalk.py.  The first step chooses the feature kind,
\* the page size and the class of every identifier (ClassMaps[kind]); all ids are registered.  Then traversals
\* without a filter, the iterator between traversals, and - while a traversal stands at a cursor - removal of the
\* very identifier the cursor was made from (a stale cursor of that class).  kind, cls and tEndCls are in the view:
\* an edge cover of this graph puts every class at the end of a non-final page for every kind and page size
\* (BoundaryCovers is checked by TLC; the check script also counts it in the log of the real run).
BoundaryView == <<kind, cls, registered, idxValid, pageSize, tActive, tDone, tCursor, tEndCls>>
BSetup(k, ps, m) ==
  /\ pageSize = 0
  /\ kind' = k /\ cls' = m /\ registered' = Ids /\ pageSize' = ps
  /\ res' = [kind |-> "ok"]
  /\ UNCHANGED <<idxValid, idx, tActive, tDone, tCursor, tEndCls, tHidden, tSeen, tStable, tInit, tMut, nMut, nTrav>>
AtCursor(i) == tActive /\ ~tDone /\ tCursor = i
\* (enabledness depends on view variables only: at most one removal per history, the iterator between traversals)
BRemove(i) == AtCursor(i) /\ registered = Ids /\ CRemove(i)
BIterate == (~tActive \/ tDone) /\ CIterate({})
BoundaryNext ==
  \/ \E k \in Kinds, ps \in PageSizes : \E m \in ClassMaps[k] : BSetup(k, ps, m)
  \/ CStartTraversal({})
  \/ CFetchPage
  \/ BIterate
  \/ \E i \in Ids : BRemove(i)
BoundarySpec == CoverInit /\ [][BoundaryNext]_svars
BoundaryInv == pageSize # 0 => (TypeOK /\ CoverInv /\ NoDuplicates /\ EndsWithEmptyCursor /\ PageShape)
\* with every id registered, id i ends a non-final page of an unmutated traversal iff ps divides i and i is not the last
BoundaryCovers == pageSize = 0 =>
  \A k \in Kinds, ps \in PageSizes : \A c \in Classes(k) :
     \E m \in ClassMaps[k] : \E i \in Ids : m[i] = c /\ i % ps = 0 /\ i < Cardinality(Ids)

\* reachability witnesses (each must be VIOLATED, otherwise the model is vacuous)
NeverStaleCursor == ~(tActive /\ ~tDone /\ tCursor # 0 /\ tCursor \notin registered)
NeverDoneMutated == ~(tDone /\ tMut /\ tStable # {} /\ tStable # tInit)
NeverUnstableSeen == ~(tDone /\ \E i \in Range(tSeen) : i \notin tStable)
NeverMultiPage == ~(tDone /\ Len(tSeen) > pageSize)
\* an empty page that carries a cursor arrived, and later pages brought items
NeverEmptyPageThenItems == ~(tDone /\ tSeen # <<>> /\ tHidden # {} /\ tSeen[1] > pageSize /\ ~tMut /\ (1..pageSize) \subseteq tInit)
\* a shortened page with a cursor
NeverShortPage == ~(tActive /\ ~tDone /\ tCursor # 0 /\ tSeen # <<>> /\ Len(tSeen) < pageSize /\ ~tMut)
=============================================================================
