----------------------------- MODULE PaginateMC -----------------------------
(* Bounded exhaustive configurations of Paginate (C17).                      *)
(* Histories are bounded by the number of mutations and of traversals; page   *)
(* fetches are bounded by the termination of each traversal.  `res` is output *)
(* only and hidden from the fingerprint.                                      *)
EXTENDS Paginate

Bound == nMut <= MaxMut /\ nTrav <= MaxTrav
\* hidden-set families for the configurations (HiddenSets <- ...)
AllHidden == SUBSET Ids
NoHidden == {{}}
\* quick exhaustive run under mutation: no filter, a whole first page (size 1 or 2), an inner id, all but the first
\* (every filter x every registered set x every page size without mutation is WalkOK, in every configuration)
SomeHidden == {{}, {1, 2}, {3}, Ids \ {1}}

MCView == <<registered, idxValid, idx, pageSize, tActive, tDone, tCursor, tHidden, tSeen, tStable, tInit, tMut, nMut, nTrav>>

\* the exhaustive runs do not need the read-only probes in the state graph: their results are
\* checked in every state by ProbesOK instead
MCNext ==
  \/ \E i \in Ids : Add(i) \/ Remove(i) \/ Replace(i)
  \/ \E H \in HiddenSets : StartTraversal(H)
  \/ FetchPage
MCSpec == Init /\ [][MCNext]_svars

ProbesOK ==
  /\ \A c \in Cursors :
       LET r == ListResult(c) IN
         /\ r.kind = "page"
         /\ Len(r.items) <= pageSize
         /\ Range(r.items) \subseteq {i \in registered : i > c}
         /\ IsStrictlyIncreasing(r.items)
         /\ r.next = 0 <=> Cardinality({i \in registered : i > c}) <= pageSize
         /\ r.next # 0 => r.next = r.items[Len(r.items)]
  /\ ListResult(BadCur).kind = "invalid-params"
  /\ Walk(SortKeys, pageSize, 0, Cardinality(Ids) + 1, {}) = SortedSeq(registered)

\* the iterator (follow the cursor, whatever arrived) yields the visible registered items under EVERY filter;
\* the walk depends on (registered, pageSize) only, all of which occur before the first traversal
WalkOK == ~tActive => \A H \in SUBSET Ids : Walk(SortKeys, pageSize, 0, Cardinality(Ids) + 1, H) = SortedSeq(registered \ H)

\* Cover configuration: the graph handed to tools/graphwalk.py.  One initial state; the first step
\* (Setup) chooses the initially registered set and the page size, so that a path through the
\* graph is a complete, self-contained history.  The ghost variables are hidden so that the graph
\* stays small; enabledness of every action depends on view variables only.
CoverView == <<registered, idxValid, pageSize, tActive, tDone, tCursor>>
CoverInit == /\ registered = {} /\ idxValid = FALSE /\ idx = <<>> /\ pageSize = 0
             /\ tActive = FALSE /\ tDone = FALSE /\ tCursor = 0 /\ tHidden = {} /\ tSeen = <<>>
             /\ tStable = {} /\ tInit = {} /\ tMut = FALSE /\ nMut = 0 /\ nTrav = 0
             /\ res = [kind |-> "none"]
Setup(S, ps) ==
  /\ pageSize = 0
  /\ registered' = S /\ pageSize' = ps
  /\ res' = [kind |-> "ok"]
  /\ UNCHANGED <<idxValid, idx, tActive, tDone, tCursor, tHidden, tSeen, tStable, tInit, tMut, nMut, nTrav>>
Ready == pageSize # 0
CAdd(i) == Ready /\ Add(i)
CRemove(i) == Ready /\ Remove(i)
CReplace(i) == Ready /\ Replace(i)
CStartTraversal(H) == Ready /\ StartTraversal(H)
CFetchPage == Ready /\ FetchPage
CIterate(H) == Ready /\ Iterate(H)
CoverNext ==
  \/ \E S \in SUBSET Ids, ps \in PageSizes : Setup(S, ps)
  \/ \E i \in Ids : CAdd(i) \/ CRemove(i) \/ CReplace(i)
  \/ \E H \in HiddenSets : CStartTraversal(H)
  \/ CFetchPage
  \/ \E H \in HiddenSets : CIterate(H)
CoverSpec == CoverInit /\ [][CoverNext]_svars
CoverInv == pageSize # 0 => (ExactlyOnceNoMutation /\ StableExactlyOnce /\ StrictlyIncreasing /\ IteratorEqualsManual /\ IndexFresh /\ HiddenNeverSeen)

\* reachability witnesses (each must be VIOLATED, otherwise the model is vacuous)
NeverStaleCursor == ~(tActive /\ ~tDone /\ tCursor # 0 /\ tCursor \notin registered)
NeverDoneMutated == ~(tDone /\ tMut /\ tStable # {} /\ tStable # tInit)
NeverUnstableSeen == ~(tDone /\ \E i \in Range(tSeen) : i \notin tStable)
NeverMultiPage == ~(tDone /\ Len(tSeen) > pageSize)
\* an empty page that carries a cursor arrived, and later pages brought items
NeverEmptyPageThenItems == ~(tDone /\ tSeen # <<>> /\ tHidden # {} /\ tSeen[1] > pageSize /\ ~tMut /\ (1..pageSize) \subseteq tInit)
\* a shortened page with a cursor
NeverShortPage == ~(tActive /\ ~tDone /\ tCursor # 0 /\ tSeen # <<>> /\ Len(tSeen) < pageSize /\ ~tMut)
=============================================================================
