CONSTANT Full = FALSE
