
