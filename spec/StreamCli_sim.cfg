SPECIFICATION Spec
CONSTANTS
  KindSet = {"post", "sa"}
  ShapeSet <- AllShapes
  SchemeSet = {"dec", "nested"}
  MSet = {2, 3}
  MRSet = {1, 2}
  MaxCuts = 3
  ClassSet = {"bnd", "field", "name", "id", "idfull", "data", "datafull"}
  AnswerSet = {"terr", "ok", "5xx", "404"}
  FixScanner = FALSE
  FixCursor = FALSE
  Fix5xx = FALSE
INVARIANTS Export
CHECK_DEADLOCK FALSE
