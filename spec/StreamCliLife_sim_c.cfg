\* simulation: cancelled Connect, failing DELETE
SPECIFICATION SettledSpec
CONSTANTS
  NC = 2
  SASet = {TRUE}
  OAuthSet = {FALSE}
  DelSet = {"neterr"}
  PostSet = {"json", "sse", "202", "rpcerr", "404", "http", "5xx", "neterr"}
  GetSet = {"sse", "405", "404", "4xx", "500", "200plain", "503sse", "neterr"}
  InitH = {"A"}
  HSet = {"", "A", "B"}
  MaxNotify = 1
  MaxSaEv = 2
  MaxAuth = 0
  MaxClose = 2
  AllowCancel = TRUE
  FixCancel = FALSE
  FixStream = FALSE
INVARIANTS TypeOK SessionHeader VersionHeader DeleteOnce GoneStops
CHECK_DEADLOCK FALSE
