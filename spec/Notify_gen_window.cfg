SPECIFICATION GenSpec
CONSTANTS
  Sessions = {"L1", "M1"}
  Legacy = {"L1"}
  InitOn = {"L1", "M1"}
  InitSub = {}
  Kinds = {"tools"}
  NotifOf <- NotifStd
  Uris = {}
  Want <- WantAll
  CapOff = {}
  CapMode <- ModeInferred
  InitSize <- Size3
  MaxSize = 3
  Dirs = {"mod"}
  SendGate = "configured"
  TTLPos = FALSE
  D = 2
  MaxTime = 6
  MaxChanges = 2
  MaxUpdates = 0
  MaxCalls = 0
  NPages = 1
  ListenOwns = TRUE
  ResubRace = TRUE
  GenCheck = TRUE
  ColdBump = TRUE
  ModernUnsub = FALSE
  ForeignUnsub = FALSE
  Listeners = {}
  MaxListens = 0
  FailUndo = TRUE
  Stepwise = TRUE
  Gates = FALSE
  GateNames = {"inv", "usr", "put"}
  ClientFirst = FALSE
  MinSteps = 1
  MaxSteps = 7
  Bias = FALSE
  Script <- ScriptNone
  GenOps = {"change", "tchange", "updated", "connect", "close", "subscribe", "unsubscribe", "list", "tick", "hold", "release"}
INVARIANTS Export NeverLost OnlyEntitled NoneWhenDisabled UpdatedExactlySubscribers Fresh ForgottenOnClose
CHECK_DEADLOCK FALSE
