SPECIFICATION GenSpec
CONSTANTS
  Sessions = {"M1"}
  Legacy = {}
  InitOn = {"M1"}
  InitSub = {}
  Kinds = {"tools"}
  NotifOf <- NotifStd
  Uris = {"u1"}
  Want <- WantAll
  CapOff = {}
  CapMode <- ModeInferred
  InitSize <- Size3
  MaxSize = 3
  Dirs = {"mod"}
  SendGate = "configured"
  TTLPos = FALSE
  D = 2
  MaxTime = 4
  MaxChanges = 1
  MaxUpdates = 0
  MaxCalls = 0
  NPages = 1
  ListenOwns = FALSE
  ResubRace = TRUE
  GenCheck = TRUE
  ColdBump = TRUE
  ModernUnsub = TRUE
  ForeignUnsub = FALSE
  Listeners = {}
  MaxListens = 0
  FailUndo = TRUE
  Stepwise = TRUE
  Gates = FALSE
  GateNames = {"inv", "usr", "put"}
  ClientFirst = FALSE
  MinSteps = 1
  MaxSteps = 8
  Bias = FALSE
  Script <- ScriptNone
  GenOps = {"change", "tchange", "updated", "connect", "close", "subscribe", "unsubscribe", "list", "tick", "hold", "release"}
INVARIANTS LeadNeverLost
CHECK_DEADLOCK FALSE
