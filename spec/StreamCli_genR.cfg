\* behaviour export: one cut anywhere, then runs of k = 1 .. MaxRetries + 1 resumed bodies that end at offset 0, then a whole body
\* (tools/checks/c09.py builds its configurations from the same template - the Fix* switches of the configurations that model
\*  the real code come from its REPAIRED table; this file is the thorough-tier one, for manual runs:
\*  java -cp $TLA_CP tlc2.TLC -config StreamCli_genR.cfg StreamCliMC)
SPECIFICATION Spec
CONSTANTS
  KindSet = {"post", "sa"}
  ShapeSet <- IdShapes
  SchemeSet = {"dec"}
  MSet = {2}
  MRSet = {1, 2, 3}
  MaxCuts = 5
  ClassSet = {"bnd", "data"}
  AnswerSet = {"terr", "ok", "502"}
  TailSet = {"good"}
  RetrySet = {"none"}
  FixScanner = FALSE
  FixCursor = TRUE
  Fix5xx = TRUE
CONSTRAINT Runs
INVARIANTS Export
CHECK_DEADLOCK FALSE
