\* quick liveness: Close/Wait return, nothing left (weak fairness; handlers return, held exchanges end)
SPECIFICATION MCLive
CONSTANTS
  Calls = {"k1"}
  CCl = {"c1"}
  SCl = {}
  Stateless = FALSE
  Timeout = TRUE
  Sse = TRUE
  Nested = FALSE
  Faults = {}
  DelModes = {"hang"}
  Helds = FALSE
  Notifs = FALSE
  Cancels = FALSE
  AwaitHandlers = TRUE
  StopSseOnClose = TRUE
VIEW MCView
PROPERTIES SrvCloseReturns CliCloseReturns SrvWaitReturns CliWaitReturns SrvNoLeftovers CliNoLeftovers
CHECK_DEADLOCK FALSE
