--------------------------- MODULE LifecycleHttpMC ---------------------------
(* Design check, what-if and case export for the HTTP decision table of C06   *)
(* (LifecycleHttp): evaluated by TLC as assumptions, no behaviour.            *)
EXTENDS LifecycleHttp

\* -------------------------------------------------- design check and export
DesignOK == \A c \in HCases : HHolds(c, HExpected(c))
\* every clause says something about some case, and both outcomes occur in the table
NotVacuous == /\ \A k \in HClauseNames : \E c \in HCases : HPremise(k, c)
              /\ \E c \in HCases : HServed(HExpected(c)) /\ IsModernVer(c.bv)
              /\ \E c \in HCases : ~HServed(HExpected(c)) /\ IsModernVer(c.bv) /\ ~Consistent(c) /\ Stateful(c.ep)
\* What-if: the transport runs its SEP-2575 checks only on the header (a body that names 2026-07-28 under an absent
\* or legacy header goes straight to the session).  Must break the property - otherwise crossing header and body
\* adds nothing to the table.
HExpectedHeaderOnly(c) ==
  IF c.hv = "unk_old" \/ HeaderModern(c.hv) THEN HExpected(c)
  ELSE LET r == SessionStep(c) IN
       HObs(r.o.reply, r.o.code, r.o.nlist, r.o.code = CUnsupportedVer, r.o.h, Left(c, r.st))
WhatIfRefuted == /\ \E c \in HCases : c.ep = "nosid" /\ c.hv = "absent" /\ "HModernOnlyIfGood" \in HFailed(c, HExpectedHeaderOnly(c))
                 /\ \E c \in HCases : c.ep = "sess" /\ c.hv = "legacy" /\ "HModernOnlyIfGood" \in HFailed(c, HExpectedHeaderOnly(c))
                 /\ \A c \in HCases : HFailed(c, HExpectedHeaderOnly(c)) # {} => (~HeaderModern(c.hv) /\ IsModernVer(c.bv) /\ Stateful(c.ep))

CaseJson(c) == [ep |-> c.ep, hv |-> c.hv, bv |-> c.bv, m |-> c.m, consistent |-> Consistent(c)]
Export == ndJsonSerialize("httpcases.ndjson", SetToSeq({CaseJson(c) : c \in HCases}))

ASSUME DesignOK
ASSUME NotVacuous
ASSUME WhatIfRefuted
ASSUME PrintT(ToJson([httpcases |-> Cardinality(HCases),
                      premises |-> [k \in HClauseNames |-> Cardinality({c \in HCases : HPremise(k, c)})]]))
ASSUME Export
=============================================================================
