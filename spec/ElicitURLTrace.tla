---------------------------- MODULE ElicitURLTrace ----------------------------
(* Strict trace specification for X10 part (b): every line the harness logged *)
(* at a seam of the real client (application call / scripted server / handler *)
(* gate / notification gate) must be the ElicitURL action of that name with   *)
(* the logged arguments; the steps of the middleware between two seams are    *)
(* not logged and are inferred by TLC (internal steps).  A `snap` line is     *)
(* taken when every goroutine is durably blocked (synctest.Wait): the model   *)
(* must then be quiescent and its waiter table must have exactly the logged   *)
(* keys.  A mismatch is DRIFT (the code no longer behaves like ElicitURL).    *)
EXTENDS ElicitURL, VerifTrace

VARIABLE l
tvars == <<vars, l>>

\* any list / any kind may be logged
RECURSIVE SeqsUpTo(_)
SeqsUpTo(n) == IF n = 0 THEN {<<>>} ELSE SeqsUpTo(n - 1) \cup {Append(s, i) : s \in SeqsUpTo(n - 1), i \in Ids}
TraceLists(c) == SeqsUpTo(MaxLen)
TraceKinds(c) == {"ok", "err", "urlreq", "urlbad", "urlnourl"}

TReset(e) ==
  /\ cfgH' = e.cfgh
  /\ pc' = [c \in Calls |-> "idle"] /\ try' = [c \in Calls |-> 0]
  /\ resp' = [c \in Calls |-> NoResp] /\ first' = [c \in Calls |-> NoResp]
  /\ lst' = [c \in Calls |-> <<>>] /\ idx' = [c \in Calls |-> 1] /\ nreg' = [c \in Calls |-> 0]
  /\ tok' = [c \in Calls |-> [k \in Slots |-> 0]]
  /\ pending' = [i \in IdsAll |-> Nil]
  /\ ctx' = [c \in Calls |-> FALSE] /\ out' = [c \in Calls |-> ""]
  /\ nq' = <<>> /\ nspur' = 0
  /\ asked' = [c \in Calls |-> <<>>] /\ hres' = [c \in Calls |-> <<>>]
  /\ got' = [c \in Calls |-> {}] /\ used' = [c \in Calls |-> {}] /\ seen' = [c \in Calls |-> {}]
  /\ ucalls' = 0 /\ rets' = [c \in Calls |-> 0] /\ owedSent' = {}

\* every SDK goroutine is blocked: in a call to the server, in the handler, waiting for a completion, or finished
Blocked(c) == \/ pc[c] \in {"idle", "hwait", "done"}
              \/ (pc[c] = "inflight" /\ ~ctx[c])
              \/ (pc[c] = "await" /\ idx[c] <= Len(lst[c]) /\ tok[c][idx[c]] = 0 /\ ~ctx[c])
Quiescent == \A c \in Calls : Blocked(c)
PendingKeys == {i \in IdsAll : pending[i] # Nil}

\* a request issued with a context that has already ended never reaches the server: no `recv` line
Internal(c) == \/ CtxAbort(c) \/ Decide(c) \/ Register(c)
               \/ (ctx[c] /\ Send(c))
               \/ (AskBegin(c) /\ pc'[c] # "hwait")
               \/ AwaitOk(c) \/ AwaitCtx(c) \/ AwaitDone(c) \/ Cleanup(c)

Observed(e) ==
  CASE e.ev = "start"  -> Start(e.c)
    [] e.ev = "recv"   -> Send(e.c) /\ try'[e.c] = e.try
    [] e.ev = "resp"   -> SrvRespond(e.c, [kind |-> e.kind, ids |-> e.ids])
    [] e.ev = "notify" -> SrvNotify(e.id)
    [] e.ev = "cnotif" -> nq # <<>> /\ Head(nq) = e.id /\ CliNotify
    [] e.ev = "hbegin" -> AskBegin(e.c) /\ pc'[e.c] = "hwait" /\ lst[e.c][idx[e.c]] = e.id
    [] e.ev = "hend"   -> AskEnd(e.c, e.h)
    [] e.ev = "cancel" -> CtxCancel(e.c)
    [] e.ev = "ret"    -> Return(e.c) /\ out[e.c] = e.out
    [] e.ev = "snap"   -> Quiescent /\ PendingKeys = AsSet(e.keys) /\ UNCHANGED vars
    [] e.ev = "hang"   -> Quiescent /\ pc[e.c] \notin {"idle", "done"} /\ UNCHANGED vars
    [] OTHER           -> UNCHANGED vars          \* ucall, end, skip: not the model's business

TInit == Init /\ l = 1 /\ MarkInit
TNext == \/ /\ l <= NLines /\ l' = l + 1
            /\ LET e == TraceLog[l] IN IF e.ev = "reset" THEN TReset(e) ELSE Observed(e)
         \/ /\ l <= NLines /\ UNCHANGED l /\ TraceLog[l].ev # "reset"
            /\ \E c \in Calls : Internal(c)
TSpec == TInit /\ [][TNext]_tvars
TMark == MarkAt(l)
TAccepted == Accepted
=============================================================================
