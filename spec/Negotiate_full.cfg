CONSTANT Full = TRUE
