------------------------------ MODULE HttpSess ------------------------------
(* Session table of mcp.StreamableHTTPHandler (mcp/streamable.go), property   *)
(* C11.  One action per HTTP request / harness step; the state mirrors        *)
(*   h.sessions            tab[i].st \in {"live","closing"}  (entry present)  *)
(*   sessionInfo.userID    tab[i].owner   ("none" = created unauthenticated)  *)
(*   sessionInfo.refs      tab[i].refs    (startPOST / endPOST)               *)
(*   sessionInfo.timer     tab[i].tmr \in {"nil","off","armed"}, .rem ticks   *)
(*                         left, .cb = the AfterFunc callback has been        *)
(*                         started by the runtime but has not yet run         *)
(*   ServerSession.Close   graceful: waits for running tool handlers          *)
(*                         (tab[i].run); the entry is removed by onClose only *)
(*                         afterwards, so a session that is being closed      *)
(*                         while a tool runs is "closing": still in the table,*)
(*                         requests are still looked up, new calls are        *)
(*                         answered at once with a JSON-RPC error (server     *)
(*                         closing), a DELETE waits for the close.            *)
(* Session ids are 1..MaxSess in the order of minting.  Time is relative:     *)
(* every armed timer carries the ticks left until its deadline.               *)
(*                                                                            *)
(* Requests carry a session-id target (NoId, Unknown = never issued, or a     *)
(* minted id, which is live, stale (terminated) or foreign (other user's))    *)
(* and a user ("none" = no token, "A", "B" through auth.RequireBearerToken).  *)
(* POST bodies: init (initialize; on success the client completes the         *)
(* handshake with notifications/initialized in the same step), badinit        *)
(* (initialize that fails), call (a tool that returns at once), slow (a tool  *)
(* that runs until EndPost opens its gate, so the POST stays in progress).    *)
(*                                                                            *)
(* Environment fault: the EventStore configured in StreamableHTTPOptions.     *)
(* `store` is "up" (no store, or a store that answers) or one of the fault    *)
(* modes in StoreModes that the harness can switch on and off between steps:  *)
(*   "nopurge"  SessionClosed (and Append) report an error: a backing store   *)
(*              that cannot purge or write                                    *)
(*   "down"     Open, Append and SessionClosed all report an error            *)
(* SessionClosed is called when a session is terminated, by whatever path.    *)
(* Its answer is deliberately NOT read by Die / TimeoutClose / TimeoutCallback*)
(* below: termination makes the session dead and forgotten whatever the store *)
(* answers.  A store whose Open fails cannot start a stream: a POST that      *)
(* carries a call is answered 500 (it passed the session lookup, so it still  *)
(* counts as activity for the idle timer), and no session can be created.     *)
EXTENDS Integers, Sequences, FiniteSets, TLC
LOCAL FSE == INSTANCE FiniteSetsExt   \* FSE!FoldSet (CommunityModules), for DieCmps; named: its Functions!Range would clash with Range below

\* (the `@type` comments are annotations for Apalache, which discharges the inductive invariant IndInv at the end
\* of this module through HttpSessInd.tla; TLC ignores them)
CONSTANTS
          \* @type: Int;
          MaxSess,    \* ids the server may mint in one history
          \* @type: Int;
          T,          \* idle timeout in ticks; 0 = SessionTimeout unset
          \* @type: Bool;
          Stateless,  \* StreamableHTTPOptions.Stateless
          \* @type: Int;
          MaxSlots,   \* slow POSTs in progress at the same time
          \* @type: Int;
          MaxParked,  \* DELETEs waiting on one closing session
          \* @type: Set(Str);
          StoreModes  \* fault modes of the configured EventStore, subset of {"nopurge", "down"}

Users   == {"none", "A", "B"}
Ids     == 1..MaxSess
NoId    == 0
Unknown == -1
Slots   == 1..MaxSlots
Bodies  == {"init", "badinit", "call", "slow"}

VARIABLES
          \* @type: Int -> $sess;
          tab,     \* [Ids -> session record]
          \* @type: Int;
          nmint,   \* ids minted so far
          \* @type: Int -> $slot;
          slot,    \* [Slots -> slow POST in progress]
          \* @type: Bool;
          tiewin,  \* time was advanced exactly to a deadline without letting the timer run first
          \* @type: Str;
          store,   \* "up", or the fault mode the configured EventStore is in
          \* @type: Seq($cmp);
          res,     \* completions produced by the last step (output)
          \* @type: Int;
          ranNow,  \* tool handlers started by the last step (output)
          \* @type: Bool;
          bad      \* ghost: a timeout closed a session under a POST admitted strictly before the deadline
vars == <<tab, nmint, slot, tiewin, store, res, ranNow, bad>>

\* @typeAlias: sess = {st: Str, owner: Str, refs: Int, tmr: Str, rem: Int, cb: Bool, run: Int, pdel: Int};
\* @typeAlias: slot = {id: Int, tie: Bool};
\* @typeAlias: cmp = {m: Str, body: Str, tgt: Int, user: Str, cls: Str, status: Int, sid: Int, fresh: Bool, ran: Bool};
HttpSess_aliases == TRUE
\* pdel: DELETEs waiting for this (closing) session to die
FreeSess == [st |-> "free", owner |-> "none", refs |-> 0, tmr |-> "nil", rem |-> 0, cb |-> FALSE,
             run |-> 0, pdel |-> 0]
DeadSess(o) == [FreeSess EXCEPT !.st = "dead", !.owner = o]
FreeSlot == [id |-> 0, tie |-> FALSE]

Due(i) == tab[i].tmr = "armed" /\ tab[i].rem = 0
Unsettled == \E i \in Ids : Due(i) \/ tab[i].cb
\* a harness step is issued when everything has settled, or right after AdvanceTie
HarnessOK == tiewin \/ ~Unsettled

Minted == 1..nmint
Class(tgt, user) ==
  IF tgt = NoId THEN "none"
  ELSE IF tgt = Unknown THEN "unknown"
  ELSE IF tab[tgt].st = "dead" THEN "stale"
  ELSE IF tab[tgt].owner # "none" /\ user # tab[tgt].owner THEN "foreign"
  ELSE "live"

\* lookupSession: 404 when the id is not in the table, then the user check
LookupStatus(tgt, user) ==
  LET c == Class(tgt, user) IN
  IF c \in {"unknown", "stale"} THEN 404 ELSE IF c = "foreign" THEN 403 ELSE 0

Cmp(m, body, tgt, user, cls, status, sid, fresh, ran) ==
  [m |-> m, body |-> body, tgt |-> tgt, user |-> user, cls |-> cls, status |-> status,
   sid |-> sid, fresh |-> fresh, ran |-> ran]

\* sessionInfo.startPOST / endPOST (no-ops when the timer is nil: no timeout, or stopped for good)
\* @type: $sess => $sess;
StartPOST(s) == IF s.tmr = "nil" THEN s
                ELSE [s EXCEPT !.tmr = IF s.refs = 0 THEN "off" ELSE @, !.refs = @ + 1]
\* @type: $sess => $sess;
EndPOST(s) == IF s.tmr = "nil" THEN s
              ELSE [s EXCEPT !.refs = @ - 1,
                             !.tmr = IF s.refs - 1 = 0 THEN "armed" ELSE @,
                             !.rem = IF s.refs - 1 = 0 THEN T ELSE @]
\* @type: $sess => $sess;
Touch(s) == EndPOST(StartPOST(s))

SmallestFree == CHOOSE p \in Slots : slot[p].id = 0 /\ \A q \in Slots : q < p => slot[q].id # 0
HasFreeSlot == \E p \in Slots : slot[p].id = 0

\* onClose: the DELETEs that were waiting for session i are answered (their user is not tracked: "")
\* (tab[i].pdel copies of the same completion; written as a fold so that Apalache types it as a sequence: for TLC it is the
\* same value as [j \in 1..tab[i].pdel |-> Cmp(...)])
DieCmps(i) == FSE!FoldSet(LAMBDA j, acc : Append(acc, Cmp("DELETE", "", i, "", "live", 204, 0, FALSE, FALSE)), <<>>,
                          {j \in 1..MaxParked : j <= tab[i].pdel})   \* = 1..tab[i].pdel: pdel never exceeds MaxParked (Delete)
Die(i, first) ==
  /\ tab' = [tab EXCEPT ![i] = DeadSess(tab[i].owner)]
  /\ slot' = [p \in Slots |-> IF slot[p].id = i THEN FreeSlot ELSE slot[p]]
  /\ res' = first \o DieCmps(i)

Init == /\ tab = [i \in Ids |-> FreeSess] /\ nmint = 0 /\ slot = [p \in Slots |-> FreeSlot]
        /\ tiewin = FALSE /\ store = "up" /\ res = <<>> /\ ranNow = 0 /\ bad = FALSE

Step == HarnessOK /\ tiewin' = FALSE /\ UNCHANGED <<bad, store>>

\* the answers of the configured EventStore that the handler's behaviour depends on
OpenFails == store = "down"
\* (SessionClosed fails in both fault modes; no action reads that: see Die)

-----------------------------------------------------------------------------
\* POST

PostCreate(body, user) ==   \* no Mcp-Session-Id: a session is created whatever the body is
  IF OpenFails   \* Server.Connect fails on the standalone stream: no session, no id
  THEN /\ res' = <<Cmp("POST", body, NoId, user, "none", 500, 0, FALSE, FALSE)>>
       /\ ranNow' = 0 /\ UNCHANGED <<tab, nmint, slot>>
  ELSE IF body \in {"init", "badinit"}
  THEN /\ nmint < MaxSess
       /\ nmint' = nmint + 1
       /\ IF body = "init"
          THEN /\ tab' = [tab EXCEPT ![nmint + 1] = [FreeSess EXCEPT !.st = "live", !.owner = user,
                                                       !.tmr = IF T > 0 THEN "armed" ELSE "nil", !.rem = T]]
               /\ res' = <<Cmp("POST", "init", NoId, user, "none", 200, nmint + 1, TRUE, FALSE),
                           Cmp("POST", "notif", nmint + 1, user, "live", 202, 0, FALSE, FALSE)>>
          ELSE \* the id is sent, initialize fails, the deferred cleanup closes the session
               /\ tab' = [tab EXCEPT ![nmint + 1] = DeadSess(user)]
               /\ res' = <<Cmp("POST", "badinit", NoId, user, "none", 200, nmint + 1, TRUE, FALSE)>>
       /\ ranNow' = 0 /\ UNCHANGED slot
  ELSE \* a session is created, the call is refused (not initialized), the session is closed; no id is sent
       /\ res' = <<Cmp("POST", body, NoId, user, "none", 200, 0, FALSE, FALSE)>>
       /\ ranNow' = 0 /\ UNCHANGED <<tab, nmint, slot>>

PostReject(body, tgt, user) ==
  /\ LookupStatus(tgt, user) # 0
  /\ res' = <<Cmp("POST", body, tgt, user, Class(tgt, user), LookupStatus(tgt, user), 0, FALSE, FALSE)>>
  /\ ranNow' = 0 /\ UNCHANGED <<tab, nmint, slot>>

\* the store cannot open a stream for the call: 500 after the lookup, startPOST and endPOST
PostNoStream(body, i, user) ==
  /\ OpenFails /\ LookupStatus(i, user) = 0 /\ tab[i].st \in {"live", "closing"}
  /\ tab' = [tab EXCEPT ![i] = Touch(tab[i])]
  /\ res' = <<Cmp("POST", body, i, user, "live", 500, 0, FALSE, FALSE)>>
  /\ ranNow' = 0 /\ UNCHANGED <<nmint, slot>>

PostFast(body, i, user) ==   \* answered within the step: tool call, or a repeated initialize (JSON-RPC error)
  /\ ~OpenFails /\ body # "slow" /\ LookupStatus(i, user) = 0 /\ tab[i].st = "live"
  /\ tab' = [tab EXCEPT ![i] = Touch(tab[i])]
  /\ res' = <<Cmp("POST", body, i, user, "live", 200, IF body = "call" THEN 0 ELSE i, FALSE, body = "call")>>
  /\ ranNow' = IF body = "call" THEN 1 ELSE 0
  /\ UNCHANGED <<nmint, slot>>

PostSlow(i, user) ==   \* admitted; stays in progress until EndPost
  /\ ~OpenFails /\ LookupStatus(i, user) = 0 /\ tab[i].st = "live" /\ HasFreeSlot
  /\ tab' = [tab EXCEPT ![i] = [StartPOST(tab[i]) EXCEPT !.run = tab[i].run + 1]]
  /\ slot' = [slot EXCEPT ![SmallestFree] = [id |-> i, tie |-> (tab[i].cb \/ Due(i))]]
  /\ res' = <<>> /\ ranNow' = 1 /\ UNCHANGED nmint

PostClosing(body, i, user) ==   \* the session is being closed: every call is refused with a JSON-RPC error
  /\ ~OpenFails /\ LookupStatus(i, user) = 0 /\ tab[i].st = "closing"
  /\ tab' = [tab EXCEPT ![i] = Touch(tab[i])]
  /\ res' = <<Cmp("POST", body, i, user, "live", 200, IF body \in {"init", "badinit"} THEN i ELSE 0, FALSE, FALSE)>>
  /\ ranNow' = 0 /\ UNCHANGED <<nmint, slot>>

StatelessPost(body, tgt, user) ==   \* ephemeral session per request; the id header is not read
  /\ body \in {"init", "call", "slow"}
  /\ IF body = "slow"
     THEN /\ HasFreeSlot
          /\ slot' = [slot EXCEPT ![SmallestFree] = [id |-> IF tgt = NoId THEN -2 ELSE Unknown, tie |-> FALSE]]
          /\ res' = <<>> /\ ranNow' = 1
     ELSE /\ res' = <<Cmp("POST", body, tgt, user, Class(tgt, user), 200, 0, FALSE, body = "call")>>
          /\ ranNow' = (IF body = "call" THEN 1 ELSE 0) /\ UNCHANGED slot
  /\ UNCHANGED <<tab, nmint>>

Post(body, tgt, user) ==
  /\ Step
  /\ IF Stateless THEN tgt \in {NoId, Unknown} /\ StatelessPost(body, tgt, user)
     ELSE IF tgt = NoId THEN PostCreate(body, user)
     ELSE \/ PostReject(body, tgt, user)
          \/ (tgt \in Minted /\ PostFast(body, tgt, user))
          \/ (tgt \in Minted /\ body = "slow" /\ PostSlow(tgt, user))
          \/ (tgt \in Minted /\ PostClosing(body, tgt, user))
          \/ (tgt \in Minted /\ PostNoStream(body, tgt, user))

-----------------------------------------------------------------------------
\* GET (standalone stream; the client disconnects as soon as the stream is established), DELETE

Get(tgt, user) ==
  /\ Step
  /\ res' = <<Cmp("GET", "", tgt, user, Class(tgt, user),
                  IF Stateless THEN 405 ELSE IF tgt = NoId THEN 400
                  ELSE IF LookupStatus(tgt, user) # 0 THEN LookupStatus(tgt, user)
                  ELSE IF OpenFails THEN 400   \* After fails as well: "failed to replay events", never 404
                  ELSE 200,
                  0, FALSE, FALSE)>>
  /\ ranNow' = 0 /\ UNCHANGED <<tab, nmint, slot>>

Delete(tgt, user) ==
  /\ Step /\ ranNow' = 0 /\ UNCHANGED nmint
  /\ IF Stateless \/ tgt = NoId \/ LookupStatus(tgt, user) # 0
     THEN /\ res' = <<Cmp("DELETE", "", tgt, user, Class(tgt, user),
                          IF Stateless THEN 405 ELSE IF tgt = NoId THEN 400 ELSE LookupStatus(tgt, user),
                          0, FALSE, FALSE)>>
          /\ UNCHANGED <<tab, slot>>
     ELSE IF tab[tgt].run = 0
     THEN Die(tgt, <<Cmp("DELETE", "", tgt, user, "live", 204, 0, FALSE, FALSE)>>)
     ELSE \* session.Close() waits for the running tool: the DELETE is answered when the session dies
          /\ tab[tgt].pdel < MaxParked
          /\ tab' = [tab EXCEPT ![tgt].st = "closing", ![tgt].pdel = @ + 1]
          /\ res' = <<>> /\ UNCHANGED slot

\* ServerSession.Close() called by the server's own code
Close(i) ==
  /\ Step /\ ~Stateless /\ i \in Minted /\ tab[i].st = "live"
  /\ ranNow' = 0 /\ UNCHANGED nmint
  /\ IF tab[i].run = 0 THEN Die(i, <<>>)
     ELSE /\ tab' = [tab EXCEPT ![i].st = "closing"]
          /\ res' = <<>> /\ UNCHANGED slot

\* the gated tool of slot p returns: its POST is answered and ends
EndPost(p) ==
  /\ Step /\ slot[p].id # 0
  /\ ranNow' = 0 /\ UNCHANGED nmint
  /\ LET i == slot[p].id IN
     IF Stateless
     THEN /\ res' = <<Cmp("POST", "slow", IF i = -2 THEN NoId ELSE Unknown, "", "none", 200, 0, FALSE, TRUE)>>
          /\ slot' = [slot EXCEPT ![p] = FreeSlot] /\ UNCHANGED tab
     ELSE LET c == Cmp("POST", "slow", i, "", "live", 200, 0, FALSE, TRUE) IN
          IF tab[i].st = "closing" /\ tab[i].run = 1
          THEN Die(i, <<c>>)   \* the last running tool: session.Close() proceeds
          ELSE /\ tab' = [tab EXCEPT ![i] = EndPOST([tab[i] EXCEPT !.run = tab[i].run - 1])]
               /\ slot' = [slot EXCEPT ![p] = FreeSlot]
               /\ res' = <<c>>

-----------------------------------------------------------------------------
\* time

\* @type: $sess => $sess;
TimeoutClose(s) == DeadSess(s.owner)   \* armed => no POST in progress, no tool running (TimerDiscipline)

\* the clock advances by dt and everything settles: due callbacks have run
Advance(dt) ==
  /\ Step /\ ~Stateless /\ T > 0 /\ ~Unsettled
  /\ \E i \in Ids : tab[i].tmr = "armed"
  /\ tab' = [i \in Ids |-> IF tab[i].tmr # "armed" THEN tab[i]
                           ELSE IF tab[i].rem <= dt THEN TimeoutClose(tab[i])
                           ELSE [tab[i] EXCEPT !.rem = @ - dt]]
  /\ res' = <<>> /\ ranNow' = 0 /\ UNCHANGED <<nmint, slot>>

\* the clock advances exactly to a deadline and the next request is issued at that very instant,
\* racing the timer (TimerFire, TimeoutCallback below)
AdvanceTie(dt) ==
  /\ HarnessOK /\ ~Stateless /\ T > 0 /\ ~Unsettled
  /\ \E i \in Ids : tab[i].tmr = "armed" /\ tab[i].rem = dt
  /\ tab' = [i \in Ids |-> IF tab[i].tmr # "armed" THEN tab[i]
                           ELSE IF tab[i].rem < dt THEN TimeoutClose(tab[i])
                           ELSE [tab[i] EXCEPT !.rem = @ - dt]]
  /\ tiewin' = TRUE
  /\ res' = <<>> /\ ranNow' = 0 /\ UNCHANGED <<nmint, slot, bad, store>>

\* the runtime fires the timer: the callback goroutine exists but has not run; Stop() now reports false
TimerFire(i) ==
  /\ Due(i)
  /\ tab' = [tab EXCEPT ![i].tmr = "off", ![i].cb = TRUE]
  /\ UNCHANGED <<nmint, slot, tiewin, store, res, ranNow, bad>>

\* the callback runs: sessInfo.session.Close()
TimeoutCallback(i) ==
  /\ tab[i].cb
  /\ bad' = (bad \/ \E p \in Slots : slot[p].id = i /\ ~slot[p].tie)
  /\ tab' = [tab EXCEPT ![i] = IF tab[i].st = "live"
                                THEN (IF tab[i].run = 0 THEN DeadSess(tab[i].owner)
                                      ELSE [tab[i] EXCEPT !.st = "closing", !.cb = FALSE])
                                ELSE [tab[i] EXCEPT !.cb = FALSE]]
  /\ UNCHANGED <<nmint, slot, tiewin, store, res, ranNow>>

\* the environment: the configured EventStore enters or leaves a fault mode (between steps, settled)
SetStore(m) ==
  /\ HarnessOK /\ ~tiewin /\ ~Stateless
  /\ m \in StoreModes \cup {"up"} /\ m # store
  /\ store' = m
  /\ res' = <<>> /\ ranNow' = 0 /\ UNCHANGED <<tab, nmint, slot, tiewin, bad>>

-----------------------------------------------------------------------------
Targets == {NoId, Unknown} \cup Ids
AdvSet == {d \in {1, T - 1, T, T + 1} : d > 0}

HarnessNext ==
  \/ \E b \in Bodies, t \in Targets, u \in Users : (t \in {NoId, Unknown} \/ t \in Minted) /\ Post(b, t, u)
  \/ \E t \in Targets, u \in Users : (t \in {NoId, Unknown} \/ t \in Minted) /\ Get(t, u)
  \/ \E t \in Targets, u \in Users : (t \in {NoId, Unknown} \/ t \in Minted) /\ Delete(t, u)
  \/ \E p \in Slots : EndPost(p)
  \/ \E i \in Ids : Close(i)
  \/ \E d \in AdvSet : Advance(d)
  \/ \E m \in StoreModes \cup {"up"} : SetStore(m)

Next ==
  \/ HarnessNext
  \/ \E d \in AdvSet : AdvanceTie(d)
  \/ \E i \in Ids : TimerFire(i)
  \/ \E i \in Ids : TimeoutCallback(i)

Spec == Init /\ [][Next]_vars
\* every step settles before the next one: the controllable part, used for the transition cover
CoverSpec == Init /\ [][HarnessNext]_vars

-----------------------------------------------------------------------------
\* Properties (C11)

\* @type: Seq($cmp) => Set($cmp);
Range(q) == {q[j] : j \in DOMAIN q}
Sessions == {i \in Ids : tab[i].st \in {"live", "closing"}}   \* Server.Sessions() and h.sessions

\* an id appears in a response only when a POST without id created its session, or as an echo
MintOnlyOnCreate ==
  /\ \A c \in Range(res) : /\ c.fresh => c.m = "POST" /\ c.tgt = NoId /\ c.status = 200 /\ ~Stateless
                           /\ (c.sid # 0 /\ ~c.fresh) => c.sid = c.tgt
  /\ \A i \in Ids : (i <= nmint) = (tab[i].st # "free")
MintStep == [][nmint' # nmint => /\ nmint' = nmint + 1
                                  /\ \E c \in Range(res') : c.fresh /\ c.sid = nmint' /\ c.tgt = NoId]_vars

\* one id, one session: minted ids are pairwise distinct table keys and a key is never re-bound
AtMostOneSession == [][\A i \in Ids : tab[i].st # "free" => tab'[i].st # "free" /\ tab'[i].owner = tab[i].owner]_vars

DeadStaysDead == \A c \in Range(res) : c.cls = "stale" => c.status = 404 /\ ~c.ran /\ c.sid = 0
DeadForever == [][\A i \in Ids : tab[i].st = "dead" => tab'[i].st = "dead"]_vars
\* ... whatever the configured EventStore answers: a completed DELETE leaves its target dead in every
\* store mode, and no response ever depends on the store for an id that is dead
DeleteKills == [][\A c \in Range(res') : (c.m = "DELETE" /\ c.status = 204) => tab'[c.tgt].st = "dead"]_vars

UserBound == \A c \in Range(res) : c.cls = "foreign" => c.status = 403 /\ ~c.ran /\ c.sid = 0

NoTimeoutDuringPost == ~bad

StatelessNoIds == Stateless => /\ nmint = 0
                               /\ \A c \in Range(res) : c.sid = 0 /\ (c.m \in {"GET", "DELETE"} => c.status = 405)
                                                        /\ (c.m = "POST" => c.status = 200)

\* the clauses that speak about responses, as a step property: it is evaluated on every transition,
\* also when a VIEW hides the output variables
ResProps == MintOnlyOnCreate /\ DeadStaysDead /\ UserBound /\ StatelessNoIds
ResAlways == [][ResProps']_vars

ClosedAndForgotten ==
  \A i \in Ids : tab[i].st = "dead" =>
     /\ i \notin Sessions /\ tab[i].tmr = "nil" /\ tab[i].refs = 0 /\ tab[i].run = 0
     /\ tab[i].pdel = 0
     /\ \A p \in Slots : slot[p].id # i

\* the idle timer is armed only while no POST is in progress; refs counts the POSTs in progress
TimerDiscipline ==
  \A i \in Ids :
     /\ tab[i].refs >= 0 /\ tab[i].run >= 0
     /\ tab[i].tmr = "armed" => tab[i].refs = 0 /\ tab[i].run = 0 /\ tab[i].st = "live"
     /\ (tab[i].st \in {"live", "closing"} /\ T > 0) =>
           tab[i].refs = Cardinality({p \in Slots : slot[p].id = i})
     /\ tab[i].run = Cardinality({p \in Slots : slot[p].id = i})
     /\ tab[i].st = "closing" => tab[i].run > 0
     /\ (tab[i].st = "live" /\ T > 0) => tab[i].tmr # "nil"

-----------------------------------------------------------------------------
\* Inductive invariant (discharged by Apalache through HttpSessInd.tla: Init => IndInv, and IndInv /\ Next => IndInv',
\* i.e. unbounded in the length of the history, for the instance fixed by HttpSessInd!CInit).  It is the conjunction
\* of the seven state invariants that the HttpSess_mc_*.cfg configurations check on bounded histories (literally)
\* with what makes them inductive: the shape of every table entry and of every slot.
Statuses == {200, 202, 204, 400, 403, 404, 405, 500}
\* @type: $cmp => Bool;
CmpOK(c) ==
  /\ c.m \in {"POST", "GET", "DELETE"} /\ c.body \in Bodies \cup {"", "notif"}
  /\ c.tgt \in {NoId, Unknown} \cup Ids /\ c.user \in Users \cup {""}
  /\ c.cls \in {"none", "unknown", "stale", "foreign", "live"} /\ c.status \in Statuses
  /\ c.sid \in {0} \cup Ids /\ c.fresh \in BOOLEAN /\ c.ran \in BOOLEAN
\* @type: $sess => Bool;
SessOK(s) ==
  /\ s.st \in {"free", "live", "closing", "dead"} /\ s.owner \in Users
  /\ s.refs \in 0..MaxSlots /\ s.tmr \in {"nil", "off", "armed"} /\ s.rem >= 0 /\ s.rem <= T
  /\ s.cb \in BOOLEAN /\ s.run \in 0..MaxSlots /\ s.pdel \in 0..MaxParked
SlotsOf(i) == {p \in Slots : slot[p].id = i}
IndTypeOK ==
  /\ DOMAIN tab = Ids /\ \A i \in Ids : SessOK(tab[i])
  /\ nmint \in 0..MaxSess
  /\ DOMAIN slot = Slots /\ \A p \in Slots : slot[p].id \in {-2, Unknown, 0} \cup Ids /\ slot[p].tie \in BOOLEAN
  /\ tiewin \in BOOLEAN /\ store \in StoreModes \cup {"up"} /\ bad \in BOOLEAN /\ ranNow \in {0, 1}
  /\ Len(res) <= MaxParked + 2 /\ \A c \in Range(res) : CmpOK(c)
\* the shape of table entry i
IndSess(i) ==
  LET s == tab[i] IN
  /\ s.st = "free" => s = FreeSess
  /\ s.st = "dead" => s = DeadSess(s.owner)
  /\ s.run = Cardinality(SlotsOf(i))
  /\ s.st \in {"live", "closing"} =>
        IF T > 0 THEN s.tmr # "nil" /\ s.refs = s.run
        ELSE s.tmr = "nil" /\ s.refs = 0 /\ ~s.cb
  /\ s.tmr = "armed" => s.refs = 0 /\ s.st = "live"
  /\ s.st = "closing" => s.run > 0
  /\ s.pdel > 0 => s.st = "closing"
  \* what keeps the ghost `bad` FALSE: while the timeout callback is pending, the POSTs in progress on the session
  \* were all admitted at (not before) the deadline
  /\ s.cb => \A p \in SlotsOf(i) : slot[p].tie
  /\ Stateless => s.st = "free"
IndSlots ==
  \A p \in Slots :
     /\ slot[p].id = 0 => ~slot[p].tie
     /\ IF Stateless THEN slot[p].id \in {-2, Unknown, 0} /\ ~slot[p].tie
        ELSE slot[p].id \in {0} \cup Ids
IndInv ==
  /\ IndTypeOK
  /\ \A i \in Ids : IndSess(i)
  /\ IndSlots
  /\ MintOnlyOnCreate /\ DeadStaysDead /\ UserBound /\ NoTimeoutDuringPost /\ StatelessNoIds
  /\ ClosedAndForgotten /\ TimerDiscipline
=============================================================================
