---------------------------- MODULE StreamE2EMon ----------------------------
(* Property monitor for the END-TO-END part of C08 and C09, evaluated by TLC   *)
(* over observation logs of harness/mcp/c09_e2e_test.go (one line = one event: *)
(* server-side emits with tags, every SSE event that crossed the wire          *)
(* completely, cuts, reconnect requests with their Last-Event-ID and the       *)
(* answers they got, the messages the client connection's Read returned in     *)
(* order, what the session's handlers saw, call results, a snapshot per step). *)
(*                                                                            *)
(* Clause names say who owes what:                                            *)
(*   C08.E2E.*  the server: on every exchange, from the presented id onward,   *)
(*              exactly the suffix of what it wrote to that stream, ids dense  *)
(*              and stable, nothing of another stream; a valid cursor is       *)
(*              served; an attached exchange at rest has everything            *)
(*   C09.E2E.*  the client: every reconnect carries the id of the last event   *)
(*              it received completely; what it received on the wire reaches   *)
(*              the session exactly once, in order; handlers see it once; it   *)
(*              stops asking once the retry budget is used up                  *)
(*   both       what cannot be attributed from the logs: the session observes, *)
(*              per stream, a prefix of what the server wrote (ExactlyOnce-    *)
(*              InOrder; the whole of it at quiescence unless the retry budget *)
(*              was exhausted / nothing could be resumed), every call returns  *)
(*              the handler's real result or - budget exhausted, unresumable - *)
(*              an error, and never hangs (CallCompletes).                    *)
(* The budget is read conservatively (as in StreamCliMon): the real result is  *)
(* owed when every reconnect saw fewer than MaxRetries failed attempts, all of *)
(* them transient, and fewer than MaxRetries bodies in a row ended without a   *)
(* new event id; beyond that only a clean completion is owed.  The exact        *)
(* boundary is part of the MODEL (StreamE2E.tla), which this monitor runs along *)
(* the executed steps: a difference between the model state and the harness     *)
(* snapshot is "drift", never a verdict.                                       *)
EXTENDS VerifTrace, FiniteSets

E == INSTANCE StreamE2E WITH
       Reqs <- {"r1", "r2", "r3"}, HasSa <- TRUE, PrimeSet <- BOOLEAN, MaxRetries <- 2,
       MaxWrites <- 1000, MaxCuts <- 1000, MaxFails <- 1000, ArmN <- 8,
       CutHows <- {"eof", "err", "eofL", "errL"}, FailKinds <- {"terr", "503", "500", "429", "404"},
       SrvRenumberBug <- FALSE, st <- 0

VARIABLES l, m
mvars == <<l, m>>

NoX == [s |-> "", kind |-> "", from |-> -1, n |-> 0, cut |-> FALSE, ended |-> FALSE, status |-> -1, known |-> FALSE]
M0 == [prime |-> FALSE, mr |-> 2,
       wr    |-> <<>>,    \* stream -> tags the server wrote, in order (ground truth; without the priming event)
       xs    |-> <<>>,    \* exchange -> record
       wire  |-> <<>>,    \* stream -> tags of the message events the client received completely, over all its exchanges
       last  |-> <<>>,    \* stream -> index carried by the id of the last event received completely
       ids   |-> <<>>,    \* <<stream, index>> -> tag first seen under that event id
       sid   |-> <<>>,    \* stream -> the server's stream id as seen in event ids
       rd    |-> <<>>,    \* stream -> tags returned by the client connection's Read, in order
       rdn   |-> <<>>, rdq |-> <<>>,   \* ... the notifications / the nested requests among them
       hsn   |-> <<>>, hsq |-> <<>>,   \* stream -> what the session's handlers saw (notifications / nested requests)
       calls |-> <<>>,    \* call -> pending | ok | err | toolerr
       want  |-> <<>>,    \* call -> tag of the handler's result
       fr    |-> <<>>,    \* stream -> failed attempts of the reconnect in progress
       fruit |-> <<>>,    \* stream -> bodies in a row that ended without a new event id
       bprog |-> <<>>,    \* stream -> the open body has brought a new id across
       gone  |-> FALSE,   \* a reconnect was answered with a non-transient status (session gone / refused)
       down  |-> "no",    \* the client connection was seen to have failed: "legit" if the retry budget of the stretch
                          \* without progress it was in was used up by then (conservative reading) or the session was
                          \* gone, else "early"
       unres |-> {},      \* calls whose stream was cut before any event id had come across
       cleanup |-> FALSE,
       model |-> E!Init0(FALSE), mok |-> TRUE]

Get(f, k, d) == IF k \in DOMAIN f THEN f[k] ELSE d
Put(f, k, v) == [y \in DOMAIN f \cup {k} |-> IF y = k THEN v ELSE f[y]]
X(n) == Get(m.xs, n, NoX)
Wr(s) == Get(m.wr, s, <<>>)
Wire(s) == Get(m.wire, s, <<>>)
Rd(s) == Get(m.rd, s, <<>>)
Last(s) == Get(m.last, s, -1)
Log(s) == IF m.prime /\ s # "sa" THEN <<"prime">> \o Wr(s) ELSE Wr(s)
Has(q, t) == \E i \in 1..Len(q) : q[i] = t
Cnt(q, t) == Cardinality({i \in 1..Len(q) : q[i] = t})
TransientAns == {"terr", "429", "500", "502", "503", "504"}

Fail2(ln, name) == Fail(ln, "C08.E2E." \o name) /\ Fail(ln, "C09.E2E." \o name)
Check2(ln, name, ok) == IF ok THEN TRUE ELSE Fail2(ln, name)
\* a failure of the call: the client's if the response had crossed the wire completely, otherwise nobody's in particular
CallFail(ln, r) == IF r \in DOMAIN m.want /\ Has(Wire(r), m.want[r]) THEN Fail(ln, "C09.E2E.CallCompletes") ELSE Fail2(ln, "CallCompletes")

MInit == l = 1 /\ m = M0 /\ MarkInit

\* a body of stream s has ended without the call's response: the environment's part in the retry budget
BodyEnded(mm, s) ==
  IF s # "sa" /\ Get(mm.last, s, -1) = -1
  THEN [mm EXCEPT !.unres = @ \cup {s}]
  ELSE IF Get(mm.bprog, s, FALSE)
  THEN [mm EXCEPT !.fruit = Put(@, s, 0), !.fr = Put(@, s, 0), !.bprog = Put(@, s, FALSE)]
  ELSE [mm EXCEPT !.fruit = Put(@, s, Get(mm.fruit, s, 0) + 1), !.fr = Put(@, s, 0)]

\* the budget is per stretch without progress (a body that brings a new id across starts a new stretch): right now,
\* has the environment used it up on some stream?
ExhNow(mm) == \/ mm.gone
              \/ \E s \in DOMAIN mm.fr : mm.fr[s] >= mm.mr
              \/ \E s \in DOMAIN mm.fruit : mm.fruit[s] >= mm.mr
\* the client connection is seen to have failed (snapshot of a step / at quiescence)
SeenDown(mm, broken) == IF broken /\ mm.down = "no" THEN [mm EXCEPT !.down = IF ExhNow(mm) THEN "legit" ELSE "early"] ELSE mm
Excused(mm) == mm.down = "legit" \/ ExhNow(mm)

OnBegin(e) ==
  m' = [m EXCEPT !.xs = Put(@, e.x, [NoX EXCEPT !.s = e.s, !.kind = e.kind, !.from = e.from, !.known = TRUE]),
                 !.bprog = Put(@, e.s, FALSE)]

OnHdr(e) ==
  LET xr == X(e.x) IN
  /\ m' = [m EXCEPT !.xs = Put(@, e.x, [xr EXCEPT !.status = e.status]),
                    !.gone = (@ \/ (xr.kind = "get" /\ e.status \notin {200, 0}))]   \* refused by the server: the client may give up
  \* a resumption from an id the server issued before (or of the standalone stream from its start) is served
  /\ IF xr.kind = "get" /\ ~m.cleanup /\ ((xr.from = -1 /\ xr.s = "sa") \/ <<xr.s, xr.from>> \in DOMAIN m.ids)
     THEN Check(l, "C08.E2E.ResumeServed", e.status \in {200, 0})     \* (0: the connection was lost before any answer)
     ELSE TRUE

OnEv(e) ==
  LET xr == X(e.x)
      s == xr.s
      j == xr.n + 1
      pos == xr.from + j + 1
      lg == Log(s)
      idk == <<s, e.idx>>
      isMsg == e.kind # "prime"
  IN
  /\ m' = [m EXCEPT !.xs = Put(@, e.x, [xr EXCEPT !.n = j]),
                    !.wire = IF isMsg THEN Put(@, s, Append(Wire(s), e.tag)) ELSE @,
                    !.last = IF e.eid # "" THEN Put(@, s, e.idx) ELSE @,
                    !.bprog = IF e.eid # "" /\ e.idx # Last(s) THEN Put(@, s, TRUE) ELSE @,
                    !.ids = IF e.eid # "" /\ idk \notin DOMAIN @ THEN Put(@, idk, e.tag) ELSE @,
                    !.sid = IF e.eid # "" /\ s \notin DOMAIN @ THEN Put(@, s, e.sid) ELSE @]
  /\ Check(l, "X.Known", xr.known)
  /\ IF m.cleanup THEN TRUE ELSE
     /\ Check(l, "C08.E2E.IdsDense", e.eid # "" /\ e.idx = xr.from + j /\ (s = "sa" => e.sid = "") /\ (s \in DOMAIN m.sid => m.sid[s] = e.sid))
     /\ Check(l, "C08.E2E.ReplayExactSuffix", Len(lg) >= pos /\ lg[pos] = e.tag)
     /\ Check(l, "C08.E2E.IdStable", (e.eid # "" /\ idk \in DOMAIN m.ids) => m.ids[idk] = e.tag)
     /\ Check(l, "C08.E2E.NoCrossStream", e.kind = "prime" \/ e.ts = s)

\* a GET that lost its connection before any response header is, for the client, a failed attempt of the reconnect in
\* progress, not a body
OnCut(e) ==
  LET xr == X(e.x)
      mm == IF xr.kind = "get" /\ e.lost
            THEN [m EXCEPT !.fr = Put(@, e.s, Get(m.fr, e.s, 0) + 1)]
            ELSE BodyEnded(m, e.s)
  IN m' = [mm EXCEPT !.xs = Put(m.xs, e.x, [xr EXCEPT !.cut = TRUE])]

\* the server ended the exchange; when the call's response has not come across, this is one more body that ended
OnEnd(e) ==
  LET xr == X(e.x)
      open == e.how = "server" /\ xr.known /\ ~xr.cut /\ xr.status \in {200, -1}
              /\ ~(e.s \in DOMAIN m.want /\ Has(Wire(e.s), m.want[e.s])) /\ ~(e.s \in DOMAIN m.calls /\ m.calls[e.s] # "pending")
  IN m' = [(IF open THEN BodyEnded(m, e.s) ELSE m) EXCEPT !.xs = Put(m.xs, e.x, [xr EXCEPT !.ended = TRUE])]

\* a reconnect attempt of the client, as the RoundTripper saw it
OnHold(e) ==
  /\ m' = m
  /\ IF m.cleanup THEN TRUE
     ELSE /\ Check(l, "C09.E2E.ResumeCursor", e.known /\ e.lidx = Last(e.s) /\ (e.present <=> Last(e.s) >= 0))
          \* the budget also bounds the client: no further attempt after MaxRetries failed attempts of one reconnect,
          \* none after MaxRetries + 1 bodies in a row that brought no new id across
          /\ Check(l, "C09.E2E.BoundedRetries", Get(m.fr, e.s, 0) < m.mr /\ Get(m.fruit, e.s, 0) <= m.mr)

OnDec(e) ==
  \* (the attempts of one reconnect are counted until a body has ended, see BodyEnded)
  m' = IF e.d \in {"ok", "abandoned"} THEN m
       ELSE IF e.d \in TransientAns
       THEN [m EXCEPT !.fr = Put(@, e.s, Get(m.fr, e.s, 0) + 1)]
       ELSE [m EXCEPT !.gone = TRUE]

OnRead(e) ==
  IF e.kind \in {"n", "q", "resp"}
  THEN LET s == e.s
           k == Len(Rd(s)) + 1 IN
       /\ m' = [m EXCEPT !.rd = Put(@, s, Append(Rd(s), e.tag)),
                         !.rdn = IF e.kind = "n" THEN Put(@, s, Append(Get(@, s, <<>>), e.tag)) ELSE @,
                         !.rdq = IF e.kind = "q" THEN Put(@, s, Append(Get(@, s, <<>>), e.tag)) ELSE @]
       /\ IF m.cleanup THEN TRUE ELSE
          \* what the session observes is, per stream, a prefix of what the server wrote: no duplicate, no gap, in order
          /\ Check2(l, "ExactlyOnceInOrder", k <= Len(Wr(s)) /\ Wr(s)[k] = e.tag)
          \* the client hands on what it received on the wire, each event once, in order
          /\ Check(l, "C09.E2E.DeliverOnce", k <= Len(Wire(s)) /\ Wire(s)[k] = e.tag)
  ELSE m' = m

OnSeen(e) ==
  m' = [m EXCEPT !.hsn = IF e.kind = "n" THEN Put(@, e.s, Append(Get(@, e.s, <<>>), e.tag)) ELSE @,
                 !.hsq = IF e.kind = "q" THEN Put(@, e.s, Append(Get(@, e.s, <<>>), e.tag)) ELSE @]

OnCallEnd(e) ==
  /\ m' = [m EXCEPT !.calls = Put(@, e.r, e.outcome)]
  /\ IF m.cleanup THEN TRUE
     ELSE IF e.outcome = "ok"
     THEN Check2(l, "CallCompletes", e.tag = e.want /\ Has(Wr(e.r), e.want))       \* the handler's real result
     ELSE IF e.outcome = "err"
     THEN (IF Excused(m) \/ e.r \in m.unres THEN TRUE ELSE CallFail(l, e.r))        \* an error only when the budget is gone
     ELSE Fail2(l, "CallCompletes")

OnQuiesce(e) ==
  /\ m' = SeenDown(m, e.snap.broken)
  \* never hangs: everything the environment owed is discharged, every call has returned
  /\ \A r \in DOMAIN m.calls : IF m.calls[r] = "pending" THEN CallFail(l, r) ELSE TRUE
  /\ IF SeenDown(m, e.snap.broken).down = "legit" THEN TRUE ELSE
     \A s \in DOMAIN m.wr :
       IF s \in m.unres THEN TRUE ELSE
       \* the whole of it at quiescence
       /\ Check2(l, "ExactlyOnceInOrder", Rd(s) = Wr(s))
       /\ Check(l, "C09.E2E.DeliverOnce", Rd(s) = Wire(s))
       /\ Check(l, "C09.E2E.HandlerSeesOnce",
                /\ Get(m.hsn, s, <<>>) = Get(m.rdn, s, <<>>)
                /\ \A i \in 1..Len(Get(m.rdq, s, <<>>)) : Cnt(Get(m.hsq, s, <<>>), m.rdq[s][i]) = Cnt(m.rdq[s], m.rdq[s][i])
                /\ Len(Get(m.hsq, s, <<>>)) = Len(Get(m.rdq, s, <<>>)))
       /\ \A n \in DOMAIN m.xs :
            LET xr == m.xs[n] IN
            IF xr.s = s /\ ~xr.cut /\ ~xr.ended /\ xr.status \in {200, -1}
            THEN Check(l, "C08.E2E.CompleteAtRest", xr.from + xr.n + 1 = Len(Log(s)))
            ELSE TRUE

\* ---- the model run along the executed steps (drift only)
En(md, e) ==
  CASE e.op = "call"  -> E!EnCall(md, e.a1)
    [] e.op = "emit"  -> E!EnServerWrite(md, e.a1, "n")
    [] e.op = "sreq"  -> E!EnServerWrite(md, e.a1, "q")
    [] e.op = "ret"   -> E!EnHandlerReturn(md, e.a1)
    [] e.op = "arm"   -> E!EnCut(md, e.a1, e.an, e.a3, e.a4)
    [] e.op = "rfail" -> E!EnReconnectFails(md, e.a1, e.a2)
    [] e.op = "rok"   -> E!EnReconnectOk(md, e.a1)
    [] e.op = "sclose" -> E!EnServerClose(md, e.a1)
    [] OTHER -> FALSE
F(md, e) ==
  CASE e.op = "call"  -> E!FCall(md, e.a1)
    [] e.op = "emit"  -> E!FServerWrite(md, e.a1, "n")
    [] e.op = "sreq"  -> E!FServerWrite(md, e.a1, "q")
    [] e.op = "ret"   -> E!FHandlerReturn(md, e.a1)
    [] e.op = "arm"   -> E!FCut(md, e.a1, e.an, e.a3, e.a4)
    [] e.op = "rfail" -> E!FReconnectFails(md, e.a1, e.a2)
    [] e.op = "rok"   -> E!FReconnectOk(md, e.a1)
    [] e.op = "sclose" -> E!FServerClose(md, e.a1)
    [] OTHER -> md
\* (once the client connection has failed only that is compared: exchanges of calls that were pending stay open
\* until the server next writes to them, a POST still waiting for its response headers returns only then)
SameAsSnap(md, sn) ==
  /\ sn.broken = md.broken
  /\ md.broken \/
     /\ \A s \in DOMAIN sn.link : s \in E!Streams /\ sn.link[s] = md.link[s] /\ sn.nrd[s] = Len(md.del[s])
     /\ \A r \in DOMAIN sn.res : r \in DOMAIN md.res /\ sn.res[r] = md.res[r]
OnStep(e) ==
  LET known == e.a1 \in E!Streams
      en == known /\ En(m.model, e)
      md == IF en /\ e.applied THEN F(m.model, e) ELSE m.model
      ok == m.mok /\ known /\ (en <=> e.applied) /\ SameAsSnap(md, e.snap)
  IN /\ m' = [SeenDown(m, e.snap.broken) EXCEPT !.model = md, !.mok = ok]
     /\ IF m.mok /\ ~ok THEN Fail(l, "drift") ELSE TRUE

Step(e) ==
  CASE e.ev = "reset"    -> m' = [M0 EXCEPT !.prime = e.prime, !.mr = e.mr, !.model = E!Init0(e.prime)]
    [] e.ev = "cleanup"  -> m' = [m EXCEPT !.cleanup = TRUE]
    [] e.ev = "h.emit"   -> m' = [m EXCEPT !.wr = Put(@, e.s, Append(Wr(e.s), e.tag))]
    [] e.ev = "h.emit.end" -> m' = m /\ (IF m.cleanup \/ m.down # "no" \/ ExhNow(m) THEN TRUE ELSE Check(l, "C08.E2E.WriteAccepted", e.err = ""))
    [] e.ev = "x.begin"  -> OnBegin(e)
    [] e.ev = "x.hdr"    -> OnHdr(e)
    [] e.ev = "x.ev"     -> OnEv(e)
    [] e.ev = "x.cut"    -> OnCut(e)
    [] e.ev = "x.end"    -> OnEnd(e)
    [] e.ev = "rc.hold"  -> OnHold(e)
    [] e.ev = "rc.dec"   -> OnDec(e)
    [] e.ev = "c.rd"     -> OnRead(e)
    [] e.ev = "c.h"      -> OnSeen(e)
    [] e.ev = "call.begin" -> m' = [m EXCEPT !.calls = Put(@, e.r, "pending"), !.want = Put(@, e.r, e.want)]
    [] e.ev = "call.end" -> OnCallEnd(e)
    [] e.ev = "step"     -> OnStep(e)
    [] e.ev = "quiesce"  -> OnQuiesce(e)
    [] e.ev = "panic"    -> m' = m /\ Fail2(l, "NoPanic")
    [] e.ev = "setup.error" -> m' = m /\ Fail(l, "X.Setup")
    [] e.ev = "close.stuck" -> m' = m /\ Fail(l, "X.CloseStuck")
    [] OTHER             -> m' = m

MNext == /\ l <= NLines /\ l' = l + 1
         /\ Step(TraceLog[l])
MSpec == MInit /\ [][MNext]_mvars
MMark == MarkAt(l)
MAccepted == Accepted
=============================================================================
