----------------------------- MODULE SSESatMon -----------------------------
(* Property monitor of the HTTP+SSE satellite: clauses of C01, C02, C03, C05  *)
(* over observation logs of harness/mcp/sse_sat_test.go (real mcp.Client +    *)
(* SSEClientTransport against a real SSEHandler + mcp.Server through a        *)
(* scripted network).  One log line = one event.  The monitor keeps ghost     *)
(* bookkeeping in `m` and evaluates, at each event, the clauses that event    *)
(* can decide.  It states what the properties state, for this transport, and  *)
(* knows nothing about mcp/sse.go.  Provisos of the properties are premises:  *)
(* "handlers return", "the transport honours Close" and what the environment  *)
(* owes (held deliveries, answers of a healthy peer) are discharged by the    *)
(* harness before the `quiesce` line; a peer that can never learn of a cut    *)
(* (cut Q without a later failed write) owes nothing.                         *)
EXTENDS VerifTrace, FiniteSets

VARIABLES l, m
mvars == <<l, m>>

NoCall == [begun |-> FALSE, dir |-> "", s |-> "", after |-> FALSE, t |-> 0, ended |-> 0]
NoH == [s |-> "", kind |-> "", started |-> FALSE, ended |-> FALSE]

M0 == [conn   |-> {},      \* sessions that were established
       hurt   |-> {},      \* sessions on which the scenario injected a fault (cut, failed POST, Close from either side)
       inj    |-> {},      \* sessions whose stream got an element that is not a message event
       send   |-> {},      \* sessions whose client-side stream has ended (cut, EOF, closed by the client)
       sknows |-> {},      \* sessions whose server side was told that the client is gone
       getx   |-> {},      \* sessions whose hanging GET has returned
       closeB |-> {}, closeE |-> {}, waitE |-> {},      \* <<side, session>>
       closeSeq |-> <<>>,  \* <<side, session>> -> seq of close.begin
       calls  |-> <<>>,    \* key -> call record
       canc   |-> {},      \* keys of calls whose own context was cancelled by the script
       hs     |-> <<>>,    \* <<side, tag>> -> handler record
       reqSeq |-> <<>>,    \* <<side, tag>> -> seq at which the request was handed to the network
       reqEnd |-> <<>>,    \* <<"srv", tag>> -> seq at which the POST carrying it had been acknowledged
       s2cResp |-> {}, c2sResp |-> {},   \* <<session, id>> of responses handed to the network
       reqTo  |-> {},      \* <<session, id>> of calls POSTed to that session's endpoint
       sreqOn |-> {},      \* <<session, id>> of server->client calls written on that session's stream
       sreqId |-> <<>>,    \* tag of such a call -> its id
       c2sAck |-> {},      \* <<session, id>> of responses POSTed by the client that the endpoint acknowledged with 202
       posts  |-> <<>>,    \* p -> [to, kind, late, id]
       acc    |-> {},      \* <<session, id>> of calls the endpoint acknowledged with 202
       notes  |-> <<>>,    \* note tag -> [err, then]
       fol    |-> <<>>,    \* call key -> tag of the notification the same goroutine had sent before
       cleanup |-> FALSE]

Get(f, k, d) == IF k \in DOMAIN f THEN f[k] ELSE d
Put(f, k, v) == [x \in DOMAIN f \cup {k} |-> IF x = k THEN v ELSE f[x]]
Call(k) == Get(m.calls, k, NoCall)
H(side, tag) == Get(m.hs, <<side, tag>>, NoH)
InRange(seq) == {seq[i] : i \in DOMAIN seq}

MInit == l = 1 /\ m = M0 /\ MarkInit

\* the side of a call's caller
SideOf(dir) == IF dir = "c2s" THEN "cli" ELSE "srv"
\* the environment did something to the session that explains an error: a cut, a failed POST, a Close from either side
\* (the end of the stream and the exit of the hanging GET are consequences, not causes)
Disturbed(s) == s \in m.hurt

Running(side, s) == {k \in DOMAIN m.hs : k[1] = side /\ m.hs[k].s = s /\ m.hs[k].started /\ ~m.hs[k].ended}

OnCallBegin(e) ==
  m' = [m EXCEPT !.calls = Put(m.calls, e.key, [NoCall EXCEPT !.begun = TRUE, !.dir = e.dir, !.s = e.s, !.after = e.after, !.t = e.t])]

OnCallEnd(e) ==
  LET c == Call(e.key) IN
  /\ Check(l, "C01.SseCompletesOnce", c.begun /\ c.ended = 0)
  \* with its own response (payload intact) ...
  /\ Check(l, "C01.SseOwnResponse", e.kind = "result" => e.payload = e.key \o ".resp")
  /\ Check(l, "C01.SseOwnResponse", e.kind # "toolerr")
  \* ... or with an error once the caller's context ends or the connection breaks or is closed
  /\ Check(l, "C01.SseOwnResponse", e.kind \notin {"result", "toolerr"} => (e.cancelled \/ e.key \in m.canc \/ Disturbed(e.s)))
  \* calls started after the session's Wait has returned fail immediately, as "connection closed"
  /\ Check(l, "C01.SseNotBlockedAfterTermination", c.after => (e.kind = "closed" /\ e.t = c.t))
  /\ m' = [m EXCEPT !.calls = Put(m.calls, e.key, [c EXCEPT !.ended = c.ended + 1])]

\* a response on the hanging GET of session e.s
OnS2C(e) ==
  IF e.hs THEN m' = m
  ELSE CASE e.kind = "resp" ->
              /\ Check(l, "C02.SseAnsweredOnce", <<e.s, e.id>> \notin m.s2cResp)
              /\ Check(l, "C02.SseAnsweredOnOwnSession", (e.tag # "" => e.os = e.s) /\ <<e.s, e.id>> \in m.reqTo)
              /\ m' = [m EXCEPT !.s2cResp = @ \cup {<<e.s, e.id>>}]
         [] e.kind = "sreq" ->
              m' = [m EXCEPT !.sreqOn = @ \cup {<<e.s, e.id>>}, !.sreqId = Put(m.sreqId, e.tag, e.id), !.reqSeq = Put(m.reqSeq, <<"cli", e.tag>>, e.seq)]
         [] e.kind = "note" ->
              m' = [m EXCEPT !.reqSeq = Put(m.reqSeq, <<"cli", e.tag>>, e.seq)]
         [] OTHER -> m' = m

OnPostBegin(e) ==
  LET late == e.to = "?" \/ e.to \in m.getx
      m1 == [m EXCEPT !.posts = Put(m.posts, e.p, [to |-> e.to, kind |-> e.kind, late |-> late, id |-> e.id])] IN
  IF e.hs THEN m' = m1
  ELSE CASE e.kind \in {"call", "ping"} ->
              m' = [m1 EXCEPT !.reqTo = @ \cup {<<e.to, e.id>>}, !.reqSeq = Put(m.reqSeq, <<"srv", e.tag>>, e.seq)]
         [] e.kind = "note" ->
              m' = [m1 EXCEPT !.reqSeq = Put(m.reqSeq, <<"srv", e.tag>>, e.seq)]
         [] e.kind = "resp" ->
              /\ Check(l, "C02.SseAnsweredOnce", <<e.from, e.id>> \notin m.c2sResp)
              /\ Check(l, "C02.SseAnsweredOnOwnSession",
                       e.to \in {e.from, "?"} /\ (e.tag # "" => e.os = e.from) /\ <<e.from, e.id>> \in m.sreqOn)
              /\ m' = [m1 EXCEPT !.c2sResp = @ \cup {<<e.from, e.id>>}]
         [] OTHER -> m' = m1

OnPostEnd(e) ==
  LET p == Get(m.posts, e.p, [to |-> "?", kind |-> "", late |-> FALSE, id |-> ""]) IN
  \* a request that reaches the server after its session has ended is rejected, not acknowledged and dropped
  /\ Check(l, "C02.SseRejectedNotDropped", (p.late /\ p.kind \in {"call", "ping", "note"}) => ~(e.status >= 200 /\ e.status <= 299))
  \* "session closed" (400 for a well-formed message to a session the handler still routes to) says that the server's end of
  \* the transport has been closed: no handler of that session is still running then
  /\ Check(l, "C05.SseHandlersFinishBeforeTransportClosed",
           (e.status = 400 /\ ~p.late /\ p.kind \in {"call", "ping", "note", "resp"}) => Running("srv", p.to) = {})
  /\ m' = [m EXCEPT !.acc = IF e.status = 202 /\ p.kind \in {"call", "ping"} /\ ~e.hs THEN @ \cup {<<p.to, p.id>>} ELSE @,
                    !.c2sAck = IF e.status = 202 /\ p.kind = "resp" /\ ~e.hs THEN @ \cup {<<e.from, p.id>>} ELSE @,
                    !.reqEnd = IF e.status = 202 /\ e.tag # "" /\ ~e.hs THEN Put(m.reqEnd, <<"srv", e.tag>>, e.seq) ELSE @]

SentBefore(a, b) ==
  IF a[1] = "cli" THEN a \in DOMAIN m.reqSeq /\ b \in DOMAIN m.reqSeq /\ m.reqSeq[a] < m.reqSeq[b]
  ELSE a \in DOMAIN m.reqEnd /\ b \in DOMAIN m.reqSeq /\ m.reqEnd[a] < m.reqSeq[b]
OnHStart(e) ==
  LET q == H(e.side, e.tag)
      key == <<e.side, e.s>>
      rs == Get(m.reqSeq, <<e.side, e.tag>>, 0) IN
  \* the handler runs in the session the request was sent on
  /\ Check(l, "C02.SseAnsweredOnOwnSession", e.os = e.s)
  \* (SentBefore(a, b): message a of this peer was sent before message b - on the single stream of the hanging GET that is
  \* the order of the server's writes; for POSTs, a's POST had been acknowledged before b's POST began.  A call releases
  \* the queue before its user-visible handler runs, so only a notification's start is ordered against what came later.)
  \* no notification sent earlier by that peer is still being handled
  /\ Check(l, "C03.SseNotificationCompletesFirst",
           \A k \in DOMAIN m.hs : (k[1] = e.side /\ m.hs[k].s = e.s /\ m.hs[k].kind = "note" /\ m.hs[k].started /\ SentBefore(k, <<e.side, e.tag>>))
                                      => m.hs[k].ended)
  \* messages of one peer are dispatched in the order they were sent, each once: when a notification's handler starts, no
  \* message sent after it has started
  /\ Check(l, "C03.SseDispatchInSendOrder", ~q.started)
  /\ Check(l, "C03.SseDispatchInSendOrder",
           e.kind = "note" => \A k \in DOMAIN m.hs : (k[1] = e.side /\ m.hs[k].s = e.s /\ m.hs[k].started) => ~SentBefore(<<e.side, e.tag>>, k))
  \* a call sent by the goroutine whose notifying method had returned is observed by the peer after the notification
  /\ Check(l, "C03.SseSenderOrder",
           (e.kind = "call" /\ e.tag \in DOMAIN m.fol /\ ~Disturbed(e.s)) => H(e.side, m.fol[e.tag]).ended)
  \* nothing sent after the Close of that end began is dispatched
  /\ Check(l, "C05.SseNoDispatchAfterClose", (key \in DOMAIN m.closeSeq /\ rs > 0) => rs < m.closeSeq[key])
  /\ m' = [m EXCEPT !.hs = Put(m.hs, <<e.side, e.tag>>, [s |-> e.s, kind |-> e.kind, started |-> TRUE, ended |-> FALSE])]

OnHEnd(e) == m' = [m EXCEPT !.hs = Put(m.hs, <<e.side, e.tag>>, [H(e.side, e.tag) EXCEPT !.ended = TRUE])]


\* the server's end of the transport is closed (the hanging GET returns) only after running handlers have returned
OnGetExit(e) ==
  /\ Check(l, "C05.SseHandlersFinishBeforeTransportClosed", Running("srv", e.s) = {})
  /\ m' = [m EXCEPT !.getx = @ \cup {e.s}]
\* the client closes a stream that had not ended by itself
OnBodyClose(e) ==
  /\ Check(l, "C05.SseHandlersFinishBeforeTransportClosed", (e.after = "" /\ ~e.srvEnded) => Running("cli", e.s) = {})
  /\ m' = m

OnStreamEnd(e) ==
  m' = [m EXCEPT !.send = @ \cup {e.s},
                 !.sknows = IF e.how \in {"closed", "eof"} THEN @ \cup {e.s} ELSE @]

OnFault(e) ==
  m' = [m EXCEPT !.hurt = IF e.kind = "inject" THEN @ ELSE @ \cup {e.s},
                 !.inj = IF e.kind = "inject" THEN @ \cup {e.s} ELSE @,
                 !.sknows = IF e.kind = "cutB" THEN @ \cup {e.s} ELSE @]

OnNoteSent(e) ==
  m' = [m EXCEPT !.notes = Put(m.notes, e.tag, [err |-> e.err, then |-> e.then]),
                 !.fol = IF e.then # "" /\ e.err = "" /\ e.dir = "c2s" THEN Put(m.fol, e.then, e.tag) ELSE @]

SessObs(e, s) == {e.sess[i] : i \in {j \in DOMAIN e.sess : e.sess[j].s = s}}
EndedC(s) == s \in m.send \/ <<"cli", s>> \in m.closeB
EndedS(s) == s \in m.sknows \/ <<"srv", s>> \in m.closeB \/ s \in m.getx
\* at rest, with everything the environment owes discharged
OnQuiesce(e) ==
  /\ m' = m
  \* C01: no call is still blocked - once the session has terminated / once the connection broke or was closed / at all
  /\ \A i \in DOMAIN e.blocked :
       LET c == Call(e.blocked[i]) IN
       IF <<SideOf(c.dir), c.s>> \in m.waitE THEN Fail(l, "C01.SseNotBlockedAfterTermination")
       ELSE IF Disturbed(c.s) THEN Fail(l, "C01.SseCompletesOnBreak")
       ELSE Fail(l, "C01.SseCallsComplete")
  \* C02: on a session that nothing disturbed every acknowledged call has been answered on that session's stream
  /\ \A a \in m.acc : (a[1] \in m.conn /\ ~Disturbed(a[1]) /\ a[1] \notin m.inj) => Check(l, "C02.SseAnsweredWhenUsable", a \in m.s2cResp)
  \* ... and the client has answered every call the server wrote on its stream
  /\ \A a \in m.sreqOn : (a[1] \in m.conn /\ ~Disturbed(a[1]) /\ a[1] \notin m.inj) => Check(l, "C02.SseAnsweredWhenUsable", a \in m.c2sResp)
  \* C05: every Close has returned, and so has the Wait of an end that could learn of the other's end
  /\ Check(l, "C05.SseCloseReturns", m.closeB \subseteq m.closeE)
  /\ \A s \in m.conn :
       /\ \A o \in SessObs(e, s) :
            /\ Check(l, "C05.SseCloseReturns", (EndedC(s) => o.cwait) /\ (EndedS(s) => o.swait))
            /\ Check(l, "C05.SseSessionRemoved", EndedS(s) => ~o.listed)
            /\ Check(l, "C05.SseNoLeak", (EndedS(s) => ~o.getrun) /\ (EndedC(s) => ~o.reading))
  /\ Check(l, "C05.SseNoLeak", (\A s \in m.conn : EndedC(s) /\ EndedS(s)) => e.goroutines = <<>>)

OnFinal(e) ==
  /\ m' = m
  /\ Check(l, "C05.SseNoLeak", e.goroutines = <<>>)
  /\ Check(l, "C05.SseCloseReturns", e.closeReturned)
  /\ \A i \in DOMAIN e.sess : Check(l, "C05.SseSessionRemoved", ~e.sess[i].listed)

Step(e) ==
  CASE e.ev = "reset"       -> m' = M0
    [] e.ev = "panic"       -> m' = m /\ Fail(l, "C01.SseNoPanic") /\ Fail(l, "C02.SseNoPanic") /\ Fail(l, "C03.SseNoPanic") /\ Fail(l, "C05.SseNoPanic")
    [] e.ev = "bubble"      -> m' = m /\ Fail(l, "C05.SseNoLeak")
    [] e.ev = "final"       -> OnFinal(e)
    [] m.cleanup            -> m' = m
    [] e.ev = "cleanup"     -> m' = [m EXCEPT !.cleanup = TRUE]
    [] e.ev = "sess"        -> /\ m' = [m EXCEPT !.conn = IF e.ok THEN @ \cup {e.s} ELSE @]
                               \* the handshake is an outgoing call on a healthy connection
                               /\ Check(l, "C01.SseOwnResponse", e.ok)
                               /\ Check(l, "C02.SseAnsweredWhenUsable", e.ok)
    [] e.ev = "call.begin"  -> OnCallBegin(e)
    [] e.ev = "call.end"    -> OnCallEnd(e)
    \* the script abandons a nested call: on a session that nothing disturbed, a call whose peer handler had already returned
    \* its answer, accepted by the server's endpoint, has completed with it by now (at rest) - it is not the abandonment that ends it
    [] e.ev = "ctx.cancel"  -> /\ m' = [m EXCEPT !.canc = @ \cup {e.key}]
                               /\ Check(l, "C01.SseCallsComplete",
                                        (~Disturbed(Call(e.key).s) /\ Call(e.key).s \notin m.inj /\ H("cli", e.key).ended /\ e.key \in DOMAIN m.sreqId
                                         /\ <<Call(e.key).s, m.sreqId[e.key]>> \in m.c2sAck) => Call(e.key).ended >= 1)
    [] e.ev = "wire.s2c"    -> OnS2C(e)
    [] e.ev = "post.begin"  -> OnPostBegin(e)
    [] e.ev = "post.end"    -> OnPostEnd(e)
    [] e.ev = "h.start"     -> OnHStart(e)
    [] e.ev = "h.end"       -> OnHEnd(e)
    [] e.ev = "get.exit"    -> OnGetExit(e)
    [] e.ev = "body.close"  -> OnBodyClose(e)
    [] e.ev = "stream.end"  -> OnStreamEnd(e)
    [] e.ev = "net.swfail"  -> m' = [m EXCEPT !.sknows = @ \cup {e.s}]
    [] e.ev = "fault"       -> OnFault(e)
    [] e.ev = "note.sent"   -> OnNoteSent(e)
    [] e.ev = "close.begin" -> m' = [m EXCEPT !.closeB = @ \cup {<<e.side, e.s>>}, !.closeSeq = Put(m.closeSeq, <<e.side, e.s>>, e.seq)]
    [] e.ev = "close.end"   -> m' = [m EXCEPT !.closeE = @ \cup {<<e.side, e.s>>}]
    [] e.ev = "wait.end"    -> m' = [m EXCEPT !.waitE = @ \cup {<<e.side, e.s>>}]
    [] e.ev = "quiesce"     -> OnQuiesce(e)
    [] OTHER                -> m' = m

MNext == /\ l <= NLines /\ l' = l + 1
         /\ Step(TraceLog[l])
MSpec == MInit /\ [][MNext]_mvars
MMark == MarkAt(l)
MAccepted == Accepted
=============================================================================
