SPECIFICATION TraceSpec
CONSTANTS
  MaxEv = 12
  MaxRead = 16
  MaxWrite = 12
CONSTRAINT TMark
POSTCONDITION TAccepted
CHECK_DEADLOCK FALSE
