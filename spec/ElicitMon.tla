------------------------------ MODULE ElicitMon ------------------------------
(* Monitor for X10 part (a): evaluates the clauses A1..A6 of ElicitDefs        *)
(* (verdict) and equality with ElicitDefs!Expected (binding / drift) on the    *)
(* outcomes the real client and server produced.  One line per case:           *)
(* {"c": case, "o": outcome}.                                                  *)
EXTENDS VerifTrace, FiniteSets
D == INSTANCE ElicitDefs

VARIABLE l
MInit == l = 1 /\ MarkInit
MNext == /\ l <= NLines /\ l' = l + 1
         /\ LET e == TraceLog[l] IN
              /\ \A n \in D!Clauses : Check(l, n, D!Clause(n, e.c, e.o))
              /\ Check(l, "drift", D!SameOutcome(e.o, D!Expected(e.c)))
MSpec == MInit /\ [][MNext]_l
MMark == MarkAt(l)
MAccepted == Accepted
=============================================================================
