\* behaviour export: the two budgets crossed (attempts per reconnection x resumptions in a row without progress): the grid
\* of Budgets1 in StreamCliMC.tla, MaxRetries 2 and 3; the server is stuck once its scripted cuts are used up (a client that
\* does not give up is seen polling for ever)
\* (tools/checks/c09.py builds its configurations from the same template; this file is the quick-tier one, for manual runs:
\*  java -cp $TLA_CP tlc2.TLC -config StreamCli_genB.cfg StreamCliMC; thorough: ShapeSet <- TwoShapes, Budgets2 / ExportBudgets2)
SPECIFICATION Spec
CONSTANTS
  KindSet = {"post", "sa"}
  ShapeSet <- FirstOnly
  SchemeSet = {"dec"}
  MSet = {2}
  MRSet = {2, 3}
  MaxCuts = 5
  ClassSet = {"bnd"}
  AnswerSet = {"terr", "ok", "503"}
  TailSet = {"stuck"}
  RetrySet = {"none", "bare", "named", "idd"}
  FixScanner = FALSE
  FixCursor = TRUE
  Fix5xx = TRUE
CONSTRAINT Budgets1
INVARIANTS ExportBudgets1
CHECK_DEADLOCK FALSE
