SPECIFICATION SeamSpec
CONSTANTS
  Sess = {"s1"}
  Reqs = {"r1"}
  Gets = {"g1","g2"}
  Cfgs <- CfgStoreNoPrime
  MaxEmit = 2
  MaxSreq = 0
  MaxSa = 0
  MaxBc = 0
  DupOf <- NoDup
  Gates = FALSE
VIEW MCView
CHECK_DEADLOCK FALSE
