SPECIFICATION MCSpec
CONSTANTS
  MaxSess = 2
  MaxPost = 2
  MaxSend = 1
  Cap = 1
  Direct = TRUE
  RandomSelect = TRUE
  KindSet = {"call", "notif", "badjson"}
  WithNoId = FALSE
  WithUnknown = FALSE
INVARIANTS TypeOK EndpointFirst Routing AtMostOnce Order Refusal
PROPERTIES NoWriteAfterClose WriteFailsAfterClose Monotone
CHECK_DEADLOCK FALSE
