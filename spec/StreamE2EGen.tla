----------------------------- MODULE StreamE2EGen -----------------------------
(* Scenario generator by simulation: the actions of StreamE2E with a history of *)
(* the environment actions in the step vocabulary of                            *)
(* harness/mcp/c09_e2e_test.go.                                                 *)
EXTENDS StreamE2EMC, Json
VARIABLE hist
hvars == <<st, hist>>

H(step) == hist' = Append(hist, step)
HCall(r) == Call(r) /\ H(<<"call", r>>)
HServerWrite(s, k) == ServerWrite(s, k) /\ H(<<IF k = "q" THEN "sreq" ELSE "emit", s>>)
HHandlerReturn(r) == HandlerReturn(r) /\ H(<<"ret", r>>)
HCut(s, n, mode, how) == Cut(s, n, mode, how) /\ H(<<"arm", s, ToString(n), mode, how>>)
HReconnectFails(s, kind) == ReconnectFails(s, kind) /\ H(<<"rfail", s, kind>>)
HReconnectOk(s) == ReconnectOk(s) /\ H(<<"rok", s>>)
HServerClose(r) == ServerClose(r) /\ H(<<"sclose", r>>)
HNext ==
  \/ \E r \in Reqs : HCall(r) \/ HHandlerReturn(r) \/ HServerClose(r)
  \/ \E s \in Streams, k \in {"n", "q"} : HServerWrite(s, k)
  \/ \E s \in Streams, n \in 0..ArmN, mode \in {"bnd", "in"}, how \in CutHows : HCut(s, n, mode, how)
  \/ \E s \in Streams, kind \in FailKinds : HReconnectFails(s, kind)
  \/ \E s \in Streams : HReconnectOk(s)
HSpec == Init /\ hist = <<>> /\ [][HNext]_hvars

\* export for -simulate: every state prints its history (prefix-closed; the runner keeps the longest of a behaviour)
Export == IF Len(hist) >= 3 THEN PrintT(ToJson([prime |-> st.prime, steps |-> hist])) ELSE TRUE

=============================================================================
