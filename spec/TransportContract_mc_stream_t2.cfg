SPECIFICATION Spec
CONSTANTS
  Class = "stream"
  Ideal = FALSE
  KSet = {"n", "orph"}
  NW <- W02
  NR <- W20
  NC <- W11
  WMax = 3
  CMax = 2
INVARIANTS TypeOK Fifo NoSpuriousError NoLoss RestAll ClosedStopsWrites
PROPERTIES ClosedForGood
CHECK_DEADLOCK FALSE
