SPECIFICATION FairSpec
CONSTANTS
  NSess = 1
  CC <- C1
  Nest <- C1
  NCN = 0
  NSN = 0
  MaxFaults = 1
  FaultKinds <- FCore
  HoldKinds <- HNone
  Combos = FALSE
  HandsAll = TRUE
  Bug = "noclose"
PROPERTIES C01_CallsEndOnBreak
CHECK_DEADLOCK FALSE
