---------------------------- MODULE LogFilterGen ----------------------------
(* Behaviour generation for X03: LogFilter with a history of the steps taken, *)
(* in the harness' vocabulary.                                                *)
(*   - Export prints every behaviour of length MaxLen (LogFilter_sim.cfg,     *)
(*     run with -simulate);                                                   *)
(*   - Lead* print the shortest behaviour reaching a state in which the       *)
(*     pending record's outcome breaks a predicate (LogFilter_lead_*.cfg: a   *)
(*     counterexample is EXPECTED there - deviations D1..D3 - and is replayed *)
(*     on the real code; it is never a verdict by itself).                    *)
EXTENDS LogFilterMC, Json

CONSTANTS MaxLen
VARIABLES hist
hvars == <<vars, hist>>

Go == MaxLen = 0 \/ Len(hist) < MaxLen
H(op, a) == Go /\ hist' = Append(hist, [op |-> op, a |-> a])

HInit == Init /\ hist = <<>>
HNext ==
  \/ \E L \in SetLevels : SetLevel(L) /\ H("SetLevel", <<L>>)
  \/ \E r \in Reqs, L \in ReqLevels : OpenReq(r, L) /\ H("OpenReq", <<r, L>>)
  \/ \E r \in Reqs : CloseReq(r) /\ H("CloseReq", <<r>>)
  \/ \E c \in Ctxs, l \in DirectLevels : LogDirect(c, l) /\ H("LogDirect", <<c, l>>)
  \/ \E f \in Fams, k \in Clones, c \in Ctxs, sl \in Slog : SlogEnabled(f, k, c, sl) /\ H("SlogEnabled", <<f, k, c, sl>>)
  \/ SlogHandle /\ H("SlogHandle", <<>>)
  \/ \E dt \in Ticks : Tick(dt) /\ H("Tick", <<dt>>)
  \/ Settle /\ H("Settle", <<>>)
HSpec == HInit /\ [][HNext]_hvars

Scenario(why) == [why |-> why, era |-> era, steps |-> hist]
Export == IF MaxLen > 0 /\ Len(hist) = MaxLen THEN PrintT(ToJson(Scenario("sim"))) ELSE TRUE
LeadExcess == IF InvExcess THEN TRUE ELSE PrintT(ToJson(Scenario("InvExcess"))) /\ FALSE
LeadAny    == IF InvAny THEN TRUE ELSE PrintT(ToJson(Scenario("InvAny"))) /\ FALSE
=============================================================================
