SPECIFICATION GenSpec
CONSTANTS
  Sessions = {"L1", "M1", "M2"}
  Legacy = {"L1"}
  InitOn = {"L1", "M1"}
  InitSub = {}
  Kinds = {"tools", "prompts"}
  NotifOf <- NotifStd
  Uris = {"u1"}
  Want <- WantM2
  CapOff = {}
  CapMode <- ModeInferred
  InitSize <- Size3
  MaxSize = 3
  Dirs = {"mod"}
  SendGate = "configured"
  TTLPos = FALSE
  D = 2
  MaxTime = 14
  MaxChanges = 5
  MaxUpdates = 2
  MaxCalls = 2
  NPages = 1
  ListenOwns = TRUE
  ResubRace = TRUE
  GenCheck = TRUE
  ColdBump = TRUE
  ModernUnsub = FALSE
  ForeignUnsub = TRUE
  Listeners = {}
  MaxListens = 0
  FailUndo = TRUE
  Stepwise = TRUE
  Gates = TRUE
  GateNames = {"inv", "usr", "put"}
  ClientFirst = FALSE
  MinSteps = 10
  MaxSteps = 22
  Bias = TRUE
  Script <- ScriptNone
  GenOps = {"change", "tchange", "updated", "connect", "close", "subscribe", "unsubscribe", "list", "tick", "hold", "release"}
INVARIANTS Export
CHECK_DEADLOCK FALSE
