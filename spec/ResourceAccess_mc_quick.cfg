SPECIFICATION WitSpec
CONSTANTS
  Readers = {"r1", "r2"}
  XE = {"E1", "E2"}
  XT = {"Tda", "Tp"}
  MaxMut = 3
  MaxRead = 2
CONSTANT XU <- URIs3
INVARIANTS DefsAgree TypeOK Linearizable BoundInWindow GensDistinct NeverServedByUnregistered ExactBeatsTemplates ExactServesOwnURI
CONSTRAINT WitMark
POSTCONDITION WitAll
CHECK_DEADLOCK FALSE
