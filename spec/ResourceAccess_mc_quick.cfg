SPECIFICATION Spec
CONSTANTS
  Readers = {"r1", "r2"}
  XE = {"E1", "E2"}
  XT = {"Tda", "Tp"}
  MaxMut = 3
  MaxRead = 3
CONSTANT XU <- URIs3
INVARIANTS DefsAgree TypeOK Linearizable BoundInWindow GensDistinct NeverServedByUnregistered ExactBeatsTemplates ExactServesOwnURI
CHECK_DEADLOCK FALSE
