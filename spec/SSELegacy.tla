------------------------------ MODULE SSELegacy ------------------------------
(* Extension check X02: the legacy HTTP+SSE transport of MCP 2024-11-05,      *)
(* SERVER side (mcp/sse.go: SSEHandler, SSEServerTransport, sseServerConn;    *)
(* mcp/event.go: writeEvent).  The client side is SSELegacyCli.tla.           *)
(*                                                                            *)
(* PROPERTIES                                                                 *)
(* (derived from the doc comments of mcp/sse.go, design/design.md "sse" and   *)
(* the 2024-11-05 transport text they quote: "sessions are initiated via a    *)
(* hanging GET, which streams server->client messages as SSE 'message'        *)
(* events; the first event must be an 'endpoint' event that informs the       *)
(* client of the session endpoint; the client POSTs client->server messages   *)
(* to the session endpoint"; "a new SSEServerTransport is created with a      *)
(* distinct messages endpoint"; "Write ... fails if the GET has exited";      *)
(* "Close causes the hanging GET to exit"; "we need to ensure we don't push   *)
(* to the queue, or write to the ResponseWriter, after the session GET        *)
(* request exits"; ServeHTTP's own answer "session closed" -> 400)            *)
(*                                                                            *)
(*  S1 EndpointFirst   The first event of every session's GET stream is an    *)
(*     `endpoint` event naming a message URL that carries a session id no     *)
(*     earlier session of the handler was given; no later event of the stream *)
(*     is an `endpoint` event.                                                *)
(*  S2 Routing         A message POSTed to the endpoint of session s is never *)
(*     delivered to, and never answered on the stream of, any session other   *)
(*     than s; a server->client message of session s appears on no stream     *)
(*     other than s's.                                                        *)
(*  S3 AtMostOnce      Every POSTed message is delivered to the server at     *)
(*     most once, and only if its POST is answered 202; every server->client  *)
(*     message whose Write succeeded appears exactly once on the stream and   *)
(*     one whose Write failed never appears.                                  *)
(*  S4 Order           Messages of one session are delivered in POST order    *)
(*     (a POST that completed before another began is delivered first), and   *)
(*     `message` events appear in the order of the server's Writes.           *)
(*  S5 Refusal         A POST without a session id, with an id the handler    *)
(*     never issued or no longer serves, with a body that is not a valid      *)
(*     JSON-RPC message for a server, or with a wrong Content-Type is         *)
(*     answered 4xx and nothing of it is ever delivered.                      *)
(*  S6 Accepted        While a session stays open, a POST answered 202 is     *)
(*     eventually delivered (liveness; fairness of the SDK's own goroutines). *)
(*  S7 ClosedRefuses   Once a session is closed (its Connection's Close has   *)
(*     taken effect, or its GET has exited) no POST that BEGINS afterwards is *)
(*     answered 2xx, nothing is pushed to its queue or written to its stream, *)
(*     and a Write on it fails.                                               *)
(*  S8 NoLeak          Whenever a session's GET ends - client disconnect,     *)
(*     server-side Close - the session eventually leaves the handler's table  *)
(*     and the server's session list, every parked POST is answered, and no   *)
(*     goroutine stays behind (liveness + quiescence).                        *)
(*                                                                            *)
(* DEVIATIONS of the code from the idealised design, modelled as they are:    *)
(*  D1 (RandomSelect) SSEServerTransport.ServeHTTP decides between "push" and *)
(*     "session closed" with a Go select, without holding t.mu: when the      *)
(*     session is already closed and the queue has room BOTH cases are ready  *)
(*     and the runtime picks at random.  S7 is therefore violated: with       *)
(*     RandomSelect = TRUE TLC must find the counterexample (sensitivity),    *)
(*     with FALSE (the design the comments describe) S7 holds.                *)
(*  D2 (Closing) after the client dropped the GET, or the server called       *)
(*     Close, while a tool handler is still running, the transport is not     *)
(*     closed until the handler returns (graceful shutdown of jsonrpc2): the  *)
(*     session stays in the table, POSTs are answered 202 and read, calls are *)
(*     answered with an error on the stream nobody may be listening to,       *)
(*     notifications are dropped.  S7 is about sessions whose close has taken *)
(*     effect; "delivered" means "read from the transport".                   *)
(*                                                                            *)
(* One action per protocol step / critical section:                           *)
(*   Get            SSEHandler.ServeHTTP GET: rand.Text(), table insert,      *)
(*                  Server.Connect -> SSEServerTransport.Connect (endpoint)    *)
(*   PostLookup     ServeHTTP POST: content type, sessionid, table lookup     *)
(*   PostBody       SSEServerTransport.ServeHTTP: ReadAll, decode,            *)
(*                  checkRequest, select{push | done}                         *)
(*   Release        (harness) the request body of a gated POST becomes        *)
(*                  readable: pins a POST between lookup and push             *)
(*   Deliver/Read   sseServerConn.Read                                        *)
(*   Respond        the server's handler writes its response (Write)          *)
(*   Send           sseServerConn.Write of a server-initiated message         *)
(*   Disconnect     the GET's request context is cancelled: the GET handler   *)
(*                  wakes up and calls its deferred ss.Close()                *)
(*   Close          ServerSession.Close by the server (Direct: the            *)
(*                  Connection's Close, which closes the transport at once)   *)
(*   ConnClose      jsonrpc2 reaches sseServerConn.Close (only once no        *)
(*                  handler is running)                                       *)
(*   GetExit        GET handler returns: deferred delete from the table       *)
(* Two configurations: Direct = FALSE is SSEHandler + Server (the reader is   *)
(* the SDK's read loop: Deliver is internal and eager); Direct = TRUE is a    *)
(* bare SSEServerTransport whose Connection is driven by hand (no table, the  *)
(* caller routes; Read is an explicit step).                                  *)
EXTENDS Integers, Sequences, FiniteSets, TLC

CONSTANTS MaxSess,       \* sessions opened in one behaviour; slot i = the i-th successful GET
          MaxPost,       \* POSTs 1..MaxPost, issued in this order; POST p carries message p
          MaxSend,       \* server-initiated messages per session
          Cap,           \* capacity of the incoming queue (the code: 100)
          Direct,        \* see above
          RandomSelect   \* deviation D1 as implemented (TRUE) or the idealised design (FALSE)

Sess    == 1..MaxSess
Posts   == 1..MaxPost
NoId    == 0
Unknown == -1
Targets == Sess \cup {NoId, Unknown}
\* call: request answered at once; notif: notification; slow: request whose handler runs until EndSlow;
\* badjson: not JSON-RPC; badreq: JSON-RPC but not acceptable for a server (unknown method / call without
\* id); ctype: well-formed message, Content-Type text/plain
Kinds   == {"call", "notif", "slow", "badjson", "badreq", "ctype"}
Good(k) == k \in {"call", "notif", "slow"}

VARIABLES nopen,    \* sessions opened so far
          tab,      \* h.sessions (Direct: the caller's own routing, entries are never removed)
          st,       \* [Sess -> "free" | "open" | "closed"]   transport: closed flag / done channel
          get,      \* [Sess -> "none" | "run" | "cancelled" | "exited"]  the hanging GET
          reading,  \* [Sess -> BOOLEAN]  the server's read loop still consumes the queue
          closing,  \* [Sess -> BOOLEAN]  ServerSession.Close has been called (jsonrpc2 "closing")
          lost,     \* [Sess -> SUBSET Posts] notifications read and dropped by a closing connection
          q,        \* [Sess -> Seq(Posts)]  t.incoming
          got,      \* [Sess -> Seq(Posts)]  messages Read has returned, in order
          eofs,     \* [Sess -> Nat]         Reads that returned io.EOF (Direct)
          hand,     \* [Sess -> SUBSET Posts] requests delivered whose handler has not answered yet
          ended,    \* SUBSET Posts          slow handlers the environment has allowed to return
          out,      \* [Sess -> Seq(event)]  what was written to the GET response
          sres,     \* [Sess -> Seq(BOOLEAN)] results of server-initiated Writes
          post,     \* [Posts -> record]
          prec,     \* ghost: <<p1, p2>> : POST p1 had completed when POST p2 began
          late      \* ghost: [Posts -> "" | "closed" | "exited"] state of the target when the POST began
vars == <<nopen, tab, st, get, reading, closing, lost, q, got, eofs, hand, ended, out, sres, post, prec, late>>

NewPost == [ph |-> "new", tgt |-> NoId, kind |-> "call", gated |-> FALSE, rel |-> FALSE, status |-> 0]
Endpoint(s) == <<"endpoint", s>>
RespEv(p) == <<"message", "r", p>>
NoteEv(n) == <<"message", "n", n>>

Init ==
  /\ nopen = 0 /\ tab = {}
  /\ st = [s \in Sess |-> "free"] /\ get = [s \in Sess |-> "none"] /\ reading = [s \in Sess |-> FALSE]
  /\ closing = [s \in Sess |-> FALSE] /\ lost = [s \in Sess |-> {}]
  /\ q = [s \in Sess |-> <<>>] /\ got = [s \in Sess |-> <<>>] /\ eofs = [s \in Sess |-> 0]
  /\ hand = [s \in Sess |-> {}] /\ ended = {}
  /\ out = [s \in Sess |-> <<>>] /\ sres = [s \in Sess |-> <<>>]
  /\ post = [p \in Posts |-> NewPost] /\ prec = {} /\ late = [p \in Posts |-> ""]

Range(f) == {f[i] : i \in DOMAIN f}
DonePosts == {p \in Posts : post[p].ph = "done"}
NextPost == CHOOSE p \in Posts : post[p].ph = "new" /\ \A r \in Posts : r < p => post[r].ph # "new"
HasNewPost == \E p \in Posts : post[p].ph = "new"

-----------------------------------------------------------------------------
\* GET: a new session.  The id is fresh by construction (slot index = order of minting).
Get ==
  /\ nopen < MaxSess
  /\ LET s == nopen + 1 IN
       /\ nopen' = s /\ tab' = tab \cup {s}
       /\ st' = [st EXCEPT ![s] = "open"] /\ get' = [get EXCEPT ![s] = IF Direct THEN "none" ELSE "run"]
       /\ reading' = [reading EXCEPT ![s] = TRUE]
       /\ out' = [out EXCEPT ![s] = <<Endpoint(s)>>]
  /\ UNCHANGED <<closing, lost, q, got, eofs, hand, ended, sres, post, prec, late>>

\* GET while getServer returns nil: 400, the table entry is removed again (no state change)
GetRefused == ~Direct /\ UNCHANGED vars

\* POST, first half (SSEHandler.ServeHTTP): content type, sessionid, lookup
PostLookup(tgt, kind, gated) ==
  /\ HasNewPost
  /\ LET p == NextPost
         status == IF kind = "ctype" /\ ~Direct THEN 415
                   ELSE IF tgt = NoId THEN 400
                   ELSE IF tgt \notin tab THEN 404 ELSE 0
     IN
       /\ post' = [post EXCEPT ![p] = IF status # 0
                                      THEN [NewPost EXCEPT !.ph = "done", !.tgt = tgt, !.kind = kind, !.status = status]
                                      ELSE [NewPost EXCEPT !.ph = "body", !.tgt = tgt, !.kind = kind, !.gated = gated]]
       /\ prec' = prec \cup {<<r, p>> : r \in DonePosts}
       /\ late' = [late EXCEPT ![p] = IF tgt \notin Sess THEN ""
                                      ELSE IF get[tgt] = "exited" THEN "exited"
                                      ELSE IF st[tgt] = "closed" THEN "closed" ELSE ""]
  /\ UNCHANGED <<nopen, tab, st, get, reading, closing, lost, q, got, eofs, hand, ended, out, sres>>

\* (harness) the body of a gated POST becomes readable
Release(p) ==
  /\ post[p].ph = "body" /\ post[p].gated /\ ~post[p].rel
  /\ post' = [post EXCEPT ![p].rel = TRUE]
  /\ UNCHANGED <<nopen, tab, st, get, reading, closing, lost, q, got, eofs, hand, ended, out, sres, prec, late>>

\* POST, second half (SSEServerTransport.ServeHTTP): read + decode + checkRequest, then select
Finish(p, status) == post' = [post EXCEPT ![p].ph = "done", ![p].status = status]
Push(p, s) == q' = [q EXCEPT ![s] = Append(@, p)]
PostBody(p) ==
  /\ post[p].ph = "body" /\ (post[p].gated => post[p].rel)
  /\ LET s == post[p].tgt IN
       IF ~Good(post[p].kind) THEN Finish(p, 400) /\ UNCHANGED q
       ELSE IF st[s] = "closed"
       THEN \/ Finish(p, 400) /\ UNCHANGED q
            \/ RandomSelect /\ Len(q[s]) < Cap /\ Finish(p, 202) /\ Push(p, s)     \* D1
       ELSE Len(q[s]) < Cap /\ Finish(p, 202) /\ Push(p, s)                        \* full queue: the POST waits
  /\ UNCHANGED <<nopen, tab, st, get, reading, closing, lost, got, eofs, hand, ended, out, sres, prec, late>>

\* sseServerConn.Read returns the head of the queue
\* (a closing connection - D2 - refuses a request at once: its "handler" is over before it began;
\* it drops a notification)
Take(s) ==
  LET p == Head(q[s])
      isreq == post[p].kind \in {"call", "slow"} IN
  /\ q' = [q EXCEPT ![s] = Tail(@)]
  /\ IF ~Direct /\ closing[s] /\ ~isreq
     THEN lost' = [lost EXCEPT ![s] = @ \cup {p}] /\ UNCHANGED got
     ELSE got' = [got EXCEPT ![s] = Append(@, p)] /\ UNCHANGED lost
  /\ hand' = IF ~Direct /\ isreq THEN [hand EXCEPT ![s] = @ \cup {p}] ELSE hand
  /\ ended' = IF ~Direct /\ isreq /\ closing[s] THEN ended \cup {p} ELSE ended
\* the SDK's read loop (SSEHandler + Server)
Deliver(s) ==
  /\ ~Direct /\ reading[s] /\ q[s] # <<>> /\ Take(s)
  /\ UNCHANGED <<nopen, tab, st, get, reading, closing, eofs, out, sres, post, prec, late>>
\* an explicit Read on the bare transport's Connection; a Read on an open, empty queue blocks (not a step)
Read(s) ==
  /\ Direct /\ st[s] # "free"
  /\ \/ q[s] # <<>> /\ Take(s) /\ UNCHANGED eofs                                     \* (also when closed: select)
     \/ st[s] = "closed" /\ eofs' = [eofs EXCEPT ![s] = @ + 1] /\ UNCHANGED <<q, got, hand, lost, ended>>
  /\ UNCHANGED <<nopen, tab, st, get, reading, closing, out, sres, post, prec, late>>

\* the handler of a delivered request answers: sseServerConn.Write under t.mu
CanWrite(s) == st[s] = "open"
Respond(s, p) ==
  /\ p \in hand[s] /\ (post[p].kind = "slow" => p \in ended)
  /\ hand' = [hand EXCEPT ![s] = @ \ {p}]
  /\ IF CanWrite(s) THEN out' = [out EXCEPT ![s] = Append(@, RespEv(p))] ELSE UNCHANGED out
  /\ UNCHANGED <<nopen, tab, st, get, reading, closing, lost, q, got, eofs, ended, sres, post, prec, late>>

\* (environment) a slow handler is allowed to return
EndSlow(p) ==
  /\ post[p].kind = "slow" /\ p \notin ended /\ \E s \in Sess : p \in hand[s]
  /\ ended' = ended \cup {p}
  /\ UNCHANGED <<nopen, tab, st, get, reading, closing, lost, q, got, eofs, hand, out, sres, post, prec, late>>

\* a server-initiated message (notification): Write; it succeeds as long as the transport is not closed
\* (also while jsonrpc2 is "closing": notifications are still sent then)
Send(s) ==
  /\ st[s] # "free" /\ Len(sres[s]) < MaxSend
  /\ LET n == Len(sres[s]) + 1 IN
       IF CanWrite(s)
       THEN out' = [out EXCEPT ![s] = Append(@, NoteEv(n))] /\ sres' = [sres EXCEPT ![s] = Append(@, TRUE)]
       ELSE UNCHANGED out /\ sres' = [sres EXCEPT ![s] = Append(@, FALSE)]
  /\ UNCHANGED <<nopen, tab, st, get, reading, closing, lost, q, got, eofs, hand, ended, post, prec, late>>

\* the client drops the GET: its handler wakes up and runs the deferred ss.Close() (the read loop
\* has a context of its own and goes on)
Disconnect(s) ==
  /\ ~Direct /\ get[s] = "run" /\ st[s] = "open"
  /\ get' = [get EXCEPT ![s] = "cancelled"] /\ closing' = [closing EXCEPT ![s] = TRUE]
  /\ UNCHANGED <<nopen, tab, st, reading, lost, q, got, eofs, hand, ended, out, sres, post, prec, late>>

\* the server closes the session: ServerSession.Close (graceful, D2); Direct: Connection.Close
Close(s) ==
  /\ st[s] = "open" /\ ~closing[s]
  /\ closing' = [closing EXCEPT ![s] = TRUE]
  /\ IF Direct THEN st' = [st EXCEPT ![s] = "closed"] /\ reading' = [reading EXCEPT ![s] = FALSE]
     ELSE UNCHANGED <<st, reading>>
  /\ UNCHANGED <<nopen, tab, get, lost, q, got, eofs, hand, ended, out, sres, post, prec, late>>

\* jsonrpc2 is idle and closing: sseServerConn.Close (closed flag, done channel); the read loop ends
ConnClose(s) ==
  /\ ~Direct /\ st[s] = "open" /\ closing[s] /\ hand[s] = {}
  /\ st' = [st EXCEPT ![s] = "closed"] /\ reading' = [reading EXCEPT ![s] = FALSE]
  /\ UNCHANGED <<nopen, tab, get, closing, lost, q, got, eofs, hand, ended, out, sres, post, prec, late>>

\* the hanging GET returns (transport.done or the context woke it, ss.Close() has returned): table delete
GetExit(s) ==
  /\ ~Direct /\ st[s] = "closed" /\ get[s] \in {"run", "cancelled"}
  /\ get' = [get EXCEPT ![s] = "exited"] /\ tab' = tab \ {s}
  /\ UNCHANGED <<nopen, st, reading, closing, lost, q, got, eofs, hand, ended, out, sres, post, prec, late>>

-----------------------------------------------------------------------------
Internal ==
  \/ \E p \in Posts : PostBody(p)
  \/ \E s \in Sess : Deliver(s)
  \/ \E s \in Sess : \E p \in Posts : Respond(s, p)
  \/ \E s \in Sess : ConnClose(s)
  \/ \E s \in Sess : GetExit(s)
Env ==
  \/ Get
  \/ GetRefused
  \/ \E t \in Targets, k \in Kinds, g \in BOOLEAN : PostLookup(t, k, g)
  \/ \E p \in Posts : Release(p)
  \/ \E p \in Posts : EndSlow(p)
  \/ \E s \in Sess : Read(s)
  \/ \E s \in Sess : Send(s)
  \/ \E s \in Sess : Disconnect(s)
  \/ \E s \in Sess : Close(s)
Next == Internal \/ Env

\* fairness: the SDK's own goroutines run; the environment lets its handlers and bodies finish
Fair ==
  /\ \A p \in Posts : WF_vars(PostBody(p)) /\ WF_vars(Release(p)) /\ WF_vars(EndSlow(p))
  /\ \A s \in Sess : WF_vars(Deliver(s)) /\ WF_vars(ConnClose(s)) /\ WF_vars(GetExit(s))
  /\ \A s \in Sess : \A p \in Posts : WF_vars(Respond(s, p))
Spec == Init /\ [][Next]_vars
FairSpec == Spec /\ Fair

-----------------------------------------------------------------------------
\* Properties of the design

Events == {Endpoint(s) : s \in Sess} \cup {RespEv(p) : p \in Posts} \cup {NoteEv(n) : n \in 1..MaxSend}
TypeOK ==
  /\ nopen \in 0..MaxSess /\ tab \subseteq Sess
  /\ st \in [Sess -> {"free", "open", "closed"}]
  /\ get \in [Sess -> {"none", "run", "cancelled", "exited"}]
  /\ reading \in [Sess -> BOOLEAN] /\ closing \in [Sess -> BOOLEAN]
  /\ \A s \in Sess : /\ q[s] \in Seq(Posts) /\ got[s] \in Seq(Posts) /\ Len(q[s]) <= Cap
                     /\ hand[s] \subseteq Posts /\ out[s] \in Seq(Events) /\ sres[s] \in Seq(BOOLEAN)
  /\ ended \subseteq Posts
  /\ \A p \in Posts : post[p].ph \in {"new", "body", "done"} /\ post[p].tgt \in Targets /\ post[p].kind \in Kinds

\* everything the transport took for s and did not drop, in push order
Handed(s) == got[s] \o q[s]
Taken(s) == Range(got[s]) \cup Range(q[s]) \cup lost[s]
Pos(seq, x) == CHOOSE i \in DOMAIN seq : seq[i] = x

\* S1
EndpointFirst ==
  \A s \in Sess : /\ st[s] # "free" => (Len(out[s]) >= 1 /\ out[s][1] = Endpoint(s))
                  /\ \A i \in DOMAIN out[s] : i > 1 => out[s][i][1] # "endpoint"
                  /\ st[s] = "free" => out[s] = <<>>
\* S2
Routing ==
  \A s \in Sess :
    /\ \A p \in Taken(s) : post[p].tgt = s
    /\ \A i \in DOMAIN out[s] : out[s][i][1] = "message" /\ out[s][i][2] = "r" => post[out[s][i][3]].tgt = s
\* S3
AtMostOnce ==
  /\ \A s \in Sess : \A i, j \in DOMAIN Handed(s) : i # j => Handed(s)[i] # Handed(s)[j]
  /\ \A s1, s2 \in Sess : s1 # s2 => Taken(s1) \cap Taken(s2) = {}
  /\ \A s \in Sess : lost[s] \cap Range(Handed(s)) = {}
  /\ \A s \in Sess : \A p \in Taken(s) : post[p].ph = "done" /\ post[p].status = 202
  /\ \A s \in Sess : \A i, j \in DOMAIN out[s] : i # j => out[s][i] # out[s][j]
  /\ \A s \in Sess : \A n \in DOMAIN sres[s] : sres[s][n] <=> (\E i \in DOMAIN out[s] : out[s][i] = NoteEv(n))
\* S4
Order ==
  \A s \in Sess :
    /\ \A p1, p2 \in Range(Handed(s)) : <<p1, p2>> \in prec => Pos(Handed(s), p1) < Pos(Handed(s), p2)
    /\ \A i, j \in DOMAIN out[s] :
         (i < j /\ out[s][i][1] = "message" /\ out[s][j][1] = "message" /\ out[s][i][2] = "n" /\ out[s][j][2] = "n")
           => out[s][i][3] < out[s][j][3]
\* S5
Refusal ==
  \A p \in DonePosts :
    /\ (post[p].tgt \in {NoId, Unknown} \/ ~Good(post[p].kind)) => post[p].status \in 400..499
    /\ post[p].status # 202 => \A s \in Sess : p \notin Taken(s)
    /\ late[p] = "exited" => post[p].status \in {404, 415}
\* S7 (as an invariant over completed POSTs and as action properties)
ClosedRefuses == \A p \in DonePosts : late[p] # "" => post[p].status >= 400
NoPushAfterClose == [][\A s \in Sess : st[s] = "closed" => Len(q'[s]) <= Len(q[s])]_vars
NoWriteAfterClose == [][\A s \in Sess : st[s] = "closed" => out'[s] = out[s]]_vars
WriteFailsAfterClose ==
  [][\A s \in Sess : (st[s] = "closed" /\ Len(sres'[s]) > Len(sres[s])) => ~sres'[s][Len(sres'[s])]]_vars
\* S8, safety half: the table holds exactly the sessions whose GET is still being served
TableExact == ~Direct => tab = {s \in Sess : get[s] \in {"run", "cancelled"}}
Monotone == [][/\ \A s \in Sess : /\ Len(got'[s]) >= Len(got[s]) /\ SubSeq(got'[s], 1, Len(got[s])) = got[s]
                                   /\ Len(out'[s]) >= Len(out[s]) /\ SubSeq(out'[s], 1, Len(out[s])) = out[s]
                                   /\ (st[s] = "closed" => st'[s] = "closed")
                                   /\ (get[s] = "exited" => get'[s] = "exited")]_vars

\* S6, S8: liveness under Fair
Delivered == \A s \in Sess : \A p \in Posts :
               (p \in Range(q[s])) ~> (p \in Range(got[s]) \/ p \in lost[s] \/ ~reading[s])
NoLeak == \A s \in Sess : (closing[s] \/ st[s] = "closed") ~> (Direct \/ (s \notin tab /\ get[s] = "exited"))
PostsEnd == \A p \in Posts : (post[p].ph = "body") ~> (post[p].ph = "done")

\* what a settled harness step looks like: nothing internal is enabled
Settled == ~ENABLED Internal
=============================================================================
