\* quick: stateless mode, two ephemeral sessions
SPECIFICATION MCSpec
CONSTANTS
  Calls = {"k1", "k2"}
  CCl = {"c1"}
  SCl = {}
  Stateless = TRUE
  Timeout = FALSE
  Sse = FALSE
  Nested = FALSE
  Faults = {"cut", "net"}
  DelModes = {}
  Helds = TRUE
  Notifs = FALSE
  Cancels = FALSE
  AwaitHandlers = TRUE
  StopSseOnClose = TRUE
VIEW MCView
INVARIANTS TypeOK NothingDispatchedAfterClose RunningHandlersFinish SessionRemoved
CHECK_DEADLOCK FALSE
