SPECIFICATION Spec
CONSTANTS
  Callers = {"k1"}
  Reqs = {"r1","n1"}
  CallReqs = {"r1"}
  CancelOf <- NoCancelOf
  DupOf <- NoDupOf
  Closers = {"c1","c2"}
  Waiters = {"w1"}
  WriteOutcomes = {"ok","broken"}
  EnvEOF = TRUE
VIEW MCView
INVARIANTS IdleWhenDone CountsNonNegative DoneMeansDrained RefusedNeverWritten OwnResponse AnsweredAtMostOnce NoReplyToNotification OneSyncHandler OnlyMatchingCancelled NoStuck ClosedMeansDone
PROPERTIES CompleteOnce NoHandlerStartAfterTransportClosed CloseOnlyWhenIdle WorkDecreasesUnderShutdown
CHECK_DEADLOCK FALSE
