SPECIFICATION TSpec
CONSTANTS
  Callers = {"k1","k2","k3"}
  Reqs = {"r1","r2","r3","r4","s1","s2","p1","p2","n1","n2","n3","x1","x2","x3","x4","y1","y2","d1","d2"}
  CallReqs = {"r1","r2","r3","r4","s1","s2","p1","p2","d1","d2"}
  CancelOf <- TraceCancelOf
  DupOf <- TraceDupOf
  Closers = {"c1","c2"}
  Waiters = {"w1","w2"}
  WriteOutcomes = {"ok","broken","rejected"}
  EnvEOF = TRUE
CONSTRAINT TMark
INVARIANTS IdleWhenDone CountsNonNegative DoneMeansDrained AnsweredAtMostOnce NoReplyToNotification OneSyncHandler OnlyMatchingCancelled
POSTCONDITION TAccepted
CHECK_DEADLOCK FALSE
