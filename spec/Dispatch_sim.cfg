\* X15 simulation: larger constants than any exhaustive configuration; D-REREG excluded (RegTypes = {"A"})
SPECIFICATION GSpec
CONSTANTS
  MaxMw = 4
  MaxReq = 4
  Behs = {"pass", "short", "tagp", "tagr", "fail"}
  AddLens = {1, 2, 3}
  Eras = {"legacy", "modern"}
  Kinds = {"cc", "cn", "sc", "sn"}
  RegTypes = {"A"}
  Nest = TRUE
  GenLen = 30
CONSTRAINT GExport
CONSTRAINT GBound
CHECK_DEADLOCK FALSE
