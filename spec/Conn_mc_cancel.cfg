SPECIFICATION Spec
CONSTANTS
  Callers = {"k1"}
  Reqs = {"r1","x1"}
  CallReqs = {"r1"}
  CancelOf <- Cancel1
  DupOf <- NoDupOf
  Closers = {}
  Waiters = {}
  WriteOutcomes = {"ok","broken"}
  EnvEOF = TRUE
VIEW MCView
INVARIANTS IdleWhenDone CountsNonNegative DoneMeansDrained RefusedNeverWritten OwnResponse AnsweredAtMostOnce NoReplyToNotification OneSyncHandler OnlyMatchingCancelled NoStuck ClosedMeansDone
PROPERTIES CompleteOnce NoHandlerStartAfterTransportClosed CloseOnlyWhenIdle WorkDecreasesUnderShutdown
CHECK_DEADLOCK FALSE
