\* LEAD: must be violated (Close never returns while a handler waits for an unreachable client)
SPECIFICATION MCLive
CONSTANTS
  Calls = {"k1"}
  CCl = {}
  SCl = {"s1"}
  Stateless = FALSE
  Timeout = TRUE
  Sse = TRUE
  Nested = TRUE
  Faults = {"vanish"}
  DelModes = {}
  Helds = FALSE
  Notifs = FALSE
  Cancels = FALSE
  AwaitHandlers = TRUE
  StopSseOnClose = TRUE
VIEW MCView
PROPERTIES StuckNestedLead
CHECK_DEADLOCK FALSE
