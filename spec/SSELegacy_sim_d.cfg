SPECIFICATION SettledSpec
CONSTANTS
  MaxSess = 2
  MaxPost = 6
  MaxSend = 2
  Cap = 3
  Direct = TRUE
  RandomSelect = TRUE
  KindSet = {"call", "notif", "badjson", "badreq"}
  WithNoId = FALSE
  WithUnknown = FALSE
INVARIANTS TypeOK Routing AtMostOnce Order Refusal
CHECK_DEADLOCK FALSE
