\* thorough (-coverage 1): stateless mode, two ephemeral sessions, every fault
SPECIFICATION Spec
CONSTANTS
  Calls = {"k1", "k2"}
  CCl = {"c1"}
  SCl = {}
  Stateless = TRUE
  Timeout = FALSE
  Sse = FALSE
  Nested = FALSE
  Faults = {"cut", "net", "vanish"}
  DelModes = {}
  Helds = TRUE
  Notifs = FALSE
  Cancels = FALSE
  AwaitHandlers = TRUE
  StopSseOnClose = TRUE
INVARIANTS TypeOK NothingDispatchedAfterClose RunningHandlersFinish SessionRemoved
CHECK_DEADLOCK FALSE
