------------------------------ MODULE HttpClose ------------------------------
(* Shutdown of a session over the STREAMABLE HTTP transport (satellite of property C05).                   *)
(*                                                                                                          *)
(* One real client session (mcp.Client + StreamableClientTransport / streamableClientConn) talks to one     *)
(* StreamableHTTPHandler.  Stateful mode: ONE server session "S" (entry in the handler's table, member of   *)
(* Server.Sessions(), streamableServerConn with per-request streams and the hanging standalone GET).        *)
(* Stateless mode: every POST k gets an EPHEMERAL session k that ServeHTTP closes when it returns.          *)
(*                                                                                                          *)
(* State is what the code keeps, one action per protocol step / critical section:                           *)
(*   mcp/streamable.go   StreamableHTTPHandler.serveStatefulPOST/GET/DELETE, serveStateless, sessionInfo    *)
(*                       timer, streamableServerConn.servePOST/hangResponse/Write/Close,                    *)
(*                       streamableClientConn.Write/handleSSE/connectSSE/Close                              *)
(*   internal/jsonrpc2   Connection.Close/updateInFlight (idle => closer), acceptRequest, readIncoming exit *)
(*   mcp/server.go       ServerSession.Close (conn.Close, then onClose), Server.disconnect                  *)
(*                                                                                                          *)
(* PROPERTY C05, restricted to this transport (the clauses below are checked by TLC here and, through       *)
(* HttpCloseMon.tla, on the real code):                                                                     *)
(*   NothingDispatchedAfterClose  a request that reaches an end after that end's Close has begun never      *)
(*                                reaches a handler                                                         *)
(*   RunningHandlersFinish        a running handler's context is cancelled only by its own caller, and the  *)
(*                                connection of an end is closed only when none of its handlers is running  *)
(*   CloseReturns / WaitReturns   every Close returns, the peer's Wait returns (liveness, weak fairness,     *)
(*                                provided handlers return and HTTP exchanges end when cancelled)           *)
(*   SessionRemoved               a returned Close has removed the session from Server.Sessions(), from     *)
(*                                the handler's table, from the client                                      *)
(*   NoLeftovers                  once an end is over nothing of it is left: no hanging exchange, no         *)
(*                                standalone-SSE goroutine, no back-off timer                               *)
EXTENDS Naturals, FiniteSets, Sequences, TLC

CONSTANTS Calls,       \* tool calls the client may make (each at most once)
          CCl,         \* application goroutines that may call ClientSession.Close
          SCl,         \* application goroutines that may call ServerSession.Close (stateful mode)
          Stateless,   \* StreamableHTTPOptions.Stateless
          Timeout,     \* SessionTimeout configured
          Sse,         \* the client keeps a standalone SSE stream (not DisableStandaloneSSE)
          Nested,      \* handlers may call back into the client
          Faults,      \* subset of {"cut", "net", "vanish"}: disconnects of single exchanges / network death / client vanishing
          DelModes,    \* subset of {"fail", "hang", "hold"}: what the network may do to the DELETE of Close
          Helds,       \* a POST may be held in the network
          Notifs,      \* notifications outside requests, both ways
          Cancels,     \* callers may give up
          AwaitHandlers,   \* design switch: jsonrpc2 closes the transport only when idle (TRUE = the code)
          StopSseOnClose   \* design switch: streamableClientConn.Close cancels ctx and closes done (TRUE = the code)

VARIABLES
  net,      \* "up" | "down": every exchange fails once the network is down
  gone,     \* the client process has vanished (no more client steps, no DELETE)
  tab,      \* "live" | "removed" | "none": the session's entry in StreamableHTTPHandler.sessions
  listed,   \* [Sess -> BOOLEAN]: member of Server.Sessions()
  sst,      \* [Sess -> "none" | "open" | "closing" | "trclosed" | "done"]: server-side jsonrpc2 connection + streamableServerConn
  scl,      \* [Closers -> "idle" | "called" | "waiting" | "onclose" | "returned"]: callers of ServerSession.Close
  timer,    \* "off" | "armed": the idle timer of sessionInfo
  h,        \* [Calls -> handler of the call on the server]
  hctx,     \* [Calls -> "live" | "cancelled"]
  px,       \* [Calls -> "none" | "held" | "flight" | "open" | "closed"]: the POST exchange of the call
  nest,     \* [Calls -> nested server->client call made by the handler]
  get,      \* "none" | "flight" | "open" | "closed": the standalone GET exchange
  sse,      \* "off" | "conn" | "backoff" | "req" | "stopping" | "stopped" | "failed": the client's standalone-SSE goroutine
  cst,      \* "open" | "closing" | "broken" | "deleting" | "trclosed" | "done": client-side connection
  ccl,      \* [CCl -> "idle" | "called" | "waiting" | "returned"]
  cfail,    \* "no" | "missing" | "other": streamableClientConn.fail
  clisted,  \* the client session is in Client.sessions
  cc,       \* [Calls -> "none" | "pending" | "ok" | "err"]: the client's calls
  del,      \* "none" | "held" | "flight" | "hung" | "srv" | "ok" | "err" | "skip": the DELETE that Close sends
  delmode,  \* "ok" | "fail" | "hang" | "hold": what the network does with the DELETE
  cn, sn,   \* notification client->server / server->client (outside any request): "none" | "disp" | "drop"
  late,     \* ghost [Calls -> BOOLEAN]: the call reached the server after its session's Close had begun
  lateN,    \* ghost [Calls -> BOOLEAN]: the nested call reached the client after the client's Close had begun
  ccanc     \* ghost [Calls -> BOOLEAN]: the caller cancelled the call

vars == <<net, gone, tab, listed, sst, scl, timer, h, hctx, px, nest, get, sse, cst, ccl, cfail, clisted, cc, del,
          delmode, cn, sn, late, lateN, ccanc>>

Sess == IF Stateless THEN Calls ELSE {"S"}
SOf(k) == IF Stateless THEN k ELSE "S"
Closers == IF Stateless THEN Calls ELSE SCl \cup {"del", "timer"}
CSess(c) == IF Stateless THEN c ELSE "S"

HStates == {"none", "chan", "running", "returned", "done", "refusing", "refused", "lost"}
\* "orun"/"oans": the client's handler is still running / answering although the server has given the call up (the
\* notice of the abandonment travels on the call's own stream, which the caller's cancellation has torn down)
NestStates == {"none", "wire", "run", "ans", "done", "fail", "stuck", "orun", "oans"}
NestPending == {"wire", "run", "ans", "stuck"}
HBusy == {"running", "returned", "refusing"}

TypeOK ==
  /\ net \in {"up", "down"} /\ gone \in BOOLEAN
  /\ tab \in {"live", "removed", "none"}
  /\ listed \in [Sess -> BOOLEAN]
  /\ sst \in [Sess -> {"none", "open", "closing", "trclosed", "done"}]
  /\ scl \in [Closers -> {"idle", "called", "waiting", "onclose", "returned"}]
  /\ timer \in {"off", "armed"}
  /\ h \in [Calls -> HStates] /\ hctx \in [Calls -> {"live", "cancelled"}]
  /\ px \in [Calls -> {"none", "held", "flight", "open", "closed"}]
  /\ nest \in [Calls -> NestStates]
  /\ get \in {"none", "flight", "open", "closed"}
  /\ sse \in {"off", "conn", "backoff", "req", "stopping", "stopped", "failed"}
  /\ cst \in {"open", "closing", "broken", "deleting", "trclosed", "done"}
  /\ ccl \in [CCl -> {"idle", "called", "waiting", "returned"}]
  /\ cfail \in {"no", "missing", "other"} /\ clisted \in BOOLEAN
  /\ cc \in [Calls -> {"none", "pending", "ok", "err"}]
  /\ del \in {"none", "held", "flight", "hung", "srv", "ok", "err", "skip"}
  /\ delmode \in {"ok", "fail", "hang", "hold"}
  /\ cn \in {"none", "disp", "drop"} /\ sn \in {"none", "disp", "drop"}
  /\ late \in [Calls -> BOOLEAN] /\ lateN \in [Calls -> BOOLEAN] /\ ccanc \in [Calls -> BOOLEAN]

\* the state right after Client.Connect has returned: session established, standalone GET attached
Init ==
  /\ net = "up" /\ gone = FALSE
  /\ tab = IF Stateless THEN "none" ELSE "live"
  /\ listed = [s \in Sess |-> ~Stateless]
  /\ sst = [s \in Sess |-> IF Stateless THEN "none" ELSE "open"]
  /\ scl = [c \in Closers |-> "idle"]
  /\ timer = IF Timeout /\ ~Stateless THEN "armed" ELSE "off"
  /\ h = [k \in Calls |-> "none"] /\ hctx = [k \in Calls |-> "live"]
  /\ px = [k \in Calls |-> "none"] /\ nest = [k \in Calls |-> "none"]
  /\ get = IF Sse /\ ~Stateless THEN "open" ELSE "none"
  /\ sse = IF Sse /\ ~Stateless THEN "conn" ELSE "off"
  /\ cst = "open" /\ ccl = [c \in CCl |-> "idle"] /\ cfail = "no" /\ clisted = TRUE
  /\ cc = [k \in Calls |-> "none"]
  /\ del = "none" /\ delmode = "ok" /\ cn = "none" /\ sn = "none"
  /\ late = [k \in Calls |-> FALSE] /\ lateN = [k \in Calls |-> FALSE] /\ ccanc = [k \in Calls |-> FALSE]

\* jsonrpc2 inFlightState.idle() of the server connection of session s: no handler running or answering,
\* no call of ours unanswered.  (A message still sitting in streamableServerConn.incoming does not count.)
SrvIdle(s) == \A k \in Calls : SOf(k) = s => (h[k] \notin HBusy /\ nest[k] \notin NestPending)
\* the same for the client connection
CliIdle == \A k \in Calls : cc[k] # "pending" /\ nest[k] \notin {"run", "ans", "orun", "oans"}
CliShut == cst # "open" \/ cfail # "no"

Fail(kind) == IF cfail = "no" THEN kind ELSE cfail
OpenPosts == {k \in Calls : px[k] = "open"}

------------------------------------------------------------------------------
(* ENVIRONMENT: what the application, the handlers' authors, the network and time do *)

\* ClientSession.CallTool: jsonrpc2 Call (refused while shutting down), then streamableClientConn.Write issues the POST
Call(k, held) ==
  /\ cc[k] = "none" /\ ~gone /\ (held => (Helds /\ net = "up"))
  /\ IF CliShut
       THEN cc' = [cc EXCEPT ![k] = "err"] /\ UNCHANGED px
       ELSE cc' = [cc EXCEPT ![k] = "pending"] /\ px' = [px EXCEPT ![k] = IF held THEN "held" ELSE "flight"]
  /\ UNCHANGED <<net, gone, tab, listed, sst, scl, timer, h, hctx, nest, get, sse, cst, ccl, cfail, clisted, del, delmode, cn, sn, late, lateN, ccanc>>

\* the network lets a held POST through
Release(k) ==
  /\ px[k] = "held" /\ px' = [px EXCEPT ![k] = "flight"]
  /\ UNCHANGED <<net, gone, tab, listed, sst, scl, timer, h, hctx, nest, get, sse, cst, ccl, cfail, clisted, cc, del, delmode, cn, sn, late, lateN, ccanc>>

\* the tool handler returns (it cannot while it waits for the answer to its nested call)
Ret(k) ==
  /\ h[k] = "running" /\ nest[k] \notin NestPending
  /\ h' = [h EXCEPT ![k] = "returned"]
  /\ UNCHANGED <<net, gone, tab, listed, sst, scl, timer, hctx, px, nest, get, sse, cst, ccl, cfail, clisted, cc, del, delmode, cn, sn, late, lateN, ccanc>>

\* the tool handler calls back into the client (ServerSession.CreateMessage with the handler's context):
\* jsonrpc2 Call refuses while the connection shuts down; streamableServerConn.Write puts the request on the
\* call's own stream, which fails (rejected) when no exchange is attached to it; stateless sessions cannot call
Sreq(k) ==
  /\ Nested /\ h[k] = "running" /\ nest[k] = "none" /\ hctx[k] = "live"
  /\ nest' = [nest EXCEPT ![k] = IF ~Stateless /\ sst[SOf(k)] = "open" /\ px[k] = "open" /\ net = "up" THEN "wire" ELSE "fail"]
  /\ UNCHANGED <<net, gone, tab, listed, sst, scl, timer, h, hctx, px, get, sse, cst, ccl, cfail, clisted, cc, del, delmode, cn, sn, late, lateN, ccanc>>

\* the client's handler of the nested call returns
Ans(k) ==
  /\ nest[k] \in {"run", "orun"} /\ ~gone
  /\ nest' = [nest EXCEPT ![k] = IF @ = "run" THEN "ans" ELSE "oans"]
  /\ UNCHANGED <<net, gone, tab, listed, sst, scl, timer, h, hctx, px, get, sse, cst, ccl, cfail, clisted, cc, del, delmode, cn, sn, late, lateN, ccanc>>

\* jsonrpc2 Notify on the client: refused while shutting down unless some call (other than k, just retired) is in flight
CanNotify(k) == cfail = "no" /\ (cst = "open" \/ (cst = "closing" /\ \E j \in Calls : (j # k /\ cc[j] = "pending") \/ nest[j] \in {"run", "ans", "orun", "oans"}))

\* the caller of k gives up: the call is retired at once, its POST is aborted, notifications/cancelled is
\* POSTed and (pre-empting, also while the server connection is closing) cancels the handler's context
CCancel(k) ==
  /\ Cancels /\ cc[k] = "pending" /\ ~gone
  /\ cc' = [cc EXCEPT ![k] = "err"] /\ ccanc' = [ccanc EXCEPT ![k] = TRUE]
  /\ px' = [px EXCEPT ![k] = IF @ \in {"held", "flight", "open"} THEN "closed" ELSE @]
  /\ IF h[k] = "running" /\ net = "up" /\ CanNotify(k) /\ ~Stateless /\ tab = "live" /\ sst[SOf(k)] \in {"open", "closing"}
       THEN hctx' = [hctx EXCEPT ![k] = "cancelled"]
       ELSE UNCHANGED hctx
  /\ cfail' = IF net = "up" /\ CanNotify(k) /\ ~Stateless /\ tab = "removed" THEN Fail("missing") ELSE cfail
  /\ UNCHANGED <<net, gone, tab, listed, sst, scl, timer, h, nest, get, sse, cst, ccl, clisted, del, delmode, cn, sn, late, lateN>>

CClose(c) ==
  /\ ccl[c] = "idle" /\ ~gone
  /\ ccl' = [ccl EXCEPT ![c] = "called"]
  /\ UNCHANGED <<net, gone, tab, listed, sst, scl, timer, h, hctx, px, nest, get, sse, cst, cfail, clisted, cc, del, delmode, cn, sn, late, lateN, ccanc>>

SClose(c) ==
  /\ ~Stateless /\ c \in SCl /\ scl[c] = "idle"
  /\ scl' = [scl EXCEPT ![c] = "called"]
  /\ UNCHANGED <<net, gone, tab, listed, sst, timer, h, hctx, px, nest, get, sse, cst, ccl, cfail, clisted, cc, del, delmode, cn, sn, late, lateN, ccanc>>

\* the network's treatment of the DELETE that the client's Close will send
DelMode(m) ==
  /\ ~Stateless /\ del = "none" /\ delmode = "ok" /\ m \in DelModes /\ ~gone
  /\ delmode' = m
  /\ UNCHANGED <<net, gone, tab, listed, sst, scl, timer, h, hctx, px, nest, get, sse, cst, ccl, cfail, clisted, cc, del, cn, sn, late, lateN, ccanc>>

ReleaseDel ==
  /\ del = "held" /\ del' = "flight" /\ delmode' = "ok"
  /\ UNCHANGED <<net, gone, tab, listed, sst, scl, timer, h, hctx, px, nest, get, sse, cst, ccl, cfail, clisted, cc, cn, sn, late, lateN, ccanc>>

\* the client disconnects from the POST of k / from the standalone GET (the server sees the request context end)
CutPost(k) ==
  /\ "cut" \in Faults /\ px[k] = "open"
  /\ px' = [px EXCEPT ![k] = "closed"]
  /\ UNCHANGED <<net, gone, tab, listed, sst, scl, timer, h, hctx, nest, get, sse, cst, ccl, cfail, clisted, cc, del, delmode, cn, sn, late, lateN, ccanc>>

CutGet ==
  /\ "cut" \in Faults /\ get = "open"
  /\ get' = "closed"
  /\ UNCHANGED <<net, gone, tab, listed, sst, scl, timer, h, hctx, px, nest, sse, cst, ccl, cfail, clisted, cc, del, delmode, cn, sn, late, lateN, ccanc>>

\* the network dies (van = TRUE: the client process dies with it): every exchange in flight is cancelled on both
\* sides, every later one fails
NetDown(van) ==
  /\ (IF van THEN "vanish" ELSE "net") \in Faults /\ net = "up"
  /\ net' = "down" /\ gone' = van
  /\ px' = [k \in Calls |-> IF px[k] \in {"held", "flight", "open"} THEN "closed" ELSE px[k]]
  /\ get' = IF get \in {"flight", "open"} THEN "closed" ELSE get
  /\ del' = IF del \in {"held", "flight", "hung", "srv"} THEN "err" ELSE del
  /\ sse' = IF sse = "req" THEN "backoff" ELSE sse
  /\ UNCHANGED <<tab, listed, sst, scl, timer, h, hctx, nest, cst, ccl, cfail, clisted, cc, delmode, cn, sn, late, lateN, ccanc>>

\* Virtual time passes: the DELETE of Close times out (closeDeleteTimeout), the back-off of the standalone stream
\* expires (with the network down all retries are used up and the connection fails)
TimeEffects ==
  /\ del' = IF del \in {"held", "hung", "srv"} THEN "err" ELSE del
  /\ IF sse = "backoff" /\ ~gone
       THEN IF net = "down" THEN sse' = "failed" /\ cfail' = Fail("other") /\ UNCHANGED get
            ELSE sse' = "req" /\ get' = "flight" /\ UNCHANGED cfail
       ELSE UNCHANGED <<sse, cfail, get>>

\* a few virtual minutes pass
Tick ==
  /\ del \in {"held", "hung", "srv"} \/ (sse = "backoff" /\ ~gone)
  /\ TimeEffects
  /\ UNCHANGED <<net, gone, tab, listed, sst, scl, timer, h, hctx, px, nest, cst, ccl, clisted, cc, delmode, cn, sn, late, lateN, ccanc>>

\* the session has been idle for SessionTimeout (no POST in flight): the timer's callback calls Close
Idle ==
  /\ timer = "armed" /\ OpenPosts = {} /\ scl["timer"] = "idle"
  /\ \A k \in Calls : px[k] \notin {"flight"}
  /\ scl' = [scl EXCEPT !["timer"] = "called"]
  /\ TimeEffects
  /\ UNCHANGED <<net, gone, tab, listed, sst, timer, h, hctx, px, nest, cst, ccl, clisted, cc, delmode, cn, sn, late, lateN, ccanc>>

\* a notification from the client (one POST, answered 202 / 404): dispatched only by an open connection
CNotif ==
  /\ Notifs /\ cn = "none" /\ ~gone /\ ~CliShut /\ ~Stateless
  /\ IF net = "down" THEN cn' = "drop" /\ UNCHANGED cfail
     ELSE IF tab = "removed" THEN cn' = "drop" /\ cfail' = Fail("missing")
     ELSE cn' = (IF sst["S"] = "open" THEN "disp" ELSE "drop") /\ UNCHANGED cfail
  /\ UNCHANGED <<net, gone, tab, listed, sst, scl, timer, h, hctx, px, nest, get, sse, cst, ccl, clisted, cc, del, delmode, sn, late, lateN, ccanc>>

\* a notification from the server outside any request (standalone stream)
SNotif ==
  /\ Notifs /\ sn = "none" /\ ~Stateless
  /\ sn' = IF sst["S"] = "open" /\ get = "open" /\ net = "up" /\ cst = "open" /\ ~gone THEN "disp" ELSE "drop"
  /\ UNCHANGED <<net, gone, tab, listed, sst, scl, timer, h, hctx, px, nest, get, sse, cst, ccl, cfail, clisted, cc, del, delmode, cn, late, lateN, ccanc>>

------------------------------------------------------------------------------
(* SDK, server side *)

\* the POST reaches StreamableHTTPHandler: 404 once the session has left the table; a session whose connection
\* is already closed takes nothing in (servePOST selects on conn.done); otherwise the message is queued for the
\* read loop and the exchange hangs.  Stateless: a fresh session is connected for this request.
PostArrive(k) ==
  /\ px[k] = "flight"
  /\ IF net = "down"
       THEN /\ px' = [px EXCEPT ![k] = "closed"] /\ cc' = [cc EXCEPT ![k] = IF @ = "pending" THEN "err" ELSE @]
            /\ UNCHANGED <<h, late, cfail, sst, listed>>
     ELSE IF Stateless
       THEN /\ sst' = [sst EXCEPT ![k] = "open"] /\ listed' = [listed EXCEPT ![k] = TRUE]
            /\ px' = [px EXCEPT ![k] = "open"] /\ h' = [h EXCEPT ![k] = "chan"]
            /\ UNCHANGED <<late, cfail, cc>>
     ELSE IF tab = "removed"
       THEN /\ px' = [px EXCEPT ![k] = "closed"] /\ cc' = [cc EXCEPT ![k] = IF @ = "pending" THEN "err" ELSE @]
            /\ cfail' = Fail("missing") /\ late' = [late EXCEPT ![k] = TRUE]
            /\ UNCHANGED <<h, sst, listed>>
     ELSE /\ px' = [px EXCEPT ![k] = "open"]
          /\ h' = [h EXCEPT ![k] = IF sst["S"] \in {"open", "closing"} THEN "chan" ELSE "lost"]
          /\ late' = [late EXCEPT ![k] = sst["S"] # "open"]
          /\ UNCHANGED <<cfail, cc, sst, listed>>
  /\ UNCHANGED <<net, gone, tab, scl, timer, hctx, nest, get, sse, cst, ccl, clisted, del, delmode, cn, sn, lateN, ccanc>>

\* the read loop takes the message (acceptRequest): dispatched by an open connection, answered with a
\* refusal by one that is shutting down.  (After the transport has been closed the read loop may still take
\* a message that was queued before; it is refused as well.)
SrvAccept(k) ==
  /\ h[k] = "chan" /\ sst[SOf(k)] \in {"open", "closing", "trclosed"}
  /\ h' = [h EXCEPT ![k] = IF sst[SOf(k)] = "open" THEN "running" ELSE "refusing"]
  /\ UNCHANGED <<net, gone, tab, listed, sst, scl, timer, hctx, px, nest, get, sse, cst, ccl, cfail, clisted, cc, del, delmode, cn, sn, late, lateN, ccanc>>

\* a handler whose context has been cancelled returns (its nested call, made with that context, ends with it)
HandlerCtxReturn(k) ==
  /\ h[k] = "running" /\ hctx[k] = "cancelled"
  /\ h' = [h EXCEPT ![k] = "returned"]
  /\ nest' = [nest EXCEPT ![k] = IF @ = "run" THEN "orun" ELSE IF @ = "ans" THEN "oans" ELSE IF @ \in NestPending THEN "fail" ELSE @]
  /\ UNCHANGED <<net, gone, tab, listed, sst, scl, timer, hctx, px, get, sse, cst, ccl, cfail, clisted, cc, del, delmode, cn, sn, late, lateN, ccanc>>

\* processResult writes the answer on the call's stream: it reaches the caller if the exchange is still attached
SrvRespond(k) ==
  /\ h[k] \in {"returned", "refusing"}
  /\ h' = [h EXCEPT ![k] = IF @ = "returned" THEN "done" ELSE "refused"]
  /\ cc' = [cc EXCEPT ![k] = IF @ = "pending" /\ px[k] = "open" /\ net = "up" /\ sst[SOf(k)] \in {"open", "closing"}
                                THEN (IF h[k] = "returned" THEN "ok" ELSE "err") ELSE @]
  /\ UNCHANGED <<net, gone, tab, listed, sst, scl, timer, hctx, px, nest, get, sse, cst, ccl, cfail, clisted, del, delmode, cn, sn, late, lateN, ccanc>>

\* hangResponse returns: every answer of the stream has been written, or the session's connection is closed.
\* endPOST re-arms the idle timer when this was the last POST.
PostEnd(k) ==
  /\ px[k] = "open"
  /\ h[k] \in {"done", "refused", "lost"} \/ sst[SOf(k)] \in {"trclosed", "done"}
  /\ px' = [px EXCEPT ![k] = "closed"]
  /\ UNCHANGED <<net, gone, tab, listed, sst, scl, timer, h, hctx, nest, get, sse, cst, ccl, cfail, clisted, cc, del, delmode, cn, sn, late, lateN, ccanc>>

\* stateless: ServeHTTP has returned, the deferred session.Close() runs
SlServeReturn(k) ==
  /\ Stateless /\ px[k] = "closed" /\ sst[k] # "none" /\ scl[k] = "idle"
  /\ scl' = [scl EXCEPT ![k] = "called"]
  /\ UNCHANGED <<net, gone, tab, listed, sst, timer, h, hctx, px, nest, get, sse, cst, ccl, cfail, clisted, cc, del, delmode, cn, sn, late, lateN, ccanc>>

\* ServerSession.Close: jsonrpc2 Connection.Close sets connClosing ...
SrvSetClosing(c) ==
  /\ scl[c] = "called"
  /\ scl' = [scl EXCEPT ![c] = "waiting"]
  /\ sst' = [sst EXCEPT ![CSess(c)] = IF @ = "open" THEN "closing" ELSE @]
  /\ UNCHANGED <<net, gone, tab, listed, timer, h, hctx, px, nest, get, sse, cst, ccl, cfail, clisted, cc, del, delmode, cn, sn, late, lateN, ccanc>>

\* ... the critical section that finds the connection idle calls the closer: streamableServerConn.Close closes done
SrvTransportClose(s) ==
  /\ sst[s] = "closing" /\ (AwaitHandlers => SrvIdle(s))
  /\ sst' = [sst EXCEPT ![s] = "trclosed"]
  /\ UNCHANGED <<net, gone, tab, listed, scl, timer, h, hctx, px, nest, get, sse, cst, ccl, cfail, clisted, cc, del, delmode, cn, sn, late, lateN, ccanc>>

\* ... the read loop gets EOF; once idle the connection is done: OnDone -> Server.disconnect
SrvDone(s) ==
  /\ sst[s] = "trclosed" /\ SrvIdle(s)
  /\ sst' = [sst EXCEPT ![s] = "done"] /\ listed' = [listed EXCEPT ![s] = FALSE]
  /\ UNCHANGED <<net, gone, tab, scl, timer, h, hctx, px, nest, get, sse, cst, ccl, cfail, clisted, cc, del, delmode, cn, sn, late, lateN, ccanc>>

\* ... conn.Close returns to the caller ...
SrvCloseWoken(c) ==
  /\ scl[c] = "waiting" /\ sst[CSess(c)] = "done"
  /\ scl' = [scl EXCEPT ![c] = "onclose"]
  /\ UNCHANGED <<net, gone, tab, listed, sst, timer, h, hctx, px, nest, get, sse, cst, ccl, cfail, clisted, cc, del, delmode, cn, sn, late, lateN, ccanc>>

\* ... which runs onClose (once): the entry leaves the handler's table, the idle timer is stopped; the DELETE is answered
SrvOnClose(c) ==
  /\ scl[c] = "onclose"
  /\ scl' = [scl EXCEPT ![c] = "returned"]
  /\ tab' = IF Stateless THEN tab ELSE "removed"
  /\ timer' = "off"
  /\ del' = IF c = "del" /\ del = "srv" THEN "ok" ELSE del
  /\ UNCHANGED <<net, gone, listed, sst, h, hctx, px, nest, get, sse, cst, ccl, cfail, clisted, cc, delmode, cn, sn, late, lateN, ccanc>>

\* the hanging GET returns when the session's connection is closed
GetEnd ==
  /\ ~Stateless /\ get = "open" /\ sst["S"] \in {"trclosed", "done"}
  /\ get' = "closed"
  /\ UNCHANGED <<net, gone, tab, listed, sst, scl, timer, h, hctx, px, nest, sse, cst, ccl, cfail, clisted, cc, del, delmode, cn, sn, late, lateN, ccanc>>

\* the reconnect GET of the standalone stream reaches the handler
GetArrive ==
  /\ ~Stateless /\ get = "flight"
  /\ IF net = "down" THEN get' = "closed" /\ sse' = (IF sse = "req" THEN "backoff" ELSE sse) /\ UNCHANGED cfail
     ELSE IF tab = "removed" THEN get' = "closed" /\ sse' = (IF sse = "req" THEN "failed" ELSE sse) /\ cfail' = Fail("missing")
     ELSE get' = "open" /\ sse' = (IF sse = "req" THEN "conn" ELSE sse) /\ UNCHANGED cfail
  /\ UNCHANGED <<net, gone, tab, listed, sst, scl, timer, h, hctx, px, nest, cst, ccl, clisted, cc, del, delmode, cn, sn, late, lateN, ccanc>>

\* the DELETE reaches the handler: serveStatefulDELETE calls session.Close() (404 if the entry is gone)
DelArrive ==
  /\ ~Stateless /\ del = "flight"
  /\ IF net = "down" \/ delmode = "fail" THEN del' = "err" /\ UNCHANGED scl
     ELSE IF delmode = "hang" THEN del' = "hung" /\ UNCHANGED scl
     ELSE IF tab = "removed" THEN del' = "ok" /\ UNCHANGED scl
     ELSE del' = "srv" /\ scl' = [scl EXCEPT !["del"] = "called"]
  /\ UNCHANGED <<net, gone, tab, listed, sst, timer, h, hctx, px, nest, get, sse, cst, ccl, cfail, clisted, cc, delmode, cn, sn, late, lateN, ccanc>>

------------------------------------------------------------------------------
(* SDK, client side *)

\* the body of the call's POST has ended without the answer: handleSSE reports a synthetic error (no event store)
CliStreamEnd(k) ==
  /\ px[k] = "closed" /\ cc[k] = "pending" /\ ~gone
  /\ cc' = [cc EXCEPT ![k] = "err"]
  /\ UNCHANGED <<net, gone, tab, listed, sst, scl, timer, h, hctx, px, nest, get, sse, cst, ccl, cfail, clisted, del, delmode, cn, sn, late, lateN, ccanc>>

\* the nested request arrives at the client: handled by an open connection, refused by one that is closing,
\* lost if nobody reads any more
CliAccept(k) ==
  /\ nest[k] = "wire"
  /\ nest' = [nest EXCEPT ![k] = IF gone \/ cst \in {"broken", "deleting", "trclosed", "done"} THEN "stuck"
                                  ELSE IF cst = "open" THEN "run" ELSE "ans"]
  /\ lateN' = [lateN EXCEPT ![k] = cst # "open"]
  /\ UNCHANGED <<net, gone, tab, listed, sst, scl, timer, h, hctx, px, get, sse, cst, ccl, cfail, clisted, cc, del, delmode, cn, sn, late, ccanc>>

\* the client POSTs the answer of the nested call
CliAnswerPost(k) ==
  /\ nest[k] \in {"ans", "oans"}
  /\ LET lost == IF nest[k] = "ans" THEN "stuck" ELSE "fail" IN
     IF gone \/ net = "down" \/ cfail # "no" THEN nest' = [nest EXCEPT ![k] = lost] /\ UNCHANGED cfail
     ELSE IF tab = "removed" THEN nest' = [nest EXCEPT ![k] = lost] /\ cfail' = Fail("missing")
     ELSE nest' = [nest EXCEPT ![k] = IF nest[k] = "oans" THEN "fail" ELSE IF sst["S"] \in {"open", "closing"} THEN "done" ELSE "stuck"] /\ UNCHANGED cfail
  /\ UNCHANGED <<net, gone, tab, listed, sst, scl, timer, h, hctx, px, get, sse, cst, ccl, clisted, cc, del, delmode, cn, sn, late, lateN, ccanc>>

\* a vanished client answers nothing
CliVanished(k) ==
  /\ gone /\ nest[k] \in {"run", "ans", "orun", "oans"}
  /\ nest' = [nest EXCEPT ![k] = IF @ \in {"run", "ans"} THEN "stuck" ELSE "fail"]
  /\ UNCHANGED <<net, gone, tab, listed, sst, scl, timer, h, hctx, px, get, sse, cst, ccl, cfail, clisted, cc, del, delmode, cn, sn, late, lateN, ccanc>>

CliSetClosing(c) ==
  /\ ccl[c] = "called" /\ ~gone
  /\ ccl' = [ccl EXCEPT ![c] = "waiting"]
  /\ cst' = IF cst = "open" THEN "closing" ELSE cst
  /\ UNCHANGED <<net, gone, tab, listed, sst, scl, timer, h, hctx, px, nest, get, sse, cfail, clisted, cc, del, delmode, cn, sn, late, lateN, ccanc>>

\* Read fails once the connection has failed: the read loop exits, pending calls are retired, handlers cancelled
CliFailNotice ==
  /\ cfail # "no" /\ cst \in {"open", "closing"} /\ ~gone
  /\ cst' = "broken"
  /\ cc' = [k \in Calls |-> IF cc[k] = "pending" THEN "err" ELSE cc[k]]
  /\ nest' = [k \in Calls |-> IF nest[k] \in {"run", "ans"} THEN "stuck" ELSE IF nest[k] \in {"orun", "oans"} THEN "fail" ELSE nest[k]]
  /\ UNCHANGED <<net, gone, tab, listed, sst, scl, timer, h, hctx, px, get, sse, ccl, cfail, clisted, del, delmode, cn, sn, late, lateN, ccanc>>

\* idle and shutting down: streamableClientConn.Close, which first sends the DELETE (unless the session is
\* known to be gone or no session id was issued)
CliTransportClose ==
  /\ cst \in {"closing", "broken"} /\ CliIdle /\ ~gone
  /\ cst' = "deleting"
  /\ del' = IF Stateless \/ cfail = "missing" THEN "skip" ELSE IF delmode = "hold" /\ net = "up" THEN "held" ELSE "flight"
  /\ UNCHANGED <<net, gone, tab, listed, sst, scl, timer, h, hctx, px, nest, get, sse, ccl, cfail, clisted, cc, delmode, cn, sn, late, lateN, ccanc>>

\* ... then cancels the connection context and closes done: hanging requests are aborted, the SSE goroutine is told to stop
CliFinish ==
  /\ cst = "deleting" /\ del \in {"skip", "ok", "err"} /\ ~gone
  /\ cst' = "trclosed"
  /\ sse' = IF StopSseOnClose /\ sse \in {"conn", "backoff", "req"} THEN "stopping" ELSE sse
  /\ get' = IF StopSseOnClose /\ get \in {"flight", "open"} THEN "closed" ELSE get
  /\ UNCHANGED <<net, gone, tab, listed, sst, scl, timer, h, hctx, px, nest, ccl, cfail, clisted, cc, del, delmode, cn, sn, late, lateN, ccanc>>

SseExit ==
  /\ sse = "stopping" /\ sse' = "stopped"
  /\ UNCHANGED <<net, gone, tab, listed, sst, scl, timer, h, hctx, px, nest, get, cst, ccl, cfail, clisted, cc, del, delmode, cn, sn, late, lateN, ccanc>>

\* the body of the standalone stream has ended: back off before reconnecting
SseBodyEnd ==
  /\ sse = "conn" /\ get = "closed" /\ ~gone
  /\ sse' = "backoff"
  /\ UNCHANGED <<net, gone, tab, listed, sst, scl, timer, h, hctx, px, nest, get, cst, ccl, cfail, clisted, cc, del, delmode, cn, sn, late, lateN, ccanc>>

\* the read loop has seen EOF: connection done, Client.disconnect
CliDone ==
  /\ cst = "trclosed" /\ ~gone
  /\ cst' = "done" /\ clisted' = FALSE
  /\ UNCHANGED <<net, gone, tab, listed, sst, scl, timer, h, hctx, px, nest, get, sse, ccl, cfail, cc, del, delmode, cn, sn, late, lateN, ccanc>>

CliCloseReturn(c) ==
  /\ ccl[c] = "waiting" /\ cst = "done" /\ ~gone
  /\ ccl' = [ccl EXCEPT ![c] = "returned"]
  /\ UNCHANGED <<net, gone, tab, listed, sst, scl, timer, h, hctx, px, nest, get, sse, cst, cfail, clisted, cc, del, delmode, cn, sn, late, lateN, ccanc>>

------------------------------------------------------------------------------
EnvNext ==
  \/ \E k \in Calls : Call(k, FALSE) \/ Call(k, TRUE) \/ Release(k) \/ Ret(k) \/ Sreq(k) \/ Ans(k) \/ CCancel(k) \/ CutPost(k)
  \/ \E c \in CCl : CClose(c)
  \/ \E c \in SCl : SClose(c)
  \/ \E m \in {"fail", "hang", "hold"} : DelMode(m)
  \/ ReleaseDel \/ CutGet \/ NetDown(FALSE) \/ NetDown(TRUE) \/ Tick \/ Idle \/ CNotif \/ SNotif

SdkNext ==
  \/ \E k \in Calls : PostArrive(k) \/ SrvAccept(k) \/ HandlerCtxReturn(k) \/ SrvRespond(k) \/ PostEnd(k) \/ SlServeReturn(k)
                       \/ CliStreamEnd(k) \/ CliAccept(k) \/ CliAnswerPost(k) \/ CliVanished(k)
  \/ \E c \in Closers : SrvSetClosing(c) \/ SrvCloseWoken(c) \/ SrvOnClose(c)
  \/ \E s \in Sess : SrvTransportClose(s) \/ SrvDone(s)
  \/ GetEnd \/ GetArrive \/ DelArrive
  \/ \E c \in CCl : CliSetClosing(c) \/ CliCloseReturn(c)
  \/ CliFailNotice \/ CliTransportClose \/ CliFinish \/ SseExit \/ SseBodyEnd \/ CliDone

Next == EnvNext \/ SdkNext

\* PROVISOS as fairness: the SDK's own steps are weakly fair; handlers return when released (Ret, Ans), held
\* exchanges are let through or time out (Release, ReleaseDel, Tick)
Fairness ==
  /\ \A k \in Calls : WF_vars(PostArrive(k)) /\ WF_vars(SrvAccept(k)) /\ WF_vars(SrvRespond(k)) /\ WF_vars(PostEnd(k))
                      /\ WF_vars(CliStreamEnd(k)) /\ WF_vars(CliAccept(k)) /\ WF_vars(CliAnswerPost(k)) /\ WF_vars(HandlerCtxReturn(k))
                      /\ WF_vars(Ret(k)) /\ WF_vars(Ans(k)) /\ WF_vars(Release(k)) /\ WF_vars(SlServeReturn(k)) /\ WF_vars(CliVanished(k))
  /\ \A c \in Closers : WF_vars(SrvSetClosing(c)) /\ WF_vars(SrvCloseWoken(c)) /\ WF_vars(SrvOnClose(c))
  /\ \A s \in Sess : WF_vars(SrvTransportClose(s)) /\ WF_vars(SrvDone(s))
  /\ \A c \in CCl : WF_vars(CliSetClosing(c)) /\ WF_vars(CliCloseReturn(c))
  /\ WF_vars(GetEnd) /\ WF_vars(GetArrive) /\ WF_vars(DelArrive) /\ WF_vars(CliFailNotice) /\ WF_vars(CliTransportClose)
  /\ WF_vars(CliFinish) /\ WF_vars(SseExit) /\ WF_vars(SseBodyEnd) /\ WF_vars(CliDone) /\ WF_vars(Tick) /\ WF_vars(ReleaseDel)

Spec == Init /\ [][Next]_vars
LiveSpec == Spec /\ Fairness

------------------------------------------------------------------------------
(* THE PROPERTY *)

\* stops new requests from being dispatched
NothingDispatchedAfterClose ==
  /\ \A k \in Calls : late[k] => h[k] \notin {"running", "returned", "done"}
  /\ \A k \in Calls : lateN[k] => nest[k] \notin {"run", "orun"}
  /\ cn = "disp" => TRUE

\* lets handlers that are already running run to completion, and closes the transport only after they have returned
RunningHandlersFinish ==
  /\ \A k \in Calls : hctx[k] = "cancelled" => ccanc[k]
  /\ \A k \in Calls : sst[SOf(k)] \in {"trclosed", "done"} => h[k] \notin {"running", "returned"}
  /\ cst \in {"trclosed", "done"} => \A k \in Calls : nest[k] \notin {"run", "orun"}

\* the session is removed from its Server (and from the handler's table) / from its Client by the time Close returns
SessionRemoved ==
  /\ \A c \in Closers : scl[c] = "returned" => (~listed[CSess(c)] /\ (~Stateless => tab = "removed"))
  /\ \A c \in CCl : ccl[c] = "returned" => ~clisted
  /\ del = "ok" => (Stateless \/ tab = "removed")

\* a handler blocked in a call to the client whose answer can never arrive never returns: the one situation in
\* which "handlers return" cannot be discharged by the handler's author (see StuckNested in HttpCloseMC)
NoStuck == \A k \in Calls : nest[k] # "stuck"

\* Close returns (either side, any number of callers, also the DELETE-driven and the timer-driven one)
SrvCloseReturns == \A c \in Closers : (scl[c] = "called") ~> (scl[c] = "returned" \/ ~NoStuck)
CliCloseReturns == \A c \in CCl : (ccl[c] = "called") ~> (ccl[c] = "returned" \/ gone)
\* the peer's Wait returns: the server's when the DELETE was delivered, the client's when it has a standalone stream
SrvWaitReturns == (~Stateless /\ del = "srv") ~> (sst["S"] = "done" \/ ~NoStuck)
CliWaitReturns == (~Stateless /\ Sse /\ sst["S"] = "done") ~> (cst = "done" \/ gone)
\* nothing is left behind once an end is over
SrvNoLeftovers == \A s \in Sess : (sst[s] = "done") ~> ((\A k \in Calls : SOf(k) = s => px[k] # "open") /\ (~Stateless => get # "open"))
CliNoLeftovers == (cst = "done") ~> (sse \in {"off", "stopped", "failed"})
=============================================================================
