SPECIFICATION Spec
CONSTANTS
  Class = "stdio"
  Ideal = FALSE
  KSet = {"n"}
  NW <- W02
  NR <- W20
  NC <- W11
  WMax = 3
  CMax = 2
INVARIANTS TypeOK Fifo NoSpuriousError NoLoss RestAll ClosedStopsReads
PROPERTIES ClosedForGood
CHECK_DEADLOCK FALSE
