----------------------------- MODULE EventStore -----------------------------
(* Specification of mcp.MemoryEventStore (mcp/event.go), property C20.        *)
(* One action per public method; every method is one critical section under  *)
(* s.mu, so the method call is the linearization point.                      *)
(*                                                                            *)
(* State mirrors the Go struct: store (session -> stream -> dataList{first,   *)
(* data}), nBytes, maxBytes.  Ghost: appended (everything appended to a       *)
(* stream since it was (re)created), lastSz (size of the most recent item).   *)
EXTENDS Integers, Sequences, FiniteSets, TLC

CONSTANTS Sessions, Streams, Sizes, Limits, DefaultMax

Pairs == Sessions \X Streams

VARIABLES open,      \* set of pairs present in the store map
          first,     \* [Pairs -> Nat]   stream index of the first retained item
          data,      \* [Pairs -> Seq([n: Nat, sz: Nat])]  retained items
          nBytes, maxBytes,
          appended,  \* ghost: [Pairs -> Seq(item)]
          lastSz,    \* ghost: size of the most recently appended item
          cnt,       \* ghost: number of appends so far (item identity)
          res,       \* result of the last operation
          panicked

svars == <<open, first, data, nBytes, maxBytes, appended, lastSz, cnt, res, panicked>>

RECURSIVE SumSz(_)
SumSz(q) == IF q = <<>> THEN 0 ELSE Head(q).sz + SumSz(Tail(q))

RECURSIVE SumOver(_, _)
SumOver(S, d) == IF S = {} THEN 0
                 ELSE LET p == CHOOSE x \in S : TRUE IN SumSz(d[p]) + SumOver(S \ {p}, d)

\* One pass of the purge loop: remove the first item of every stream whose size is > 0.
PurgeRound(st) ==
  LET victims == {p \in st.open : SumSz(st.data[p]) > 0}
      freed == LET RECURSIVE F(_)
                   F(S) == IF S = {} THEN 0
                           ELSE LET p == CHOOSE x \in S : TRUE IN Head(st.data[p]).sz + F(S \ {p})
               IN F(victims)
  IN [st EXCEPT !.data  = [p \in Pairs |-> IF p \in victims THEN Tail(st.data[p]) ELSE st.data[p]],
                !.first = [p \in Pairs |-> IF p \in victims THEN st.first[p] + 1 ELSE st.first[p]],
                !.n     = st.n - freed,
                !.stuck = (victims = {})]

RECURSIVE Purge(_)
Purge(st) == IF st.n <= st.max \/ st.stuck THEN st ELSE Purge(PurgeRound(st))

Cur == [open |-> open, data |-> data, first |-> first, n |-> nBytes, max |-> maxBytes, stuck |-> FALSE]

Install(st) == /\ data' = st.data /\ first' = st.first /\ nBytes' = st.n /\ maxBytes' = st.max
               /\ open' = st.open /\ panicked' = (panicked \/ st.stuck)

Init == /\ open = {} /\ first = [p \in Pairs |-> 0] /\ data = [p \in Pairs |-> <<>>]
        /\ nBytes = 0 /\ maxBytes = DefaultMax
        /\ appended = [p \in Pairs |-> <<>>] /\ lastSz = 0 /\ cnt = 0
        /\ res = [kind |-> "none"] /\ panicked = FALSE

Open(s, t) ==
  /\ open' = open \cup {<<s, t>>}
  /\ res' = [kind |-> "ok"]
  /\ UNCHANGED <<first, data, nBytes, maxBytes, appended, cnt, panicked, lastSz>>

\* Append: init the stream, purge FIRST, then store (so the newest item is always present).
AppendSt(p) == Purge([Cur EXCEPT !.open = open \cup {p}])
AppendItem(s, t, n, sz) ==
  /\ Install([AppendSt(<<s, t>>) EXCEPT !.data[<<s, t>>] = Append(AppendSt(<<s, t>>).data[<<s, t>>], [n |-> n, sz |-> sz]),
                                        !.n = AppendSt(<<s, t>>).n + sz])
  /\ appended' = [appended EXCEPT ![<<s, t>>] = Append(@, [n |-> n, sz |-> sz])]
  /\ lastSz' = sz /\ cnt' = cnt + 1
  /\ res' = [kind |-> "ok"]

\* model-checking form: the item's identity is the append counter
AppendSz(s, t, sz) == \E n \in {cnt} : AppendItem(s, t, n, sz)

AfterResult(s, t, i) ==
  LET p == <<s, t>> IN
  IF p \notin open THEN [kind |-> "unknown"]
  ELSE LET start == (i + 1) - first[p] IN
       IF start < 0 THEN [kind |-> "purged"]
       ELSE IF start >= Len(data[p]) THEN [kind |-> "items", items |-> <<>>]
       ELSE [kind |-> "items", items |-> SubSeq(data[p], start + 1, Len(data[p]))]

After(s, t, i) ==
  /\ res' = AfterResult(s, t, i)
  /\ UNCHANGED <<open, first, data, nBytes, maxBytes, appended, cnt, panicked, lastSz>>

SetMax(m) ==
  /\ Install(Purge([Cur EXCEPT !.max = IF m = 0 THEN DefaultMax ELSE m]))
  /\ res' = [kind |-> "ok"]
  /\ UNCHANGED <<appended, cnt, lastSz>>

Closed(s) ==
  LET gone == {p \in open : p[1] = s} IN
  /\ open' = open \ gone
  /\ nBytes' = nBytes - SumOver(gone, data)
  /\ data' = [p \in Pairs |-> IF p \in gone THEN <<>> ELSE data[p]]
  /\ first' = [p \in Pairs |-> IF p \in gone THEN 0 ELSE first[p]]
  /\ appended' = [p \in Pairs |-> IF p \in gone THEN <<>> ELSE appended[p]]
  /\ res' = [kind |-> "ok"]
  /\ UNCHANGED <<maxBytes, cnt, panicked, lastSz>>

Next ==
  \/ \E s \in Sessions, t \in Streams : Open(s, t)
  \/ \E s \in Sessions, t \in Streams, sz \in Sizes : AppendSz(s, t, sz)
  \/ \E s \in Sessions, t \in Streams, i \in -1..3 : After(s, t, i)
  \/ \E m \in Limits : SetMax(m)
  \/ \E s \in Sessions : Closed(s)

Spec == Init /\ [][Next]_svars

-----------------------------------------------------------------------------
\* Properties (C20)

Accounting == nBytes = SumOver(open, data)

\* what a stream retains is a suffix of what was appended to it, oldest evicted first
SuffixRetained ==
  \A p \in Pairs :
     /\ first[p] + Len(data[p]) = Len(appended[p])
     /\ data[p] = SubSeq(appended[p], first[p] + 1, Len(appended[p]))

\* retained bytes never exceed the maximum by more than the most recent item
Bounded == nBytes <= maxBytes + lastSz

\* After returns exactly the appended suffix, or the purge error iff something after i is gone
AfterExactFor(p, i, r) ==
  IF p \notin open THEN r.kind = "unknown"
  ELSE IF i + 1 < first[p] THEN r.kind = "purged"
  ELSE /\ r.kind = "items"
       /\ r.items = (IF i + 1 >= Len(appended[p]) THEN <<>>
                     ELSE SubSeq(appended[p], i + 2, Len(appended[p])))

AfterExact == \A s \in Sessions, t \in Streams, i \in -1..4 :
                 AfterExactFor(<<s, t>>, i, AfterResult(s, t, i))

ClosedReleased == \A p \in Pairs : p \notin open => data[p] = <<>> /\ first[p] = 0
NoPanic == ~panicked
NeverNegative == nBytes >= 0

\* eviction never resurrects: first only grows while the stream exists (action property)
FirstMonotone == [][\A p \in Pairs : (p \in open /\ p \in open') => first'[p] >= first[p]]_svars
=============================================================================
