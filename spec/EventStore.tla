----------------------------- MODULE EventStore -----------------------------
(* Specification of mcp.MemoryEventStore (mcp/event.go), property C20.        *)
(* One action per public method; every method is one critical section under  *)
(* s.mu, so the method call is the linearization point.                      *)
(*                                                                            *)
(* State mirrors the Go struct: store (session -> stream -> dataList{first,   *)
(* data}), nBytes, maxBytes.  Ghost: appended (everything appended to a       *)
(* stream since it was (re)created), lastSz (size of the most recent item).   *)
(*                                                                            *)
(* After is two-phase in the code: After(s,t,i) only builds a lazy iterator    *)
(* (it touches nothing, not even s.mu); every RANGING of that iterator is one  *)
(* read: its first step takes a copy of the retained suffix under s.mu (or     *)
(* fails), later steps hand out the copy.  Iterator objects are state (`its`): *)
(* Get creates one, Begin starts a ranging (the linearization point of the     *)
(* read, first item delivered), Next delivers the next item or observes the    *)
(* end, Stop abandons the ranging.  A finished or abandoned iterator can be    *)
(* ranged again (package iter: "calling the iterator again walks the sequence  *)
(* again") and every other action may be interleaved anywhere.  The atomic     *)
(* action After is Get+Begin+Next* with nothing in between.                    *)
EXTENDS Integers, Sequences, FiniteSets, TLC

CONSTANTS Sessions, Streams, Sizes, Limits, DefaultMax,
          Iters      \* identities of iterator objects held by callers (may be {})

Pairs == Sessions \X Streams

VARIABLES open,      \* set of pairs present in the store map
          first,     \* [Pairs -> Nat]   stream index of the first retained item
          data,      \* [Pairs -> Seq([n: Nat, sz: Nat])]  retained items
          nBytes, maxBytes,
          appended,  \* ghost: [Pairs -> Seq(item)]
          lastSz,    \* ghost: size of the most recently appended item
          cnt,       \* ghost: number of appends so far (item identity)
          res,       \* result of the last operation
          panicked,
          its        \* [Iters -> iterator object]: st ("free" | "held" | "live"), p, idx: the arguments After
                     \* was called with; snap, pos: the copy taken when the ranging began and how many of
                     \* its items have been delivered; want (ghost): what this ranging has to replay;
                     \* stale (ghost): the stream was released by SessionClosed since After was called

svars == <<open, first, data, nBytes, maxBytes, appended, lastSz, cnt, res, panicked, its>>

RECURSIVE SumSz(_)
SumSz(q) == IF q = <<>> THEN 0 ELSE Head(q).sz + SumSz(Tail(q))

RECURSIVE SumOver(_, _)
SumOver(S, d) == IF S = {} THEN 0
                 ELSE LET p == CHOOSE x \in S : TRUE IN SumSz(d[p]) + SumOver(S \ {p}, d)

\* One pass of the purge loop: remove the first item of every stream whose size is > 0.
PurgeRound(st) ==
  LET victims == {p \in st.open : SumSz(st.data[p]) > 0}
      freed == LET RECURSIVE F(_)
                   F(S) == IF S = {} THEN 0
                           ELSE LET p == CHOOSE x \in S : TRUE IN Head(st.data[p]).sz + F(S \ {p})
               IN F(victims)
  IN [st EXCEPT !.data  = [p \in Pairs |-> IF p \in victims THEN Tail(st.data[p]) ELSE st.data[p]],
                !.first = [p \in Pairs |-> IF p \in victims THEN st.first[p] + 1 ELSE st.first[p]],
                !.n     = st.n - freed,
                !.stuck = (victims = {})]

RECURSIVE Purge(_)
Purge(st) == IF st.n <= st.max \/ st.stuck THEN st ELSE Purge(PurgeRound(st))

NoPair == <<"", "">>
NoIter == [st |-> "free", p |-> NoPair, idx |-> 0, snap |-> <<>>, pos |-> 0, want |-> <<>>, stale |-> FALSE]

Cur == [open |-> open, data |-> data, first |-> first, n |-> nBytes, max |-> maxBytes, stuck |-> FALSE]

Install(st) == /\ data' = st.data /\ first' = st.first /\ nBytes' = st.n /\ maxBytes' = st.max
               /\ open' = st.open /\ panicked' = (panicked \/ st.stuck)

Init == /\ open = {} /\ first = [p \in Pairs |-> 0] /\ data = [p \in Pairs |-> <<>>]
        /\ nBytes = 0 /\ maxBytes = DefaultMax
        /\ appended = [p \in Pairs |-> <<>>] /\ lastSz = 0 /\ cnt = 0
        /\ res = [kind |-> "none"] /\ panicked = FALSE
        /\ its = [k \in Iters |-> NoIter]

Open(s, t) ==
  /\ open' = open \cup {<<s, t>>}
  /\ res' = [kind |-> "ok"]
  /\ UNCHANGED <<first, data, nBytes, maxBytes, appended, cnt, panicked, lastSz, its>>

\* Append: init the stream, purge FIRST, then store (so the newest item is always present).
AppendSt(p) == Purge([Cur EXCEPT !.open = open \cup {p}])
AppendItem(s, t, n, sz) ==
  /\ Install([AppendSt(<<s, t>>) EXCEPT !.data[<<s, t>>] = Append(AppendSt(<<s, t>>).data[<<s, t>>], [n |-> n, sz |-> sz]),
                                        !.n = AppendSt(<<s, t>>).n + sz])
  /\ appended' = [appended EXCEPT ![<<s, t>>] = Append(@, [n |-> n, sz |-> sz])]
  /\ lastSz' = sz /\ cnt' = cnt + 1
  /\ res' = [kind |-> "ok"]
  /\ UNCHANGED its

\* model-checking form: the item's identity is the append counter
AppendSz(s, t, sz) == \E n \in {cnt} : AppendItem(s, t, n, sz)

AfterResult(s, t, i) ==
  LET p == <<s, t>> IN
  IF p \notin open THEN [kind |-> "unknown"]
  ELSE LET start == (i + 1) - first[p] IN
       IF start < 0 THEN [kind |-> "purged"]
       ELSE IF start >= Len(data[p]) THEN [kind |-> "items", items |-> <<>>]
       ELSE [kind |-> "items", items |-> SubSeq(data[p], start + 1, Len(data[p]))]

After(s, t, i) ==
  /\ res' = AfterResult(s, t, i)
  /\ UNCHANGED <<open, first, data, nBytes, maxBytes, appended, cnt, panicked, lastSz, its>>

SetMax(m) ==
  /\ Install(Purge([Cur EXCEPT !.max = IF m = 0 THEN DefaultMax ELSE m]))
  /\ res' = [kind |-> "ok"]
  /\ UNCHANGED <<appended, cnt, lastSz, its>>

Closed(s) ==
  LET gone == {p \in open : p[1] = s} IN
  /\ open' = open \ gone
  /\ nBytes' = nBytes - SumOver(gone, data)
  /\ data' = [p \in Pairs |-> IF p \in gone THEN <<>> ELSE data[p]]
  /\ first' = [p \in Pairs |-> IF p \in gone THEN 0 ELSE first[p]]
  /\ appended' = [p \in Pairs |-> IF p \in gone THEN <<>> ELSE appended[p]]
  /\ res' = [kind |-> "ok"]
  \* ghost: the iterators whose stream has just been released (SessionClosed itself knows nothing of iterators)
  /\ its' = [k \in Iters |-> IF its[k].st # "free" /\ its[k].p \in gone THEN [its[k] EXCEPT !.stale = TRUE] ELSE its[k]]
  /\ UNCHANGED <<maxBytes, cnt, panicked, lastSz>>

-----------------------------------------------------------------------------
\* Iterator objects: After in two phases

\* what the property says a read of stream p after index i returns in the current state
ExactResult(p, i) ==
  IF p \notin open THEN [kind |-> "unknown"]
  ELSE IF i + 1 < first[p] THEN [kind |-> "purged"]
  ELSE [kind |-> "items", items |-> (IF i + 1 >= Len(appended[p]) THEN <<>>
                                     ELSE SubSeq(appended[p], i + 2, Len(appended[p])))]

StoreUnchanged == UNCHANGED <<open, first, data, nBytes, maxBytes, appended, cnt, panicked, lastSz>>

\* After(s,t,i) as the code executes it: build the closure, read nothing.  An iterator that is being
\* ranged is not replaced (the caller holds it); a finished one may be.
Get(k, s, t, i) ==
  /\ its[k].st # "live"
  /\ its' = [its EXCEPT ![k] = [NoIter EXCEPT !.st = "held", !.p = <<s, t>>, !.idx = i]]
  /\ res' = [kind |-> "ok"]
  /\ StoreUnchanged

\* the first step of a ranging: copyData under s.mu, then the first item (or the error, or the end)
BeginOut(k) == LET r == AfterResult(its[k].p[1], its[k].p[2], its[k].idx) IN
               IF r.kind # "items" THEN [kind |-> r.kind]
               ELSE IF r.items = <<>> THEN [kind |-> "end"]
               ELSE [kind |-> "item", item |-> r.items[1]]
Begin(k) ==
  /\ its[k].st = "held"
  /\ LET r == AfterResult(its[k].p[1], its[k].p[2], its[k].idx) IN
       its' = IF r.kind = "items" /\ r.items # <<>>
              THEN [its EXCEPT ![k].st = "live", ![k].snap = r.items, ![k].pos = 1,
                               ![k].want = ExactResult(its[k].p, its[k].idx).items]
              ELSE its   \* error or nothing to replay: the ranging is over at once, the iterator stays usable
  /\ res' = BeginOut(k)
  /\ StoreUnchanged

\* a later step: the next item of the copy, or the end of the ranging
NextOut(k) == IF its[k].pos < Len(its[k].snap) THEN [kind |-> "item", item |-> its[k].snap[its[k].pos + 1]]
              ELSE [kind |-> "end"]
IterNext(k) ==
  /\ its[k].st = "live"
  /\ its' = IF its[k].pos < Len(its[k].snap) THEN [its EXCEPT ![k].pos = @ + 1]
            ELSE [its EXCEPT ![k].st = "held", ![k].snap = <<>>, ![k].pos = 0, ![k].want = <<>>]
  /\ res' = NextOut(k)
  /\ StoreUnchanged

\* the consumer breaks out of the range loop
Stop(k) ==
  /\ its[k].st = "live"
  /\ its' = [its EXCEPT ![k].st = "held", ![k].snap = <<>>, ![k].pos = 0, ![k].want = <<>>]
  /\ res' = [kind |-> "ok"]
  /\ StoreUnchanged

\* the caller lets go of an iterator it is not ranging (not observable in the store; used by the cover graph
\* and by the trace specification)
Drop(k) ==
  /\ its[k].st = "held"
  /\ its' = [its EXCEPT ![k] = NoIter]
  /\ res' = [kind |-> "ok"]
  /\ StoreUnchanged

IterIdx == -1 .. 1
IterStep ==
  \/ \E k \in Iters, s \in Sessions, t \in Streams, i \in IterIdx : Get(k, s, t, i)
  \/ \E k \in Iters : Begin(k)
  \/ \E k \in Iters : IterNext(k)
  \/ \E k \in Iters : Stop(k)

Next ==
  \/ \E s \in Sessions, t \in Streams : Open(s, t)
  \/ \E s \in Sessions, t \in Streams, sz \in Sizes : AppendSz(s, t, sz)
  \/ \E s \in Sessions, t \in Streams, i \in -1..3 : After(s, t, i)
  \/ \E m \in Limits : SetMax(m)
  \/ \E s \in Sessions : Closed(s)
  \/ IterStep

Spec == Init /\ [][Next]_svars

-----------------------------------------------------------------------------
\* Properties (C20)

Accounting == nBytes = SumOver(open, data)

\* what a stream retains is a suffix of what was appended to it, oldest evicted first
SuffixRetained ==
  \A p \in Pairs :
     /\ first[p] + Len(data[p]) = Len(appended[p])
     /\ data[p] = SubSeq(appended[p], first[p] + 1, Len(appended[p]))

\* retained bytes never exceed the maximum by more than the most recent item
Bounded == nBytes <= maxBytes + lastSz

\* After returns exactly the appended suffix, or the purge error iff something after i is gone
AfterExactFor(p, i, r) ==
  IF p \notin open THEN r.kind = "unknown"
  ELSE IF i + 1 < first[p] THEN r.kind = "purged"
  ELSE /\ r.kind = "items"
       /\ r.items = (IF i + 1 >= Len(appended[p]) THEN <<>>
                     ELSE SubSeq(appended[p], i + 2, Len(appended[p])))

AfterExact == \A s \in Sessions, t \in Streams, i \in -1..4 :
                 AfterExactFor(<<s, t>>, i, AfterResult(s, t, i))

\* A ranging is ONE read of the stream, taken while it runs: what it hands out - whatever is appended,
\* evicted, closed or created again between its steps - is what had been appended to the stream after the
\* index when it began (the purge and unknown-stream outcomes end the ranging at its first step).
ReplayExact == \A k \in Iters : its[k].st = "live" =>
                  /\ its[k].snap = its[k].want
                  /\ its[k].pos \in 1 .. Len(its[k].snap)
\* an iterator that is not being ranged holds no data (closing a session releases all of its data:
\* nothing of it stays reachable through an iterator obtained earlier)
IdleHoldsNothing == \A k \in Iters : its[k].st # "live" => its[k].snap = <<>> /\ its[k].want = <<>>
\* the copy never changes under the consumer
SnapshotStable == [][\A k \in Iters : (its[k].st = "live" /\ its'[k].st = "live") =>
                        /\ its'[k].snap = its[k].snap /\ its'[k].pos >= its[k].pos]_svars

ClosedReleased == \A p \in Pairs : p \notin open => data[p] = <<>> /\ first[p] = 0
NoPanic == ~panicked
NeverNegative == nBytes >= 0

\* eviction never resurrects: first only grows while the stream exists (action property)
FirstMonotone == [][\A p \in Pairs : (p \in open /\ p \in open') => first'[p] >= first[p]]_svars
=============================================================================
