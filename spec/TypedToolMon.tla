---------------------------- MODULE TypedToolMon ----------------------------
(* Monitor for C16: evaluates TypedToolDefs!HoldsIn / HoldsOut (verdict) and  *)
(* equality with the code-shaped ExpectedIn / ExpectedOut (drift) on outcomes *)
(* recorded from real typed tools served by a real mcp.Server to a real       *)
(* mcp.Client.  One observation line = one tools/call:                        *)
(*   input  : c = [kind in|xin|rin|sin, vr, ty, cache, args],                *)
(*            o = [ran, seen, isError, proto]                                 *)
(*   output : c = [kind, sid, okind, cache, out, nilform, content],           *)
(*            o = [ran, isError, proto, hasSc, sc, texts]                     *)
(* JSON values are the tagged pairs of TypedToolDefs.                         *)
(* The calls of a concurrent scenario (TypedToolConc.tla: several calls in    *)
(* flight on one server, steps pinned by gates in a TLC-generated order) are  *)
(* one line each, of the same form: every call is judged by the clauses of    *)
(* ITS OWN case - what its handler saw / returned against what its client     *)
(* received (structured content and text) - whatever the other calls did in   *)
(* between.  Their extra members (c.scn, c.who, o.at, o.fail) are not read    *)
(* here.                                                                      *)
EXTENDS VerifTrace, FiniteSets
D == INSTANCE TypedToolDefs

VARIABLE l
MInit == l = 1 /\ MarkInit

InCaseOf(e)  == [kind |-> e.c.kind, vr |-> e.c.vr, ty |-> e.c.ty, cache |-> e.c.cache, cls |-> <<>>, args |-> e.c.args]
InOut(e)     == [ran |-> e.o.ran, seen |-> e.o.seen, isError |-> e.o.isError, proto |-> e.o.proto]
OutCaseOf(e) == [kind |-> "out", sid |-> e.c.sid, okind |-> e.c.okind, cache |-> e.c.cache, out |-> e.c.out,
                 nilform |-> e.c.nilform, content |-> e.c.content]
OutOut(e)    == [ran |-> e.o.ran, isError |-> e.o.isError, proto |-> e.o.proto, hasSc |-> e.o.hasSc,
                 sc |-> e.o.sc, texts |-> e.o.texts]

MNext == /\ l <= NLines /\ l' = l + 1
         /\ LET e == TraceLog[l] IN
              IF e.c.kind = "out"
              THEN LET c == OutCaseOf(e)
                       o == OutOut(e) IN
                   /\ Check(l, "HandlerRan", o.ran)
                   /\ Check(l, "StructuredEqualsOutput", D!StructuredEqualsOutput(c, o))
                   /\ Check(l, "OutputValid", D!OutputValid(c, o))
                   /\ Check(l, "TextFallback", D!TextFallback(c, o))
                   /\ Check(l, "TextRendersOutput", D!TextRendersOutput(c, o))
                   /\ Check(l, "BadOutputIsError", D!BadOutputIsError(c, o))
                   /\ Check(l, "ValidOutputReturned", D!ValidOutputReturned(c, o))
                   /\ Check(l, "drift", o = D!ExpectedOut(c))
              ELSE LET c == InCaseOf(e)
                       o == InOut(e) IN
                   /\ Check(l, "InvokedIffValid", D!InvokedIffValid(c, o))
                   /\ Check(l, "SeesExactly", D!SeesExactly(c, o))
                   /\ Check(l, "ErrorResultOtherwise", D!ErrorResultOtherwise(c, o))
                   /\ Check(l, "drift", o = D!ExpectedIn(c) /\ e.o.calls = (IF o.ran THEN 1 ELSE 0))
MSpec == MInit /\ [][MNext]_l
MMark == MarkAt(l)
MAccepted == Accepted
=============================================================================
