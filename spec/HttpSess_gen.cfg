SPECIFICATION GenSpec
CONSTANTS
  MaxSess = 3
  T = 3
  Stateless = FALSE
  MaxSlots = 2
  MaxParked = 2
  StoreModes = {}
INVARIANTS NoTimeoutDuringPost ClosedAndForgotten TimerDiscipline
CHECK_DEADLOCK FALSE
