"""C14 — bearer middleware decision table (DESIGN.md section 6, C14; pattern P1)."""
import json, os
import vlib

PID = "C14"


def sig_of(e, o):
    c = e["c"]
    s = "case=%s|%s|req%d%s|gr%d%s|%s|skew=%s|allow%d|url=%s|opts=%s" % (
        c["hdr"], c["ver"], len(c["req"]), "" if c["rform"] == "exact" else c["rform"],
        len(c["granted"]), "" if c["gform"] == "exact" else c["gform"], c["exp"], c["skew"], int(c["allow"]), c["url"], c["opts"])
    timed = c.get("dur", "0") != "0"
    if timed:
        s += "|dur=" + c["dur"]  # the verifier takes time: the duration class ...
    s += ":status=%s,ran=%s" % (o["status"], int(o["ran"]))
    if timed:
        s += ",arrived=%sd,decided=%sd" % (o["arr"], o["dec"])  # ... and the instants of the outcome, in verifier calls
    return s


def run(tier, seed, replay):
    v = vlib.Verdict(PID, tier, seed)
    v.assumptions = ["time.Now is the virtual clock of testing/synctest: frozen, so the expiry boundary is exact, except while the "
                     "scripted verifier of the duration slice is at work (it sleeps d; every instant of a run is a multiple of d, "
                     "checked by the harness against the clock)",
                     "every value class (header shape, expiration and skew magnitude, scope-list form, URL form) is concretised "
                     "with seeded representatives; the harness checks each expiration/skew representative against its class "
                     "in exact integer arithmetic",
                     "the WWW-Authenticate challenge is read with the harness's RFC 9110 auth-param / quoted-string parser"]
    out = vlib.outdir(PID)
    wd = vlib.scratch("tlc-")
    res = vlib.run_tlc("Bearer", "Bearer.cfg", workdir=wd, workers=1, timeout=600)
    vlib.tlc_must_pass(res, "Bearer")
    if not res.ok:
        raise vlib.MachineryError("Bearer design check failed: " + (res.violation or res.stdout[-2000:]))
    parts = [p for p in res.printed if isinstance(p, dict) and "cases" in p][0]
    ncases = parts["cases"]
    v.add_tlc("Bearer(design: Holds(c, Expected(c)) for all cases)", res)
    v.cov["states"] = ncases  # the decision table has one "state" per abstract case
    v.cov["transitions"] = ncases
    v.cov["case_parts"] = parts
    cases = os.path.join(out, "cases.ndjson")
    if replay:
        rep = json.load(open(replay))
        vlib.write_ndjson(cases, [rep["replay"]["c"]])
    else:
        os.replace(os.path.join(wd, "cases.ndjson"), cases)
    obs = os.path.join(out, "obs.ndjson")
    # representatives per case: the core product / the slices (whose classes have many more kinds of representatives)
    reps, reps_slice = (1, 3) if tier == "quick" else (4, 24)
    if replay:
        reps = reps_slice = 50  # a replayed abstract case is concretised again: draw many representatives of its classes
    rc, gout, wall = vlib.go_test("auth", "^TestVerif_C14$", ["auth/c14_bearer_test.go"],
                                  env={"VERIF_IN": cases, "VERIF_OUT": obs, "VERIF_SEED": seed, "VERIF_REPS": reps,
                                       "VERIF_REPS_SLICE": reps_slice})
    vlib.go_must_build(rc, gout, PID)
    if rc != 0:
        if "representative" in gout and "panic:" in gout:
            raise vlib.MachineryError("C14 harness drew a representative outside its class:\n" + gout[-3000:])
        if "panic:" in gout:
            v.violation("panic", "middleware panicked", {"output": gout[-3000:]})
            return v.finish()
        raise vlib.MachineryError("C14 harness failed:\n" + gout[-3000:])
    rows = vlib.read_ndjson(obs)
    # one line per (case, representative); every line holds the two presentations to one middleware instance
    want = parts["core"] * reps + (ncases - parts["core"]) * reps_slice
    if not replay and len(rows) != want:
        raise vlib.MachineryError("harness wrote %d of %d lines" % (len(rows), want))
    fails, mres = vlib.run_monitor("BearerMon", "BearerMon.cfg", obs)
    v.add_tlc("BearerMon", mres)
    v.cov["traces_validated_against_impl"] = 2 * len(rows)
    v.cov["evaluations"] = 2 * len(rows)
    v.cov["distinct_nontrivial"] = len({json.dumps(r["c"], sort_keys=True) for r in rows if r["c"]["hdr"] != "absent"})
    v.cov["rule"] = ("complete union of products enumerated by TLC (Bearer!CaseParts: core product + time, header, scope-list, "
                     "challenge and verifier-duration slices); non-trivial = an Authorization header is present; every case is run on %d (core) / %d (slices) "
                     "seeded representative(s), each presented twice" % (reps, reps_slice))
    v.cov["exhaustive"] = not replay
    v.cov["admitted"] = sum(int(r["o1"]["ran"]) + int(r["o2"]["ran"]) for r in rows)
    for r in rows[:: max(1, len(rows) // 5)][:5]:
        v.sample(r)
    # the duration slice: presentations during which the clock moved
    timed = [r for r in rows if r["c"].get("dur", "0") != "0"]
    v.cov["presentations_with_a_slow_verifier"] = 2 * len(timed)
    v.cov["admitted_then_refused"] = sum(1 for r in timed if r["o1"]["ran"] and not r["o2"]["ran"])
    for r in [r for r in timed if r["o1"]["ran"] and not r["o2"]["ran"]][:1]:
        v.sample(r)
    for f in fails:
        e = rows[f["line"] - 1]
        name, _, nth = f["monfail"].partition("#")
        o = e["o2"] if nth == "2" else e["o1"]
        if name == "drift":
            v.drift.append("outcome differs from Bearer!Expected: " + sig_of(e, o) + (" (second presentation)" if nth else ""))
        else:
            v.violation("%s:%s" % (name, sig_of(e, o)),
                        "real middleware outcome violates %s%s; representative: %s" % (name, " on the second presentation" if nth else "", e.get("x", "")),
                        e)
    return v.finish()
