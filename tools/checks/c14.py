"""C14 — bearer middleware decision table (DESIGN.md section 6, C14; pattern P1)."""
import json, os
import vlib

PID = "C14"


def sig_of(e):
    c = e["c"]
    return "case=%s|%s|req%d|gr%d%s|%s|skew%d|allow%d|opts=%s:status=%s,ran=%s" % (
        c["hdr"], c["ver"], len(c["req"]), len(c["granted"]), "dup" if c.get("dup") else "", c["exp"], c["skew"], int(c["allow"]), c["opts"],
        e["o"]["status"], int(e["o"]["ran"]))


def run(tier, seed, replay):
    v = vlib.Verdict(PID, tier, seed)
    v.assumptions = ["time.Now is frozen by testing/synctest so the expiry boundary is exact",
                     "header shapes are concretised with seeded whitespace/case variants"]
    out = vlib.outdir(PID)
    wd = vlib.scratch("tlc-")
    res = vlib.run_tlc("Bearer", "Bearer.cfg", workdir=wd, workers=1, timeout=600)
    vlib.tlc_must_pass(res, "Bearer")
    if not res.ok:
        raise vlib.MachineryError("Bearer design check failed: " + (res.violation or res.stdout[-2000:]))
    ncases = [p["cases"] for p in res.printed if isinstance(p, dict) and "cases" in p][0]
    v.add_tlc("Bearer(design: Holds(c, Expected(c)) for all cases)", res)
    v.cov["states"] = ncases  # the decision table has one "state" per abstract case
    v.cov["transitions"] = ncases
    cases = os.path.join(out, "cases.ndjson")
    if replay:
        rep = json.load(open(replay))
        vlib.write_ndjson(cases, [rep["replay"]["c"]])
    else:
        os.replace(os.path.join(wd, "cases.ndjson"), cases)
    obs = os.path.join(out, "obs.ndjson")
    reps = 1 if tier == "quick" else 4
    rc, gout, wall = vlib.go_test("auth", "^TestVerif_C14$", ["auth/c14_bearer_test.go"],
                                  env={"VERIF_IN": cases, "VERIF_OUT": obs, "VERIF_SEED": seed, "VERIF_REPS": reps})
    vlib.go_must_build(rc, gout, PID)
    if rc != 0:
        if "panic:" in gout:
            v.violation("panic", "middleware panicked", {"output": gout[-3000:]})
            return v.finish()
        raise vlib.MachineryError("C14 harness failed:\n" + gout[-3000:])
    rows = vlib.read_ndjson(obs)
    # every case is presented twice to one middleware instance (second time with the same cached TokenInfo)
    if not replay and len(rows) != ncases * reps * 2:
        raise vlib.MachineryError("harness ran %d of %d cases" % (len(rows), ncases * reps * 2))
    fails, mres = vlib.run_monitor("BearerMon", "BearerMon.cfg", obs)
    v.add_tlc("BearerMon", mres)
    v.cov["traces_validated_against_impl"] = len(rows)
    v.cov["evaluations"] = len(rows)
    v.cov["distinct_nontrivial"] = len({json.dumps(r["c"], sort_keys=True) for r in rows if r["c"]["hdr"] != "absent"})
    v.cov["rule"] = "complete product enumerated by TLC (Bearer!CaseSet); non-trivial = an Authorization header is present"
    v.cov["exhaustive"] = not replay
    v.cov["admitted"] = sum(1 for r in rows if r["o"]["ran"])
    for r in rows[:: max(1, len(rows) // 5)][:5]:
        v.sample(r)
    for f in fails:
        e = rows[f["line"] - 1]
        if f["monfail"] == "drift":
            v.drift.append("outcome differs from Bearer!Expected: " + sig_of(e))
        else:
            v.violation("%s:%s" % (f["monfail"], sig_of(e)), "real middleware outcome violates %s" % f["monfail"], e)
    return v.finish()
