"""X07 (extension) - ResourceAccess: how a server resolves resources/read to a registered resource or resource template,
add / remove / read histories, and the file-system resource handler.

  spec/ResourceAccess.tla (PROPERTIES P1..P6 at its top; the state machine for P6), ResourceAccessDefs.tla (token-level URI
  templates and matching, the four decision tables, the file-system model), ResourceAccessTab.tla (design check + case export),
  ResourceAccessMC.tla (bounded configurations, cover graph, witnesses), ResourceAccessMon.tla (monitor: the verdict),
  ResourceAccessTrace.tla (strict trace spec for the gated histories: drift).

  1. design    TLC: Holds(c, Expected(c)) on every cell of the four tables (cells where it fails are LEADS: D1, D2); the state
               machine exhaustively on small constants (safety), liveness under weak fairness, reachability witnesses.
  2. generate  TLC exports the tables; tools/graphwalk.py computes a transition cover of the state graph of the history model.
  3. replay    harness/mcp/x07_resource_test.go: real Server + Client over the in-memory transport; the real fileResourceHandler
               over a directory tree (with symbolic links) built in t.TempDir() from the specification's file-system model;
               gated histories (the harness owns the interleaving) and free-running concurrent histories.
  4. verdict   ResourceAccessMon.tla evaluated by TLC over the observations; equality with Expected / the strict spec is drift.
"""
import json, os, random, re, shutil, threading, time
import vlib, graphwalk

PID = "X07"
HARNESS = ["mcp/x07_resource_test.go"]
WITNESSES = ("NeverAmbiguous", "NeverServedByRemoved", "NeverServedByReplaced", "NeverTemplateDespiteExact",
             "NeverNotFoundDespiteRegistered", "NeverSecondTemplate")
ACTIONS = ("AddRes", "RemoveRes", "AddTmpl", "RemoveTmpl", "ReadStart", "ReadLookup", "ReadReturn")
TABLE_FILES = ("x07_templates.ndjson", "x07_exacts.ndjson", "x07_lk_cfgs.ndjson", "x07_lk_uris.ndjson", "x07_hr_cases.ndjson",
               "x07_reg_cases.ndjson", "x07_fs_nodes.ndjson", "x07_fs_roots.ndjson", "x07_fs_cases.ndjson", "x07_fs_leads.ndjson",
               "x07_reg_leads.ndjson")


def own_wd():
    return vlib.scratch("x07-")


def parallel(jobs):
    """jobs: list of (name, fn). Runs them in threads, returns {name: result}; the first exception is re-raised."""
    out, errs = {}, []

    def wrap(name, fn):
        try:
            out[name] = fn()
        except Exception as e:  # noqa
            errs.append(e)
    ts = [threading.Thread(target=wrap, args=j) for j in jobs]
    for t in ts:
        t.start()
    for t in ts:
        t.join()
    if errs:
        raise errs[0]
    return out


def design_tab(tier):
    wd = own_wd()
    cfg = "ResourceAccessTab_quick.cfg" if tier == "quick" else "ResourceAccessTab.cfg"
    res = vlib.run_tlc("ResourceAccessTab", cfg, workdir=wd, workers=1, timeout=1200, heap_gb=6)
    vlib.tlc_must_pass(res, cfg)
    if not res.ok:
        raise vlib.MachineryError("design check of the decision tables failed (%s): %s" % (cfg, res.violation or res.stdout[-1500:]))
    counts = [p for p in res.printed if isinstance(p, dict) and "lkcfgs" in p]
    if not counts:
        raise vlib.MachineryError("ResourceAccessTab printed no case counts")
    return res, wd, counts[0], cfg


def design_mc(tier):
    """quick: the small exhaustive configuration (safety + all reachability witnesses in one run: registers 11..16,
    POSTCONDITION WitAll) and a small liveness configuration; thorough: additionally the large safety configuration
    (with -coverage 1: no action may be dead) and the larger liveness configuration. The runs go side by side."""
    runs = [("ResourceAccess_mc_quick.cfg", 1, False, 2), ("ResourceAccess_live_quick.cfg", 2, False, 2)]
    if tier != "quick":
        runs += [("ResourceAccess_mc_thorough.cfg", 6, True, 10), ("ResourceAccess_live.cfg", 3, False, 4)]

    def one(cfg, workers, cover, heap):
        r = vlib.run_tlc("ResourceAccessMC", cfg, workdir=own_wd(), workers=workers, timeout=1500, heap_gb=heap, coverage=cover)
        missing = [p for p in r.printed if isinstance(p, dict) and "witness_missing" in p]
        if missing:
            raise vlib.MachineryError("vacuity: witnesses %s of ResourceAccessMC!WitPreds are not reachable in %s" % (missing[0]["witness_missing"], cfg))
        vlib.tlc_must_pass(r, cfg)
        if not r.ok:
            raise vlib.MachineryError("the ResourceAccess model violates %s in %s: design check failed" % (r.violation, cfg))
        if cover:
            dead = [a for a in ACTIONS if a in r.coverage and r.coverage[a][0] == 0]
            missing = [a for a in ACTIONS if a not in r.coverage]
            if dead or missing:
                raise vlib.MachineryError("dead / unreported actions in %s: %s %s" % (cfg, dead, missing))
        return (cfg, r)
    got = parallel([(cfg, (lambda c=cfg, w=w, cv=cv, h=h: one(c, w, cv, h))) for (cfg, w, cv, h) in runs])
    return [got[cfg] for (cfg, _, _, _) in runs]


def cover_histories(tier, seed):
    wd = own_wd()
    dot = os.path.join(wd, "g.dot")
    cfg = "ResourceAccess_cover.cfg" if tier == "quick" else "ResourceAccess_cover_thorough.cfg"
    r = vlib.run_tlc("ResourceAccessMC", cfg, workdir=wd, workers=2 if tier == "quick" else 4, timeout=900, heap_gb=4,
                     extra_args=["-dump", "dot,actionlabels", dot])
    vlib.tlc_must_pass(r, cfg)
    if not r.ok:
        raise vlib.MachineryError("cover model violates %s" % r.violation)
    init, edges = graphwalk.parse_dot(dot)
    paths, total = graphwalk.cover(init, edges, maxlen=40, seed=seed)
    hist = []
    for i, p in enumerate(paths):
        ops = []
        for (name, args) in p:
            a2 = []
            for a in args:
                if isinstance(a, str) and a.startswith("<<"):
                    a2.append(re.findall(r'"((?:[^"\\]|\\.)*)"', a))
                else:
                    a2.append(a)
            ops.append([name, a2])
        hist.append({"id": "cov%d" % i, "era": ["legacy", "modern"][(i + seed) % 2], "ops": ops})
    return (cfg, r), hist, {"nodes": len(edges), "edges": total, "paths": len(paths), "steps": sum(len(h["ops"]) for h in hist)}


def corner_histories():
    """Hand-named schedules (all of them are paths of the model; the cover usually contains them too)."""
    E2 = ["res:", "//h/", "d", "/", "a"]
    UT = ["res:", "//h/", "a", "/", "a"]
    H = []

    def h(name, *ops):
        for era in ("legacy", "modern"):
            H.append({"id": "corner.%s.%s" % (name, era), "era": era, "ops": [list(o) for o in ops]})
    h("remove-before-lookup", ("AddRes", ["E2"]), ("ReadStart", ["r1", E2]), ("RemoveRes", ["E2"]), ("ReadLookup", ["r1"]))
    h("remove-in-handler", ("AddRes", ["E2"]), ("ReadStart", ["r1", E2]), ("ReadLookup", ["r1"]), ("RemoveRes", ["E2"]), ("ReadReturn", ["r1"]),
      ("ReadStart", ["r1", E2]), ("ReadLookup", ["r1"]))
    h("replace-in-handler", ("AddRes", ["E2"]), ("ReadStart", ["r1", E2]), ("ReadLookup", ["r1"]), ("AddRes", ["E2"]), ("ReadStart", ["r2", E2]),
      ("ReadLookup", ["r2"]), ("ReadReturn", ["r1"]), ("ReadReturn", ["r2"]))
    h("exact-added-before-lookup", ("AddTmpl", ["Tp"]), ("ReadStart", ["r1", E2]), ("AddRes", ["E2"]), ("ReadLookup", ["r1"]), ("ReadReturn", ["r1"]))
    h("exact-removed-falls-to-template", ("AddTmpl", ["Tp"]), ("AddRes", ["E2"]), ("ReadStart", ["r1", E2]), ("RemoveRes", ["E2"]), ("ReadLookup", ["r1"]),
      ("ReadReturn", ["r1"]))
    h("first-template-wins", ("AddTmpl", ["Tp"]), ("AddTmpl", ["Tab"]), ("AddTmpl", ["Tda"]), ("ReadStart", ["r1", E2]), ("ReadLookup", ["r1"]),
      ("ReadReturn", ["r1"]), ("RemoveTmpl", ["Tda"]), ("ReadStart", ["r1", E2]), ("ReadLookup", ["r1"]), ("ReadReturn", ["r1"]),
      ("RemoveTmpl", ["Tp"]), ("ReadStart", ["r1", E2]), ("ReadLookup", ["r1"]), ("ReadReturn", ["r1"]),
      ("RemoveTmpl", ["Tab"]), ("ReadStart", ["r1", E2]), ("ReadLookup", ["r1"]))
    h("remove-unregistered", ("RemoveRes", ["E1"]), ("RemoveTmpl", ["Tp"]), ("AddTmpl", ["Tp"]), ("RemoveRes", ["E2"]), ("ReadStart", ["r1", UT]),
      ("ReadLookup", ["r1"]), ("ReadReturn", ["r1"]))
    h("two-readers-template-replaced", ("AddTmpl", ["Tp"]), ("ReadStart", ["r1", UT]), ("ReadStart", ["r2", UT]), ("ReadLookup", ["r1"]),
      ("AddTmpl", ["Tp"]), ("ReadLookup", ["r2"]), ("RemoveTmpl", ["Tp"]), ("ReadReturn", ["r2"]), ("ReadReturn", ["r1"]))
    return H


# ---- signatures (the abstract failing case)

def uri_text(u):
    return "".join(u)


def sig_of(f, e, roots_pos):
    inv, ev = f["monfail"], e["ev"]
    if ev == "lk":
        return "%s:E=%s:T=%s:u=%s:ran=%s:res=%s" % (inv, ",".join(e["E"]) or "-", ",".join(e["T"]) or "-", uri_text(e["u"]) or "(empty)",
                                                      ",".join(e["ran"]) or "-", e["res"])
    if ev == "hr":
        return "%s:%s:%s:mime=%s:res=%s:code=%s" % (inv, e["via"], e["beh"]["name"], e["mime"] or "-", e["o"]["res"], e["o"]["code"])
    if ev == "reg":
        if e["c"]["valid"] and not e["c"]["scheme"] and not e["o"]["panicked"]:
            return "%s:%s:no-scheme:accepted" % (inv, e["c"]["kind"])      # D2, whatever the shape of the scheme-less text
        return "%s:%s:%s:%s" % (inv, e["c"]["kind"], e["c"]["name"], "panicked" if e["o"]["panicked"] else "accepted")
    if ev == "fs":
        path = "/".join(e["segs"])
        if inv == "P3.Roots":
            lex = ["base", "dir"] + e["segs"]
            under = any(lex[:len(r)] == r for r in roots_pos.get(e["roots"], []))
            if under:
                return "P3.Roots:link-below-a-root-leads-outside-every-root:path=%s:served=%s" % (path, e["o"]["data"])
            return "P3.Roots:not-under-any-root:roots=%s:form=%s:path=%s:served=%s" % (e["roots"], e["form"], path, e["o"]["data"])
        return "%s:%s:roots=%s:form=%s:path=%s:res=%s:data=%s" % (inv, e["mode"], e["roots"], e["form"], path, e["o"]["res"], e["o"]["data"] or "-")
    if ev == "read.end":
        return "%s:%s:u=%s:out=%s/%s:res=%s:invoked=%d" % (inv, e["mode"], uri_text(e["u"]), e["out"]["k"], e["out"]["key"] or "-", e["res"], len(e["inv"]))
    return "%s:%s" % (inv, ev)


def history_of(trows, upto):
    """Re-build the executed steps of a gated trace from its log (for the replay file)."""
    ops = []
    for r in trows[:upto]:
        if r["ev"] == "mut.begin":
            ops.append([{"addres": "AddRes", "rmres": "RemoveRes", "addtmpl": "AddTmpl", "rmtmpl": "RemoveTmpl"}[r["op"]], [r["key"]]])
        elif r["ev"] == "read.begin":
            ops.append(["ReadStart", [r["r"], r["u"]]])
        elif r["ev"] == "lkd":
            ops.append(["ReadLookup", [r["r"]]])
        elif r["ev"] == "read.end" and ops and not (ops[-1][0] == "ReadLookup" and ops[-1][1][0] == r["r"]):
            ops.append(["ReadReturn", [r["r"]]])
    return ops


def run(tier, seed, replay):
    v = vlib.Verdict(PID, tier, seed)
    v.assumptions = [
        "URIs and templates are built from a token alphabet (2 unreserved, comma, one percent-encoded triplet, '/', a space, a stray '%', "
        "3 schemes, 2 authorities); 6 templates (simple, reserved, literal prefix / suffix, two variables, scheme-only) and 3 exact resources; "
        "requested URIs = every tail of up to 2 (quick) / 3 (thorough) tokens; TLC exhaustive results are for these constants",
        "the resource-not-found error is recognised as the wire form of ResourceNotFoundError(uri) (code, message, data.uri); the code "
        "itself (-32602 by default, -32002 under MCPGODEBUG) is whatever mcp.CodeResourceNotFound says",
        "file handler: a fixed directory tree (3 regular files inside, 3 outside, 10 symbolic links: relative / absolute, to files / to "
        "directories, a chain, a loop, one that leaves a root but not the directory, one that leaves the directory and comes back), built "
        "inside t.TempDir(); unix semantics; every path of up to 2 (quick) / 3 (thorough) segments over 24 segment values + special paths; "
        "10 URI forms; 9 client-root classes; percent-encoding variants are seeded concretisations of one abstract case",
        "the file handler is called directly (it is unexported) with a real ServerSession whose real client declares the roots; a seeded "
        "sample also goes through Server.readResource and the client (templates file:{+p}, FILE:{+p}, http:{+p})",
        "histories: the harness holds a read before the lookup (receiving middleware of the server) and after it (inside the handler); "
        "registry changes are complete API calls between such steps; the free-running histories log begin before the call and end after "
        "its return under one mutex, so the logged windows contain the real ones",
        "a read that does not return within 20 s (real time) counts as a hang",
    ]
    out = vlib.outdir(PID)
    ind, obsd = os.path.join(out, "in"), os.path.join(out, "obs")
    for d in (ind, obsd):
        shutil.rmtree(d, ignore_errors=True)
        os.makedirs(d)
    phases, t_last = {}, [time.time()]

    def phase(name):
        now = time.time()
        phases[name] = round(now - t_last[0], 1)
        t_last[0] = now
    v.cov["phase_wall_s"] = phases
    rng = random.Random(seed)

    # 1 + 2: design, generation (TLC runs side by side)
    jobs = [("tab", lambda: design_tab(tier))]
    if not replay:
        jobs += [("mc", lambda: design_mc(tier)), ("cover", lambda: cover_histories(tier, seed))]
    got = parallel(jobs)
    tres, twd, counts, tcfg = got["tab"]
    v.add_tlc("%s (design: Holds(c, Expected(c)) on every cell of 4 tables; export)" % tcfg, tres)
    v.cov["table_cells"] = counts
    for f in TABLE_FILES:
        shutil.copy(os.path.join(twd, f), ind)
    fs_leads = vlib.read_ndjson(os.path.join(ind, "x07_fs_leads.ndjson"))
    reg_leads = vlib.read_ndjson(os.path.join(ind, "x07_reg_leads.ndjson"))
    roots_pos = {r["rc"]: r["pos"] for r in vlib.read_ndjson(os.path.join(ind, "x07_fs_roots.ndjson"))}
    hist = []
    if not replay:
        for cfg, r in got["mc"]:
            v.add_tlc(cfg, r)
            if r.coverage:
                v.cov["action_coverage"] = {a: r.coverage[a][0] for a in ACTIONS if a in r.coverage}
        v.cov["witnesses_reached"] = list(WITNESSES)      # POSTCONDITION WitAll of ResourceAccess_mc_quick.cfg
        (ccfg, cres), hist, ginfo = got["cover"]
        v.add_tlc("%s (state graph for the transition cover)" % ccfg, cres)
        v.cov["cover_graph"] = ginfo
        hist = corner_histories() + hist
    phase("tlc")

    # sampling for the quick tier / narrowing for a replay
    parts = "lk,hr,reg,fs,hist"
    nstress = 40 if tier == "quick" else 400
    stress_only = ""
    lk_cfgs = vlib.read_ndjson(os.path.join(ind, "x07_lk_cfgs.ndjson"))
    fs_cases = vlib.read_ndjson(os.path.join(ind, "x07_fs_cases.ndjson"))
    exhaustive = True
    if replay:
        rep = json.load(open(replay))["replay"]
        parts, nstress, hist = rep["part"], 0, []
        if rep["part"] == "lk":
            vlib.write_ndjson(os.path.join(ind, "x07_lk_cfgs.ndjson"), [{"E": rep["E"], "T": rep["T"]}])
            vlib.write_ndjson(os.path.join(ind, "x07_lk_uris.ndjson"), [{"u": rep["u"]}])
        elif rep["part"] == "hr":
            vlib.write_ndjson(os.path.join(ind, "x07_hr_cases.ndjson"), [rep["case"]])
        elif rep["part"] == "reg":
            vlib.write_ndjson(os.path.join(ind, "x07_reg_cases.ndjson"), [rep["case"]])
        elif rep["part"] == "fs":
            vlib.write_ndjson(os.path.join(ind, "x07_fs_cases.ndjson"), [rep["case"]])
        elif rep["part"] == "hist":
            if rep.get("history"):
                hist = [rep["history"]]
            else:
                nstress, stress_only = rep["stress_index"] + 1, str(rep["stress_index"])
                seed = rep.get("seed", seed)
        exhaustive = False
    elif tier == "quick":
        keep = [c for c in lk_cfgs if not c["E"] and not c["T"]] + [c for c in lk_cfgs if len(c["E"]) == 3 and len(c["T"]) == 6]
        rest = [c for c in lk_cfgs if c not in keep]
        rng.shuffle(rest)
        lk_cfgs = keep + rest[:118]
        vlib.write_ndjson(os.path.join(ind, "x07_lk_cfgs.ndjson"), lk_cfgs)
        exhaustive = False
    vlib.write_ndjson(os.path.join(ind, "histories.ndjson"), hist)
    by_id = {h["id"]: h for h in hist}
    phase("select")

    # 3. the real code
    env = {"VERIF_IN": ind, "VERIF_OUT": obsd, "VERIF_SEED": seed, "VERIF_PARTS": parts, "VERIF_STRESS": nstress,
           "VERIF_STRESS_ONLY": stress_only, "VERIF_FS_E2E": 5 if tier == "quick" else 3}
    rc, gout, wall = vlib.go_test("mcp", "^TestVerif_X07", HARNESS, env=env, timeout=1500)
    vlib.go_must_build(rc, gout, PID)
    if rc != 0:
        if "panic:" in gout or "fatal error:" in gout:
            v.violation("panic", "the SDK panicked while the X07 harness was running", {"part": "?", "output": gout[-4000:]})
            return v.finish()
        raise vlib.MachineryError("X07 harness failed:\n" + gout[-3000:])
    if tier == "thorough" and not replay:
        # the free-running histories once more under the race detector
        robs = os.path.join(out, "obs_race")
        shutil.rmtree(robs, ignore_errors=True)
        os.makedirs(robs)
        env2 = dict(env, VERIF_OUT=robs, VERIF_PARTS="hist", VERIF_STRESS=100, VERIF_SEED=seed + 500, VERIF_NO_GATED=1)
        rc2, gout2, _ = vlib.go_test("mcp", "^TestVerif_X07Hist$", HARNESS, env=env2, timeout=1500, race=True)
        vlib.go_must_build(rc2, gout2, PID)
        if "DATA RACE" in gout2:
            v.violation("race", "data race reported by the race detector during concurrent add / remove / read", {"part": "hist", "output": gout2[-4000:]})
        elif rc2 != 0:
            raise vlib.MachineryError("X07 race run failed:\n" + gout2[-3000:])
        with open(os.path.join(obsd, "obs_hist.ndjson"), "a") as fh:
            for r in vlib.read_ndjson(os.path.join(robs, "obs_hist.ndjson")):
                r["trace"] = "race." + r["trace"]
                fh.write(json.dumps(r, separators=(",", ":")) + "\n")
        shutil.rmtree(robs, ignore_errors=True)
    phase("go")

    # 4. monitor: the verdict (one TLC run per part, side by side)
    part_rows, part_fails = {}, {}

    def judge(p):
        path = os.path.join(obsd, "obs_%s.ndjson" % p)
        if not os.path.exists(path):
            return None
        rows = vlib.read_ndjson(path)
        part_rows[p] = rows
        if not rows:
            part_fails[p] = []
            return None
        fails, mres = vlib.run_monitor("ResourceAccessMon", "ResourceAccessMon.cfg", path, timeout=1500, heap_gb=6)
        part_fails[p] = fails
        return mres
    mons = parallel([(p, (lambda p=p: judge(p))) for p in parts.split(",")])
    for p, mres in mons.items():
        if mres is not None:
            v.add_tlc("ResourceAccessMon[%s]" % p, mres)
    phase("monitor")

    # completeness of the run
    n_lk = len(part_rows.get("lk", []))
    n_fs = len([r for r in part_rows.get("fs", []) if r["mode"] == "direct"])
    if not replay:
        n_uris = len(vlib.read_ndjson(os.path.join(ind, "x07_lk_uris.ndjson")))
        if n_lk != len(lk_cfgs) * n_uris:
            raise vlib.MachineryError("lookup table: harness ran %d of %d cells" % (n_lk, len(lk_cfgs) * n_uris))
        if n_fs != len(fs_cases):
            raise vlib.MachineryError("file table: harness ran %d of %d cells" % (n_fs, len(fs_cases)))
        if len(part_rows.get("hr", [])) != 2 * counts["hr"] or len(part_rows.get("reg", [])) != counts["reg"]:
            raise vlib.MachineryError("result / registration tables incomplete")
    hrows = part_rows.get("hist", [])
    traces = vlib.split_traces(hrows)
    if not replay and len(traces) != len(hist) + nstress + (100 if tier == "thorough" else 0):
        raise vlib.MachineryError("histories: harness ran %d of %d" % (len(traces), len(hist) + nstress))

    # evidence
    reads_end = [r for r in hrows if r["ev"] == "read.end"]
    v.cov["evaluations"] = n_lk + len(part_rows.get("fs", [])) + len(part_rows.get("hr", [])) + len(part_rows.get("reg", [])) + len(reads_end)
    v.cov["traces_validated_against_impl"] = len(traces)
    v.cov["lookup"] = {"cells": n_lk, "configurations": len(lk_cfgs) if not replay else 1,
                       "served_by_exact": sum(1 for r in part_rows.get("lk", []) if r["ran"] and r["ran"][0].startswith("E")),
                       "served_by_template": sum(1 for r in part_rows.get("lk", []) if r["ran"] and r["ran"][0].startswith("T")),
                       "not_found": sum(1 for r in part_rows.get("lk", []) if r["res"] == "notfound")}
    fsr = part_rows.get("fs", [])
    v.cov["file_handler"] = {"cells_direct": n_fs, "cells_through_server": len(fsr) - n_fs,
                             "served": sum(1 for r in fsr if r["o"]["res"] == "data"),
                             "not_found": sum(1 for r in fsr if r["o"]["res"] == "notfound"),
                             "refused": sum(1 for r in fsr if r["o"]["res"] == "err"),
                             "paths_denoting_a_file_outside_the_directory": sum(1 for r in fsr if r["truth"]["k"] == "file" and r["truth"]["tag"].startswith("OUT:")),
                             "of_which_served": sum(1 for r in fsr if r["o"]["data"].startswith("OUT:"))}
    gated = [t for t in traces if t[2][0]["mode"] == "gated"]
    v.cov["histories"] = {"gated": len(gated), "free_running": len(traces) - len(gated), "reads": len(reads_end),
                          "reads_overlapping_a_change": 0, "served": sum(1 for r in reads_end if r["res"] == "ok"),
                          "not_found": sum(1 for r in reads_end if r["res"] == "notfound")}
    nontrivial, overl = set(), 0
    for tid, start, trows in traces:
        openr, changed_during = {}, False
        for r in trows:
            if r["ev"] == "read.begin":
                openr[r["r"]] = False
            elif r["ev"] == "mut.begin":
                for k in openr:
                    openr[k] = True
            elif r["ev"] == "read.end":
                if openr.pop(r["r"], False):
                    overl += 1
                    changed_during = True
        if changed_during:
            nontrivial.add(vlib.sha([[r["ev"], r["op"], r["key"], r["r"], r["u"]] for r in trows if r["ev"] in ("mut.begin", "read.begin", "read.end", "lkd")]))
    v.cov["histories"]["reads_overlapping_a_change"] = overl
    v.cov["distinct_nontrivial"] = len(nontrivial)
    v.cov["rule"] = ("tables: the complete products enumerated by TLC (thorough) or a seeded sample of lookup configurations and root classes "
                     "(quick; every URI / path of the tier always); histories = corner schedules + transition cover (every edge) of the state "
                     "graph of ResourceAccessMC (cover configuration) + seeded free-running concurrent histories; distinct non-trivial = "
                     "distinct histories in which a read overlaps a registry change")
    v.cov["exhaustive"] = bool(exhaustive and tier == "thorough")
    for p in ("lk", "fs"):
        rows = part_rows.get(p, [])
        for r in rows[:: max(1, len(rows) // 2)][:2]:
            v.sample({k: r[k] for k in r if k in ("ev", "E", "T", "uri", "ran", "res", "by", "roots", "form", "raw", "o", "mode")})
    for tid, start, trows in traces[:1]:
        v.sample({"trace": tid, "events": [[r["ev"], r["op"] or r["r"], r["key"] or uri_text(r["u"]), r["out"]["k"] + r["out"]["key"]] for r in trows[1:10]]})

    # violations, drift, leads
    hit = {"fs": set(), "reg": set()}
    ndrift = 0
    for p in parts.split(","):
        rows = part_rows.get(p, [])
        ptraces = traces if p == "hist" else None
        for f in part_fails.get(p, []):
            e = rows[f["line"] - 1]
            if f["monfail"] == "model-fs":
                raise vlib.MachineryError("the file-system model of the specification disagrees with the operating system: %s" % json.dumps(e)[:400])
            if f["monfail"] == "drift":
                ndrift += 1
                if len(v.drift) < 20:
                    v.drift.append("%s: the real outcome differs from the code-shaped Expected: %s" % (p, json.dumps(
                        {k: e[k] for k in e if k in ("E", "T", "uri", "ran", "res", "by", "via", "beh", "mime", "o", "c", "era", "roots", "form", "raw", "mode", "segs")})[:400]))
                continue
            sig = sig_of(f, e, roots_pos)
            if p == "fs" and f["monfail"] == "P3.Roots":
                hit["fs"].add(json.dumps({k: e[k] for k in ("era", "roots", "form", "segs")}, sort_keys=True))
            if p == "reg":
                hit["reg"].add((e["c"]["kind"], e["c"]["name"]))
            if p == "lk":
                rep = {"part": "lk", "E": e["E"], "T": e["T"], "u": e["u"]}
            elif p == "hr":
                rep = {"part": "hr", "case": {"via": e["via"], "beh": e["beh"], "mime": e["mime"]}}
            elif p == "reg":
                rep = {"part": "reg", "case": e["c"]}
            elif p == "fs":
                rep = {"part": "fs", "case": {"era": e["era"], "roots": e["roots"], "form": e["form"], "segs": e["segs"], "raw": e["raw"]}}
            else:
                tid, start, trows = vlib.trace_of_line(ptraces, f["line"])
                upto = f["line"] - start + 1
                base = tid.split(".", 1)[1] if tid.startswith("race.") else tid
                if trows[0]["mode"] == "gated":
                    rep = {"part": "hist", "history": {"id": base, "era": trows[0]["era"], "ops": history_of(trows, upto)}}
                else:
                    rep = {"part": "hist", "stress_index": int(re.sub(r"\D", "", base) or 0), "seed": seed + (500 if tid.startswith("race.") else 0),
                           "events": [[r["ev"], r["op"] or r["r"], r["key"] or uri_text(r["u"]), r["g"], r["out"]] for r in trows[max(0, upto - 25):upto]]}
            rep["line"] = e
            v.violation(sig, "%s fails on the real code (%s): %s" % (f["monfail"], p, json.dumps(
                {k: e[k] for k in e if k in ("E", "T", "uri", "ran", "res", "by", "via", "mime", "o", "c", "era", "roots", "form", "raw", "mode", "r", "out", "inv", "trace", "note")})[:500]), rep)
    v.cov["drift_lines"] = ndrift
    # a lead of the design check that the real code does not reproduce is drift of the model, never a verdict
    if not replay:
        ran_fs = set(json.dumps({k: c[k] for k in ("era", "roots", "form", "segs")}, sort_keys=True) for c in fs_cases)
        nrep = 0
        for c in fs_leads:
            k = json.dumps({k2: c[k2] for k2 in ("era", "roots", "form", "segs")}, sort_keys=True)
            if k not in ran_fs:
                continue
            if k in hit["fs"]:
                nrep += 1
            else:
                v.drift.append("lead (D1) %s: Expected breaks P3 in the model but the real handler does not" % k)
        nreg = 0
        for c in reg_leads:
            if (c["kind"], c["name"]) in hit["reg"]:
                nreg += 1
            else:
                v.drift.append("lead (D2) %s/%s: Expected breaks P5 in the model but the real server does not" % (c["kind"], c["name"]))
        v.cov["leads"] = {"D1_cells": len(fs_leads), "D1_reproduced": nrep, "D2_cells": len(reg_leads), "D2_reproduced": nreg}
    phase("report")

    # 5. strict: the gated histories against the specification (binding / drift)
    if gated:
        bad = set(vlib.trace_of_line(traces, f["line"])[0] for f in part_fails.get("hist", []) if f["monfail"] != "drift")
        cur = [r for (tid, s, tr) in gated if tid not in bad for r in tr]
        for attempt in range(5):
            if not cur:
                break
            sp = os.path.join(out, "obs_strict.ndjson")
            vlib.write_ndjson(sp, cur)
            ok, hwm, sres = vlib.run_strict("ResourceAccessTrace", "ResourceAccessTrace.cfg", sp, timeout=1500, heap_gb=6)
            v.add_tlc("ResourceAccessTrace (strict, %d gated histories)" % len(vlib.split_traces(cur)), sres)
            if ok:
                os.remove(sp)
                break
            tr2 = vlib.split_traces(cur)
            if hwm is None or hwm < 1:
                v.drift.append("strict spec: invariant %s violated on a real trace" % sres.violation)
                break
            tid, start, trows = vlib.trace_of_line(tr2, hwm)
            v.drift.append("trace %s line %d is not explained by ResourceAccess.tla: %s" % (tid, hwm, json.dumps(cur[hwm - 1])[:300]))
            cur = [r for (t2, s, tr) in tr2 if t2 != tid for r in tr]
        phase("strict")
    return v.finish()
