"""C20 — in-memory event store (DESIGN.md section 6, C20)."""
import json, os, random
import vlib, graphwalk

PID = "C20"


def run(tier, seed, replay):
    v = vlib.Verdict(PID, tier, seed)
    v.assumptions = ["payload identity is carried in the first payload byte (at most 250 appends per history)",
                     "store state is projected through the public API (After probing, MaxBytes)",
                     "TLC exhaustive results are for the stated small constants"]
    out = vlib.outdir(PID)
    # 1. exhaustive model check of the design
    cfg = "EventStore_mc_quick.cfg" if tier == "quick" else "EventStore_mc_thorough.cfg"
    res = vlib.run_tlc("EventStoreMC", cfg, timeout=1500, heap_gb=8 if tier == "quick" else 16)
    vlib.tlc_must_pass(res, cfg)
    v.add_tlc(cfg, res)
    if not res.ok:
        raise vlib.MachineryError("model violates %s: the EventStore model no longer satisfies its own invariants" % res.violation)
    # 1b. vacuity witnesses: these must be violated
    for wit in ("NeverPurged", "NeverOverMax"):
        wd = vlib.scratch("tlc-")
        cfgtxt = open(os.path.join(vlib.SPEC, "EventStore_mc_quick.cfg")).read()
        cfgtxt = cfgtxt.split("INVARIANTS")[0] + "INVARIANT %s\n" % wit
        r2 = vlib.run_tlc("EventStoreMC", "wit.cfg", workdir=wd, extra_files={"wit.cfg": cfgtxt}, timeout=300)
        if r2.violation != wit:
            raise vlib.MachineryError("vacuity: witness %s not reachable (%s)" % (wit, r2.error or r2.violation))
    # 2. transition cover of a small graph -> histories
    wd = vlib.scratch("tlc-")
    dot = os.path.join(wd, "g.dot")
    rc = vlib.run_tlc("EventStoreMC", "EventStore_cover.cfg", workdir=wd, timeout=600, heap_gb=6,
                      extra_args=["-dump", "dot,actionlabels", dot])
    vlib.tlc_must_pass(rc, "cover")
    v.add_tlc("EventStore_cover.cfg", rc)
    init, edges = graphwalk.parse_dot(dot)
    paths, total_edges = graphwalk.cover(init, edges, maxlen=40, seed=seed, skip_selfloops=True)
    hist_path = os.path.join(out, "histories.ndjson")
    rows = [{"id": "cover%d" % i, "ops": p} for i, p in enumerate(paths)]
    if replay:
        rep = json.load(open(replay))
        rows = [{"id": "replay", "ops": rep["replay"]["ops"]}]
    vlib.write_ndjson(hist_path, rows)
    v.cov["graph_edges"] = total_edges
    v.cov["graph_nodes"] = len(edges)
    v.cov["cover_paths"] = len(paths)
    # 3. run on the real code
    obs = os.path.join(out, "obs.ndjson")
    nrand = 0 if replay else (150 if tier == "quick" else 1500)
    rc_go, gout, wall = vlib.go_test("mcp", "^TestVerif_C20$", ["mcp/c20_eventstore_test.go"],
                                     env={"VERIF_IN": hist_path, "VERIF_OUT": obs, "VERIF_SEED": seed,
                                          "VERIF_RANDOM": nrand, "VERIF_RANDLEN": 80},
                                     race=(tier == "thorough"))
    vlib.go_must_build(rc_go, gout, "C20")
    if "DATA RACE" in gout:
        v.violation("race:sequential", "data race reported by the race detector", {"output": gout[-3000:]})
    elif rc_go != 0:
        raise vlib.MachineryError("C20 harness failed:\n" + gout[-3000:])
    obs_rows = vlib.read_ndjson(obs)
    traces = vlib.split_traces(obs_rows)
    nops = sum(1 for r in obs_rows if r.get("ev") == "op")
    v.cov["evaluations"] = nops
    v.cov["traces_validated_against_impl"] = len(traces)
    distinct = set()
    nontrivial = 0
    for tid, start, trows in traces:
        key = vlib.sha([[r.get("op"), r.get("s"), r.get("t"), r.get("sz"), r.get("idx"), r.get("max")] for r in trows])
        if key in distinct:
            continue
        distinct.add(key)
        if any(st.get("first", 0) > 0 for r in trows for st in r.get("state", [])):
            nontrivial += 1
    v.cov["distinct_nontrivial"] = nontrivial
    v.cov["rule"] = ("histories = transition cover of the TLC state graph (every edge) + seeded random histories; "
                     "distinct by operation sequence; non-trivial = at least one eviction happened (first > 0)")
    for tid, start, trows in traces[:2]:
        v.sample({"trace": tid, "ops": [[r.get("op"), r.get("s"), r.get("t"), r.get("sz"), r.get("idx"), r.get("max")] for r in trows[1:9]]})
    # 4. monitor: the verdict
    fails, mres = vlib.run_monitor("EventStoreMon", "EventStoreMon.cfg", obs)
    v.add_tlc("EventStoreMon", mres)
    ops_by_id = {r["id"]: r["ops"] for r in rows}
    for f in fails:
        tid, start, trows = vlib.trace_of_line(traces, f["line"])
        e = obs_rows[f["line"] - 1]
        sig = "%s:%s" % (f["monfail"], e.get("op"))
        upto = f["line"] - start
        v.violation(sig, "monitor %s failed at line %d of trace %s (op %s)" % (f["monfail"], f["line"], tid, e.get("op")),
                    {"ops": ops_by_id.get(tid, [])[:upto] if tid in ops_by_id else [[r.get("op"), r.get("s"), r.get("t"), r.get("sz"), r.get("idx"), r.get("max")] for r in trows[1:upto + 1]],
                     "line": e})
    # 5. strict: binding / drift
    bad_traces = set(vlib.trace_of_line(traces, f["line"])[0] for f in fails)
    cur_rows = [r for (tid, s, tr) in traces if tid not in bad_traces for r in tr]
    for attempt in range(5):
        sp = os.path.join(out, "obs_strict.ndjson")
        vlib.write_ndjson(sp, cur_rows)
        ok, hwm, sres = vlib.run_strict("EventStoreTrace", "EventStoreTrace.cfg", sp)
        v.add_tlc("EventStoreTrace", sres)
        if ok:
            break
        tr2 = vlib.split_traces(cur_rows)
        if hwm is None or hwm < 1:
            v.drift.append("strict spec invariant violated on a real trace: %s" % sres.violation)
            break
        tid, start, trows = vlib.trace_of_line(tr2, hwm)
        v.drift.append("trace %s line %d not explained by EventStore spec: %s" % (tid, hwm, json.dumps(cur_rows[hwm - 1])[:300]))
        cur_rows = [r for (t2, s, tr) in tr2 if t2 != tid for r in tr]
    # 6. concurrent histories: linearizability against the sequential spec
    obsc = os.path.join(out, "obs_conc.ndjson")
    nconc = 0 if replay else (40 if tier == "quick" else 400)
    if nconc:
        rc_go, gout, wall = vlib.go_test("mcp", "^TestVerif_C20Conc$", ["mcp/c20_eventstore_test.go"],
                                         env={"VERIF_OUT": obsc, "VERIF_SEED": seed, "VERIF_CONC": nconc},
                                         race=(tier == "thorough"))
        vlib.go_must_build(rc_go, gout, "C20Conc")
        if "DATA RACE" in gout:
            v.violation("race:concurrent", "data race reported by the race detector", {"output": gout[-3000:]})
        elif rc_go != 0:
            raise vlib.MachineryError("C20 concurrent harness failed:\n" + gout[-3000:])
        else:
            crow = vlib.read_ndjson(obsc)
            ok, hwm, lres = vlib.run_strict("EventStoreLin", "EventStoreLin.cfg", obsc, workers=1,
                                            java_opts=["-Dtlc2.tool.queue.IStateQueue=StateDeque"])
            v.add_tlc("EventStoreLin", lres)
            ctr = vlib.split_traces(crow)
            v.cov["concurrent_histories"] = len(ctr)
            if not ok:
                tid, start, trows = vlib.trace_of_line(ctr, hwm) if hwm and hwm > 0 else ("?", 0, [])
                if v.drift:
                    v.drift.append("concurrent trace %s not linearizable w.r.t. the (drifted) spec" % tid)
                else:
                    v.violation("linearizability", "concurrent history %s has no linearization explained by the sequential specification (line %s)" % (tid, hwm),
                                {"trace": trows})
    return v.finish()
