"""C20 — in-memory event store (DESIGN.md section 6, C20)."""
import json, os, random
import vlib, graphwalk

PID = "C20"


def line_op(r):
    """The generator-format operation that produced an observation line (for --replay)."""
    op = r.get("op")
    if op == "open":
        return ["Open", [r["s"], r["t"]]]
    if op == "append":
        return ["AppendSz", [r["s"], r["t"], r["sz"]]]
    if op == "after":
        return ["AfterMut" if r.get("mut") else "After", [r["s"], r["t"], r["idx"]]]
    if op == "setmax":
        return ["SetMax", [r["max"]]]
    if op == "closed":
        return ["Closed", [r["s"]]]
    if op == "iget":
        return ["Get", [r["k"], r["s"], r["t"], r["idx"]]]
    return [{"ibegin": "Begin", "inext": "IterNext", "istop": "Stop", "idrop": "Drop"}.get(op, op), [r.get("k")]]


def trace_ops(trows, upto):
    """Operations of a trace up to and including its line number `upto` (0 = the reset line)."""
    ops, skip = [], False
    for r in trows[1:upto + 1]:
        if skip:          # the line after an AfterMut line is the mutation AfterMut performs itself
            skip = False
            continue
        ops.append(line_op(r))
        skip = bool(r.get("mut"))
    return ops


def run(tier, seed, replay):
    v = vlib.Verdict(PID, tier, seed)
    v.assumptions = ["a read is one ranging of the iterator After returns: it begins when the ranging begins, not when After is called "
                     "(package iter: calling the iterator again walks the sequence again; After itself touches nothing)",
                     "payload identity is carried in the first payload byte (at most 250 appends per history)",
                     "store state is projected through the public API (After probing, MaxBytes)",
                     "TLC exhaustive results are for the stated small constants"]
    out = vlib.outdir(PID)
    # 1. exhaustive model check of the design
    cfg = "EventStore_mc_quick.cfg" if tier == "quick" else "EventStore_mc_thorough.cfg"
    res = vlib.run_tlc("EventStoreMC", cfg, timeout=1500, heap_gb=8 if tier == "quick" else 16)
    vlib.tlc_must_pass(res, cfg)
    v.add_tlc(cfg, res)
    if not res.ok:
        raise vlib.MachineryError("model violates %s: the EventStore model no longer satisfies its own invariants" % res.violation)
    # 1a. the same with iterator objects (After in two phases: Get / Begin / IterNext / Stop interleaved with everything)
    icfgs = ["EventStore_mc_iter_quick.cfg"] + (["EventStore_mc_iter_thorough.cfg", "EventStore_mc_iter2_thorough.cfg"] if tier == "thorough" else [])
    for icfg in icfgs:
        res = vlib.run_tlc("EventStoreMC", icfg, timeout=1500, heap_gb=8)
        vlib.tlc_must_pass(res, icfg)
        v.add_tlc(icfg, res)
        if not res.ok:
            raise vlib.MachineryError("model violates %s (%s): the EventStore model no longer satisfies its own invariants" % (res.violation, icfg))
    # 1b. vacuity witnesses: these must be violated
    iwits = ("NeverLiveEvicted", "NeverLiveReborn", "NeverHeldReborn") + (("NeverLiveClosed", "NeverHeldClosed") if tier == "thorough" else ())
    wits = [(w, "EventStore_mc_quick.cfg") for w in ("NeverPurged", "NeverOverMax")] + \
           [(w, "EventStore_mc_iter_quick.cfg") for w in iwits]
    for wit, base in wits:
        wd = vlib.scratch("tlc-")
        cfgtxt = open(os.path.join(vlib.SPEC, base)).read()
        cfgtxt = cfgtxt.split("INVARIANTS")[0] + "INVARIANT %s\n" % wit
        r2 = vlib.run_tlc("EventStoreMC", "wit.cfg", workdir=wd, extra_files={"wit.cfg": cfgtxt}, timeout=300, workers=4)
        if r2.violation != wit:
            raise vlib.MachineryError("vacuity: witness %s not reachable (%s)" % (wit, r2.error or r2.violation))
    # 2. transition cover of a small graph -> histories
    wd = vlib.scratch("tlc-")
    dot = os.path.join(wd, "g.dot")
    rc = vlib.run_tlc("EventStoreMC", "EventStore_cover.cfg", workdir=wd, timeout=600, heap_gb=6,
                      extra_args=["-dump", "dot,actionlabels", dot])
    vlib.tlc_must_pass(rc, "cover")
    v.add_tlc("EventStore_cover.cfg", rc)
    init, edges = graphwalk.parse_dot(dot)
    paths, total_edges = graphwalk.cover(init, edges, maxlen=40, seed=seed, skip_selfloops=True)
    hist_path = os.path.join(out, "histories.ndjson")
    rows = [{"id": "cover%d" % i, "ops": p} for i, p in enumerate(paths)]
    # 2b. transition cover of the graph with an iterator object: every edge, i.e. every operation (eviction by
    # Append / SetMaxBytes, SessionClosed, Open and Append under the same ids, the other session) at every point
    # between obtaining an iterator and ranging it, between two items of a ranging, and between two rangings
    wd = vlib.scratch("tlc-")
    dot = os.path.join(wd, "gi.dot")
    ccfg = "EventStore_cover_iter.cfg" if tier == "quick" else "EventStore_cover_iter_thorough.cfg"
    rc = vlib.run_tlc("EventStoreMC", ccfg, workdir=wd, timeout=600, heap_gb=6, extra_args=["-dump", "dot,actionlabels", dot])
    vlib.tlc_must_pass(rc, "iterator cover")
    v.add_tlc(ccfg, rc)
    init, iedges = graphwalk.parse_dot(dot)
    # self-loops are not walked, except Begin: a ranging that ends at its first step (unknown stream, purged,
    # nothing to replay) leaves the iterator object as it was, and is exactly what has to be observed
    iedges = {u: [(l, w) for (l, w) in outs if w != u or l.startswith("Begin")] for u, outs in iedges.items()}
    ipaths, itotal = graphwalk.cover(init, iedges, maxlen=40, seed=seed)
    rows += [{"id": "icover%d" % i, "ops": p} for i, p in enumerate(ipaths)]
    v.cov["iter_graph_edges"] = itotal
    v.cov["iter_graph_nodes"] = len(iedges)
    v.cov["iter_cover_paths"] = len(ipaths)
    if replay:
        rep = json.load(open(replay))
        rows = [{"id": "replay", "ops": rep["replay"]["ops"]}]
    vlib.write_ndjson(hist_path, rows)
    v.cov["graph_edges"] = total_edges
    v.cov["graph_nodes"] = len(edges)
    v.cov["cover_paths"] = len(paths)
    # 3. run on the real code
    obs = os.path.join(out, "obs.ndjson")
    nrand = 0 if replay else (150 if tier == "quick" else 1500)
    rc_go, gout, wall = vlib.go_test("mcp", "^TestVerif_C20$", ["mcp/c20_eventstore_test.go"],
                                     env={"VERIF_IN": hist_path, "VERIF_OUT": obs, "VERIF_SEED": seed,
                                          "VERIF_RANDOM": nrand, "VERIF_RANDLEN": 80},
                                     race=(tier == "thorough"))
    vlib.go_must_build(rc_go, gout, "C20")
    if "DATA RACE" in gout:
        v.violation("race:sequential", "data race reported by the race detector", {"output": gout[-3000:]})
    elif rc_go != 0:
        raise vlib.MachineryError("C20 harness failed:\n" + gout[-3000:])
    obs_rows = vlib.read_ndjson(obs)
    traces = vlib.split_traces(obs_rows)
    nops = sum(1 for r in obs_rows if r.get("ev") == "op")
    v.cov["evaluations"] = nops
    v.cov["traces_validated_against_impl"] = len(traces)
    distinct = set()
    nontrivial = 0
    for tid, start, trows in traces:
        key = vlib.sha([[r.get("op"), r.get("s"), r.get("t"), r.get("sz"), r.get("idx"), r.get("max")] for r in trows])
        if key in distinct:
            continue
        distinct.add(key)
        if any(st.get("first", 0) > 0 for r in trows for st in r.get("state", [])):
            nontrivial += 1
    v.cov["distinct_nontrivial"] = nontrivial
    v.cov["iterator_steps"] = sum(1 for r in obs_rows if r.get("op") in ("ibegin", "inext"))
    # what the two-phase dimension really exercised on the code: rangings begun after the session of the iterator was
    # closed (and after the stream was created again and written), items handed out after the session was closed
    # in the middle of the ranging, items handed out after they had been evicted
    n_after_close = n_after_reborn = n_mid_close = n_mid_evict = 0
    for tid, start, trows in traces:
        held, live = {}, {}
        for r in trows:
            op, k = r.get("op"), r.get("k")
            if op == "closed":
                for d in (held, live):
                    for kk in d:
                        if d[kk]["s"] == r["s"]:
                            d[kk]["closed"] = True
            elif op == "iget":
                held[k] = {"s": r["s"], "closed": False}
            elif op == "idrop":
                held.pop(k, None)
            elif op == "ibegin":
                kind = r.get("res", {}).get("kind")
                if held.get(k, {}).get("closed"):
                    n_after_close += 1
                    n_after_reborn += kind == "item"
                if kind == "item":
                    live[k] = {"s": r["s"], "t": r["t"], "closed": False}
            elif op == "inext":
                if r.get("res", {}).get("kind") == "item" and k in live:
                    n_mid_close += live[k]["closed"]
                    stt = [x for x in r.get("state", []) if x["s"] == live[k]["s"] and x["t"] == live[k]["t"]]
                    n_mid_evict += bool(stt and stt[0]["open"] and not live[k]["closed"] and r["res"]["items"][0] not in stt[0]["items"])
                else:
                    live.pop(k, None)
            elif op == "istop":
                live.pop(k, None)
    v.cov["rangings_begun_after_close"] = n_after_close
    v.cov["rangings_begun_after_reopen_and_append"] = n_after_reborn
    v.cov["items_handed_out_after_close"] = n_mid_close
    v.cov["items_handed_out_after_eviction"] = n_mid_evict
    v.cov["rule"] = ("histories = transition cover of the TLC state graph (every edge) + transition cover of the graph with an "
                     "iterator object (After in two phases) + seeded random histories; "
                     "distinct by operation sequence; non-trivial = at least one eviction happened (first > 0)")
    for tid, start, trows in traces[:2]:
        v.sample({"trace": tid, "ops": [[r.get("op"), r.get("s"), r.get("t"), r.get("sz"), r.get("idx"), r.get("max")] for r in trows[1:9]]})
    # 4. monitor: the verdict
    fails, mres = vlib.run_monitor("EventStoreMon", "EventStoreMon.cfg", obs)
    v.add_tlc("EventStoreMon", mres)
    for f in fails:
        tid, start, trows = vlib.trace_of_line(traces, f["line"])
        e = obs_rows[f["line"] - 1]
        sig = "%s:%s" % (f["monfail"], e.get("op"))
        upto = f["line"] - start
        v.violation(sig, "monitor %s failed at line %d of trace %s (op %s)" % (f["monfail"], f["line"], tid, e.get("op")),
                    {"ops": trace_ops(trows, upto), "line": e})
    # 5. strict: binding / drift
    bad_traces = set(vlib.trace_of_line(traces, f["line"])[0] for f in fails)
    cur_rows = [r for (tid, s, tr) in traces if tid not in bad_traces for r in tr]
    for attempt in range(5):
        sp = os.path.join(out, "obs_strict.ndjson")
        vlib.write_ndjson(sp, cur_rows)
        ok, hwm, sres = vlib.run_strict("EventStoreTrace", "EventStoreTrace.cfg", sp)
        v.add_tlc("EventStoreTrace", sres)
        if ok:
            break
        tr2 = vlib.split_traces(cur_rows)
        if hwm is None or hwm < 1:
            v.drift.append("strict spec invariant violated on a real trace: %s" % sres.violation)
            break
        tid, start, trows = vlib.trace_of_line(tr2, hwm)
        v.drift.append("trace %s line %d not explained by EventStore spec: %s" % (tid, hwm, json.dumps(cur_rows[hwm - 1])[:300]))
        cur_rows = [r for (t2, s, tr) in tr2 if t2 != tid for r in tr]
    # 6. concurrent histories: linearizability against the sequential spec
    obsc = os.path.join(out, "obs_conc.ndjson")
    nconc = 0 if replay else (40 if tier == "quick" else 400)
    if nconc:
        rc_go, gout, wall = vlib.go_test("mcp", "^TestVerif_C20Conc$", ["mcp/c20_eventstore_test.go"],
                                         env={"VERIF_OUT": obsc, "VERIF_SEED": seed, "VERIF_CONC": nconc},
                                         race=(tier == "thorough"))
        vlib.go_must_build(rc_go, gout, "C20Conc")
        if "DATA RACE" in gout:
            v.violation("race:concurrent", "data race reported by the race detector", {"output": gout[-3000:]})
        elif rc_go != 0:
            raise vlib.MachineryError("C20 concurrent harness failed:\n" + gout[-3000:])
        else:
            crow = vlib.read_ndjson(obsc)
            ok, hwm, lres = vlib.run_strict("EventStoreLin", "EventStoreLin.cfg", obsc, workers=1,
                                            java_opts=["-Dtlc2.tool.queue.IStateQueue=StateDeque"])
            v.add_tlc("EventStoreLin", lres)
            ctr = vlib.split_traces(crow)
            v.cov["concurrent_histories"] = len(ctr)
            if not ok:
                tid, start, trows = vlib.trace_of_line(ctr, hwm) if hwm and hwm > 0 else ("?", 0, [])
                bad = crow[hwm - 1] if hwm and 0 < hwm <= len(crow) else {}
                if bad.get("panic"):
                    v.violation("NoPanic:concurrent", "the store panicked under concurrent use in history %s: %s" % (tid, bad["panic"][:120]),
                                {"trace": trows})
                elif v.drift:
                    v.drift.append("concurrent trace %s not linearizable w.r.t. the (drifted) spec" % tid)
                else:
                    v.violation("linearizability", "concurrent history %s has no linearization explained by the sequential specification (line %s)" % (tid, hwm),
                                {"trace": trows})
    # vacuity of the two-phase dimension on the code (only meaningful when the code behaved: a violation goes first)
    if not replay and not v.violations and not v.drift and 0 in (n_after_close, n_after_reborn, n_mid_close, n_mid_evict):
        raise vlib.MachineryError("vacuity: the two-phase After dimension was not exercised on the code (%d %d %d %d)"
                                  % (n_after_close, n_after_reborn, n_mid_close, n_mid_evict))
    return v.finish()
